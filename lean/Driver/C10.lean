import ParamVerif.Util.Proto
import ParamVerif.Async.SpecExt
import ParamVerif.Async.Rx
open Lean ParamVerif ParamVerif.Proto ParamVerif.Async

/-! JSON-lines driver for C10: replays a schedule on the model (`Async/Model.lean`, or `Async/Rx.lean`
for expression pipelines) and evaluates the oracle (`Async/Spec.lean`) on the implementation's and on
the model's observations. -/

def ints (j : Json) : Except String (List Int) := do
  (← j.getArr?).toList.mapM (·.getInt?)
def nats (j : Json) : Except String (List Nat) := do
  (← j.getArr?).toList.mapM (·.getNat?)

/-- result of the k-th hand-made future of task `t` (same formula as harness/props/c10.py:fut_value) -/
def futValue (t k : Nat) : Int := 10 * ((t : Int) + 1) + k

def parseEvents (arr : Array Json) : Except String (List EventH) := do
  let mut out : List EventH := []
  for e in arr do
    match ← getStr e "e" with
    | "assign" =>
      let p ← getNat e "p"
      let vs ← ints (← e.getObjVal? "v")
      let dep := match getOpt e "dep" with | some d => d.getBool?.toOption.getD false | none => false
      match ← getStr e "src" with
      | "coro" => out := out ++ [.assign p .coro dep]
      | "agen" => out := out ++ [.assign p (.agen vs.length) dep]
      | "plain" =>
        match vs with
        | [v] => out := out ++ [.assign p (.plain v) false]
        | _ => throw "plain needs one value"
      | "skip" => out := out ++ [.assignSkip p]
      | "sync" =>
        match vs with
        | [v] => out := out ++ [.assignSync p v]
        | _ => throw "sync needs one value"
      | s => throw s!"unknown src {s}"
    | "tick" => out := out ++ [.tick]
    | "bump" => out := out ++ [.bump]
    | "again" => out := out ++ [.again (← getNat e "p")]
    | "trigger" =>
      match getOpt e "p" with
      | some pj => out := out ++ [.trigP (← pj.getNat?)]
      | none => out := out ++ [.trigC]
    | "complete" =>
      let t ← getNat e "t"
      let k ← getNat e "k"
      let bad := match getOpt e "bad" with | some d => d.getBool?.toOption.getD false | none => false
      out := out ++ [.complete t k (if bad then -(futValue t k) else futValue t k)]
    | s => throw s!"unknown event {s}"
  return out

def parseObs (j : Json) : Except String ObsH := do
  let log ← (← getArr j "log").toList.mapM fun p => do
    let q ← p.getArr?
    if q.size != 2 then throw "pair expected"
    return (← q[0]!.getNat?, ← q[1]!.getInt?)
  let spawns ← (← getArr j "spawns").toList.mapM fun p => do
    let q ← p.getArr?
    if q.size != 3 then throw "triple expected"
    return (← q[0]!.getNat?, ← q[1]!.getNat?, ← q[2]!.getNat?)
  let errs ← match getOpt j "errs" with
    | some a => (← a.getArr?).toList.mapM (·.getStr?)
    | none => pure []
  return { vals := ← ints (← j.getObjVal? "vals"), async := ← nats (← j.getObjVal? "async"),
           sync := ← nats (← j.getObjVal? "sync"), refs := ← nats (← j.getObjVal? "refs"), log := log, spawns := spawns,
           errs := errs }

def jObs (o : ObsH) : Json := Json.mkObj [
  ("vals", Json.arr (o.vals.map toJson).toArray), ("async", Json.arr (o.async.map toJson).toArray),
  ("sync", Json.arr (o.sync.map toJson).toArray), ("refs", Json.arr (o.refs.map toJson).toArray),
  ("log", Json.arr (o.log.map fun (p, v) => Json.arr #[toJson p, toJson v]).toArray),
  ("spawns", Json.arr (o.spawns.map fun (t, p, r) => Json.arr #[toJson t, toJson p, toJson r]).toArray)]

/-- labels of the model branches a ready-queue step takes (for the coverage table) -/
def stepLabels (c : Cfg) (e : Env) (rf : Nat → Nat) (s : St) : List String :=
  let h := e.hook
  match s.ready with
  | [] => []
  | (t, w) :: _ =>
    match s.tasks t with
    | none => ["step:no-task"]
    | some x =>
      let s' := stepReadyH c e rf s
      let rejd : Bool := match w with
        | some f => (match s.futs f with | .done v => !x.mustCancel && e.rej v | _ => false)
        | none => (match s.futs (t, 0) with | .done v => x.pc == .start && !x.mustCancel && e.rej v | _ => false)
      let unl := if (s.refs x.param).isSome && (s'.refs x.param).isNone then ["step:result-unlinks-own-reference"] else []
      let stuck := if (s'.tasks t).any (fun y => y.pc.terminal) && s'.syncing.contains x.param then ["step:name-left-in-syncing"] else []
      let hooked := match h with
        | some (a, b, _) =>
          if x.param = a && s'.log.length > s.log.length then
            [if (s.asyncRefs b).isSome && (s'.asyncRefs b).isNone then "hook:in-step:cancels-registered"
             else if (s.refs b).isSome && (s'.refs b).isNone then "hook:in-step:unlinks"
             else if (s'.refs b).isSome then "hook:in-step:unlink-skipped" else "hook:in-step:not-linked"]
          else []
        | none => []
      unl ++ stuck ++ hooked ++ (if rejd then ["step:result-rejected"] else []) ++
      match w with
      | none =>
        if x.pc != .start then ["start:spurious"]
        else if x.mustCancel then ["start:cancelled-before-start"]
        else if c.startCheck && s.refs x.param != some (rf t) then ["start:stale-reference-skipped"]
        else
          (match s.asyncRefs x.param with
           | none => ["start:register"]
           | some u => if u = t then ["start:already-registered"] else
               [if rf u = rf t then "start:cancel-registered-older-evaluation" else "start:cancel-registered-other"]) ++
          (match s'.tasks t with
           | some y => (match y.pc with
              | .awaitCoro _ => ["start:suspend-in-scope"]
              | .awaitOut => ["start:suspend-before-scope"]
              | .awaitGen _ => ["start:suspend-generator"]
              | _ => ["start:ran-to-end"])
           | none => [])
      | some f =>
        if x.mustCancel then ["wake:must-cancel"]
        else match s.futs f with
          | .done _ => [match x.pc with
              | .awaitCoro _ => "wake:result:coroutine-in-scope"
              | .awaitOut => "wake:result:coroutine"
              | .awaitGen _ => "wake:result:generator"
              | _ => "wake:spurious"]
          | .cancelled => [if (s.asyncRefs x.param) != some t && (s.asyncRefs x.param).isSome
                           then "wake:cancelled-future:newer-task-registered" else "wake:cancelled-future"]
          | .pending _ => ["wake:spurious"]

def tickLabels (c : Cfg) (h : Env) (rf : Nat → Nat) : Nat → St → List String
  | 0, _ => []
  | n + 1, s => if s.ready.isEmpty then [] else stepLabels c h rf s ++ tickLabels c h rf n (stepReadyH c h rf s)

def eventLabels (c : Cfg) (e : Env) (sh : StH) : EventH → List String
  | .assign p (.plain _) _ =>
    let s := sh.core
    [if (s.refs p).isSome && !s.syncing.contains p then
       (if (s.asyncRefs p).isSome then "assign:plain:unlink-and-cancel" else "assign:plain:unlink")
     else if (s.refs p).isSome then "assign:plain:unlink-skipped-syncing" else "assign:plain:not-linked"] ++
    (match e.hook with | some (a, _, _) => if p = a then ["hook:on-driver-assignment"] else [] | none => [])
  | .assign p src dep =>
    [(match src with | .coro => "assign:coro" | _ => "assign:agen") ++ (if dep then ":dependent" else "") ++
      (if (sh.core.asyncRefs p).isSome then ":cancels-registered" else "")]
  | .tick => tickLabels c e sh.rf (tickFuel sh.core) sh.core
  | .complete t k v =>
    (if e.rej v then ["complete:rejected-value"] else []) ++
    [match sh.core.futs (t, k) with
     | .pending (some _) => "complete:wakes-task"
     | .pending none => "complete:not-awaited-yet"
     | .done _ => "complete:already-done"
     | .cancelled => "complete:cancelled-future"]
  | .again p =>
    [if (sh.core.refs p).isSome then "again:while-linked" else "again:after-unlink"] ++
    (if (sh.core.asyncRefs p).isSome then ["again:cancels-registered"] else []) ++
    (if anyTask sh.core (fun _ x => x.param = p && x.pc = .start) then ["again:earlier-task-of-same-function-not-started"] else [])
  | .trigC =>
    (match e.thook with
     | some (b, _) =>
       [if (sh.core.asyncRefs b).isSome then "trigger:watcher-assigns:cancels-registered"
        else if (sh.core.refs b).isSome then "trigger:watcher-assigns:unlinks" else "trigger:watcher-assigns:not-linked"]
     | none => ["trigger:no-watcher"])
  | .trigP p =>
    [if (sh.core.asyncRefs p).isSome then "trigger:linked-parameter:cancels-registered"
     else if (sh.core.refs p).isSome then "trigger:linked-parameter:unlinks" else "trigger:plain-parameter"]
  | .assignSkip p =>
    [if (sh.core.asyncRefs p).isSome then "assign:skipping-reference:cancels-registered"
     else if (sh.core.refs p).isSome then "assign:skipping-reference:replaces-link" else "assign:skipping-reference"]
  | .assignSync p _ =>
    [if (sh.core.asyncRefs p).isSome then "assign:sync-reference:cancels-registered"
     else if (sh.core.refs p).isSome then "assign:sync-reference:replaces-link" else "assign:sync-reference"] ++
    (match e.hook with | some (a, _, _) => if p = a then ["hook:on-driver-assignment"] else [] | none => [])
  | .bump =>
    let n := (bumpH sh).core.nTasks - sh.core.nTasks
    [if n = 0 then "bump:no-dependent-reference" else s!"bump:reschedules-{n}"] ++
    (if n > 0 && sh.keys.any (fun p => (sh.core.asyncRefs p).isSome) then ["bump:while-task-registered"] else []) ++
    (if n > 0 && sh.keys.any (fun p => match sh.core.refs p with | some r => !sh.deps.contains r | none => false)
     then ["bump:also-reschedules-independent-reference"] else []) ++
    (if n > 0 && sh.keys.any (fun p => sh.core.refs p == some syncRef) then
       [if (sh.keys.head?.bind sh.core.refs) == some syncRef then "bump:steps-over-sync-reference-first-in-refs"
        else "bump:steps-over-sync-reference"] else [])

def optJ : Option String → Json
  | some s => Json.str s
  | none => Json.null

/-- the hazards of the core model (Async/Spec.lean), for the events it has -/
def coreEvent : EventH → Option Event
  | .assign p src _ => some (.assign p src)
  | .tick => some .tick
  | .complete t k v => some (.complete t k v)
  | .bump => none
  | .again _ => none
  | .trigC => none
  | .trigP _ => none
  | .assignSync _ _ => none
  | .assignSkip _ => none

def handleParam (case impl : Json) : Except String Json := do
  let np ← getNat case "np"
  let cj ← impl.getObjVal? "cfg"
  let c : Cfg := { awaitInside := ← getBool cj "awaitInside", startCheck := ← getBool cj "startCheck",
                   registerAlways := ← getBool cj "registerAlways" }
  let hook : Hook ← match getOpt case "hook" with
    | some hj => do
      let a ← hj.getArr?
      if a.size != 3 then throw "hook: [a, b, w] expected"
      pure (some (← a[0]!.getNat?, ← a[1]!.getNat?, ← a[2]!.getInt?))
    | none => pure none
  let thook : Option (Nat × Int) ← match getOpt case "thook" with
    | some hj => do
      let a ← hj.getArr?
      if a.size != 2 then throw "thook: [b, w] expected"
      pure (some (← a[0]!.getNat?, ← a[1]!.getInt?))
    | none => pure none
  let env : Env := { hook := hook, rej := fun v => decide (v < 0), thook := thook }
  let evs ← parseEvents (← getArr case "events")
  -- model run
  let s0 := StH.init 0
  let (_, revObs, revHaz, revBr, ok) := evs.foldl
    (fun (acc : StH × List ObsH × List String × List String × Bool) ev =>
      let (sh, l, hz, br, ok) := acc
      let sh' := applyEventH c env sh ev
      let hzs := match coreEvent ev with | some e => hazardNames c sh.core e | none => []
      (sh', observeH np sh' sh.core.log.length sh.core.nTasks :: l,
        hzs.reverse ++ hz,
        (hzs.map ("hazard:" ++ ·)).reverse ++ (eventLabels c env sh ev).reverse ++ br,
        ok && (ev != .tick || sh'.core.ready.isEmpty)))
    (s0, [], [], [], true)
  if !ok then throw "model: a tick did not drain the ready queue (fuel)"
  let modelInit := observeH np s0 0 0
  let modelSteps := revObs.reverse
  let implInit ← parseObs (← impl.getObjVal? "init")
  let implSteps ← (← getArr impl "steps").toList.mapM parseObs
  if implSteps.length != evs.length then throw "impl: number of observations differs from the number of events"
  let specOn (init : ObsH) (steps : List ObsH) : Nat × Option String :=
    if init != modelInit then (0, some "initial observation is not the idle object")
    else specHistoryH np env OSt.init (evs.zip steps) 0
  let (nImpl, sImpl) := specOn implInit implSteps
  let (_, sModel) := specOn modelInit modelSteps
  let hazards := revHaz.reverse
  return Json.mkObj [
    ("model", Json.mkObj [("cfg", cj), ("init", jObs modelInit), ("steps", Json.arr (modelSteps.map jObs).toArray),
                          ("hazards", Json.arr (hazards.map Json.str).toArray)]),
    ("applicable", Json.bool true),
    ("checked_steps", toJson nImpl),
    ("spec_impl", optJ sImpl), ("spec_model", optJ sModel),
    ("branches", Json.arr (revBr.reverse.map Json.str).toArray)]

/-! ### expression pipelines -/

def parseRxEvents (arr : Array Json) : Except String (List Rx.Event) := do
  let mut out : List Rx.Event := []
  for e in arr do
    match ← getStr e "e" with
    | "set" => out := out ++ [.set]
    | "tick" => out := out ++ [.tick]
    | "complete" =>
      let t ← getNat e "t"
      let k := match getOpt e "k" with | some kj => kj.getNat?.toOption.getD 0 | none => 0
      out := out ++ [.complete t k (futValue t k)]
    | s => throw s!"unknown event {s}"
  return out

def parseRxObs (j : Json) : Except String Rx.Obs := do
  let value := match getOpt j "value" with
    | some v => v.getInt?.toOption
    | none => none
  return { value := value, log := ← ints (← j.getObjVal? "log"), calls := ← getNat j "calls" }

def jRxObs (o : Rx.Obs) : Json := Json.mkObj [
  ("value", match o.value with | some v => toJson v | none => Json.null),
  ("log", Json.arr (o.log.map toJson).toArray), ("calls", toJson o.calls)]

def handleRx (case impl : Json) : Except String Json := do
  let evs ← parseRxEvents (← getArr case "events")
  -- awaitables per evaluation: 1 for a coroutine function, the number of yields for an async generator function
  let nf := match getOpt case "nf" with | some j => j.getNat?.toOption.getD 1 | none => 1
  let s0 := Rx.St.init
  let (_, revObs, revBr, ok) := evs.foldl
    (fun (acc : Rx.St × List Rx.Obs × List String × Bool) ev =>
      let (s, l, br, ok) := acc
      let s' := Rx.applyEvent nf s ev
      (s', Rx.observe s' s.log.length :: l, (Rx.eventLabels nf s ev).reverse ++ br,
        ok && (ev != .tick || s'.ready.isEmpty)))
    (s0, [], [], true)
  if !ok then throw "rx model: a tick did not drain the ready queue (fuel)"
  let modelSteps := revObs.reverse
  let implSteps ← (← getArr impl "steps").toList.mapM parseRxObs
  if implSteps.length != evs.length then throw "impl: number of observations differs from the number of events"
  let (nImpl, sImpl) := Rx.specHistory nf [] (evs.zip implSteps) 0
  let (_, sModel) := Rx.specHistory nf [] (evs.zip modelSteps) 0
  return Json.mkObj [
    ("model", Json.mkObj [("steps", Json.arr (modelSteps.map jRxObs).toArray), ("hazards", Json.arr #[])]),
    ("applicable", Json.bool true),
    ("checked_steps", toJson nImpl),
    ("spec_impl", optJ sImpl), ("spec_model", optJ sModel),
    ("branches", Json.arr (revBr.reverse.map Json.str).toArray)]

def handle (req : Json) : Except String Json := do
  let case ← req.getObjVal? "case"
  let impl ← req.getObjVal? "impl"
  match ← getStr case "kind" with
  | "param" => handleParam case impl
  | "rx" => handleRx case impl
  | k => throw s!"unknown case kind {k}"

def main : IO Unit := serve handle
