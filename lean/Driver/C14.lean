import ParamVerif.Util.Proto
import ParamVerif.Store.ConstSpec
open Lean ParamVerif ParamVerif.Proto ParamVerif.Store ParamVerif.Store.Const

def optNat (j : Json) : Option Nat := match j with | .null => none | v => v.getNat?.toOption
def jOptNat : Option Nat → Json | some v => toJson v | none => Json.null
def nats (j : Json) : Except String (List Nat) := do (← j.getArr?).toList.mapM (·.getNat?)

def kwPairs (j : Json) : Except String (List (String × Obj)) := do
  (← j.getArr?).toList.mapM fun p => do
    let q ← p.getArr?
    if q.size != 2 then throw "pair expected"
    return (← q[0]!.getStr?, ← q[1]!.getNat?)

partial def parseOp (j : Json) : Except String Op := do
  match ← getStr j "op" with
  | "newInst" => return .newInst (← getNat j "c") (← kwPairs (← j.getObjVal? "kw"))
  | "instSet" => return .instSet (← getNat j "i") (← getStr j "n") (← getNat j "v")
  | "instSetAsync" => return .instSetAsync (← getNat j "i") (← getStr j "n") (← getNat j "v")
  | "instSetSame" => return .instSetSame (← getNat j "i") (← getStr j "n")
  | "update" => return .update (← getNat j "i") (← kwPairs (← j.getObjVal? "kvs"))
  | "clsSet" => return .clsSet (← getNat j "c") (← getStr j "n") (← getNat j "v")
  | "flag" => return .flag (← getNat j "i") (← getStr j "n") (← getBool j "b")
  | "clsFlag" => return .clsFlag (← getNat j "c") (← getStr j "n") (← getBool j "b")
  | "getParam" => return .getParam (← getNat j "i") (← getStr j "n")
  | "setName" => return .setName (← getNat j "i") (← getNat j "v")
  | "genName" => return .genName (← getNat j "i")
  | "failingEntry" => return .failingEntry (← getNat j "i") (← getStr j "n")
  | "raise" => return .raise
  | "block" => return .block (← getNat j "i") (← (← getArr j "body").toList.mapM parseOp)
  | o => throw s!"unknown op {o}"

def resName : Res → String
  | .ok => "ok" | .skip => "skip" | .typeError => "TypeError" | .valueError => "ValueError"
  | .keyError => "KeyError" | .runtimeError => "RuntimeError" | .stuck => "stuck"

def opName : Op → String
  | .instSetAsync .. => "instSetAsync" | .newInst .. => "newInst" | .instSet .. => "instSet" | .instSetSame .. => "instSetSame"
  | .update .. => "update" | .clsSet .. => "clsSet" | .flag .. => "flag" | .clsFlag .. => "clsFlag"
  | .getParam .. => "getParam" | .raise => "raise" | .block .. => "block"
  | .setName .. => "setName" | .genName .. => "genName" | .failingEntry .. => "failingEntry"

def guardTag (s : St) (i : IId) (n : String) : String :=
  match govFlags s i n with
  | some (_, true) => ":readonly"
  | some (true, false) => ":constant"
  | some (false, false) => ":plain"
  | none => ":noparam"

def hasCopy (s : St) (i : IId) (n : String) : String :=
  match s.insts[i]? with
  | some x => if (aget x.iparams n).isSome then ":has-copy" else ":makes-copy"
  | none => ""

partial def depth : Op → Nat
  | .block _ body => 1 + (body.map depth).foldl max 0
  | _ => 0

/-- which branch of the model a top-level step took (coverage table) -/
def branchOf (s : St) (op : Op) (r : Res) : String :=
  let extra := match op with
    | .instSet i n _ => guardTag s i n ++ hasCopy s i n
    | .instSetSame i n => guardTag s i n
    | .instSetAsync i n _ => guardTag s i n
    | .clsSet c n _ => match descriptor s c n with
        | some (_, owner) => (if owner == c then ":own" else ":copy-on-write") ++
            (match clsFlags s c n with | some (_, true) => ":readonly" | some (true, _) => ":constant" | _ => ":plain")
        | none => ""
    | .newInst _ kw => if kw.isEmpty then "" else ":kwargs"
    | .getParam i n => hasCopy s i n
    | .flag i n _ => hasCopy s i n
    | .block _ _ => s!":depth{depth op}"
    | .failingEntry i n => guardTag s i n
    | .setName _ v => if s.nonStr.contains v then ":invalid" else ""
    | _ => ""
  opName op ++ ":" ++ resName r ++ extra

def parseObs (j : Json) : Except String Obs := do
  let params ← (← getArr j "params").toList.mapM fun p => do
    let a ← p.getArr?
    if a.size != 3 then throw "param row: 3 fields expected"
    return ({ constant := ← a[0]!.getBool?, readonly := ← a[1]!.getBool?, default := ← a[2]!.getNat? } : PObs)
  let cls ← (← getArr j "cls").toList.mapM fun row => do
    return (← row.getArr?).toList.map optNat
  let insts ← (← getArr j "inst").toList.mapM fun o => do
    let rows ← (← getArr o "rows").toList.mapM fun r => do
      let a ← r.getArr?
      if a.size != 3 then throw "instance row: 3 fields expected"
      return ({ held := optNat a[0]!, stored := optNat a[1]!, copy := optNat a[2]! } : InstRow)
    return ({ cls := ← getNat o "c", rows := rows } : InstObs)
  return { res := ← getStr j "res", params := params, cls := cls, insts := insts }

def jObs (o : Obs) : Json := Json.mkObj [
  ("res", Json.str o.res),
  ("params", Json.arr (o.params.map fun p => Json.arr #[Json.bool p.constant, Json.bool p.readonly, toJson p.default]).toArray),
  ("cls", Json.arr (o.cls.map fun row => Json.arr (row.map jOptNat).toArray).toArray),
  ("inst", Json.arr (o.insts.map fun x => Json.mkObj [("c", toJson x.cls),
      ("rows", Json.arr (x.rows.map fun r => Json.arr #[jOptNat r.held, jOptNat r.stored, jOptNat r.copy]).toArray)]).toArray)]

def handle (req : Json) : Except String Json := do
  let case ← req.getObjVal? "case"
  let names ← (← getArr case "names").toList.mapM (·.getStr?)
  let npool ← getNat case "npool"
  let decls ← (← getArr case "classes").toList.mapM fun c => do
    let mro ← nats (← c.getObjVal? "mro")
    let decl ← (← getArr c "decl").toList.mapM fun e => do
      let a ← e.getArr?
      if a.size != 5 then throw "decl: [name, constant, readonly, default, allow_refs] expected"
      return (← a[0]!.getStr?, ← a[1]!.getBool?, ← a[2]!.getBool?, ← a[3]!.getNat?, ← a[4]!.getBool?)
    return (mro, decl)
  let ops ← (← getArr case "steps").toList.mapM parseOp
  let bad ← match getOpt case "bad" with | some b => nats b | none => pure []
  let silent ← match getOpt case "silent" with | some b => nats b | none => pure []
  let s0 := initState npool decls bad silent
  let (_, revObs, branches) := ops.foldl (fun (acc : St × List Obs × List String) op =>
      let (s, l, b) := acc
      let (s1, r) := step s op
      (s1, obsOf s1 names (resName r) :: l, branchOf s op r :: b))
    (s0, [], [])
  let modelInit := obsOf s0 names "init"
  let modelSteps := revObs.reverse
  let impl ← req.getObjVal? "impl"
  let implInit ← parseObs (← impl.getObjVal? "init")
  let implSteps ← (← getArr impl "steps").toList.mapM parseObs
  let (nImpl, sImpl) := specHistory names bad implInit (ops.zip implSteps) 0
  let (_, sModel) := specHistory names bad modelInit (ops.zip modelSteps) 0
  let optJ : Option String → Json := fun | some s => Json.str s | none => Json.null
  return Json.mkObj [
    ("model", Json.mkObj [("init", jObs modelInit), ("steps", Json.arr (modelSteps.map jObs).toArray)]),
    ("applicable", Json.bool true),
    ("checked_steps", toJson nImpl),
    ("spec_impl", optJ sImpl), ("spec_model", optJ sModel),
    ("branches", Json.arr (branches.reverse.map Json.str).toArray)]

def main : IO Unit := serve handle
