import ParamVerif.Util.Proto
import ParamVerif.Json.Transport
open Lean (toJson)
open ParamVerif ParamVerif.Proto ParamVerif.Json ParamVerif.Json.Transport

/-- verdicts of the Lean validator on a given (schema, state, probes): the data the
`jsonschema` package is asked about in the thorough tier -/
def jsVerdicts (schema : Res (List (String × MJson))) (ser : Res (List (String × MJson)))
    (probes : List Probe) : LJson :=
  match schema with
  | .error _ => Lean.Json.null
  | .ok entries =>
    let fields := match ser with | .ok f => f | .error _ => []
    Lean.Json.mkObj [
      ("wf", jNamed Lean.Json.bool (entries.map fun (n, s) => (n, wellFormed s))),
      ("valid", jNamed Lean.Json.bool (entries.filterMap fun (n, s) =>
          (Json.lookup n fields).map fun j => (n, validate s j))),
      ("probes", Lean.Json.arr (probes.map fun pr =>
          match Json.lookup pr.name entries with
          | some s => Lean.Json.bool (validate s pr.value)
          | none => Lean.Json.null).toArray)]

def jObs16 (o : Obs16) (js : LJson) : LJson :=
  if o.invalid then Lean.Json.mkObj [("invalid", Lean.Json.bool true)] else
  Lean.Json.mkObj [
    ("invalid", Lean.Json.bool false),
    ("schema", jRes jFields o.schema),
    ("schema_safe", jRes jFields o.schemaSafe),
    ("param_schemas", jNamed (jRes jTree) o.paramSchemas),
    ("ser", jRes jFields o.ser),
    ("probes", Lean.Json.arr (o.probes.map fun pr =>
        Lean.Json.arr #[Lean.Json.str pr.name, jTree pr.value, Lean.Json.bool pr.accepted]).toArray),
    ("allow_none", jNamed Lean.Json.bool o.allowNone),
    ("js", js)]

def parseProbe (j : LJson) : Except String Probe := do
  let q ← j.getArr?
  if q.size != 3 then throw "probe: triple expected"
  return { name := ← q[0]!.getStr?, value := ← parseTree q[1]!, accepted := ← q[2]!.getBool? }

def parseObs16 (j : LJson) : Except String Obs16 := do
  return {
    invalid := false
    schema := ← parseRes parseFields (← j.getObjVal? "schema")
    schemaSafe := ← parseRes parseFields (← j.getObjVal? "schema_safe")
    paramSchemas := ← parseNamed (parseRes parseTree) (← j.getObjVal? "param_schemas")
    ser := ← parseRes parseFields (← j.getObjVal? "ser")
    probes := ← (← getArr j "probes").toList.mapM parseProbe
    allowNone := ← parseNamed (·.getBool?) (← j.getObjVal? "allow_none") }

def typeName : PCfg → String
  | .integer _ => "Integer" | .number _ => "Number" | .string => "String" | .boolean => "Boolean"
  | .tuple _ => "Tuple" | .numericTuple _ => "NumericTuple" | .xy => "XYCoordinates" | .range _ => "Range"
  | .date => "Date" | .calendarDate => "CalendarDate" | .dateRange => "DateRange"
  | .calendarDateRange => "CalendarDateRange" | .list .. => "List" | .dict => "Dict"
  | .selector _ => "Selector" | .listSelector _ => "ListSelector" | .color => "Color"
  | .classSelector _ => "ClassSelector"

def boundsShape (b : Bounds) : String :=
  match b.range with
  | none => "nobounds"
  | some (lo, hi) =>
    (match lo with | none => "lo-" | some _ => if b.incLo then "lo[" else "lo(") ++
    (match hi with | none => "hi-" | some _ => if b.incHi then "hi]" else "hi)")

def branchesOf (st : List (Param × PyVal)) : List String :=
  st.foldr (fun (p, v) acc =>
    let t := typeName p.cfg
    let extra := match p.cfg with
      | .integer b => [s!"{t}:{boundsShape b}"]
      | .number b => [s!"{t}:{boundsShape b}"]
      | .range b => [s!"{t}:{boundsShape b}"]
      | .list (some _) _ _ => ["List:item_type"]
      | .list none _ _ => ["List:untyped"]
      | _ => []
    ([s!"{t}:{if p.effAllowNone then "nullable" else "plain"}",
      s!"{t}:{match v with | .none => "none" | _ => "value"}"] ++ extra) ++ acc) []

def handle (req : LJson) : Except String LJson := do
  let case ← req.getObjVal? "case"
  let st ← parseState case
  let ps := st.map (·.1)
  let probesIn ← (← getArr case "probes").toList.mapM fun p => do
    let q ← p.getArr?
    if q.size != 2 then throw "probe: pair expected"
    return (← q[0]!.getStr?, ← parseTree q[1]!)
  let model := model16 st probesIn ((← getStr case "level") == "class")
  let impl ← req.getObjVal? "impl"
  let implInvalid := (getOpt impl "invalid").bind (fun b => b.getBool?.toOption) == some true
  let xval := (getOpt case "xval").bind (fun b => b.getBool?.toOption) == some true
  -- a schema() that refuses (UnserializableException) is a declared refusal, not a schema
  let refuses := match model.schema with | .error _ => true | .ok _ => false
  let app := applicable16 st && !implInvalid && !refuses
  let (sImpl, js) ← if implInvalid then pure (none, Lean.Json.null) else do
    let o ← parseObs16 impl
    pure (if app then spec16 ps o else none,
          if xval then jsVerdicts o.schema o.ser o.probes else Lean.Json.null)
  let sModel := if app && !model.invalid then spec16 ps model else none
  let nOut := model.probes.filter (fun pr => !pr.accepted) |>.length
  return Lean.Json.mkObj [
    ("model", jObs16 model js),
    ("applicable", Lean.Json.bool app),
    ("checked_steps", toJson (if app then st.length + nOut else 0)),
    ("spec_impl", optS sImpl), ("spec_model", optS sModel),
    ("branches", Lean.Json.arr ((branchesOf st ++ (if nOut > 0 then ["probe:out-of-bounds"] else [])).map Lean.Json.str).toArray)]

def main : IO Unit := serve handle
