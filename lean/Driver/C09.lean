import ParamVerif.Util.Proto
import ParamVerif.Rx.Spec
open Lean ParamVerif ParamVerif.Proto ParamVerif.Rx

/-! Concrete instantiation of the opaque parts with Python's semantics on
None / bool / int / str / list, the JSON codec, and the request handler. -/

inductive PV where
  | none | bool (b : Bool) | int (i : Int) | str (s : String) | list (xs : List PV)
  | float (n : Int) (d : Nat)      -- a Python float, exactly: n / d in lowest terms (float.as_integer_ratio)
  deriving Repr, Inhabited

inductive PE where
  | zeroDiv | typeErr | indexErr | valueErr | attrErr | keyErr | overflow | other (n : String)
  deriving Repr, DecidableEq, Inhabited

abbrev POp := String

def PE.name : PE → String
  | .zeroDiv => "ZeroDivisionError" | .typeErr => "TypeError" | .indexErr => "IndexError"
  | .valueErr => "ValueError" | .attrErr => "AttributeError" | .keyErr => "KeyError"
  | .overflow => "OverflowError" | .other n => "other:" ++ n

def PE.ofName : String → PE
  | "ZeroDivisionError" => .zeroDiv | "TypeError" => .typeErr | "IndexError" => .indexErr
  | "ValueError" => .valueErr | "AttributeError" => .attrErr | "KeyError" => .keyErr
  | "OverflowError" => .overflow | n => .other ((n.drop 6).toString)

def asInt : PV → Option Int
  | .bool b => some (if b then 1 else 0)
  | .int i => some i
  | _ => Option.none

/-- bool / int / float as an exact rational -/
def asRat : PV → Option (Int × Nat)
  | .bool b => some (if b then 1 else 0, 1)
  | .int i => some (i, 1)
  | .float n d => some (n, d)
  | _ => Option.none

mutual
/-- Python `==` (bool is an int; lists elementwise) — also Comparator.is_equal on this universe -/
partial def pyEq : PV → PV → Bool
  | .none, .none => true
  | .str a, .str b => a == b
  | .list a, .list b => pyEqList a b
  | a, b => match asRat a, asRat b with
    | some (x, dx), some (y, dy) => x * dy == y * dx
    | _, _ => false
partial def pyEqList : List PV → List PV → Bool
  | [], [] => true
  | a :: as, b :: bs => pyEq a b && pyEqList as bs
  | _, _ => false
end

/-- structural identity (bool ≠ int), used to compare observations -/
partial def PV.same : PV → PV → Bool
  | .none, .none => true
  | .bool a, .bool b => a == b
  | .int a, .int b => a == b
  | .str a, .str b => a == b
  | .float a b, .float c d => a == c && b == d
  | .list a, .list b => a.length == b.length && (a.zip b).all fun (x, y) => PV.same x y
  | _, _ => false

instance : BEq PV := ⟨PV.same⟩

def truthy : PV → Bool
  | .none => false | .bool b => b | .int i => i != 0 | .str s => s != "" | .list xs => !xs.isEmpty
  | .float n _ => n != 0

def bitw (f : Bool → Bool → Bool) : Nat → Int → Int → Int
  | 0, a, b => if f (decide (a < 0)) (decide (b < 0)) then -1 else 0
  | k + 1, a, b =>
    2 * bitw f k (a.fdiv 2) (b.fdiv 2) + (if f (a.fmod 2 == 1) (b.fmod 2 == 1) then 1 else 0)

def bitop (f : Bool → Bool → Bool) (a b : Int) : Int :=
  bitw f (max a.natAbs b.natAbs).log2.succ.succ a b

partial def pyRepr : PV → String
  | .none => "None" | .bool b => if b then "True" else "False" | .int i => toString i
  | .str s => "'" ++ s ++ "'"
  | .list xs => "[" ++ ", ".intercalate (xs.map pyRepr) ++ "]"
  | .float n d =>     -- only whole numbers and halves are ever generated
    if d == 1 then toString n ++ ".0"
    else if d == 2 then (if n < 0 then "-" else "") ++ toString (n.natAbs / 2) ++ ".5"
    else "<float " ++ toString n ++ "/" ++ toString d ++ ">"

def pyStr : PV → String
  | .str s => s
  | v => pyRepr v

def normIndex (len : Nat) (i : Int) : Option Nat :=
  if 0 ≤ i then (if i.toNat < len then some i.toNat else Option.none)
  else if i + len ≥ 0 then some (i + len).toNat else Option.none

def isPrefixC : List Char → List Char → Bool
  | [], _ => true
  | _, [] => false
  | a :: as, b :: bs => a == b && isPrefixC as bs

/-- first index of `sub` in `s` (as char lists) -/
def findSub (sub : List Char) : List Char → Nat → Option Nat
  | [], i => if sub.isEmpty then some i else Option.none
  | c :: cs, i => if isPrefixC sub (c :: cs) then some i else findSub sub cs (i + 1)

/-- non-overlapping occurrences, as str.count -/
def countSub (sub : List Char) (s : List Char) : Nat :=
  if sub.isEmpty then s.length + 1 else
  let rec go (fuel : Nat) (s : List Char) (acc : Nat) : Nat :=
    match fuel, s with
    | 0, _ => acc
    | _, [] => acc
    | k + 1, c :: cs => if isPrefixC sub (c :: cs) then go k ((c :: cs).drop sub.length) (acc + 1) else go k cs acc
  go (s.length + 1) s 0

def cmpOp (op : String) (o : Ordering) : Bool :=
  match op with
  | "lt" => o == .lt | "le" => o != .gt | "gt" => o == .gt | _ => o != .lt

partial def pyCompare (op : String) : PV → PV → Except PE PV
  | .str a, .str b => .ok (.bool (cmpOp op (compare a b)))
  | .list a, .list b =>
    let rec go : List PV → List PV → Except PE PV
      | [], [] => .ok (.bool (cmpOp op .eq))
      | [], _ :: _ => .ok (.bool (cmpOp op .lt))
      | _ :: _, [] => .ok (.bool (cmpOp op .gt))
      | x :: xs, y :: ys => if pyEq x y then go xs ys else pyCompare op x y
    go a b
  | a, b => match asInt a, asInt b with
    | some x, some y => .ok (.bool (cmpOp op (compare x y)))
    | _, _ => .error .typeErr

def repeatList {α} (xs : List α) (n : Int) : List α :=
  (List.replicate n.toNat xs).flatten

/-- `obj[lo:hi]` for str / list with bounds None / bool / int -/
def pySlice (obj lo hi : PV) : Except PE PV :=
  let bound (len : Nat) (b : PV) (dflt : Nat) : Except PE Nat :=
    match b with
    | .none => .ok dflt
    | b => match asInt b with
      | some i => .ok (if i < 0 then (i + len).toNat else min i.toNat len)
      | Option.none => .error .typeErr
  match obj with
  | .str s =>
    let cs := s.toList
    match bound cs.length lo 0, bound cs.length hi cs.length with
    | .ok a, .ok b => .ok (.str (String.ofList ((cs.drop a).take (b - a))))
    | .error e, _ => .error e
    | _, .error e => .error e
  | .list xs =>
    match bound xs.length lo 0, bound xs.length hi xs.length with
    | .ok a, .ok b => .ok (.list ((xs.drop a).take (b - a)))
    | .error e, _ => .error e
    | _, .error e => .error e
  | _ => .error .typeErr

partial def pyApply (op : POp) (vs : List PV) : Except PE PV :=
  let intBin (f : Int → Int → Except PE PV) : Except PE PV :=
    match vs with
    | [a, b] => match asInt a, asInt b with
      | some x, some y => f x y
      | _, _ => .error .typeErr
    | _ => .error .typeErr
  let intUn (f : Int → PV) : Except PE PV :=
    match vs with
    | [a] => match asInt a with
      | some x => .ok (f x)
      | Option.none => .error .typeErr
    | _ => .error .typeErr
  let bitBin (f : Bool → Bool → Bool) : Except PE PV :=
    match vs with
    | [.bool a, .bool b] => .ok (.bool (f a b))
    | _ => intBin fun x y => .ok (.int (bitop f x y))
  match op with
  | "add" => match vs with
    | [.str a, .str b] => .ok (.str (a ++ b))
    | [.list a, .list b] => .ok (.list (a ++ b))
    | _ => intBin fun x y => .ok (.int (x + y))
  | "sub" => intBin fun x y => .ok (.int (x - y))
  | "mul" => match vs with
    | [.str a, b] => match asInt b with
      | some n => .ok (.str (String.join (List.replicate n.toNat a)))
      | Option.none => .error .typeErr
    | [.list a, b] => match asInt b with
      | some n => .ok (.list (repeatList a n))
      | Option.none => .error .typeErr
    | [a, .str b] => match asInt a with
      | some n => .ok (.str (String.join (List.replicate n.toNat b)))
      | Option.none => .error .typeErr
    | [a, .list b] => match asInt a with
      | some n => .ok (.list (repeatList b n))
      | Option.none => .error .typeErr
    | _ => intBin fun x y => .ok (.int (x * y))
  | "floordiv" => intBin fun x y => if y == 0 then .error .zeroDiv else .ok (.int (x.fdiv y))
  | "mod" => match vs with
    | [.str a, .list _] => .ok (.str a)        -- '%'-free format string applied to a mapping-like operand
    | [.str _, _] => .error .typeErr           -- not all arguments converted
    | _ => intBin fun x y => if y == 0 then .error .zeroDiv else .ok (.int (x.fmod y))
  | "lshift" => intBin fun x y => if y < 0 then .error .valueErr else .ok (.int (x * 2 ^ y.toNat))
  | "rshift" => intBin fun x y => if y < 0 then .error .valueErr else .ok (.int (x.fdiv (2 ^ y.toNat)))
  | "and_" => bitBin (· && ·)
  | "or_" => bitBin (· || ·)
  | "xor" => bitBin (· != ·)
  | "eq" => match vs with | [a, b] => .ok (.bool (pyEq a b)) | _ => .error .typeErr
  | "ne" => match vs with | [a, b] => .ok (.bool (!pyEq a b)) | _ => .error .typeErr
  | "lt" | "le" | "gt" | "ge" => match vs with | [a, b] => pyCompare op a b | _ => .error .typeErr
  | "neg" => intUn fun x => .int (-x)
  | "pos" => intUn fun x => .int x
  | "abs" => intUn fun x => .int x.natAbs
  | "inv" => intUn fun x => .int (-x - 1)
  | "getitem" => match vs with
    | [.str s, i] => match asInt i with
      | some k => match normIndex s.length k with
        | some j => .ok (.str (String.singleton (s.toList.getD j ' ')))
        | Option.none => .error .indexErr
      | Option.none => .error .typeErr
    | [.list xs, i] => match asInt i with
      | some k => match normIndex xs.length k with
        | some j => match xs[j]? with | some v => .ok v | Option.none => .error .indexErr
        | Option.none => .error .indexErr
      | Option.none => .error .typeErr
    | _ => .error .typeErr
  | "contains" => match vs with
    | [.str s, .str sub] => .ok (.bool ((findSub sub.toList s.toList 0).isSome))
    | [.str _, _] => .error .typeErr
    | [.list xs, x] => .ok (.bool (xs.any (pyEq · x)))
    | _ => .error .typeErr
  | "len" => match vs with
    | [.str s] => .ok (.int s.length)
    | [.list xs] => .ok (.int xs.length)
    | _ => .error .typeErr
  | "bool" => match vs with | [a] => .ok (.bool (truthy a)) | _ => .error .typeErr
  | "not_" => match vs with | [a] => .ok (.bool (!truthy a)) | _ => .error .typeErr
  | "is_" | "is_not" =>
    let same : PV → PV → Bool
      | .none, .none => true
      | .bool a, .bool b => a == b
      | .int a, .int b => a == b      -- CPython small-int identity; operands are kept in that range
      | _, _ => false
    match vs with
    | [a, b] => .ok (.bool (if op == "is_" then same a b else !same a b))
    | _ => .error .typeErr
  | "and" => match vs with | [a, b] => .ok (if truthy a then b else a) | _ => .error .typeErr
  | "or" => match vs with | [a, b] => .ok (if truthy a then a else b) | _ => .error .typeErr
  | "str" => match vs with | [a] => .ok (.str (pyStr a)) | _ => .error .typeErr
  | "sum" => match vs with
    | [.list xs] =>
      -- 0 + x0 + x1 + …: exact; the result is a float from the first float element on
      let step (acc : Int × Nat × Bool) (x : PV) : Except PE (Int × Nat × Bool) :=
        match x, asRat x with
        | .float _ _, some (n, d) => .ok (acc.1 * d + n * acc.2.1, acc.2.1 * d, true)
        | _, some (n, d) => .ok (acc.1 * d + n * acc.2.1, acc.2.1 * d, acc.2.2)
        | _, Option.none => .error .typeErr
      match xs.foldlM (m := Except PE) step ((0 : Int), (1 : Nat), false) with
      | .error e => .error e
      | .ok (n, d, isF) =>
        let g := Nat.gcd n.natAbs d
        if isF then .ok (.float (n / g) (d / g)) else .ok (.int (n / d))
    | [.str s] => if s.isEmpty then .ok (.int 0) else .error .typeErr     -- sum('') == 0
    | _ => .error .typeErr
  | "mklist" => .ok (.list vs)
  | "kwsub" => match vs with | [_, _] => pyApply "sub" vs | _ => .error .typeErr       -- kwsub(x, y) called positionally
  | "kwpair" => match vs with | [x, y] => .ok (.list [x, y]) | _ => .error .typeErr
  | "round" =>
    -- round(x) -> int (ties to even); round(x, 0) -> a value of x's own type
    let halfEven (n : Int) (d : Nat) : Int :=
      let q := n.fdiv d
      let r := n - q * d
      if 2 * r < d then q else if 2 * r > d then q + 1 else if q % 2 == 0 then q else q + 1
    match vs with
    | [.float n d] => .ok (.int (halfEven n d))
    | [.float n d, nd] => match asInt nd with
      | some 0 => .ok (.float (halfEven n d) 1)
      | some _ => .error (.other "round-ndigits-not-modelled")
      | Option.none => .error .typeErr
    | [a] => match asInt a with | some i => .ok (.int i) | Option.none => .error .typeErr
    | [a, nd] => match asInt a, asInt nd with
      | some i, some k => if k ≥ 0 then .ok (.int i) else .error (.other "round-ndigits-not-modelled")
      | _, _ => .error .typeErr
    | _ => .error .typeErr
  | "attr:real" | "attr:numerator" => match vs with
    | [.float n d] => .ok (if op == "attr:real" then .float n d else .float n d)    -- float has no numerator: default = the object
    | [a] => match asInt a with | some i => .ok (.int i) | Option.none => .ok a
    | _ => .error .typeErr
  | "attr:imag" => match vs with
    | [.float _ _] => .ok (.float 0 1)
    | [a] => match asInt a with | some _ => .ok (.int 0) | Option.none => .ok a
    | _ => .error .typeErr
  | "attr:denominator" => match vs with
    | [a] => match asInt a with | some _ => .ok (.int 1) | Option.none => .ok a
    | _ => .error .typeErr
  | "m:upper" => match vs with
    | [.str s] => .ok (.str s.toUpper)
    | .str _ :: _ => .error .typeErr
    | _ => .error .attrErr
  | "m:count" => match vs with
    | [.str s, .str sub] => .ok (.int (countSub sub.toList s.toList))
    | .str _ :: _ => .error .typeErr
    | [.list xs, x] => .ok (.int (xs.countP (pyEq · x)))
    | .list _ :: _ => .error .typeErr
    | _ => .error .attrErr
  | "m:index" => match vs with
    | [.str s, .str sub] => match findSub sub.toList s.toList 0 with
      | some i => .ok (.int i) | Option.none => .error .valueErr
    | .str _ :: _ => .error .typeErr
    | [.list xs, x] => match xs.findIdx? (pyEq · x) with
      | some i => .ok (.int i) | Option.none => .error .valueErr
    | .list _ :: _ => .error .typeErr
    | _ => .error .attrErr
  | "m:bit_length" => match vs with
    | [a] => match asInt a with
      | some x => .ok (.int (if x == 0 then 0 else x.natAbs.log2 + 1))
      | Option.none => .error .attrErr
    | a :: _ => if (asInt a).isSome then .error .typeErr else .error .attrErr
    | _ => .error .attrErr
  | _ =>
    if op.startsWith "map:" then
      let f : String := (op.drop 4).toString
      match vs with
      | .str s :: extra => (s.toList.mapM fun c => pyApply f (.str (String.singleton c) :: extra)).map PV.list
      | .list xs :: extra => (xs.mapM fun x => pyApply f (x :: extra)).map PV.list
      | _ => .error .typeErr
    else if (op.splitOn "#k=").length == 2 then
      -- f(*positional, **keywords) for the two-parameter user functions kwpair(x, y) / kwsub(x, y)
      match op.splitOn "#k=" with
      | [f, names] =>
        let ks := names.splitOn ","
        let npos := vs.length - ks.length
        let pos := vs.take npos
        let kwv := ks.zip (vs.drop npos)
        let params := ["x", "y"]
        if npos > 2 || ks.any (fun k => !params.contains k) || ks.any (fun k => (params.take npos).contains k) then .error .typeErr
        else
          let get (i : Nat) (name : String) : Option PV :=
            if i < npos then pos[i]? else (kwv.find? (·.1 == name)).map (·.2)
          match get 0 "x", get 1 "y" with
          | some x, some y =>
            if f == "kwpair" then .ok (.list [x, y]) else if f == "kwsub" then pyApply "sub" [x, y]
            else .error (.other ("unknown-kw-function-" ++ f))
          | _, _ => .error .typeErr
      | _ => .error (.other "bad-kw")
    else match (match op.splitOn "#" with
        | [b, sh] => some (b, sh, false) | [b, sh, "r"] => some (b, sh, true) | _ => Option.none) with
    | some (base, shape, rev) =>
      -- operands holding references were flattened by the driver (their references are collected and
      -- their values resolved left to right, exactly like resolve_ref / resolve_value do recursively);
      -- `shape` says how to pack the resolved values back: p = plain, L<k> = list of k, S = slice lo:hi
      match vs with
      | [] => .error .typeErr
      | obj :: flat =>
        if shape == "S" && base == "getitem" then
          match flat with
          | [lo, hi] => pySlice obj lo hi
          | _ => .error (.other "bad-slice-shape")
        else
          let rec pack : List String → List PV → Option (List PV)
            | [], [] => some []
            | [], _ :: _ => Option.none
            | "p" :: ts, v :: rest => (pack ts rest).map (v :: ·)
            | t :: ts, rest =>
              if t.startsWith "L" then
                let k := (t.drop 1).toString.toNat!
                if rest.length < k then Option.none else (pack ts (rest.drop k)).map (PV.list (rest.take k) :: ·)
              else Option.none
          match pack (shape.splitOn ",") flat with
          | some packed => pyApply base (arrange rev obj packed)
          | Option.none => .error (.other "bad-shape")
    | Option.none => .error (.other ("unknown-op-" ++ op))

def hasAttr (v : PV) (op : POp) : Bool :=
  match v, op with
  | .str _, "m:upper" | .str _, "m:count" | .str _, "m:index" => true
  | .list _, "m:count" | .list _, "m:index" => true
  | .bool _, "m:bit_length" | .int _, "m:bit_length" => true
  | .bool _, "attr:real" | .bool _, "attr:imag" | .bool _, "attr:numerator" | .bool _, "attr:denominator" => true
  | .int _, "attr:real" | .int _, "attr:imag" | .int _, "attr:numerator" | .int _, "attr:denominator" => true
  | .float _ _, "attr:real" | .float _ _, "attr:imag" => true
  | _, _ => false

def pySem : Sem PV PE POp :=
  { apply := pyApply, truthy := truthy, isEqual := pyEq, none := .none,
    isNone := fun v => match v with | .none => true | _ => false,
    hasAttr := hasAttr, attrErr := .attrErr,
    iterLen := fun v => match v with | .str s => some s.length | .list xs => some xs.length | _ => Option.none,
    typeErr := .typeErr, ofBool := .bool }

/-! ### JSON -/

partial def parseVal : Json → Except String PV
  | .null => pure .none
  | .bool b => pure (.bool b)
  | .str s => pure (.str s)
  | .arr a => do pure (.list (← a.toList.mapM parseVal))
  | j => match j.getObjVal? "f" with
    | .ok f => do
      let a ← f.getArr?
      if a.size != 2 then throw "float: [numerator, denominator] expected"
      pure (.float (← a[0]!.getInt?) (← a[1]!.getNat?))
    | .error _ => do pure (.int (← j.getInt?))

partial def jVal : PV → Json
  | .none => .null | .bool b => .bool b | .int i => toJson i | .str s => .str s
  | .list xs => .arr (xs.map jVal).toArray
  | .float n d => Json.mkObj [("f", Json.arr #[toJson n, toJson d])]

def parseArg (j : Json) : Except String (Arg PV) := do
  match j.getObjVal? "n", j.getObjVal? "p" with
  | .ok n, _ => return .node (← n.getNat?)
  | _, .ok p => return .param (← p.getNat?)
  | _, _ => return .lit (← parseVal (← j.getObjVal? "l"))

def parseArgs (j : Json) (k : String) : Except String (List (Arg PV)) := do
  (← getArr j k).toList.mapM parseArg

/-- operands of an operation, containers flattened: (atomic operands, shape) -/
def parseShaped (j : Json) (k : String) : Except String (List (Arg PV) × Option String) := do
  let items ← (← getArr j k).toList.mapM fun a => do
    match a.getObjVal? "L", a.getObjVal? "S" with
    | .ok l, _ =>
      let xs ← (← l.getArr?).toList.mapM parseArg
      return (xs, s!"L{xs.length}")
    | _, .ok sl =>
      let xs ← (← sl.getArr?).toList.mapM parseArg
      return (xs, "S")
    | _, _ => return ([← parseArg a], "p")
  let shape := ",".intercalate (items.map (·.2))
  return ((items.map (·.1)).flatten, if items.all (·.2 == "p") then Option.none else some shape)

/-- API form ↦ (function recorded in the operation, reverse flag) — the hand-written
counterpart of the dunder table of `class rx` and of `reactive_ops` -/
def formOp (form : String) : Except String (POp × Bool) :=
  let binary := ["add", "sub", "mul", "floordiv", "mod", "lshift", "rshift", "and_", "or_", "xor"]
  if binary.contains form || ["eq", "ne", "lt", "le", "gt", "ge", "neg", "pos", "abs", "inv", "getitem",
      "len", "bool", "not_", "is_", "is_not", "round"].contains form then .ok (form, false)
  else if form.startsWith "r" && binary.contains ((form.drop 1).toString) then .ok ((form.drop 1).toString, true)
  else if form == "in_" then .ok ("contains", true)
  else if form == "rx_and" then .ok ("and", false)
  else if form == "rx_or" then .ok ("or", false)
  else if form.startsWith "pipe:" then .ok ((form.drop 5).toString, false)
  else if form.startsWith "map:" then .ok (form, false)
  else .error s!"unknown form {form}"

def parseStmt (j : Json) : Except String (Stmt PV POp) := do
  match ← getStr j "s" with
  | "lit" => return .lit (← parseVal (← j.getObjVal? "v"))
  | "obj" => return .obj (← (← getArr j "vs").toList.mapM parseVal)
  | "rootp" => return .rootp (← getNat j "p")
  | "rootm" =>
    -- rx(obj.m) for a method decorated with @param.depends(all parameters of obj): `_fn_params` are those
    -- parameters, the value is obtained by calling the method, which reads them: the bound function mklist
    let p ← getNat j "p"
    let k ← getNat j "k"
    return .bind "mklist" ((List.range k).map fun i => Arg.param (p + i))
  | "attr" =>
    -- `acc = n.name` (plain attribute access).  The accessor is a copy of n whose `_resolve` applies
    -- `getattr(current, name, current)` at the end; it is rendered as the model's method-call statement with
    -- the total operation `attr:name` and no operands (same reads, same dependencies, same values; the two
    -- extra nodes are not reachable).  An accessor must not be the subject of a further attribute / method access.
    return .meth (← getNat j "n") ("attr:" ++ (← getStr j "op")) []
  | "op" =>
    if (← getStr j "op") == "round0" then
      -- round(n, 0): the literal 0 is an operand of the recorded operation
      return .op (← getNat j "n") "round" false [.lit (.int 0)]
    let (o, rev) ← formOp (← getStr j "op")
    match getOpt j "kw" with
    | some kws =>
      -- keyword arguments of the operation: resolved after the positional ones (rx._eval_operation), dependencies
      -- collected after them (rx._compute_params); their names travel in the function name
      let kw ← (← kws.getArr?).toList.mapM fun p => do
        let a ← p.getArr?
        if a.size != 2 then throw "keyword pair expected"
        return ((← a[0]!.getStr?), (← parseArg a[1]!))
      let pos ← parseArgs j "args"
      if !kw.isEmpty then
        if rev then throw "keyword argument of a reflected operator"
        return .op (← getNat j "n") (o ++ "#k=" ++ ",".intercalate (kw.map (·.1))) false (pos ++ kw.map (·.2))
    | Option.none => pure ()
    let (args, shape) ← parseShaped j "args"
    match shape with
    | Option.none => return .op (← getNat j "n") o rev args
    | some sh =>
      -- `reverse=True` only moves the pipeline object behind the first (packed) operand: done by the packing
      return .op (← getNat j "n") (o ++ "#" ++ sh ++ (if rev then "#r" else "")) false args
  | "meth" => return .meth (← getNat j "n") ("m:" ++ (← getStr j "op")) (← parseArgs j "args")
  | "meth2" => return .meth2 (← getNat j "n") ("m:" ++ (← getStr j "op")) (← parseArgs j "args") (← parseArgs j "args2")
  | "bind" =>
    -- keyword arguments follow the positional ones (dependency order and evaluation order of bind());
    -- their names travel in the function name
    let pos ← parseArgs j "args"
    match getOpt j "kw" with
    | Option.none => return .bind (← getStr j "f") pos
    | some kws =>
      let kw ← (← kws.getArr?).toList.mapM fun p => do
        let a ← p.getArr?
        if a.size != 2 then throw "keyword pair expected"
        return ((← a[0]!.getStr?), (← parseArg a[1]!))
      if kw.isEmpty then return .bind (← getStr j "f") pos
      return .bind ((← getStr j "f") ++ "#k=" ++ ",".intercalate (kw.map (·.1))) (pos ++ kw.map (·.2))
  | "where" => return .where_ (← parseArg (← j.getObjVal? "c")) (← parseArg (← j.getObjVal? "x")) (← parseArg (← j.getObjVal? "y"))
  | "watch" => return .watch (← getNat j "n")
  | "set" => return .set (← getNat j "p") (← parseVal (← j.getObjVal? "v"))
  | "read" => return .read (← getNat j "n")
  | "isin" => return .isin (← getNat j "n") "contains" (← parseVal (← j.getObjVal? "v"))
  | "ref" => return .ref (← getNat j "n")
  | "readref" => return .readref (← getNat j "h")
  | s => throw s!"unknown statement {s}"

def parseOutcome (j : Json) : Except String (Outcome PV PE) := do
  match ← getStr j "k" with
  | "created" => return .created
  | "createErr" => return .createErr (PE.ofName (← getStr j "e"))
  | "watch" => return .watching
  | "read" => return .read (← parseVal (← j.getObjVal? "v"))
  | "readErr" => return .readErr (PE.ofName (← getStr j "e"))
  | "set" =>
    let calls ← (← getArr j "calls").toList.mapM fun c => do
      let a ← c.getArr?
      if a.size != 2 then throw "call pair expected"
      return ((← a[0]!.getNat?), (← parseVal a[1]!))
    return .set calls ((getOpt j "e").bind fun e => e.getStr?.toOption |>.map PE.ofName)
  | "bad" => return .bad
  | "fuel" => return .fuel
  | k => throw s!"unknown outcome {k}"

def jOutcome : Outcome PV PE → Json
  | .created => Json.mkObj [("k", "created")]
  | .createErr e => Json.mkObj [("k", "createErr"), ("e", e.name)]
  | .watching => Json.mkObj [("k", "watch")]
  | .read v => Json.mkObj [("k", "read"), ("v", jVal v)]
  | .readErr e => Json.mkObj [("k", "readErr"), ("e", e.name)]
  | .set calls err => Json.mkObj [("k", "set"),
      ("calls", Json.arr (calls.map fun (k, v) => Json.arr #[toJson k, jVal v]).toArray),
      ("e", match err with | some e => Json.str e.name | Option.none => Json.null)]
  | .bad => Json.mkObj [("k", "bad")]
  | .fuel => Json.mkObj [("k", "fuel")]

def stmtKind : Stmt PV POp → String
  | .lit _ => "lit" | .obj _ => "obj" | .rootp _ => "rootp" | .op .. => "op" | .meth .. => "meth" | .meth2 .. => "meth2"
  | .bind .. => "bind" | .where_ .. => "where" | .watch _ => "watch" | .set .. => "set" | .read _ => "read"
  | .ref _ => "ref" | .readref _ => "readref" | .isin .. => "isin"

/-- which branch of the model a statement exercises (coverage only) -/
def branchOf (w : World PV PE POp) (s : Stmt PV POp) (o : Outcome PV PE) : List String :=
  let k := stmtKind s
  let oc := match o with
    | .created => "created" | .createErr _ => "createErr" | .watching => "ok" | .read _ => "value"
    | .readErr _ => "raises" | .set [] Option.none => "no-callback" | .set _ Option.none => "callbacks"
    | .set _ (some _) => "raises" | .bad => "bad" | .fuel => "fuel"
  let extra : List String := match s with
    | .read n => match w.nodes[n]? with
      | some nd =>
        let rootDirty := match w.nodes[nd.root]? with | some rt => rt.dirtyObj | Option.none => false
        [if nd.error.isSome then "resolve:error-cached"
         else if nd.dirty && rootDirty then "resolve:dirty+dirty_obj"
         else if nd.dirty then "resolve:dirty"
         else if rootDirty then "resolve:dirty_obj-only"
         else "resolve:cache-hit"] ++
        (match nd.fn with | .ternary .. => ["read:where-family"] | .bound .. => ["read:bind-family"] | _ => [])
      | Option.none => []
    | .set p v =>
      (if pyEq (w.vals p) v then (if w.vals p == v then ["set:identical"] else ["set:equal-not-identical"]) else ["set:changed"]) ++
      ((consumersOf w p).map fun c => match c with
        | .trigX .. => "consumer:trigger_x" | .trigY .. => "consumer:trigger_y" | .watch .. => "consumer:watch"
        | .sync .. => "consumer:sync_refs")
    | .op n _ rev args =>
      (if rev then ["op:reverse"] else []) ++
      (args.map fun a => match a with | .lit _ => "arg:literal" | .node _ => "arg:rx" | .param _ => "arg:parameter") ++
      (match w.nodes[n]? with
        | some nd => (match nd.fn with | .ternary .. => ["op:on-where"] | .bound .. => ["op:on-bind"] | _ => []) ++
                     (if nd.prev.isNone then ["op:on-root"] else ["op:on-derived"])
        | Option.none => [])
    | _ => []
  (k ++ ":" ++ oc) :: extra

/-- internal flags of the nodes that have a counterpart object in the harness: (id, _dirty, _error_state set, root._dirty_obj) -/
def flagsOf (w : World PV PE POp) (ids : List Nat) : Json :=
  Json.arr (ids.filterMap fun i => (w.nodes[i]?).map fun nd =>
    let rd := match w.nodes[nd.root]? with | some rt => rt.dirtyObj | Option.none => false
    Json.arr #[toJson i, Json.bool nd.dirty, Json.bool nd.error.isSome, Json.bool rd]).toArray

/-- ids (relative to the first id the statement allocates) of the nodes the harness can look at -/
def comparable (kind : String) (subjIsAccessor : Bool) : List Nat :=
  if subjIsAccessor then [] else      -- pipelines through an attribute accessor are rendered with other nodes
  match kind with
  | "lit" | "rootp" | "rootm" | "bind" | "where" => [0]
  | "op" => [0, 1]
  | "meth" => [1, 2]
  | "meth2" => [1, 2, 3, 4]
  | _ => []

def allocated (kind : String) : Nat :=
  match kind with
  | "lit" | "rootp" | "rootm" | "bind" | "where" => 1
  | "op" => 2 | "meth" | "attr" => 3 | "meth2" => 5
  | _ => 0

def runModel (fuel : Nat) : World PV PE POp → List (Stmt PV POp × Json) → List Nat → List Nat → Bool →
    List (Outcome PV PE) × List String × List Json
  | _, [], _, _, _ => ([], [], [])
  | w, (s, raw) :: ss, ids, accs, quiet0 =>
    let (o, w1) := step pySem fuel w s
    let b := branchOf w s o
    let kind := (raw.getObjValAs? String "s").toOption.getD ""
    let subj := (raw.getObjValAs? Nat "n").toOption.getD 0
    let base := w.nodes.length
    let created := match o with | .created => true | _ => false
    let ids1 := if created then
        ids ++ (comparable kind (["op", "meth", "meth2", "attr"].contains kind && accs.contains subj)).map (base + ·)
      else ids
    let viaAcc := ["op", "meth", "meth2", "attr"].contains kind && accs.contains subj
    let accs1 := if created && viaAcc then accs ++ (List.range (allocated kind)).map (base + ·)
                 else if created && kind == "attr" then accs ++ [base + 2] else accs
    -- not compared: at an update that raised in a program with holders
    let quiet := quiet0
    let raisedWithHolders := match o with | .set _ (some _) => !w1.holders.isEmpty | _ => false
    let fl := if quiet || raisedWithHolders then Json.arr #[] else flagsOf w1 ids1
    match o with
    | .createErr _ | .bad | .fuel => ([o], b, [fl])
    | .set _ (some _) =>
      -- an exception escaping an update also skips the invalidation watchers registered after the raising
      -- `_sync_refs`; that is not modelled: a program with reference holders ends there
      if w1.holders.isEmpty then let (os, bs, fs) := runModel fuel w1 ss ids1 accs1 quiet; (o :: os, b ++ bs, fl :: fs)
      else ([o], b, [fl])
    | _ => let (os, bs, fs) := runModel fuel w1 ss ids1 accs1 quiet; (o :: os, b ++ bs, fl :: fs)

def handle (req : Json) : Except String Json := do
  let case ← req.getObjVal? "case"
  let raws := (← getArr case "prog").toList
  let prog ← raws.mapM parseStmt
  let (modelOut, branches, flags) := runModel 100000 (World.empty pySem) (prog.zip raws) [] [] false
  let impl ← req.getObjVal? "impl"
  let implOut ← (← getArr impl "steps").toList.mapM parseOutcome
  let s0 : SpecState PV POp := SpecState.empty pySem
  let (nImpl, sImpl) := checkProg pySem s0 prog implOut 0
  let (_, sModel) := checkProg pySem s0 prog modelOut 0
  let invalid := modelOut.any fun o => match o with | .bad | .fuel => true | _ => false
  let optJ : Option String → Json := fun | some s => Json.str s | Option.none => Json.null
  return Json.mkObj [
    ("model", Json.mkObj [("steps", Json.arr (modelOut.map jOutcome).toArray), ("flags", Json.arr flags.toArray)]),
    ("applicable", Json.bool (!invalid)),
    ("checked_steps", toJson nImpl),
    ("spec_impl", optJ sImpl), ("spec_model", optJ sModel),
    ("branches", Json.arr (branches.map Json.str).toArray)]

def main : IO Unit := serve handle
