import ParamVerif.Util.Proto
import ParamVerif.Selector.Spec
open Lean ParamVerif ParamVerif.Proto ParamVerif.Selector

def pairs (j : Json) : Except String Dict := do
  let a ← j.getArr?
  a.toList.mapM fun p => do
    let q ← p.getArr?
    if q.size != 2 then throw "pair expected"
    return (← q[0]!.getStr?, ← q[1]!.getInt?)

def ints (j : Json) : Except String (List Int) := do
  (← j.getArr?).toList.mapM (·.getInt?)

def parseOp (j : Json) : Except String Op := do
  match ← getStr j "op" with
  | "setIdx" => return .setIdx (← getInt j "i") (← getInt j "o")
  | "setKey" => return .setKey (← getStr j "k") (← getInt j "o")
  | "append" => return .append (← getInt j "o")
  | "insert" => return .insert (← getInt j "i") (← getInt j "o")
  | "extend" => return .extend (← ints (← j.getObjVal? "os"))
  | "update" => return .update (← pairs (← j.getObjVal? "kvs"))
  | "popIdx" => return .popIdx (← getInt j "i")
  | "popKey" => return .popKey (← getStr j "k")
  | "popKeyD" => return .popKeyD (← getStr j "k") (← (← j.getObjVal? "d").getInt?)
  | "remove" => return .remove (← getInt j "o")
  | "clear" => return .clear
  | "replaceList" => return .replaceList (← ints (← j.getObjVal? "os"))
  | "replaceDict" => return .replaceDict (← pairs (← j.getObjVal? "kvs"))
  | "assign" => return .assign (← getInt j "v")
  | "inherited" => return .inherited
  | o => throw s!"unknown op {o}"

def parsePayload (j : Json) : Except String Payload := do
  match getOpt j "l" with
  | some l => return .lst (← ints l)
  | none => return .dct (← pairs (← j.getObjVal? "d"))

def parseObs (j : Json) : Except String Obs := do
  let notifs ← (← getArr j "notifs").toList.mapM fun p => do
    let q ← p.getArr?
    return (← parsePayload q[0]!, ← parsePayload q[1]!)
  return { list := ← ints (← j.getObjVal? "list"), items := ← pairs (← j.getObjVal? "items"),
           names := ← pairs (← j.getObjVal? "names"), range := ← pairs (← j.getObjVal? "range"),
           ret := (getOpt j "ret").bind (fun r => r.getInt?.toOption),
           err := (getOpt j "err").bind (fun r => r.getStr?.toOption),
           notifs := notifs,
           accepts := ← (← getArr j "accepts").toList.mapM (·.getBool?),
           chg := match j.getObjVal? "chg" with | .ok (.bool b) => b | _ => true,
           held := match j.getObjVal? "held" with | .ok (.bool b) => b | _ => true }

def jPairs (d : Dict) : Json := Json.arr (d.map fun (k, v) => Json.arr #[Json.str k, toJson v]).toArray
def jInts (l : List Int) : Json := Json.arr (l.map toJson).toArray
def jPayload : Payload → Json
  | .lst l => Json.mkObj [("l", jInts l)]
  | .dct d => Json.mkObj [("d", jPairs d)]
def errName : Err → String
  | .indexError => "IndexError" | .valueError => "ValueError" | .keyError => "KeyError"

def obsOf (s : St) (o : Out) (univ : List Obj) : Obs :=
  { list := listView s, items := itemsView pyStr s, names := s.names, range := rangeView pyStr s,
    ret := o.ret, err := o.err.map errName, notifs := o.notifs,
    accepts := if s.checkOnSet then univ.map (accepts s) else [] }

def jObs (o : Obs) : Json := Json.mkObj [
  ("list", jInts o.list), ("items", jPairs o.items), ("names", jPairs o.names), ("range", jPairs o.range),
  ("ret", match o.ret with | some r => toJson r | none => Json.null),
  ("err", match o.err with | some e => Json.str e | none => Json.null),
  ("notifs", Json.arr (o.notifs.map fun (a, b) => Json.arr #[jPayload a, jPayload b]).toArray),
  ("accepts", Json.arr (o.accepts.map Json.bool).toArray), ("chg", Json.bool o.chg), ("held", Json.bool o.held)]

def opName : Op → String
  | .setIdx .. => "setIdx" | .setKey .. => "setKey" | .append .. => "append" | .insert .. => "insert"
  | .extend .. => "extend" | .update .. => "update" | .popIdx .. => "popIdx" | .popKey .. => "popKey" | .popKeyD .. => "popKeyD"
  | .remove .. => "remove" | .clear => "clear" | .replaceList .. => "replaceList"
  | .replaceDict .. => "replaceDict" | .assign .. => "assign" | .inherited => "inherited"

def handle (req : Json) : Except String Json := do
  let case ← req.getObjVal? "case"
  let decl ← case.getObjVal? "decl"
  let objs ← ints (← decl.getObjVal? "objs")
  let names ← match getOpt decl "names" with
    | some n => pairs n
    | none => pure []
  let c ← getBool decl "check_on_set"
  let univ ← ints (← case.getObjVal? "universe")
  let ops ← (← getArr case "ops").toList.mapM parseOp
  -- model run
  let s0 : St := { objs := objs, names := names, checkOnSet := c }
  let (_, revObs, branches) := ops.foldl (fun (acc : St × List Obs × List String) op =>
      let (s, l, b) := acc
      let (s', o) := step pyStr s op
      (s', obsOf s' o univ :: l,
        (opName op ++ (if o.err.isSome then ":err" else ":ok") ++ (if s.names.isEmpty then ":list" else ":dict")) :: b))
    (s0, [], [])
  let modelInit := obsOf s0 {} univ
  let modelSteps := revObs.reverse
  -- how far model and library can be compared: up to and including the first operation that is not
  -- style-consistent / puts in an object equal to one already there (`Op.ok`): from then on equal objects may be
  -- different Python objects, which `pop`/`remove` tell apart by identity and the model cannot
  let comparable : Nat :=
    let rec go (s : St) (l : List Op) (n : Nat) : Nat :=
      match l with
      | [] => n
      | op :: rest => if invB s && okB s op then go (step pyStr s op).1 rest (n + 1) else n + 1
    if invB s0 then go s0 ops 0 else 0
  -- oracle on the implementation's observations
  let impl ← req.getObjVal? "impl"
  let implInit ← parseObs (← impl.getObjVal? "init")
  let implSteps ← (← getArr impl "steps").toList.mapM parseObs
  let specOn (init : Obs) (steps : List Obs) : Nat × Option String :=
    match viewsOk init c univ with
    | some w => (0, some s!"declaration: {w}")
    | none => specHistory c univ init (ops.zip steps) 0
  let (nImpl, sImpl) := if invB (implInit.st c) then specOn implInit implSteps else (0, none)
  let (_, sModel) := if invB s0 then specOn modelInit modelSteps else (0, none)
  let optJ : Option String → Json := fun | some s => Json.str s | none => Json.null
  return Json.mkObj [
    ("model", Json.mkObj [("init", jObs modelInit), ("steps", Json.arr (modelSteps.map jObs).toArray),
                           ("comparable", toJson comparable)]),
    ("applicable", Json.bool (invB (implInit.st c))),
    ("checked_steps", toJson nImpl),
    ("spec_impl", optJ sImpl), ("spec_model", optJ sModel),
    ("branches", Json.arr (branches.map Json.str).toArray)]

def main : IO Unit := serve handle
