import ParamVerif.Util.Proto
import ParamVerif.Refs.Spec
import ParamVerif.Refs.Hooks
open Lean ParamVerif ParamVerif.Proto ParamVerif.Refs

/-! Shared driver of C02 / C08 (case format: harness/refs_impl.py). -/

def parsePair (j : Json) : Except String (Nat × Nat) := do
  let q ← j.getArr?
  if q.size != 2 then throw "pair expected"
  return (← q[0]!.getNat?, ← q[1]!.getNat?)

def optInt (j : Json) (k : String) : Except String (Option Int) :=
  match getOpt j k with
  | some v => do return some (← v.getInt?)
  | none => return none

def parseAtom (j : Json) : Except String Atom := do
  match ← getStr j "a" with
  | "lit" => return .lit (← getInt j "n")
  | "par" => return .par (← getNat j "s") (← getNat j "i")
  | "fn" => return .fn (← (← getArr j "deps").toList.mapM parsePair) (← getInt j "k") (← getBool j "rx") (← optInt j "sk")
  | a => throw s!"unknown atom {a}"

/-- the case's shared number generator: a plain callable = a dependency-free function.  The model does not
cover callables (Dynamic values); `placeGen` below replaces the marker where the harness assigns it. -/
def genMarker : Rhs := .atom (.fn [] 0 false none)

def parseRhs (j : Json) : Except String Rhs := do
  match ← getStr j "k" with
  | "gen" => return genMarker
  | "atom" => return .atom (← parseAtom (← j.getObjVal? "a"))
  | "cont" => return .cont (← (← getArr j "items").toList.mapM parseAtom)
  | "cont2" => return .cont2 (← (← getArr j "rows").toList.mapM fun r => do (← r.getArr?).toList.mapM parseAtom)
  | k => throw s!"unknown rhs {k}"

def parseKvs (j : Json) : Except String (List (Nat × Rhs)) := do
  (← j.getArr?).toList.mapM fun p => do
    let q ← p.getArr?
    if q.size != 2 then throw "kv expected"
    return (← q[0]!.getNat?, ← parseRhs q[1]!)

def parseVal (j : Json) : Except String Val :=
  match j.getInt? with
  | .ok n => return .int n
  | .error _ => do
    let items := (← j.getArr?).toList
    -- a tuple of ints, or (as soon as one item is a list itself) a tuple of tuples
    if items.any (fun x => x.getArr?.toOption.isSome) then
      return .nest (← items.mapM fun r => do (← r.getArr?).toList.mapM (·.getInt?))
    else return .tup (← items.mapM (·.getInt?))

def parseDecl (j : Json) : Except String (PDecl × Val) := do
  let kind ← match ← getStr j "kind" with
    | "int" => pure Kind.int | "pair" => pure Kind.pair | "any" => pure Kind.any | k => throw s!"kind {k}"
  return ({ kind := kind, lo := ← optInt j "lo", hi := ← optInt j "hi", constant := ← getBool j "constant",
            readonly := ← getBool j "readonly", allowRefs := ← getBool j "allow_refs",
            nestedRefs := ← getBool j "nested_refs" }, ← parseVal (← j.getObjVal? "default"))

def parseOp (j : Json) : Except String Op := do
  match ← getStr j "op" with
  | "set" => return .set (← getNat j "t") (← getNat j "p") (← parseRhs (← j.getObjVal? "rhs"))
  | "setCls" => return .setCls (← getNat j "t") (← getNat j "p") (← parseRhs (← j.getObjVal? "rhs"))
  | "update" => return .update (← getNat j "t") (← parseKvs (← j.getObjVal? "kvs"))
  | "ctxEnter" => return .ctxEnter (← getNat j "t") (← parseKvs (← j.getObjVal? "kvs"))
  | "ctxExit" => return .ctxExit
  | "srcSet" => return .srcSet (← getNat j "s") (← getNat j "i") (← getInt j "v")
  | o => throw s!"unknown op {o}"

def parseOpH (j : Json) : Except String OpH := do
  match ← getStr j "op" with
  | "lock" => return .lock (← getNat j "t") (← getNat j "p")
  -- `t.e_ = True`: the Event parameter fires its own watchers and resets itself; nothing of the model's world moves
  | "trigger" => return .base (.update (← getNat j "t") [])
  -- a rejected class-level assignment to a parameter outside the model: as far as the model's world goes, an
  -- `update` naming an unknown key (ValueError, nothing changes, nothing announced)
  | "setClsX" => return .base (.update (← getNat j "t") [(1000000, .atom (.lit 0))])
  | _ => return .base (← parseOp j)

def parseHook (j : Json) : Except String Hook := do
  return { t := ← getNat j "t", a := ← getNat j "a", b := ← getNat j "b", k := ← getInt j "k" }

/-- for the oracle a lock is an operation that assigns nothing -/
def forOracle : OpH → Op
  | .base op => op
  | .lock t _ => .update t []

/-- A callable assigned to a *readonly Integer* parameter passes `_validate` (Number lets callables
through) and is rejected by the readonly guard with TypeError, on every route — exactly like any valid
number.  There the driver hands the model a valid literal instead; everywhere else the marker stays and
the model (like the harness) refuses the operation as unsupported. -/
def placeGen (ds : List (List PDecl)) (t : Nat) (kv : Nat × Rhs) : Nat × Rhs :=
  if kv.2 == genMarker then
    match (ds[t]?).bind (·[kv.1]?) with
    | some d =>
      if d.kind == .int && d.readonly then
        (kv.1, .atom (.lit (match d.lo, d.hi with | some l, _ => l | none, some h => h | none, none => 0)))
      else kv
    | none => kv
  else kv

def placeGenOpH (f : Op → Op) : OpH → OpH
  | .base op => .base (f op)
  | op => op

def placeGenOp (ds : List (List PDecl)) : Op → Op
  | .set t p rhs => .set t p (placeGen ds t (p, rhs)).2
  | .setCls t p rhs => .setCls t p (placeGen ds t (p, rhs)).2
  | .update t kvs => .update t (kvs.map (placeGen ds t))
  | .ctxEnter t kvs => .ctxEnter t (kvs.map (placeGen ds t))
  | op => op

def jVal : Val → Json
  | .int n => toJson n
  | .tup l => Json.arr (l.map toJson).toArray
  | .nest l => Json.arr (l.map fun r => Json.arr (r.map toJson).toArray).toArray

def jAtom : Atom → Json
  | .lit n => Json.mkObj [("a", "lit"), ("n", toJson n)]
  | .par s i => Json.mkObj [("a", "par"), ("s", toJson s), ("i", toJson i)]
  | .fn deps k rx sk => Json.mkObj [("a", "fn"),
      ("deps", Json.arr (deps.map fun d => Json.arr #[toJson d.1, toJson d.2]).toArray), ("k", toJson k), ("rx", Json.bool rx),
      ("sk", match sk with | some b => toJson b | none => Json.null)]

def jRhs : Rhs → Json
  | .atom a => Json.mkObj [("k", "atom"), ("a", jAtom a)]
  | .cont items => Json.mkObj [("k", "cont"), ("items", Json.arr (items.map jAtom).toArray)]
  | .cont2 rows => Json.mkObj [("k", "cont2"), ("rows", Json.arr (rows.map fun r => Json.arr (r.map jAtom).toArray).toArray)]

def jList {α} (f : α → Json) (l : List α) : Json := Json.arr (l.map f).toArray

def jEntry (e : Entry) : Json :=
  Json.arr #[(match e.who with | .src => "s" | .tgt => "t"), toJson e.idx,
             jList (fun kv : Nat × Val => Json.arr #[toJson kv.1, jVal kv.2]) e.evs]

def stateFields (s : State) : List (String × Json) := [
  ("src", jList (jList (toJson : Int → Json)) s.src),
  ("tgt", jList (jList jVal) s.tgt),
  ("cls", jList (jList jVal) s.cls),
  ("refs", jList (jList fun kv : Nat × Rhs => Json.arr #[toJson kv.1, jRhs kv.2]) s.refs),
  ("watch", jList (jList (jList (toJson : Nat → Json))) s.watch),
  ("aux", jList (jList (toJson : Int → Json)) s.aux),
  ("own", jList (jList (toJson : Int → Json)) s.own)]

def jStep (o : StepObs) : Json :=
  Json.mkObj (stateFields o.st ++ [("err", match o.err with | some e => Json.str e | none => Json.null),
                                    ("log", jList jEntry o.log)])

def parseState (j : Json) : Except String State := do
  let ll {α} (f : Json → Except String α) (j : Json) : Except String (List α) := do (← j.getArr?).toList.mapM f
  return { src := ← ll (ll (·.getInt?)) (← j.getObjVal? "src"),
           tgt := ← ll (ll parseVal) (← j.getObjVal? "tgt"),
           cls := ← ll (ll parseVal) (← j.getObjVal? "cls"),
           refs := ← ll parseKvs (← j.getObjVal? "refs"),
           watch := ← ll (ll (ll (·.getNat?))) (← j.getObjVal? "watch"),
           aux := ← ll (ll (·.getInt?)) (← j.getObjVal? "aux"),
           own := ← ll (ll (·.getInt?)) (← j.getObjVal? "own") }

def parseEntry (j : Json) : Except String Entry := do
  let q ← j.getArr?
  if q.size != 3 then throw "log entry expected"
  let who ← match ← q[0]!.getStr? with | "s" => pure Who.src | "t" => pure Who.tgt | x => throw s!"who {x}"
  let evs ← (← q[2]!.getArr?).toList.mapM fun e => do
    let p ← e.getArr?
    return (← p[0]!.getNat?, ← parseVal p[1]!)
  return { who := who, idx := ← q[1]!.getNat?, evs := evs }

def parseStep (j : Json) : Except String StepObs := do
  return { st := ← parseState j, err := (getOpt j "err").bind (·.getStr?.toOption),
           log := ← (← getArr j "log").toList.mapM parseEntry }

/-- the model's run of a history: observations and branch tags -/
def runModel (c : Cfg) (h : HCfg) (aux own0 : List (List Int)) (w0 : World) (opsH : List OpH) : List StepObs × List String :=
  let (_, _, obs, br) := opsH.foldl (fun (acc : WorldH × List (List Int) × List StepObs × List String) opH =>
      let (wh, own, l, b) := acc
      let w := wh.w
      let op := forOracle opH
      let (r, wh', log) := stepH c h opH wh
      let w' := wh'.w
      let kind := match op with
        | .set t p rhs =>
          let linked := ((w.tgts[t]?).bind (dictGet ·.refs p)).isSome
          let isRef := !(depsOf rhs (nestedOf c t p)).isEmpty
          let sk := isRef && skipsRhs c w rhs (nestedOf c t p) && r == .ok
          "set:" ++ (if isRef then "ref" else "plain") ++ (if linked then ":linked" else ":free") ++ (if sk then ":skip" else "")
        | .setCls .. => "setCls" | .update .. => (match opH with | .lock .. => "lock" | _ => "update")
        | .ctxEnter .. => "ctxEnter" | .ctxExit => "ctxExit"
        | .srcSet .. => "srcSet:" ++ (if r != .ok then "sync" else if log.length > 1 then "synced" else "quiet")
      -- a class-level assignment that is accepted installs the (copied) Parameter in the class itself
      let own' := match op, r with
        | .setCls t p _, .ok => own.zipIdx.map fun (row, t') => if t' == t then row.set p 1 else row
        | _, _ => own
      let hooked := if log.length > 1 && !(hookTouched h.hooks (match op with | .set t _ _ | .update t _ | .ctxEnter t _ => t | _ => 0) log).isEmpty then ["hook:fired"] else []
      (wh', own', { st := { stateOf c w' with aux := aux, own := own' }, err := errName r, log := log } :: l, hooked ++
        (if kind.endsWith ":skip" then kind else kind ++ ":" ++ ((errName r).getD "ok")) :: b)) ({ w := w0, locked := [] }, own0, [], [])
  (obs.reverse, br)

def handle (req : Json) : Except String Json := do
  let case ← req.getObjVal? "case"
  let prop ← getStr case "prop"
  let nsp ← getNat case "nsp"
  let srcInit ← (← getArr case "src_init").toList.mapM fun r => do (← r.getArr?).toList.mapM (·.getInt?)
  let tds ← (← getArr case "targets").toList.mapM fun t => do
    let ds ← (← getArr t "params").toList.mapM parseDecl
    return (ds, ← parseKvs (← t.getObjVal? "ctor"))
  let ops0 ← (← getArr case "ops").toList.mapM parseOpH
  let hooks ← match getOpt case "hooks" with
    | some hs => (← hs.getArr?).toList.mapM parseHook
    | none => pure []
  let shared : List (Nat × Nat) ← (← getArr case "targets").toList.zipIdx.flatMapM fun (t, ti) => do
    let ps ← getArr t "params"
    return ps.toList.zipIdx.filterMap fun (pj, pi) =>
      match (getOpt pj "per_instance").bind (·.getBool?.toOption) with
      | some false => some (ti, pi)
      | _ => none
  let hcfg : HCfg := { hooks := hooks, shared := shared }
  let impl ← req.getObjVal? "impl"
  -- the harness stops a history with rx references at the first source update that raised (see refs_impl.py)
  let cut ← getNat impl "cut"
  let opsH := (ops0.take cut).map (placeGenOpH (placeGenOp (tds.map fun td => td.1.map (·.1))))
  let ops := opsH.map forOracle
  let c : Cfg := { F := fun k xs => k + xs.foldl (· + ·) 0, nsp := nsp, decls := tds.map fun td => td.1.map (·.1) }
  let w0 : World := { src := srcInit, watch := srcInit.map fun _ => [], tgts := [], stack := [] }
  -- construction
  let built : Res × World := tds.foldl (fun (acc : Res × World) td =>
      match acc with
      | (.ok, w) => construct c (td.1.map (·.2)) td.2 w
      | out => out) (.ok, w0)
  let optJ : Option String → Json := fun | some s => Json.str s | none => Json.null
  match built with
  | (.raised e, _) =>
    return Json.mkObj [
      ("model", Json.mkObj [("ctor_err", optJ (errName (.raised e))), ("init", Json.null), ("steps", Json.arr #[]), ("cut", toJson (0 : Nat))]),
      ("applicable", Json.bool false), ("checked_steps", toJson (0 : Nat)),
      ("spec_impl", Json.null), ("spec_model", Json.null), ("branches", Json.arr #[Json.str "ctor:raised"])]
  | (.ok, w1) =>
    -- what never moves (see `State.aux`): every target's Event parameter idle and `syncing` empty; the witness
    -- of the shared generator keeps whatever it showed after construction
    let dynRow : List (List Int) := match (getOpt impl "init").bind (fun i => (i.getObjVal? "aux").toOption) with
      | some a => match a.getArr? with
        | .ok arr => match arr.toList.getLast? with
          | some r => match r.getArr? with
            | .ok xs => [xs.toList.filterMap (·.getInt?.toOption)]
            | .error _ => []
          | none => []
        | .error _ => []
      | none => []
    let subCase := (getOpt case "sub").bind (·.getBool?.toOption) |>.getD false
    let constFlags (ds : List PDecl) : List Int := ds.map fun d => if d.constant || d.readonly then 1 else 0
    let aux0 : List (List Int) := ((tds.take w1.tgts.length).map fun td =>
      [0, 0, 0] ++ constFlags (td.1.map (·.1)) ++ constFlags (td.1.map (·.1)) ++ td.1.map (fun _ => 1) ++ [1, if subCase then 0 else 1, 1]) ++ dynRow
    let sub := (getOpt case "sub").bind (·.getBool?.toOption) |>.getD false
    let own0 : List (List Int) := tds.map fun td => td.1.map fun _ => if sub then 0 else 1
    if !hcfg.ok c then throw "hooks: a hook assigns the parameter it watches, or hooks chain"
    let (mSteps, branches) := runModel c hcfg aux0 own0 w1 opsH
    let mInit := { stateOf c w1 with aux := aux0, own := own0 }
    let unsupported := mSteps.any (fun o => o.err == some "unsupported")
    let implOk := (getOpt impl "ctor_err").isNone
    if !implOk then
      return Json.mkObj [
        ("model", Json.mkObj [("ctor_err", Json.null), ("init", Json.mkObj (stateFields mInit)), ("steps", jList jStep mSteps), ("cut", toJson cut)]),
        ("applicable", Json.bool false), ("checked_steps", toJson (0 : Nat)),
        ("spec_impl", Json.null), ("spec_model", Json.null), ("branches", jList Json.str branches)]
    let iInit ← parseState (← impl.getObjVal? "init")
    let iSteps ← (← getArr impl "steps").toList.mapM parseStep
    let same := decide (iInit = mInit) && decide (iSteps = mSteps)
    let (n, sImpl, sModel) ←
      if prop == "C08" then do
        let (n, vi) := specC08 c hooks iInit (ops.zip iSteps)
        let (_, vm) := specC08 c hooks mInit (ops.zip mSteps)
        -- a known finding is reported only on runs where code and model agree on everything observed
        let render : Option Verdict → Option String := fun
          | some (.hard w) => some w
          | some (.finding k w) => if same then some s!"finding:{k}: {w}" else none
          | none => none
        pure (n, render vi, render vm)
      else do
        let iTwin ← (← getArr impl "twin").toList.mapM parseStep
        let twinH : List OpH := (opsH.zip (twinOps c mInit (ops.zip mSteps))).map fun (oh, tw) =>
          match oh with | .lock .. => oh | .base _ => .base tw
        let (mTwin, _) := runModel c hcfg aux0 own0 w1 twinH
        let (n, vi) := specC02 c hooks iInit (ops.zip iSteps) iTwin
        let (_, vm) := specC02 c hooks mInit (ops.zip mSteps) mTwin
        pure (n, vi, vm)
    return Json.mkObj [
      ("model", Json.mkObj [("ctor_err", Json.null), ("init", Json.mkObj (stateFields mInit)), ("steps", jList jStep mSteps), ("cut", toJson cut)]),
      ("applicable", Json.bool (!unsupported)), ("checked_steps", toJson n),
      ("spec_impl", optJ sImpl), ("spec_model", optJ sModel), ("branches", jList Json.str branches)]

def main : IO Unit := serve handle
