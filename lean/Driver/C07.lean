import ParamVerif.Util.Proto
import ParamVerif.Depends.PathsSpec
open Lean ParamVerif ParamVerif.Proto ParamVerif.Depends

def strs (j : Json) : Except String (List String) := do
  (← j.getArr?).toList.mapM (·.getStr?)

def parseVal (j : Json) : Except String Val :=
  match j with
  | .null => pure .none
  | .obj _ => do return .ref (← getNat j "ref")
  | _ => do return .int (← j.getInt?)

def parseClassP (j : Json) : Except String PClass := do
  let methods ← (← getArr j "methods").toList.mapM fun m => do
    let specs ← (← getArr m "specs").toList.mapM fun s => do
      return ({ path := ← strs (← s.getObjVal? "path"), leaf := ← getStr s "leaf" } : PathSpec)
    let raises ← match getOpt m "raises" with
      | some r => (← r.getArr?).toList.mapM (·.getNat?)
      | none => pure []
    return ({ name := ← getStr m "name", specs := specs, raises := raises } : PMethod)
  return { objParams := ← strs (← j.getObjVal? "objParams"), intParams := ← strs (← j.getObjVal? "intParams"), methods := methods }

def parseStep (j : Json) : Except String Step := do
  match ← getStr j "op" with
  | "new" =>
    let vals ← (← getArr j "vals").toList.mapM fun kv => do
      let q ← kv.getArr?
      return (← q[0]!.getStr?, ← parseVal q[1]!)
    return .new (← getNat j "cls") vals
  | "set" => return .set (← getNat j "o") (← getStr j "p") (← parseVal (← j.getObjVal? "v"))
  | "update" =>
    let kvs ← (← getArr j "kvs").toList.mapM fun kv => do
      let q ← kv.getArr?
      return (← q[0]!.getStr?, ← parseVal q[1]!)
    return .update (← getNat j "o") kvs
  | "discard" =>
    let kvs ← (← getArr j "kvs").toList.mapM fun kv => do
      let q ← kv.getArr?
      return (← q[0]!.getStr?, ← parseVal q[1]!)
    return .discard (← getNat j "o") kvs
  | o => throw s!"unknown step {o}"

def jVal : Val → Json
  | .none => Json.null
  | .int i => toJson i
  | .ref _ => Json.str "obj"

def jStrs (l : List String) : Json := Json.arr (l.map Json.str).toArray
def dotted (p : List String) : String := ".".intercalate p

def jTables (w : PWorld) : Json :=
  Json.arr ((watcherRows w).map fun (o, q, x) =>
    Json.arr #[toJson o, Json.str q, toJson x.owner, Json.str x.method,
      Json.arr (x.changed.map fun (n, v) => Json.arr #[Json.str n, match v with | some ps => jStrs (ps.map dotted) | none => Json.null]).toArray,
      Json.bool x.callback.isSome, jStrs x.params]).toArray

def jDyn (w : PWorld) : Json :=
  Json.arr (w.objs.zipIdx.flatMap fun (ob, o) =>
    match w.classes[ob.cls]? with
    | none => []
    | some c => c.methods.map fun m =>
        Json.arr #[toJson o, Json.str m.name,
          Json.arr ((dynGet w.dyn (o, m.name)).filterMap fun i =>
            (w.watchers.find? (fun x => x.id = i)).map fun x => Json.arr #[toJson x.on, jStrs x.params]).toArray]).toArray

def jStepOk (w : PWorld) : Json := Json.mkObj [
  ("err", Json.null),
  ("calls", Json.arr (w.log.map fun c => Json.arr #[toJson c.owner, Json.str c.method, Json.arr (c.reads.map jVal).toArray]).toArray),
  ("watchers", jTables w), ("dyn", jDyn w), ("raised", Json.bool w.raised)]

def parseObsP (j : Json) : Except String (List PStepObs) := do
  (← getArr j "steps").toList.mapM fun s => do
    let err := (getOpt s "err").bind (fun e => e.getStr?.toOption)
    match err with
    | some e => return { err := some e, calls := [], watchers := [] }
    | none =>
      let calls ← (← getArr s "calls").toList.mapM fun c => do
        let q ← c.getArr?
        return (← q[0]!.getNat?, ← q[1]!.getStr?)
      let ws ← (← getArr s "watchers").toList.mapM fun x => do
        let q ← x.getArr?
        return ({ on := ← q[0]!.getNat?, param := ← q[1]!.getStr?, owner := ← q[2]!.getNat?, method := ← q[3]!.getStr? } : WObs)
      return { err := none, calls := calls, watchers := ws, raised := (getBool s "raised").toOption.getD false }

def handle (req : Json) : Except String Json := do
  let case ← req.getObjVal? "case"
  let classes ← (← getArr case "classes").toList.mapM parseClassP
  let steps ← (← getArr case "steps").toList.mapM parseStep
  let wf := wfClasses classes
  -- model run: stop at the first exception
  let results := runHistory (emptyWorld classes) steps
  let mSteps : List (Json × PStepObs) := results.map fun
    | .ok w' => (jStepOk w', obsOfWorld w')
    | .error e => (Json.mkObj [("err", Json.str (errNameP e))], { err := some (errNameP e), calls := [], watchers := [] })
  let model := Json.mkObj [("steps", Json.arr (mSteps.map (·.1)).toArray)]
  let impl ← req.getObjVal? "impl"
  let implObs ← parseObsP impl
  let (nImpl, sImpl) := if wf then specHistoryP classes 0 [] (steps.zip implObs) else (0, none)
  let sImpl := if sImpl.isSome && !(impl == model) then some ("model differs from implementation on an oracle-failing case: " ++ sImpl.getD "") else sImpl
  let (_, sModel0) := if wf then specHistoryP classes 0 [] (steps.zip (mSteps.map (·.2))) else (0, none)
  -- the model mirrors the code as written: where the specification fails on the implementation it
  -- may fail on the model too
  let sModel := if sImpl.isSome then none else sModel0
  let optJ : Option String → Json := fun | some s => Json.str s | none => Json.null
  let maxDepth := classes.foldl (fun a c => c.methods.foldl (fun a m => m.specs.foldl (fun a s => max a s.path.length) a) a) 0
  let branches : List String :=
    [s!"depth:{maxDepth}"] ++
    (if classes.any (fun c => c.methods.any (fun m => m.specs.length ≥ 2)) then ["deps:several"] else ["deps:one"]) ++
    (if classes.any (fun c => c.methods.any (fun m => m.specs.any (fun s => s.leaf == "param"))) then ["leaf:param"] else []) ++
    (if classes.any (fun c => c.methods.any (fun m => m.specs.any (fun s => c.objParams.contains s.leaf))) then ["leaf:object"] else []) ++
    (if mSteps.any (fun s => s.2.err.isSome) then ["step:error"] else []) ++
    (if impl == model then ["json:model-equals-impl"] else ["json:model-differs"]) ++
    (if mSteps.any (fun s => s.2.raised) then ["step:method-raised"] else []) ++
    (if steps.any (fun | .update _ _ => true | _ => false) then ["step:update"] else []) ++
    (if steps.any (fun | .discard _ _ => true | _ => false) then ["step:discard"] else []) ++
    (if mSteps.any (fun s => !s.2.calls.isEmpty) then ["fired"] else [])
  return Json.mkObj [("model", model), ("applicable", Json.bool wf),
    ("spec_impl", optJ sImpl), ("spec_model", optJ sModel), ("checked_steps", toJson nImpl),
    ("branches", jStrs branches)]

def main : IO Unit := serve handle
