import ParamVerif.Util.Proto
import ParamVerif.Store.ObjectsSpec
open Lean ParamVerif ParamVerif.Proto ParamVerif.Objects ParamVerif.Store

def ints (j : Json) : Except String (List Int) := do
  (← j.getArr?).toList.mapM (·.getInt?)
def nats (j : Json) : Except String (List Nat) := do
  (← j.getArr?).toList.mapM (·.getNat?)

def pairII (j : Json) : Except String (Int × Int) := do
  let a ← j.getArr?
  if a.size != 2 then throw "pair expected"
  return (← a[0]!.getInt?, ← a[1]!.getInt?)

def optPair (j : Json) (k : String) : Except String (Option (Int × Int)) :=
  match getOpt j k with
  | some v => do return some (← pairII v)
  | none => pure none

def parseLit (j : Json) : Except String Lit :=
  match j with
  | .null => pure .none
  | .str "pending" => pure .pending
  | .arr _ => do return .list (← ints j)
  | .obj _ => do return .tup (← (← getArr j "tup").toList.mapM ints)     -- a tuple of lists: {"tup": [[..], [..]]}
  | _ => do return .int (← j.getInt?)

def parseKind : String → Except String Kind
  | "plain" => pure .plain | "number" => pure .number | "selector" => pure .selector
  | k => throw s!"kind {k}"

def parseDecl (j : Json) : Except String Decl := do
  return { name := ← getNat j "name", kind := ← parseKind (← getStr j "kind"),
           default := ← parseLit (← j.getObjVal? "default"),
           instantiate := ← getBool j "inst", constant := ← getBool j "const",
           perInstance := ← getBool j "pi", checkOnSet := ← getBool j "cos",
           boundsTup := ← optPair j "btup", boundsList := ← optPair j "blist",
           objects := ← (match getOpt j "objects" with
                         | some o => do return some (← ints o)
                         | none => pure none),
           allowRefs := (getOpt j "refs").bind (·.getBool?.toOption) |>.getD false,
           readonly := (getOpt j "ro").bind (·.getBool?.toOption) |>.getD false,
           tags := ← (match getOpt j "tags" with
                      | some o => do return some (← ints o)
                      | none => pure none) }

def parseTarget (j : Json) : Except String Target := do
  let a ← j.getArr?
  if a.size != 2 then throw "target expected"
  match ← a[0]!.getStr? with
  | "cls" => return .cls (← a[1]!.getNat?)
  | "inst" => return .inst (← a[1]!.getNat?)
  | t => throw s!"target {t}"

def parseSlotSet (j : Json) : Except String SlotSet := do
  match j.getObjVal? "btup" with
  | .ok .null => return .boundsTup none
  | .ok v => return .boundsTup (some (← pairII v))
  | .error _ =>
  match getOpt j "blist" with
  | some v => let (lo, hi) ← pairII v; return .boundsList lo hi
  | none =>
  match getOpt j "objects" with
  | some v => return .objects (← ints v)
  | none =>
  match getOpt j "constant" with
  | some v => return .constant (← v.getBool?)
  | none => return .precedence (← getInt j "precedence")

def parseSlotMut (j : Json) : Except String SlotMut := do
  match getOpt j "objectsAppend" with
  | some v => return .objectsAppend (← v.getInt?)
  | none =>
  match getOpt j "namesInsert" with
  | some v => return .namesInsert (← v.getInt?)
  | none => return .boundsSetHi (← getInt j "boundsSetHi")

def parseOp (j : Json) : Except String Op := do
  match ← getStr j "op" with
  | "mkClass" => return .mkClass (← nats (← j.getObjVal? "mro")) (← (← getArr j "decls").toList.mapM parseDecl)
  | "mkInst" =>
    let kw ← (← getArr j "kwargs").toList.mapM fun p => do
      let a ← p.getArr?
      if a.size != 2 then throw "kwarg expected"
      return (← a[0]!.getNat?, ← parseLit a[1]!)
    return .mkInst (← getNat j "k") kw
  | "setVal" => return .setVal (← parseTarget (← j.getObjVal? "t")) (← getNat j "x") (← parseLit (← j.getObjVal? "v"))
  | "mutVal" => return .mutVal (← parseTarget (← j.getObjVal? "t")) (← getNat j "x") (← getInt j "v")
  | "mutItem" => return .mutItem (← parseTarget (← j.getObjVal? "t")) (← getNat j "x") (← getNat j "i") (← getInt j "v")
  | "access" => return .access (← getNat j "i") (← getNat j "x")
  | "slotSet" => return .slotSet (← parseTarget (← j.getObjVal? "t")) (← getNat j "x") (← parseSlotSet (← j.getObjVal? "s"))
  | "sharedFail" => return .sharedFail
  | "slotMut" => return .slotMut (← parseTarget (← j.getObjVal? "t")) (← getNat j "x") (← parseSlotMut (← j.getObjVal? "m"))
  | o => throw s!"unknown op {o}"

/-! observation <-> JSON -/

def jInts (l : List Int) : Json := Json.arr (l.map toJson).toArray
def jOpt {α : Type} (f : α → Json) : Option α → Json
  | some a => f a | none => Json.null
def jPair (p : Int × Int) : Json := Json.arr #[toJson p.1, toJson p.2]

def jVal : OVal → Json
  | .none => Json.null
  | .int n => toJson n
  | .cell c l => Json.mkObj [("c", toJson c), ("v", jInts l)]
  | .tup items => Json.mkObj [("t", Json.arr (items.map fun (c, l) => Json.mkObj [("c", toJson c), ("v", jInts l)]).toArray)]

def kindName : Kind → String
  | .plain => "plain" | .number => "number" | .selector => "selector"
def slotName : Slot → String
  | .bounds => "bounds" | .names => "names" | .objects => "objects" | .tags => "tags"
def jOwner : Owner → Json
  | .cls k => Json.arr #[Json.str "cls", toJson k]
  | .inst i => Json.arr #[Json.str "inst", toJson i]

def jP (p : OPObj) : Json := Json.mkObj [
  ("kind", Json.str (kindName p.kind)), ("owner", jOwner p.owner), ("default", jVal p.default),
  ("inst", Json.bool p.instantiate), ("const", Json.bool p.constant), ("pi", Json.bool p.perInstance),
  ("cos", Json.bool p.checkOnSet), ("refs", Json.bool p.allowRefs), ("ro", Json.bool p.readonly), ("prec", jOpt toJson p.precedence), ("btup", jOpt jPair p.boundsTup),
  ("ms", Json.arr (p.mslots.map fun (s, c, l) =>
      Json.arr #[Json.str (slotName s), Json.mkObj [("c", toJson c), ("v", jInts l)]]).toArray)]

def jNamed {α : Type} (f : α → Json) (l : List (Objects.Name × α)) : Json :=
  Json.arr (l.map fun (x, a) => Json.arr #[toJson x, f a]).toArray

def jInst (I : OInst) : Json := Json.mkObj [
  ("cls", toJson I.cls), ("values", jNamed jVal I.values), ("params", jNamed jP I.params), ("get", jNamed jVal I.get)]

def jSnap (s : Snap) : Json := Json.mkObj [
  ("err", jOpt Json.str s.err),
  ("classes", Json.arr (s.classes.map (jNamed jP)).toArray),
  ("insts", Json.arr (s.insts.map jInst).toArray)]

def pVal (j : Json) : Except String OVal :=
  match j with
  | .null => pure .none
  | .obj _ =>
    match getOpt j "t" with
    | some t => do
      return .tup (← (← t.getArr?).toList.mapM fun e => do pure (← getNat e "c", ← ints (← e.getObjVal? "v")))
    | none => do return .cell (← getNat j "c") (← ints (← j.getObjVal? "v"))
  | _ => do return .int (← j.getInt?)

def pSlot : String → Except String Slot
  | "bounds" => pure .bounds | "names" => pure .names | "objects" => pure .objects | "tags" => pure .tags
  | s => throw s!"slot {s}"

def pOwner (j : Json) : Except String Owner := do
  match ← parseTarget j with
  | .cls k => return .cls k
  | .inst i => return .inst i

def pP (j : Json) : Except String OPObj := do
  let ms ← (← getArr j "ms").toList.mapM fun e => do
    let a ← e.getArr?
    if a.size != 2 then throw "mslot expected"
    return (← pSlot (← a[0]!.getStr?), ← getNat a[1]! "c", ← ints (← a[1]!.getObjVal? "v"))
  return { kind := ← parseKind (← getStr j "kind"), owner := ← pOwner (← j.getObjVal? "owner"),
           default := ← pVal (← j.getObjVal? "default"), instantiate := ← getBool j "inst",
           constant := ← getBool j "const", perInstance := ← getBool j "pi", checkOnSet := ← getBool j "cos", allowRefs := ← getBool j "refs", readonly := ← getBool j "ro",
           precedence := (getOpt j "prec").bind (·.getInt?.toOption), boundsTup := ← optPair j "btup",
           mslots := ms }

def pNamed {α : Type} (f : Json → Except String α) (j : Json) : Except String (List (Objects.Name × α)) := do
  (← j.getArr?).toList.mapM fun e => do
    let a ← e.getArr?
    if a.size != 2 then throw "named pair expected"
    return (← a[0]!.getNat?, ← f a[1]!)

def pInst (j : Json) : Except String OInst := do
  return { cls := ← getNat j "cls", values := ← pNamed pVal (← j.getObjVal? "values"),
           params := ← pNamed pP (← j.getObjVal? "params"), get := ← pNamed pVal (← j.getObjVal? "get") }

def pSnap (j : Json) : Except String Snap := do
  return { err := (getOpt j "err").bind (·.getStr?.toOption),
           classes := ← (← getArr j "classes").toList.mapM (pNamed pP),
           insts := ← (← getArr j "insts").toList.mapM pInst }

def errName : Err → String
  | .valueError => "ValueError" | .typeError => "TypeError" | .attributeError => "AttributeError"
  | .unsupported => "unsupported"

def targetTag : Target → String
  | .cls _ => "cls" | .inst _ => "inst"

def opTag (w : World) : Op → String
  | .mkClass mro _ => if mro.isEmpty then "mkClass:root" else "mkClass:sub"
  | .mkInst _ kw => if kw.any (·.2.isPending) then "mkInst:pending-ref" else if kw.isEmpty then "mkInst:plain" else "mkInst:kwargs"
  | .setVal (.cls k) x _ =>
    match w.resolve k x with
    | some (k', _) => if k' = k then "setVal:cls:own" else "setVal:cls:copy-on-write"
    | none => "setVal:cls:?"
  | .setVal (.inst i) x _ =>
    match w.inst? i with
    | some I => if (aget I.params x).isSome then "setVal:inst:has-copy" else "setVal:inst:first-touch"
    | none => "setVal:inst:?"
  | .mutVal t _ _ => s!"mutVal:{targetTag t}"
  | .mutItem t _ _ _ => s!"mutItem:{targetTag t}"
  | .access i x =>
    match w.inst? i with
    | some I =>
      if (aget I.params x).isSome then "access:existing"
      else match w.resolve I.cls x with
        | some (_, P) => if P.perInstance then "access:creates-copy" else "access:shared-per_instance=False"
        | none => "access:?"
    | none => "access:?"
  | .slotSet t _ s =>
    let sn := match s with
      | .boundsTup _ => "boundsTup" | .boundsList .. => "boundsList" | .objects _ => "objects"
      | .constant _ => "constant" | .precedence _ => "precedence"
    s!"slotSet:{targetTag t}:{sn}"
  | .slotMut t _ m =>
    let mn := match m with
      | .objectsAppend _ => "objectsAppend" | .namesInsert _ => "namesInsert" | .boundsSetHi _ => "boundsSetHi"
    s!"slotMut:{targetTag t}:{mn}"
  | .sharedFail => "sharedFail"

/-- instances are named in a case by *creation attempt*; a failed construction uses up a number -/
def mapTarget (amap : List (Option Nat)) : Target → Option Target
  | .cls k => some (.cls k)
  | .inst a => match amap[a]? with
    | some (some i) => some (.inst i)
    | _ => none

def translate (amap : List (Option Nat)) : Op → Option Op
  | .setVal t x v => (mapTarget amap t).map (.setVal · x v)
  | .mutVal t x n => (mapTarget amap t).map (.mutVal · x n)
  | .mutItem t x i n => (mapTarget amap t).map (.mutItem · x i n)
  | .access a x => match mapTarget amap (.inst a) with
    | some (.inst i) => some (.access i x)
    | _ => none
  | .slotSet t x s => (mapTarget amap t).map (.slotSet · x s)
  | .slotMut t x m => (mapTarget amap t).map (.slotMut · x m)
  | op => some op

structure DAcc where
  w : World := World.empty
  amap : List (Option Nat) := []
  prev : Snap := snapOf World.empty none
  snaps : List Snap := []            -- reversed
  live : List (Option Op) := []      -- reversed: translated op, none = skipped
  branches : List String := []

def handle (req : Json) : Except String Json := do
  let case ← req.getObjVal? "case"
  let ops ← (← getArr case "ops").toList.mapM parseOp
  -- model run
  let acc ← ops.foldlM (fun (a : DAcc) op0 => do
      match translate a.amap op0 with
      | none =>
        let sn := { a.prev with err := some "NoInstance" }
        pure { a with snaps := sn :: a.snaps, live := none :: a.live, branches := "skipped:no-instance" :: a.branches }
      | some op =>
        let (w', e) := step a.w op
        if e = some .unsupported then throw s!"operation outside the modelled fragment: {repr op}"
        let tag := opTag a.w op ++ (match e with | some e => ":" ++ errName e | none => ":ok")
        let sn := snapOf w' (e.map errName)
        let amap' := match op with
          | .mkInst .. => a.amap ++ [if e.isNone then some (w'.insts.length - 1) else none]
          | _ => a.amap
        pure { w := w', amap := amap', prev := sn, snaps := sn :: a.snaps, live := some op :: a.live,
               branches := tag :: a.branches })
    {}
  let modelSteps := acc.snaps.reverse
  let live := acc.live.reverse
  let impl ← req.getObjVal? "impl"
  let implSteps ← (← getArr impl "steps").toList.mapM pSnap
  let hist (steps : List Snap) : List (Op × Snap) :=
    (live.zip steps).filterMap fun (o, s) => o.map fun op => (op, s)
  let s0 := snapOf World.empty none
  let (nImpl, sImpl) := specHistory s0 (hist implSteps) 0
  let (_, sModel) := specHistory s0 (hist modelSteps) 0
  let optJ : Option String → Json := fun | some s => Json.str s | none => Json.null
  return Json.mkObj [
    ("model", Json.mkObj [("steps", Json.arr (modelSteps.map jSnap).toArray)]),
    ("applicable", Json.bool true),
    ("checked_steps", toJson nImpl),
    ("spec_impl", optJ sImpl), ("spec_model", optJ sModel),
    ("branches", Json.arr (acc.branches.reverse.map Json.str).toArray)]

def main : IO Unit := serve handle
