import ParamVerif.Util.Proto
import ParamVerif.Store.InheritSpec
open Lean ParamVerif ParamVerif.Proto ParamVerif.Inherit

/-! JSON-lines driver for C11: runs the model of `__param_inheritance` on a
hierarchy and evaluates the declarative specification on what the
implementation was observed to do. -/

def parseAtom (j : Json) : Except String Atom :=
  match j with
  | .null => .ok .pyNone
  | .bool b => .ok (.bool b)
  | .str s => .ok (.str s)
  | .num _ => do return .int (← j.getInt?)
  | .obj _ =>
    match getOpt j "f", getOpt j "c" with
    | some f, _ => do return .float (← f.getInt?)
    | _, some c => do return .cls (← c.getStr?)
    | _, _ => .error s!"atom expected: {j.compress}"
  | _ => .error s!"atom expected: {j.compress}"

def parseV (j : Json) : Except String PyV :=
  match getOpt j "t", getOpt j "l", getOpt j "d" with
  | some t, _, _ => do return .tuple (← (← t.getArr?).toList.mapM parseAtom)
  | _, some l, _ => do return .list (← (← l.getArr?).toList.mapM parseAtom)
  | _, _, some d => do
    return .dict (← (← d.getArr?).toList.mapM fun p => do
      let q ← p.getArr?
      if q.size != 2 then throw "pair expected"
      return (← q[0]!.getStr?, ← parseAtom q[1]!))
  | _, _, _ => do return .atom (← parseAtom j)

def slotOfIdx (n : Nat) : Except String Slot :=
  match slotOrder[n]? with
  | some s => .ok s
  | none => .error s!"slot index {n}"

def parseIdent (s : String) : Except String Inherit.Ident :=
  match s.toList with
  | ['a'] => .ok .atom
  | 'o' :: r => match (String.ofList r).toNat? with | some n => .ok (.obj n) | none => .error s!"ident {s}"
  | 't' :: r => match (String.ofList r).toNat? with | some n => .ok (.tdef n) | none => .error s!"ident {s}"
  | 'f' :: r =>
    match ((String.ofList r).splitOn ".").map String.toNat? with
    | [some a, some b, some c, some d] => .ok (.fresh a b c d)
    | _ => .error s!"ident {s}"
  | _ => .error s!"ident {s}"

def identStr : Inherit.Ident → String
  | .atom => "a"
  | .obj n => s!"o{n}"
  | .tdef n => s!"t{n}"
  | .fresh a b c d => s!"f{a}.{b}.{c}.{d}"

/-- a constructor argument `{"id": n, "v": value}`; id 0 = no identity of its own (atomic) -/
def parseArg (j : Json) : Except String Val := do
  let v ← parseV (← j.getObjVal? "v")
  let n ← getNat j "id"
  return ⟨if n == 0 then .atom else .obj n, v⟩

/-- an observed slot value `{"v": value, "i": label}` -/
def parseObsVal (j : Json) : Except String Val := do
  return ⟨← parseIdent (← getStr j "i"), ← parseV (← j.getObjVal? "v")⟩

def parsePType (s : String) : Except String PType :=
  match s with
  | "Parameter" => .ok .parameter | "Number" => .ok .number | "Integer" => .ok .integer
  | "String" => .ok .string | "Tuple" => .ok .tuple | "List" => .ok .list | "Selector" => .ok .selector
  | _ => .error s!"ptype {s}"

def ptypeStr : PType → String
  | .parameter => "Parameter" | .number => "Number" | .integer => "Integer" | .string => "String"
  | .tuple => "Tuple" | .list => "List" | .selector => "Selector"

def slotOfName (s : String) : Except String Slot :=
  match slotOrder.find? (fun t => slotName t == s) with
  | some t => .ok t
  | none => .error s!"slot {s}"

def slotsOfList (l : List (Slot × Val)) : Slots := fun s =>
  (l.find? (·.1 == s)).map (·.2)

def parseDecl (j : Json) : Except String (Nat × Decl) := do
  let name ← getNat j "name"
  let T ← parsePType (← getStr j "ptype")
  let args ← match ← j.getObjVal? "args" with
    | .obj kvs => kvs.toList.mapM fun (k, v) => do return (← slotOfName k, ← parseArg v)
    | _ => throw "args: object expected"
  let inst := (getOpt j "instantiate").bind fun b => b.getBool?.toOption
  return (name, { ptype := T, args := slotsOfList args, instantiate := inst })

def nats (j : Json) : Except String (List Nat) := do
  (← j.getArr?).toList.mapM (·.getNat?)

def parseOp (j : Json) : Except String Op := do
  match ← getStr j "op" with
  | "declare" =>
    return .declare (← getNat j "cls") (← nats (← j.getObjVal? "mro"))
      (← (← getArr j "decls").toList.mapM parseDecl)
  | "add" =>
    let (n, d) ← parseDecl (← j.getObjVal? "decl")
    return .addParam (← getNat j "cls") n d
  | o => throw s!"unknown op {o}"

def parseParam (j : Json) : Except String (Nat × Param) := do
  let name ← getNat j "name"
  let T ← parsePType (← getStr j "ptype")
  let arr ← getArr j "slots"
  if arr.size != slotOrder.length then throw "slots: wrong length"
  let vals ← (arr.toList.zip slotOrder).filterMapM fun (v, s) =>
    match v with
    | .null => pure none
    | v => do return some (s, ← parseObsVal v)
  return (name, { ptype := T, slots := slotsOfList vals, instantiate := ← getBool j "inst" })

def parseStep (j : Json) : Except String ObsStep := do
  let out ← getStr j "outcome"
  let parts := out.splitOn ":"
  let status := parts.headD ""
  let failIdx := ((parts[1]?).bind String.toNat?).getD 0
  return { status := status, failIdx := failIdx,
           installed := ((getOpt j "installed").bind fun b => b.getBool?.toOption).getD false,
           raws := ← (← getArr j "raws").toList.mapM parseParam,
           held := ← (← getArr j "held").toList.mapM parseParam }

-- ---------------------------------------------------------------- output

def jAtom : Atom → Json
  | .pyNone => .null
  | .bool b => .bool b
  | .int n => toJson n
  | .float t => Json.mkObj [("f", toJson t)]
  | .str s => .str s
  | .cls c => Json.mkObj [("c", .str c)]

def jV : PyV → Json
  | .atom a => jAtom a
  | .tuple l => Json.mkObj [("t", Json.arr (l.map jAtom).toArray)]
  | .list l => Json.mkObj [("l", Json.arr (l.map jAtom).toArray)]
  | .dict l => Json.mkObj [("d", Json.arr (l.map fun (k, a) => Json.arr #[.str k, jAtom a]).toArray)]

def jVal (v : Val) : Json :=
  Json.mkObj [("v", jV v.v), ("i", .str (if v.v.isAtomic then "a" else identStr v.id))]

def jParam (name : Nat) (p : Param) (extra : List (String × Json) := []) : Json :=
  Json.mkObj ([("name", toJson name), ("ptype", .str (ptypeStr p.ptype)), ("inst", .bool p.instantiate),
    ("slots", Json.arr (slotOrder.map fun s =>
        if hasSlot p.ptype s then (match p.slots s with | some v => jVal v | none => .null) else .null).toArray)] ++ extra)

def errStr : ErrKind → String
  | .valueError => "ValueError" | .typeError => "TypeError" | .keyError => "KeyError" | .unsupported => "unsupported"

def outcomeStr : StepOutcome → String
  | .ok => "ok"
  | .skipped => "skipped"
  | .ctorError i e => s!"ctor:{i}:{errStr e}"
  | .mergeError i o =>
    match o with
    | .invalid e => s!"merge:{i}:RuntimeError/{errStr e}"
    | .callableError => s!"merge:{i}:TypeError"
    | .keyError => s!"merge:{i}:KeyError"
    | .unsupported => s!"merge:{i}:unsupported"
    | .ok => s!"merge:{i}:ok"

def jStep (op : Op) (o : StepObs) : Json :=
  let (mro, installed) : Json × Json := match op, o.outcome with
    | .declare _ m _, .ok => (toJson m, .null)
    | .addParam .., .ok => (.null, .bool true)
    | .addParam .., .mergeError .. => (.null, .bool false)
    | _, _ => (.null, .null)
  Json.mkObj [("outcome", .str (outcomeStr o.outcome)), ("mro", mro), ("installed", installed),
    ("raws", Json.arr (o.raws.map fun (n, p) => jParam n p).toArray),
    ("held", Json.arr (o.merged.map fun (n, r) => jParam n r.param).toArray)]

/-- owner class of the Parameter `Cls.param[name]` resolves to -/
def resolveOwner (w : World) (cls name : Nat) : Option Nat :=
  match w.mro cls with
  | some m => m.find? fun c => (w.params c name).isSome
  | none => none

def jFinal (w : World) (nClasses nNames : Nat) : Json :=
  Json.arr ((List.range nClasses).filterMap fun c =>
    match w.mro c with
    | none => none
    | some _ => some (Json.mkObj [("cls", toJson c),
        ("params", Json.arr ((List.range nNames).map fun n =>
          match w.resolve c n, resolveOwner w c n with
          | some p, some k => jParam n p [("owner", toJson k)]
          | _, _ => .null).toArray)])).toArray

def paramEq (p q : Param) : Bool :=
  p.ptype == q.ptype && p.instantiate == q.instantiate &&
  slotOrder.all fun s => !hasSlot p.ptype s ||
    (match p.slots s, q.slots s with
     | some a, some b => a.v == b.v && (a.v.isAtomic || a.id == b.id)
     | none, none => true
     | _, _ => false)

/-- the final `Cls.param[name]` of every class is the Parameter last merged for the
nearest declaring class: later operations changed nothing else -/
def frameCheck (w : World) (final : Json) (nNames : Nat) : Except String (Option String) := do
  for cj in (← final.getArr?).toList do
    let c ← getNat cj "cls"
    let ps ← getArr cj "params"
    for n in List.range nNames do
      let pj := ps[n]?.getD .null
      match pj, w.resolve c n with
      | .null, none => pure ()
      | .null, some _ => return some s!"class {c}: param[p{n}] missing in the end"
      | _, none => return some s!"class {c}: param[p{n}] appeared from nowhere"
      | pj, some p =>
        let (_, q) ← parseParam pj
        if !paramEq p q then
          return some s!"class {c}: param[p{n}] is not the Parameter merged for the nearest declaring class (changed behind the scenes)"
  return none

def opClass : Op → Nat
  | .declare c .. => c
  | .addParam c .. => c

def branchesOf (ops : List Op) (obs : List StepObs) : List String :=
  (ops.zip obs).flatMap fun (op, o) =>
    let kind := match op with | .declare .. => "declare" | .addParam .. => "add"
    let st := match o.outcome with
      | .ok => "ok" | .skipped => "skipped" | .ctorError .. => "ctorError"
      | .mergeError _ (.invalid .valueError) => "invalid:ValueError"
      | .mergeError _ (.invalid .typeError) => "invalid:TypeError"
      | .mergeError _ .callableError => "callableError"
      | .mergeError .. => "mergeError:other"
    s!"{kind}:{st}" :: o.merged.flatMap fun (_, r) =>
      [s!"merge:{ptypeStr r.param.ptype}",
       (if r.typeChange then "type_change" else "same_type"),
       (if r.overridden then "slot_overridden" else "not_overridden"),
       (if r.revalidated then "revalidated" else "not_revalidated")] ++
      (if r.revalidated && r.outcome == .ok then ["revalidated:ok"] else []) ++
      (if !r.typeChange && r.overridden && !r.revalidated then ["overridden_but_None_default"] else [])

def handle (req : Json) : Except String Json := do
  let case ← req.getObjVal? "case"
  let nNames ← getNat case "names"
  let rxTbl ← (← getArr case "rx").toList.mapM fun e => do
    let q ← e.getArr?
    if q.size != 3 then throw "rx triple expected"
    return ((← q[0]!.getStr?, ← q[1]!.getStr?), ← q[2]!.getBool?)
  let rx : String → String → Bool := fun r s => ((rxTbl.find? (·.1 == (r, s))).map (·.2)).getD false
  let ops ← (← getArr case "ops").toList.mapM parseOp
  let nClasses := (ops.map opClass).foldl max 0 + 1
  -- model
  let (w, obs) := run rx ops 0 World.empty []
  let unsupported := obs.any fun o => match o.outcome with
    | .mergeError _ .unsupported => true | .ctorError _ .unsupported => true | _ => false
  if unsupported then throw "case outside the modelled fragment (generator defect)"
  let model := Json.mkObj [("steps", Json.arr ((ops.zip obs).map fun (op, o) => jStep op o).toArray),
                           ("final", jFinal w nClasses nNames)]
  -- oracle on the implementation's observation
  let impl ← req.getObjVal? "impl"
  let specOn (o : Json) : Except String (Nat × Option String) := do
    let steps ← (← getArr o "steps").toList.mapM parseStep
    if steps.length != ops.length then throw "steps: wrong length"
    let hist := ops.zip steps
    match specHistory rx World.empty hist 0 0 with
    | (n, some why) => return (n, some why)
    | (n, none) =>
      let fw := obsWorld World.empty hist
      return (n, ← frameCheck fw (← o.getObjVal? "final") nNames)
  let (nImpl, sImpl) ← specOn impl
  let (_, sModel) ← specOn model
  let optJ : Option String → Json := fun | some s => Json.str s | none => Json.null
  return Json.mkObj [
    ("model", model),
    ("applicable", Json.bool (nImpl > 0)),
    ("checked_steps", toJson nImpl),
    ("spec_impl", optJ sImpl), ("spec_model", optJ sModel),
    ("branches", Json.arr ((branchesOf ops obs).map Json.str).toArray)]

def main : IO Unit := serve handle
