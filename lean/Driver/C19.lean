import ParamVerif.Util.Proto
import ParamVerif.TimeDyn.Spec
open Lean ParamVerif ParamVerif.Proto ParamVerif.TimeDyn

/-- driver instantiation of the opaque functions: values are symbolic keys -/
def symEnv : Env String (String × Nat) String :=
  { -- numbergen Hash._rational: numerator and denominator enter the digest modulo 2**32
    hash := fun n s t => s!"td|{n}|{s}|{t.num % 4294967296}/{t.den % 4294967296}", reseed := fun h => (h, 0),
    next := fun st => (s!"{st.1}#{st.2}", (st.1, st.2 + 1)), init := fun sid => (s!"st|{sid}", 0) }

def parseKind (j : Json) : Except String GenKind := do
  let a ← j.getArr?
  match ← a[0]!.getStr? with
  | "td" => return .td (← a[1]!.getStr?) (← a[2]!.getInt?)
  | "sm" => return .sampled (← a[1]!.getStr?) (← a[2]!.getInt?) (← a[3]!.getInt?) (← a[4]!.getInt?)
  | "st" => return .stream (← a[1]!.getNat?)
  | k => throw s!"unknown generator kind {k}"

/-- a time: an integer, or `[numerator, denominator]` -/
def parseTime (j : Json) : Except String TimeV := do
  match j with
  | .arr a => return mkRat (← a[0]!.getInt?) (← a[1]!.getNat?)
  | x => return ((← x.getInt?) : Int)

def jTime (t : TimeV) : Json := Json.arr #[toJson t.num, toJson t.den]

def parseTT : String → Except String TimeType
  | "int" => pure .int
  | "frac" => pure .frac
  | x => throw s!"unknown time type {x}"

def parseFail (j : Json) : Except String (Option (Nat × Exc)) := do
  match getOpt j "fail" with
  | none => return none
  | some f =>
    let a ← f.getArr?
    let e ← match ← a[1]!.getStr? with
      | "StopIteration" => pure Exc.stopIteration
      | "KeyError" => pure Exc.userError
      | x => throw s!"unknown exception {x}"
    return some (← a[0]!.getNat?, e)

def parseSrc (j : Json) : Except String Src := do
  match getOpt j "fresh", getOpt j "existing", getOpt j "const" with
  | some k, _, _ => return .fresh (← parseKind k) (← parseFail j) ((getOpt j "tf").bind (·.getBool?.toOption) |>.getD false)
  | _, some g, _ => return .existing (← g.getNat?)
  | _, _, some v => return .const (← v.getInt?)
  | _, _, _ => throw "bad src"

def parseTarget (j : Json) : Except String Target := do
  let i ← j.getInt?
  return if i < 0 then .cls else .inst i.toNat

def parseExc : String → Except String Exc
  | "StopIteration" => pure .stopIteration
  | "KeyError" => pure .userError
  | e => throw s!"unknown exception {e}"

partial def parseOp (j : Json) : Except String Op := do
  match ← getStr j "op" with
  | "setTime" => return .setTime (← parseTime (← j.getObjVal? "t"))
  | "setTimeType" => return .setTimeType (← parseTime (← j.getObjVal? "t")) (← parseTT (← getStr j "tt"))
  | "advance" => return .advance (← parseTime (← j.getObjVal? "d"))
  | "setStep" => return .setStep (← getInt j "s")
  | "setUntil" => return .setUntil ((getOpt j "u").bind (·.getInt?.toOption))
  | "read" => return .read (← parseTarget (← j.getObjVal? "tg")) (← getNat j "p")
  | "inspect" => return .inspect (← parseTarget (← j.getObjVal? "tg")) (← getNat j "p")
  | "force" => return .force (← parseTarget (← j.getObjVal? "tg")) (← getNat j "p")
  | "push" => return .push (← getNat j "i")
  | "pop" => return .pop (← getNat j "i")
  | "assign" => return .assign (← parseTarget (← j.getObjVal? "tg")) (← getNat j "p") (← parseSrc (← j.getObjVal? "src"))
  | "newInst" => return .newInst
  | "ctx" => return .ctx (← (← getArr j "body").toList.mapM parseOp)
  | "raise" => return .raise (← parseExc (← getStr j "e"))
  | o => throw s!"unknown op {o}"

def excName : Exc → String
  | .stopIteration => "StopIteration" | .userError => "KeyError" | .indexError => "IndexError"
  | .valueError => "ValueError" | .malformed => "MALFORMED"

def ovOfOpt : Option String → OV
  | none => .none
  | some s => .sym s

def oresOf : Res String → ORes
  | .ok .unit => .ok .unit
  | .ok (.val v) => .ok (ovOfOpt v)
  | .ok (.const v) => .ok (.const v)
  | .raised e => .raised (excName e)

def oevOf (e : Ev String) : OEv :=
  { tag := e.tag, res := oresOf e.res, clock := e.clock,
    caches := e.caches.map fun (l, t, n) => (ovOfOpt l, t, n, n),
    touched := e.touched, gens := e.gens }

-- JSON encodings (same shape for the implementation's and the model's observation)
def jOV : OV → Json
  | .none => Json.null
  | .num n d => Json.arr #[Json.str "r", toJson n, toJson d]
  | .sym s => Json.arr #[Json.str "sym", Json.str s]
  | .const v => Json.arr #[Json.str "c", toJson v]
  | .unit => Json.arr #[Json.str "u"]

def jRes : ORes → Json
  | .ok v => Json.mkObj [("ok", jOV v)]
  | .raised e => Json.mkObj [("raised", Json.str e)]

def jOptInt : Option Int → Json
  | none => Json.null
  | some i => toJson i

def jSnap (s : Snap) : Json :=
  Json.arr #[jTime s.time, toJson s.timestep, jOptInt s.untl, toJson s.depth,
    (match s.inContext with | none => Json.null | some b => Json.bool b),
    Json.str (match s.timeType with | .int => "int" | .frac => "frac")]

def jKind : GenKind → Json
  | .td n s => Json.arr #[Json.str "td", Json.str n, toJson s]
  | .sampled n s p o => Json.arr #[Json.str "sm", Json.str n, toJson s, toJson p, toJson o]
  | .stream sid => Json.arr #[Json.str "st", toJson sid]

def jCaches (c : List (OV × Option TimeV × Nat × Nat)) : Json :=
  Json.arr (c.map fun (l, t, n1, n2) => Json.arr #[jOV l, (match t with | some x => jTime x | none => Json.null), toJson n1, toJson n2]).toArray

def jEv (e : OEv) : Json := Json.mkObj [
  ("tag", Json.str e.tag), ("res", jRes e.res), ("clock", jSnap e.clock), ("caches", jCaches e.caches),
  ("touched", match e.touched with
     | none => Json.null
     | some t => Json.arr #[toJson t.g, jKind t.kind, Json.bool t.own]),
  ("gens", Json.arr (e.gens.map toJson).toArray)]

def parseOV (j : Json) : Except String OV := do
  match j with
  | .null => return .none
  | _ =>
    let a ← j.getArr?
    match ← a[0]!.getStr? with
    | "r" => return .num (← a[1]!.getInt?) (← a[2]!.getNat?)
    | "sym" => return .sym (← a[1]!.getStr?)
    | "c" => return .const (← a[1]!.getInt?)
    | "u" => return .unit
    | k => throw s!"bad value tag {k}"

def parseRes (j : Json) : Except String ORes := do
  match getOpt j "raised" with
  | some e => return .raised (← e.getStr?)
  | none => return .ok (← parseOV (← j.getObjVal? "ok"))

def parseSnap (j : Json) : Except String Snap := do
  let a ← j.getArr?
  return { time := ← parseTime a[0]!, timeType := ← parseTT (← a[5]!.getStr?), timestep := ← a[1]!.getInt?,
           untl := match a[2]! with | .null => none | x => x.getInt?.toOption,
           depth := ← a[3]!.getNat?,
           inContext := match a[4]! with | .null => none | x => x.getBool?.toOption }

def parseCaches (j : Json) : Except String (List (OV × Option TimeV × Nat × Nat)) := do
  (← j.getArr?).toList.mapM fun c => do
    let a ← c.getArr?
    let t ← match a[1]! with
      | .null => pure none
      | x => do pure (some (← parseTime x))
    return (← parseOV a[0]!, t, ← a[2]!.getNat?, ← a[3]!.getNat?)

def parseEv (j : Json) : Except String OEv := do
  let touched ← match getOpt j "touched" with
    | none => pure none
    | some t => do
      let a ← t.getArr?
      pure (some { g := ← a[0]!.getNat?, kind := ← parseKind a[1]!, own := (a[2]?.bind (·.getBool?.toOption)).getD false : Touched })
  return { tag := ← getStr j "tag", res := ← parseRes (← j.getObjVal? "res"),
           clock := ← parseSnap (← j.getObjVal? "clock"), caches := ← parseCaches (← j.getObjVal? "caches"),
           touched := touched, gens := ← (← getArr j "gens").toList.mapM (·.getNat?) }

def handle (req : Json) : Except String Json := do
  let case ← req.getObjVal? "case"
  let dynTD ← getBool case "dynTD"
  let params ← getArr case "params"
  let ptypes ← params.toList.mapM fun p => do
    match ← getStr p "ptype" with
    | "dynamic" => pure PType.dynamic
    | "number" => pure PType.number
    | "plain" => pure PType.dynamic   -- a non-Dynamic Parameter holding a number behaves like a Dynamic one holding it
    | t => throw s!"unknown ptype {t}"
  let defaults ← params.toList.mapM fun p => do parseSrc (← p.getObjVal? "default")
  let ops ← (← getArr case "ops").toList.mapM parseOp
  -- the class statement: every default goes through Dynamic.__init__ -> _initialize_generator
  let wEmpty : World (String × Nat) String :=
    { dynTD := dynTD, clock := Clock.init, gens := [], ptypes := ptypes,
      defaults := ptypes.map fun _ => .const 0, insts := [] }
  let (w0, _) ← (defaults.foldlM (fun (acc : World (String × Nat) String × Nat) src =>
      match assignSlot acc.1 .cls acc.2 src with
      | (.ok _, w') => pure (w', acc.2 + 1)
      | (.raised _, _) => throw "malformed class declaration") (wEmpty, 0) : Except String _)
  let initEv : OEv := { tag := "init", res := .ok .unit, clock := w0.clock.snap,
                        caches := (cachesOf w0).map fun (l, t, n) => (ovOfOpt l, t, n, n),
                        touched := none, gens := [] }
  let evs := (traceOps symEnv ops w0).map oevOf
  let (r, wf) := runOps symEnv ops w0
  -- oracle
  let impl ← req.getObjVal? "impl"
  let implInit ← parseEv (← impl.getObjVal? "init")
  let implEvs ← (← getArr impl "events").toList.mapM parseEv
  let (nImpl, sImpl) := specTrace dynTD implInit implEvs
  let (_, sModel) := specTrace dynTD initEv evs
  let optJ : Option String → Json := fun | some s => Json.str s | none => Json.null
  let branches := (evs.map fun e =>
      let kind := (e.tag.splitOn ":").headD ""
      let what := match e.touched, e.res with
        | some { g := _, kind := .td _ _, own := _ }, .ok .none => ":td:placeholder"
        | some { g := _, kind := .td _ _, own := _ }, .ok _ => ":td"
        | some { g := _, kind := .sampled _ _ _ _, own := _ }, .ok .none => ":sm:placeholder"
        | some { g := _, kind := .sampled _ _ _ _, own := _ }, .ok _ => ":sm"
        | some { g := _, kind := .stream _, own := _ }, .ok .none => ":st:placeholder"
        | some { g := _, kind := .stream _, own := _ }, .ok _ => ":st"
        | _, .raised e => s!":raised:{e}"
        | _, .ok (.const _) => ":const"
        | _, _ => ""
      kind ++ what).eraseDups
  return Json.mkObj [
    ("model", Json.mkObj [("init", jEv initEv), ("events", Json.arr (evs.map jEv).toArray),
      ("outcome", jRes (oresOf r)), ("final_clock", jSnap wf.clock.snap)]),
    ("applicable", Json.bool true),
    ("checked_steps", toJson nImpl),
    ("spec_impl", optJ sImpl), ("spec_model", optJ sModel),
    ("branches", Json.arr (branches.map Json.str).toArray)]

def main : IO Unit := serve handle
