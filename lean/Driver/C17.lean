import ParamVerif.Util.Proto
import ParamVerif.Store.CopySpec
open Lean ParamVerif ParamVerif.Proto ParamVerif.Copy

def ints (j : Json) : Except String (List Int) := do
  (← j.getArr?).toList.mapM (·.getInt?)
def strs (j : Json) : Except String (List String) := do
  (← j.getArr?).toList.mapM (·.getStr?)

def optPair (j : Json) (k : String) : Except String (Option (Int × Int)) :=
  match getOpt j k with
  | some v => do
    let a ← v.getArr?
    if a.size != 2 then throw "pair expected"
    return some (← a[0]!.getInt?, ← a[1]!.getInt?)
  | none => pure none

def parseClass (j : Json) : Except String ClassDef := do
  let params ← (← getArr j "params").toList.mapM fun p => do
    let d : DVal ← match p.getObjVal? "default" with
      | .ok .null => pure DVal.none
      | .ok (.arr a) => do pure (DVal.list (← a.toList.mapM (·.getInt?)))
      | .ok v => do pure (DVal.int (← v.getInt?))
      | .error e => throw e
    let sel : SelKind ← match getOpt p "sel" with
      | none => pure SelKind.notSel
      | some v => do
        match ← v.getStr? with
        | "choice" => pure SelKind.choice
        | "named" => pure SelKind.named
        | k => throw s!"sel {k}"
    pure ({ name := ← getStr p "name", default := d, instantiate := ← getBool p "inst", bounds := ← optPair p "bounds", sel := sel } : ParamDef)
  let methods ← (← getArr j "methods").toList.mapM fun m => do
    let deps ← (← getArr m "deps").toList.mapM fun d => do
      match ← strs d with
      | [] => throw "dep shape"
      | [p] => pure (Dep.own p)
      | ps => pure (Dep.path ps)
    pure ({ name := ← getStr m "name", deps := deps } : MethodDef)
  return { name := ← getStr j "name", params := params, methods := methods, plain := ← strs (← j.getObjVal? "plain") }

/-- one world (main or twin) with its handle table -/
structure Side where
  w : World
  handles : List Nat := []
  cp : Option Nat := none        -- what `cp` references resolve to

def followPath (w : World) : Nat → List String → Except String Nat
  | o, [] => pure o
  | o, p :: rest =>
    match w.getVal o p with
    | some (.obj s) => followPath w s rest
    | _ => throw s!"path component {p} is not an object"

def resolveRef (s : Side) (j : Json) : Except String Nat := do
  let path ← strs (← j.getObjVal? "path")
  match getOpt j "h" with
  | some h =>
    match s.handles[← h.getNat?]? with
    | some o => followPath s.w o path
    | none => throw "unknown handle"
  | none =>
    match s.cp with
    | some r => followPath s.w r path
    | none => throw "cp reference without a copy"

def parseArg (s : Side) (j : Json) : Except String Arg :=
  match j with
  | .null => pure .none
  | .arr a => do pure (.newList (← a.toList.mapM (·.getInt?)))
  | .obj _ => do pure (.obj (← resolveRef s (← j.getObjVal? "ref")))
  | _ => do pure (.int (← j.getInt?))

def parseOp (s : Side) (j : Json) : Except String Op := do
  match ← getStr j "op" with
  | "new" =>
    let kw ← (← getArr j "kwargs").toList.mapM fun p => do
      let a ← p.getArr?
      if a.size != 2 then throw "kwarg expected"
      pure (← a[0]!.getStr?, ← parseArg s a[1]!)
    return .new (← getNat j "cls") kw
  | "set" => return .set (← resolveRef s (← j.getObjVal? "o")) (← getStr j "p") (← parseArg s (← j.getObjVal? "a"))
  | "mutate" => return .mutate (← resolveRef s (← j.getObjVal? "o")) (← getStr j "p") (← getInt j "n")
  | "pedit" =>
    let e : PEdit ← match getOpt j "constant" with
      | some b => do pure (PEdit.constant (← b.getBool?))
      | none => do pure (PEdit.bounds (← optPair j "bounds"))
    return .pedit (← resolveRef s (← j.getObjVal? "o")) (← getStr j "p") e
  | "setAttr" => return .setAttr (← resolveRef s (← j.getObjVal? "o")) (← getStr j "name") (← parseArg s (← j.getObjVal? "a"))
  | "mutAttr" => return .mutAttr (← resolveRef s (← j.getObjVal? "o")) (← getStr j "name") (← getInt j "n")
  | "selAdd" => return .selAdd (← resolveRef s (← j.getObjVal? "o")) (← getStr j "p") (← getInt j "n")
  | "watchPartial" => return .watchPartial (← resolveRef s (← j.getObjVal? "o")) (← getStr j "p") (← resolveRef s (← j.getObjVal? "target")) (← getStr j "cb")
  | "watchSlot" => return .watchSlot (← resolveRef s (← j.getObjVal? "o")) (← getStr j "p") (← resolveRef s (← j.getObjVal? "target")) (← getStr j "cb")
  | "watch" => return .watch (← resolveRef s (← j.getObjVal? "o")) (← strs (← j.getObjVal? "ps")) (← resolveRef s (← j.getObjVal? "target")) (← getStr j "cb")
  | "update" =>
    let kvs ← (← getArr j "kvs").toList.mapM fun p => do
      let a ← p.getArr?
      if a.size != 2 then throw "update pair expected"
      pure (← a[0]!.getStr?, ← parseArg s a[1]!)
    return .update (← resolveRef s (← j.getObjVal? "o")) kvs
  | o => throw s!"unknown op {o}"

def errName : Err → String
  | .attributeError => "AttributeError" | .unsupported => "unsupported"

/-- execute one JSON operation on a side; returns the new side and the log entries it produced -/
def execOne (s : Side) (j : Json) : Except String (Side × List (Nat × String)) := do
  let op ← parseOp s j
  match step s.w op with
  | .error e => throw s!"operation outside the modelled fragment ({errName e}): {repr op}"
  | .ok w' =>
    let newLog := w'.log.drop s.w.log.length
    let handles := match op with
      | .new .. => s.handles ++ [w'.objs.length - 1]
      | _ => s.handles
    pure ({ s with w := w', handles := handles }, newLog)

/-- `within`: the body's assignments are made inside a `batch_call_watchers` / `discard_events` context opened on
ANOTHER object than the ones assigned (the harness sees to that): batching is a matter of the object whose parameter is
set, so for the model the context is not there and the body is a sequence of plain assignments -/
def exec (s : Side) (j : Json) : Except String (Side × List (Nat × String)) := do
  if (← getStr j "op") = "within" then
    (← getArr j "body").toList.foldlM (fun (acc : Side × List (Nat × String)) b => do
      let (s', l) ← execOne acc.1 b
      pure (s', acc.2 ++ l)) (s, [])
  else execOne s j

/-! JSON of observations -/

def jOpt {α : Type} (f : α → Json) : Option α → Json
  | some a => f a | none => Json.null
def jInts (l : List Int) : Json := Json.arr (l.map toJson).toArray
def jStrs (l : List String) : Json := Json.arr (l.map Json.str).toArray
def jPair (p : Int × Int) : Json := Json.arr #[toJson p.1, toJson p.2]
def jChanged (d : List (String × Option (List String))) : Json :=
  Json.arr (d.map fun (n, sp) => Json.arr #[Json.str n, jOpt jStrs sp]).toArray

def jVal : SVal → Json
  | .none => Json.null
  | .int n => toJson n
  | .cell c l => Json.mkObj [("c", toJson c), ("v", jInts l)]
  | .obj o => Json.mkObj [("o", toJson o)]

def jW (wt : SWatcher) : Json :=
  Json.arr #[toJson wt.inst, Json.str wt.kind, toJson wt.owner, Json.str wt.method, jOpt jChanged wt.changed, toJson wt.precedence,
             jOpt (fun (cb : Nat × Option String) => Json.arr #[toJson cb.1, jOpt Json.str cb.2]) wt.callback]

def jObj (o : SObj) : Json := Json.mkObj [
  ("cls", Json.str o.cls),
  ("values", Json.arr (o.values.map fun (n, own, v) => Json.arr #[Json.str n, Json.bool own, jVal v]).toArray),
  ("pcopies", Json.arr (o.pcopies.map fun (n, b, c, sw) =>
      Json.arr #[Json.str n, jOpt jPair b, Json.bool c, Json.arr (sw.map jW).toArray]).toArray),
  ("sel", Json.arr (o.sel.map fun (n, own, os, ns) => Json.arr #[Json.str n, Json.bool own, jInts os, jInts ns]).toArray),
  ("attrs", Json.arr (o.attrs.map fun (n, v) => Json.arr #[Json.str n, jVal v]).toArray),
  ("watchers", Json.arr (o.watchers.map fun (n, ws) => Json.arr #[Json.str n, Json.arr (ws.map jW).toArray]).toArray),
  ("dyn", Json.arr (o.dyn.map fun (n, ws) => Json.arr #[Json.str n, Json.arr (ws.map fun d =>
      Json.arr #[toJson d.inst, toJson d.owner, Json.str d.method, jOpt jChanged d.changed, Json.bool d.found]).toArray]).toArray)]

def jSnap (s : Snap) : Json := Json.arr (s.map jObj).toArray

def jPost (p : PostObs) : Json := Json.mkObj [
  ("side", Json.str p.side),
  ("log", Json.arr (p.log.map fun e => Json.arr #[Json.str e.side, toJson e.label, Json.str e.method]).toArray),
  ("orig", jSnap p.orig), ("copy", jSnap p.copy),
  ("twin", jOpt (fun (t : List (Nat × String) × Snap) => Json.mkObj [
      ("log", Json.arr (t.1.map fun e => Json.arr #[toJson e.1, Json.str e.2]).toArray), ("snap", jSnap t.2)]) p.twin)]

def jLog (l : List (Nat × String)) : Json := Json.arr (l.map fun e => Json.arr #[toJson e.1, Json.str e.2]).toArray

def jObs (o : Obs) : Json := Json.mkObj ([
  ("copy_err", jOpt Json.str o.copyErr), ("orig_at", jSnap o.origAt), ("copy_at", jOpt jSnap o.copyAt),
  ("shared", toJson o.shared), ("post", Json.arr (o.post.map jPost).toArray)] ++
  (match o.batchExit with
   | some (g, t) => [("batch_exit", Json.mkObj [("got", jLog g), ("twin", jLog t)])]
   | none => []))

def pVal (j : Json) : Except String SVal :=
  match j with
  | .null => pure .none
  | .obj _ =>
    match getOpt j "o" with
    | some o => do pure (.obj (← o.getNat?))
    | none => do pure (.cell (← getNat j "c") (← ints (← j.getObjVal? "v")))
  | _ => do pure (.int (← j.getInt?))

def pOptStrs (j : Json) : Except String (Option (List String)) :=
  match j with
  | .null => pure none
  | _ => do pure (some (← strs j))

def pChanged (j : Json) : Except String (Option (List (String × Option (List String)))) :=
  match j with
  | .null => pure none
  | _ => do
    let l ← (← j.getArr?).toList.mapM fun e => do
      let a ← e.getArr?
      if a.size != 2 then throw "changed entry expected"
      pure (← a[0]!.getStr?, ← pOptStrs a[1]!)
    pure (some l)

def pW (x : Json) : Except String SWatcher := do
  let q ← x.getArr?
  let cb : Option (Nat × Option String) ← match q[6]! with
    | .null => pure none
    | v => do
      let a ← v.getArr?
      pure (some (← a[0]!.getNat?, a[1]!.getStr?.toOption))
  pure ({ inst := ← q[0]!.getNat?, kind := ← q[1]!.getStr?, owner := ← q[2]!.getNat?, method := ← q[3]!.getStr?,
          changed := ← pChanged q[4]!, precedence := ← q[5]!.getInt?, callback := cb } : SWatcher)

def pObj (j : Json) : Except String SObj := do
  let values ← (← getArr j "values").toList.mapM fun e => do
    let a ← e.getArr?
    pure (← a[0]!.getStr?, ← a[1]!.getBool?, ← pVal a[2]!)
  let pcopies ← (← getArr j "pcopies").toList.mapM fun e => do
    let a ← e.getArr?
    let b : Option (Int × Int) ← match a[1]! with
      | .null => pure none
      | v => do
        let q ← v.getArr?
        pure (some (← q[0]!.getInt?, ← q[1]!.getInt?))
    pure (← a[0]!.getStr?, b, ← a[2]!.getBool?, ← (← a[3]!.getArr?).toList.mapM pW)
  let sel ← (← getArr j "sel").toList.mapM fun e => do
    let a ← e.getArr?
    pure (← a[0]!.getStr?, ← a[1]!.getBool?, ← ints a[2]!, ← ints a[3]!)
  let attrs ← (← getArr j "attrs").toList.mapM fun e => do
    let a ← e.getArr?
    pure (← a[0]!.getStr?, ← pVal a[1]!)
  let watchers ← (← getArr j "watchers").toList.mapM fun e => do
    let a ← e.getArr?
    let ws ← (← a[1]!.getArr?).toList.mapM pW
    pure (← a[0]!.getStr?, ws)
  let dyn ← (← getArr j "dyn").toList.mapM fun e => do
    let a ← e.getArr?
    let ws ← (← a[1]!.getArr?).toList.mapM fun x => do
      let q ← x.getArr?
      pure ({ inst := ← q[0]!.getNat?, owner := ← q[1]!.getNat?, method := ← q[2]!.getStr?,
              changed := ← pChanged q[3]!, found := ← q[4]!.getBool? } : SDyn)
    pure (← a[0]!.getStr?, ws)
  return { cls := ← getStr j "cls", values := values, pcopies := pcopies, sel := sel, attrs := attrs, watchers := watchers, dyn := dyn }

def pSnap (j : Json) : Except String Snap := do (← j.getArr?).toList.mapM pObj

def pPost (j : Json) : Except String PostObs := do
  let log ← (← getArr j "log").toList.mapM fun e => do
    let a ← e.getArr?
    pure ({ side := ← a[0]!.getStr?, label := ← a[1]!.getNat?, method := ← a[2]!.getStr? } : LogEntry)
  let twin : Option (List (Nat × String) × Snap) ← match getOpt j "twin" with
    | none => pure none
    | some t => do
      let tl ← (← getArr t "log").toList.mapM fun e => do
        let a ← e.getArr?
        pure (← a[0]!.getNat?, ← a[1]!.getStr?)
      pure (some (tl, ← pSnap (← t.getObjVal? "snap")))
  return { side := ← getStr j "side", log := log, orig := ← pSnap (← j.getObjVal? "orig"),
           copy := ← pSnap (← j.getObjVal? "copy"), twin := twin }

def pObs (j : Json) : Except String Obs := do
  return { copyErr := (getOpt j "copy_err").bind (·.getStr?.toOption),
           origAt := ← pSnap (← j.getObjVal? "orig_at"),
           copyAt := ← (match getOpt j "copy_at" with
                        | some s => do pure (some (← pSnap s))
                        | none => pure none),
           shared := ← getNat j "shared",
           post := ← (← getArr j "post").toList.mapM pPost,
           batchExit := ← (match getOpt j "batch_exit" with
                           | some b => do
                             let pl := fun (x : Json) => do
                               (← x.getArr?).toList.mapM fun e => do
                                 let a ← e.getArr?
                                 pure (← a[0]!.getNat?, ← a[1]!.getStr?)
                             pure (some (← pl (← b.getObjVal? "got"), ← pl (← b.getObjVal? "twin")))
                           | none => pure none) }

def parsePolicy : String → Except String Policy
  | "always" => pure .always | "own" => pure .own | "unbound" => pure .unbound
  | p => throw s!"__setstate__ has a shape the model does not know: {p}"

def handle (req : Json) : Except String Json := do
  let case ← req.getObjVal? "case"
  let pol ← parsePolicy (← getStr case "policy")
  let classes ← (← getArr case "classes").toList.mapM parseClass
  -- the class-level `_objects` / `names` containers of the Selector parameters (declared empty)
  let selParams : List (Nat × String) := classes.zipIdx.flatMap fun (c, k) =>
    (c.params.filter (·.sel != .notSel)).map fun d => (k, d.name)
  let w0 : World := { classes := classes, objs := [], cells := selParams.flatMap (fun _ => [[], []]), nextPid := 1, log := [],
                      clsSlots := selParams.zipIdx.map fun ((k, n), i) => (k, n, 2 * i, 2 * i + 1) }
  let pre := (← getArr case "pre").toList
  let runPre (s : Side) : Except String Side := pre.foldlM (fun s j => do pure (← exec s j).1) s
  let inbatch := (getOpt case "inbatch").bind (·.getBool?.toOption) == some true
  -- `inbatch`: the implementation takes the copy inside the batch of the last pre operation; the model sees the
  -- completed batch, and says what that batch delivers
  let (main, lastLog) ← if inbatch then do
      let m ← pre.dropLast.foldlM (fun s j => do pure (← exec s j).1) ({ w := w0 } : Side)
      match pre.getLast? with
      | some j => exec m j
      | none => throw "inbatch without a pre operation"
    else do pure (← runPre { w := w0 }, [])
  let twin ← runPre { w := w0 }
  let rootJ ← case.getObjVal? "root"
  let root ← resolveRef main rootJ
  let troot ← resolveRef twin rootJ
  let origAt := snapshot main.w root
  let batchExit : Option (List (Nat × String) × List (Nat × String)) :=
    if inbatch then
      let order := visitOrder main.w root
      let l := lastLog.map fun e => (labelOf order e.1, e.2)
      some (l, l)
    else none
  if !wfB main.w then throw "model world is not well-formed (a reference points outside the world)"
  if !ownWatchersB main.w then throw "model world is not well-formed (a watcher is registered on another object than its inst)"
  let mut branches : List String := []
  let model : Obs ← match copyGraph pol main.w root with
    | .error .unsupported => throw "copy outside the modelled fragment"
    | .error e =>
      branches := [s!"copy:{errName e}"]
      pure { copyErr := some (errName e), origAt := origAt, copyAt := none, shared := 0, post := [], batchExit := batchExit }
    | .ok (w1, croot) =>
      branches := ["copy:ok"]
      let main1 : Side := { main with w := w1, cp := some croot }
      let twin1 : Side := { twin with cp := some troot }
      let (_, _, revPost) ← (← getArr case "post").toList.foldlM
        (fun (acc : Side × Side × List PostObs) pj => do
          let (m, t, l) := acc
          let side ← getStr pj "side"
          let opj ← pj.getObjVal? "op"
          let (m', mlog) ← exec m opj
          let (t', tw) ← if side = "orig" then pure (t, none) else do
            let (t', tlog) ← exec t opj
            let order := visitOrder t'.w troot
            pure (t', if side = "copy" then some (tlog.map fun e => (labelOf order e.1, e.2), snapshot t'.w troot) else none)
          let po : PostObs := { side := side, log := mlog.map (logEntry m'.w root croot),
                                orig := snapshot m'.w root, copy := snapshot m'.w croot, twin := tw }
          pure (m', t', po :: l))
        (main1, twin1, [])
      pure { copyErr := none, origAt := origAt, copyAt := some (snapshot w1 croot),
             shared := sharedCount w1 root croot, post := revPost.reverse, batchExit := batchExit }
  let impl ← pObs (← req.getObjVal? "impl")
  let (nImpl, sImpl) := specOK impl
  let (_, sModel) := specOK model
  let optJ : Option String → Json := fun | some s => Json.str s | none => Json.null
  return Json.mkObj [
    ("model", jObs model), ("applicable", Json.bool true), ("checked_steps", toJson nImpl),
    ("spec_impl", optJ sImpl), ("spec_model", optJ sModel),
    ("branches", Json.arr (branches.map Json.str).toArray)]

def main : IO Unit := serve handle
