import ParamVerif.Util.Proto
import ParamVerif.Repr.Spec
open Lean ParamVerif ParamVerif.Proto ParamVerif.Repr

def strs (j : Json) : Except String (List String) := do
  (← j.getArr?).toList.mapM (·.getStr?)

def parseAtom (j : Json) : Except String Atom := do
  let kind ← match ← getStr j "kind" with
    | "num" => pure AKind.num | "str" => pure AKind.str | "bytes" => pure AKind.bytes
    | "none" => pure AKind.none
    | k => throw s!"unknown atom kind {k}"
  return { kind := kind, toks := ← strs (← j.getObjVal? "toks"), eq := ← getStr j "eq" }

partial def parseLit (j : Json) : Except String Lit := do
  match getOpt j "a", getOpt j "l", getOpt j "t", getOpt j "s", getOpt j "d", getOpt j "o" with
  | some a, _, _, _, _, _ => return .atom (← parseAtom a)
  | _, some l, _, _, _, _ => return .list (← (← l.getArr?).toList.mapM parseLit)
  | _, _, some t, _, _, _ => return .tuple (← (← t.getArr?).toList.mapM parseLit)
  | _, _, _, some s, _, _ => return .set (← (← s.getArr?).toList.mapM parseAtom)
  | _, _, _, _, some d, _ =>
    let kvs ← (← d.getArr?).toList.mapM fun p => do
      let q ← p.getArr?
      pure (← parseAtom q[0]!, ← parseLit q[1]!)
    return .dict (kvs.map (·.1)) (kvs.map (·.2))
  | _, _, _, _, _, some o =>
    let q ← o.getArr?
    return .obj (← q[0]!.getNat?) (← (← q[1]!.getArr?).toList.mapM parseLit)
  | _, _, _, _, _, _ => throw "bad literal"

def parseCls (j : Json) : Except String Cls := do
  let params ← (← getArr j "params").toList.mapM fun p => do
    pure { name := ← getStr p "name", default := ← parseLit (← p.getObjVal? "default"),
           precedence := (getOpt p "prec").bind (·.getInt?.toOption) : PInfo }
  let sg ← j.getObjVal? "sig"
  let kwonly ← (← getArr sg "kwonly").toList.mapM fun p => do
    let q ← p.getArr?
    let d ← match q[1]! with
      | .null => pure none
      | x => do pure (some (← parseLit x))
    pure (← q[0]!.getStr?, d)
  return { name := ← getStr j "name", qual := ← strs (← j.getObjVal? "qual"), params := params,
           sig := { args := ← strs (← sg.getObjVal? "args"),
                    defaults := ← (← getArr sg "defaults").toList.mapM parseLit,
                    kwonly := kwonly,
                    varargs := (getOpt sg "varargs").bind (·.getStr?.toOption),
                    varkw := ← getBool sg "varkw" } }

partial def parseTT (j : Json) : Except String TT := do
  let items (x : Json) : Except String (List TT) := do (← x.getArr?).toList.mapM parseTT
  match getOpt j "a", getOpt j "b", getOpt j "p", getOpt j "s", getOpt j "d", getOpt j "c" with
  | some a, _, _, _, _, _ => return .atom (← strs a)
  | _, some b, _, _, _, _ => return .brack (← items b)
  | _, _, some p, _, _, _ => return .paren (← items p) (← getBool j "t")
  | _, _, _, some s, _, _ => return .brace (← items s)
  | _, _, _, _, some d, _ =>
    let kvs ← (← d.getArr?).toList.mapM fun p => do
      let q ← p.getArr?
      pure (← parseTT q[0]!, ← parseTT q[1]!)
    return .dict (kvs.map (·.1)) (kvs.map (·.2))
  | _, _, _, _, _, some c =>
    return .call (← strs (← c.getObjVal? "q")) (← getStr c "f") (← items (← c.getObjVal? "pos"))
      (← strs (← c.getObjVal? "kwn")) (← items (← c.getObjVal? "kwv"))
      ((getOpt c "star").bind (·.getStr?.toOption))
  | _, _, _, _, _, _ => throw "bad token tree"

def jStrs (l : List String) : Json := Json.arr (l.map Json.str).toArray

/-- which branches of the printer a case exercised -/
partial def branchesOf (classes : Classes) : Lit → List String
  | .atom a => [s!"atom:{repr a.kind}".replace "ParamVerif.Repr.AKind." ""] ++ (if a.toks.length > 1 then ["atom:negative"] else [])
  | .list xs => [if xs.isEmpty then "list:empty" else "list"] ++ xs.flatMap (branchesOf classes)
  | .tuple xs => [match xs.length with | 0 => "tuple:empty" | 1 => "tuple:singleton" | _ => "tuple"] ++ xs.flatMap (branchesOf classes)
  | .set xs => [if xs.isEmpty then "set:empty" else "set"]
  | .dict ks vs => [if ks.isEmpty then "dict:empty" else "dict"] ++ vs.flatMap (fun v => (branchesOf classes v).map ("in-dict:" ++ ·))
  | .obj c vals =>
    (match classes[c]? with
     | some cls =>
       let sg := cls.sig
       [if sg.args.isEmpty then "sig:default" else "sig:custom"] ++
       (if sg.defaults.isEmpty then [] else ["sig:kwargs"]) ++
       (if sg.args.length > sg.defaults.length then ["sig:posargs"] else []) ++
       (if sg.kwonly.isEmpty then [] else ["sig:kwonly"]) ++
       (if sg.varargs.isSome then ["sig:varargs"] else []) ++
       (if sg.varkw then [] else ["sig:no-varkw"]) ++
       (match vals.head? with
        | some (.atom a) =>
          if isAutoName cls.name a.text then ["name:auto"]
          else if isAutoLike cls.name a.text then ["name:auto-like"] else ["name:explicit"]
        | _ => [])
     | none => []) ++ ["obj"] ++ vals.flatMap (fun v => (branchesOf classes v).filter (· != "obj") ++
        (if (branchesOf classes v).contains "obj" then ["obj:nested"] else []))

def handle (req : Json) : Except String Json := do
  let case ← req.getObjVal? "case"
  let impl ← req.getObjVal? "impl"
  let _ := case
  let classes ← (← getArr impl "classes").toList.mapM parseCls   -- class table as observed at run time
  let orig ← parseLit (← impl.getObjVal? "state")
  let table := atomsOf orig ++ atomsOfClasses classes
  let ev := tableEvalAtom table
  let optJ : Option String → Json := fun | some s => Json.str s | none => Json.null
  -- one printer mode
  let mode (key : String) (q : Bool) : Except String (Json × Option String × Option String × Bool) := do
    let io ← impl.getObjVal? key
    match pp classes q orig with
    | .error e => return (Json.mkObj [("rejected", Json.str e)], none, none, false)
    | .ok tt =>
      let sModel := specRoundtrip classes ev tt orig
      -- oracle on the implementation's text
      let sImpl ← match getOpt io "direct" with
        | some d => pure (some s!"{key}: eval of the real text: {← d.getStr?}")
        | none =>
          match getOpt io "tt" with
          | none => pure (some s!"{key}: the text is outside the literal grammar")
          | some t => do
            let itt ← parseTT t
            let toks ← strs (← io.getObjVal? "toks")
            if flatten itt != toks then throw s!"adapter: token tree of {key} does not flatten to its tokens"
            pure ((specRoundtrip classes ev itt orig).map (s!"{key}: " ++ ·))
      return (Json.mkObj [("toks", jStrs (flatten tt))], sImpl, sModel.map (s!"{key}: " ++ ·), true)
  let (m1, i1, s1, a1) ← mode "pp" false
  let (m2, i2, s2, a2) ← mode "sr" true
  return Json.mkObj [
    ("model", Json.mkObj [("pp", m1), ("sr", m2)]),
    ("applicable", Json.bool (a1 && a2)),
    ("checked_steps", toJson (if a1 && a2 then 2 else 0)),
    ("spec_impl", optJ (i1 <|> i2)), ("spec_model", optJ (s1 <|> s2)),
    ("branches", jStrs (branchesOf classes orig).eraseDups)]

def main : IO Unit := serve handle
