import ParamVerif.Util.Proto
import ParamVerif.Depends.CascadeSpec
import ParamVerif.Dispatch.Model
open Lean ParamVerif ParamVerif.Proto ParamVerif.Depends

def strs (j : Json) : Except String (List String) := do
  (← j.getArr?).toList.mapM (·.getStr?)
def nats (j : Json) : Except String (List Nat) := do
  (← j.getArr?).toList.mapM (·.getNat?)

def parseDInfo (j : Json) : Except String DInfo := do
  let specs ← (← getArr j "specs").toList.mapM fun s => do
    let q ← s.getArr?
    return ({ attr := ← q[0]!.getStr?, what := ← q[1]!.getStr? } : Spec)
  return { specs := specs, watch := ← getBool j "watch", queued := ← getBool j "queued", onInit := ← getBool j "on_init" }

def parseClass (j : Json) : Except String ClassDecl := do
  let methods ← (← getArr j "methods").toList.mapM fun m => do
    let di ← match getOpt m "dinfo" with
      | some d => (parseDInfo d).map some
      | none => pure none
    return ({ name := ← getStr m "name", dinfo := di } : Method)
  return { bases := ← nats (← j.getObjVal? "bases"), mro := ← nats (← j.getObjVal? "mro"),
           params := ← strs (← j.getObjVal? "params"), methods := methods }

def parseKvs (j : Json) : Except String (List (String × Int)) := do
  (← j.getArr?).toList.mapM fun p => do
    let q ← p.getArr?
    return (← q[0]!.getStr?, ← q[1]!.getInt?)

partial def parseBlk (j : Json) : Except String Blk := do
  match ← getStr j "op" with
  | "set" => return .set ⟨← getStr j "name", ← getStr j "what"⟩ (← getInt j "v")
  | "update" => return .update (← parseKvs (← j.getObjVal? "kvs"))
  | "batch" => return .batch (← (← getArr j "body").toList.mapM parseBlk)
  | o => throw s!"unknown op {o}"

/-- trace nodes as the harness writes them: ["call", label, [..]] | ["asg", name, what, old, new, batch, [..]] |
["block", kind, [..]] -/
partial def parseT (j : Json) : Except String T := do
  let q ← j.getArr?
  match ← q[0]!.getStr? with
  | "call" => return .call (← q[1]!.getStr?) (← (← q[2]!.getArr?).toList.mapM parseT)
  | "asg" => return .asg ⟨← q[1]!.getStr?, ← q[2]!.getStr?⟩ (← q[3]!.getInt?) (← q[4]!.getInt?) (← q[5]!.getBool?)
                (← (← q[6]!.getArr?).toList.mapM parseT)
  | "block" => return .block (← q[1]!.getStr?) (← (← q[2]!.getArr?).toList.mapM parseT)
  | o => throw s!"unknown trace node {o}"

partial def jT (lbl : String → String) : T → Json
  | .call m ch => Json.arr #[Json.str "call", Json.str (lbl m), Json.arr (ch.map (jT lbl)).toArray]
  | .asg k o n b ch => Json.arr #[Json.str "asg", Json.str k.name, Json.str k.what, toJson o, toJson n, Json.bool b,
      Json.arr (ch.map (jT lbl)).toArray]
  | .block kind ch => Json.arr #[Json.str "block", Json.str kind, Json.arr (ch.map (jT lbl)).toArray]

partial def bareT : T → T
  | .call m ch => .call ((m.splitOn "@").headD m) (ch.map bareT)
  | .asg k o n b ch => .asg k o n b (ch.map bareT)
  | .block kind ch => .block kind (ch.map bareT)

def errName : Err → String
  | .attribute => "AttributeError" | .recursion => "RecursionError" | .illFormed => "illFormed"

def jDeps (ds : List PDep) : Json :=
  Json.arr (ds.map fun d => Json.arr #[toJson d.cls, Json.str d.name, Json.str d.what]).toArray

def jStrs (l : List String) : Json := Json.arr (l.map Json.str).toArray

/-- `name@definer` as the generated methods log it; function labels are logged as they are -/
def label (h : Hierarchy) (c : Cls) (n : String) : String :=
  match resolveMethod h c n with
  | some (k, _) => s!"{n}@{k}"
  | none => n

def bare (s : String) : String := (s.splitOn "@").headD s

def parseObs (j : Json) : Except String Obs := do
  let table ← (← getArr j "table").toList.mapM fun e => do
    let deps ← (← getArr e "deps").toList.mapM fun d => do
      let q ← d.getArr?
      return ({ cls := ← q[0]!.getNat?, name := ← q[1]!.getStr?, what := ← q[2]!.getStr? } : PDep)
    return ({ name := ← getStr e "name", queued := ← getBool e "queued", onInit := ← getBool e "on_init", deps := deps } : EntryObs)
  let steps ← (← getArr j "steps").toList.mapM fun s => do
    return ({ ok := ← getBool s "ok", log := (← strs (← s.getObjVal? "log")).map bare } : StepObs)
  return { table := table, init := (← strs (← j.getObjVal? "init")).map bare, steps := steps }

/-! cross-check of the compact dispatcher against `Dispatch.Model.run` -/

partial def callsIn : List Dispatch.Item → List Nat
  | [] => []
  | .call wid _ _ _ ch _ :: rest => wid :: callsIn ch ++ callsIn rest
  | .stmt _ _ _ _ _ _ _ ch _ :: rest => callsIn ch ++ callsIn rest

def keyIndex (keys : List Key) (k : Key) : Option Nat :=
  let i := keys.findIdx (fun x => x = k)
  if i < keys.length then some i else none

partial def encBlk (keys : List Key) : Blk → Option Dispatch.Stmt
  | .set k v => (keyIndex keys k).map (fun i => .set i v)
  | .update kvs => (kvs.mapM (fun kv => (keyIndex keys ⟨kv.1, "value"⟩).map (fun i => (i, kv.2)))).map .update
  | .batch body => (body.mapM (encBlk keys)).map .batch

/-- `some true/false`: comparable and (dis)agrees; `none`: outside what Dispatch.Model expresses
(a watcher registered twice for one name, or watchers of different precedence on a slot).  Every key
(name, what) is a parameter of its own in the encoding; the bodies of assigning methods are callback programs. -/
def dispatchAgrees (w0 : IWorld) (bodies : Bodies) (ops : List Blk) (stepLogs : List (List String)) : Option Bool :=
  let keys := w0.vals.map (·.1)
  let plain := w0.regs.all (fun x => x.params.eraseDups.length == x.params.length)
  if !plain then none else
  let bodyIdx : String → Nat := fun m =>
    let i := bodies.findIdx (fun b => b.1 = m)
    if i < bodies.length then i + 1 else 0
  let regs : List Dispatch.Watcher := w0.regs.map fun x =>
    { id := x.id, params := x.params.filterMap (fun n => keyIndex keys ⟨n, x.what⟩), onlychanged := true,
      queued := x.queued, precedence := x.precedence, body := bodyIdx x.method, cb := x.id, uid := x.id }
  match bodies.mapM (fun b => b.2.mapM (fun kv => (keyIndex keys ⟨kv.1, "value"⟩).map (fun i => Dispatch.Stmt.set i kv.2))) with
  | none => none
  | some progs =>
  let cfg : Dispatch.Cfg := { bounds := keys.map (fun _ => (none, none)), bodies := [] :: progs }
  let dw0 : Dispatch.World := { vals := w0.vals.map (·.2), regs := regs, batch := false, trigger := false, events := [], queued := [] }
  match ops.mapM (encBlk keys) with
  | none => none
  | some stmts =>
    let (_, revLogs) := stmts.foldl (fun (acc : Dispatch.World × List (List String)) s =>
        let (r, w', o) := Dispatch.run cfg 100000 (.stmt s) acc.1
        let names := (callsIn o).filterMap (fun wid => (w0.regs.find? (fun x => x.id = wid)).map (·.method))
        (w', (if r == Dispatch.Res.ok then names else ["<not ok>"]) :: acc.2)) (dw0, [])
    some (revLogs.reverse == stepLogs)

def handle (req : Json) : Except String Json := do
  let case ← req.getObjVal? "case"
  let h ← (← getArr case "classes").toList.mapM parseClass
  let c ← getNat case "inst"
  let fns ← (← getArr case "fns").toList.mapM fun f => do
    let q ← f.getArr?
    return ((← q[0]!.getStr?, ← strs q[1]!) : FnDecl)
  let vals ← (← getArr case "init").toList.mapM fun t => do
    let q ← t.getArr?
    return ((⟨← q[0]!.getStr?, ← q[1]!.getStr?⟩, ← q[2]!.getInt?) : Key × Int)
  let ops ← (← getArr case "ops").toList.mapM parseBlk
  -- assignments made by on_init methods: [[method name, defining class, parameter, value]]
  let rawAssigns ← match getOpt case "assigns" with
    | some a => (← a.getArr?).toList.mapM fun x => do
        let q ← x.getArr?
        return (← q[0]!.getStr?, ← q[1]!.getNat?, ← q[2]!.getStr?, ← q[3]!.getInt?)
    | none => pure []
  -- assignments made by a method's body at every invocation: [[method name, defining class, [[parameter, value], …]]]
  let rawBodies ← match getOpt case "bodies" with
    | some a => (← a.getArr?).toList.mapM fun x => do
        let q ← x.getArr?
        return (← q[0]!.getStr?, ← q[1]!.getNat?, ← parseKvs q[2]!)
    | none => pure []
  let fuel := 64
  let optJ : Option String → Json := fun | some s => Json.str s | none => Json.null
  let wf := wfMroB h && decide (c < h.length)
  match tablesUpTo h fuel h.length with
  | .error e =>
    -- the class statement of some class of the hierarchy raises: nothing to instantiate
    let implCreate := (getStr (← req.getObjVal? "impl") "create").toOption
    return Json.mkObj [("model", Json.mkObj [("create", Json.str (errName e))]), ("applicable", Json.bool false),
      ("spec_impl", Json.null), ("spec_model", Json.null), ("checked_steps", toJson (0 : Nat)),
      ("branches", Json.arr #[Json.str s!"create:{errName e}", Json.str s!"impl-create:{implCreate.getD "ok"}"])]
  | .ok tables =>
    let table := tables.getD c []
    -- the declaration the instantiated class resolves decides whether (and what) a method assigns
    let assigns : Assigns := rawAssigns.filterMap fun (n, k, p, v) =>
      match resolveMethod h c n with
      | some (k', _) => if k' = k then some (n, (p, v)) else none
      | none => none
    let bodies : Bodies := rawBodies.filterMap fun (n, k, kvs) =>
      match resolveMethod h c n with
      | some (k', _) => if k' = k then some (n, kvs) else none
      | none => none
    let w0 := fns.foldl (fun w f => fnWatch w f.1 f.2) (instantiateA table vals assigns)
    -- every operation through the cascade interpreter (trace); the flat ones of log-only methods through the
    -- compact dispatcher of the theorems as well
    let cfuel := 4000
    let (_, revC) := ops.foldl (fun (acc : IWorld × List (Bool × List String × List T)) op =>
        let w := { acc.1 with log := [] }
        match runC bodies cfuel (.blk op) w with
        | some (r, w', tr) => (w', (r, w'.log, tr) :: acc.2)
        | none => (w, (false, ["<out of fuel>"], []) :: acc.2)) (w0, [])
    let cSteps := revC.reverse
    let (_, revSteps) := ops.foldl (fun (acc : IWorld × List (Bool × List String)) op =>
        let w := { acc.1 with log := [] }
        let (r, w') := runOp w op.toOp
        (w', (r, w'.log) :: acc.2)) (w0, [])
    let compact := bodies.isEmpty
    let mSteps := cSteps.map (fun (r, l, _) => (r, l))
    let compactAgrees := !compact || revSteps.reverse == mSteps
    let mnames := (methodNames h c).toArray.qsort (· < ·) |>.toList
    let mdeps := mnames.map fun n =>
      Json.arr #[Json.str n, match methodDependencies h fuel c n with
        | .ok ds => Json.arr (ds.map fun d => Json.arr #[Json.str d.name, Json.str d.what]).toArray
        | .error e => Json.str (errName e)]
    let model := Json.mkObj [
      ("create", Json.null),
      ("table", Json.arr (table.map fun e => Json.mkObj [("name", Json.str e.name), ("queued", Json.bool e.queued),
          ("on_init", Json.bool e.onInit), ("deps", jDeps e.deps)]).toArray),
      ("mdeps", Json.arr mdeps.toArray),
      ("init", jStrs (w0.log.map (label h c))),
      ("steps", Json.arr (cSteps.map fun (r, l, tr) => Json.mkObj [("ok", Json.bool r), ("log", jStrs (l.map (label h c))),
          ("trace", Json.arr (tr.map (jT (label h c))).toArray)]).toArray)]
    let modelObs : Obs := { table := table.map (fun e => ⟨e.name, e.queued, e.onInit, e.deps⟩), init := w0.log,
                            steps := mSteps.map (fun (r, l) => ⟨r, l⟩) }
    let impl ← req.getObjVal? "impl"
    let applicable := wf && (getOpt impl "create").isNone
    let flatOps := ops.map Blk.toOp
    let ts := targets h fuel c fns
    -- log-only methods: the count oracle on the (flattened) operations, then the trace oracle; assigning
    -- methods: table and constructor by the count oracle, the operations by the trace oracle
    let judge : Obs → List (Bool × List T) → Nat × Option String := fun o trs =>
      match specAll h fuel c fns vals (if compact then flatOps else []) o assigns with
      | (n, some r) => (n, some r)
      | (n, none) => let (k, r) := specTraces ts 0 trs; (max n k, r)
    let (nImpl, sImpl) ← if applicable then (do
        let o ← parseObs impl
        let trs ← (← getArr impl "steps").toList.mapM fun st => do
          return (← getBool st "ok", (← (← getArr st "trace").toList.mapM parseT).map bareT)
        pure (judge o trs)) else pure (0, none)
    let (_, sModel0) := judge modelObs (cSteps.map fun (r, _, tr) => (r, tr))
    -- a case on which the oracle fails must still be reproduced exactly by the model (the model mirrors
    -- the code as written): otherwise report it as a new, unclassified violation
    let sImpl := if sImpl.isSome && !(impl == model) then some ("model differs from implementation on an oracle-failing case: " ++ sImpl.getD "") else sImpl
    let agrees := dispatchAgrees w0 bodies ops (mSteps.map (·.2))
    -- the specification may fail on the model exactly where it fails on the implementation (the model
    -- mirrors the code as written); a disagreement with Dispatch.Model.run is a model defect
    let sModel := if !compactAgrees then some "cascade interpreter disagrees with the compact dispatcher"
                  else if agrees == some false then some "dispatcher disagrees with Dispatch.Model.run"
                  else if sImpl.isSome then none else sModel0
    let groupCounts := table.map (fun e => (groupsOf e.deps).length)
    let branches : List String :=
      (if table.any (fun e => match resolveMethod h c e.name with | some (k, _) => k ≠ c | none => false) then ["table:inherited-entry"] else []) ++
      (if table.any (fun e => match resolveMethod h c e.name with | some (k, _) => k = c | none => false) then ["table:own-entry"] else []) ++
      (if (methodNames h c).any (fun n => !resolvedWatches h c n) then ["method:not-watched"] else []) ++
      (if groupCounts.any (· ≥ 2) then ["install:several-groups"] else []) ++
      (if groupCounts.any (· == 1) then ["install:one-group"] else []) ++
      (if table.any (·.onInit) then ["install:on_init"] else []) ++
      (if !fns.isEmpty then ["install:function-form"] else []) ++
      (if !assigns.isEmpty then ["init:assigning-on_init"] else []) ++
      (ops.map fun | .set k _ => (if k.what = "value" then "op:set" else "op:setslot")
                   | .update _ => "op:update" | .batch _ => "op:batch").eraseDups ++
      (if ops.any Blk.nested then ["op:nested-batch"] else []) ++
      (if !bodies.isEmpty then ["method:assigning"] else []) ++
      (if cSteps.any (fun (_, _, tr) => (T.allCallsL tr).length > (T.callsL tr).length) then ["cascade:nested-call"] else []) ++
      (if impl == model then ["json:model-equals-impl"] else ["json:model-differs"]) ++
      (match agrees with | some true => ["dispatch-model:agrees"] | some false => ["dispatch-model:DISAGREES"] | none => ["dispatch-model:not-comparable"])
    return Json.mkObj [("model", model), ("applicable", Json.bool applicable),
      ("spec_impl", optJ sImpl), ("spec_model", optJ sModel), ("checked_steps", toJson nImpl),
      ("branches", jStrs branches)]

def main : IO Unit := serve handle
