import ParamVerif.Util.Proto
import ParamVerif.Json.Transport
open Lean (toJson)
open ParamVerif ParamVerif.Proto ParamVerif.Json ParamVerif.Json.Transport

def jObs15 (o : Obs15) : LJson :=
  if o.invalid then Lean.Json.mkObj [("invalid", Lean.Json.bool true)] else
  Lean.Json.mkObj [
    ("invalid", Lean.Json.bool false),
    ("state", jNamed jVal o.state),
    ("ser", jRes jFields o.ser),
    ("standard", Lean.Json.bool o.standard),
    ("deser", jRes (jNamed jVal) o.deser),
    ("rebuilt", jRes (jNamed jVal) o.rebuilt),
    ("per_value", Lean.Json.arr (o.perValue.map fun (n, s, d) =>
        Lean.Json.arr #[Lean.Json.str n, jRes jTree s, jRes jVal d]).toArray),
    ("sub_ser", jRes jFields o.subSer),
    ("sub_deser", jRes (jNamed jVal) o.subDeser),
    ("narrow_deser", jRes (jNamed jVal) o.narrowDeser),
    ("sub_ser2", jRes jFields o.subSer2),
    ("subset_intact", Lean.Json.bool o.subsetIntact),
    ("again", Lean.Json.mkObj [
      ("deser", jRes (jNamed jVal) o.againDeser),
      ("rebuilt", jRes (jNamed jVal) o.againRebuilt),
      ("shared", Lean.Json.bool o.againShared),
      ("per_value", jNamed (jRes jVal) o.againPerValue)])]

def parseObs15 (j : LJson) : Except String Obs15 := do
  let pv ← (← getArr j "per_value").toList.mapM fun p => do
    let q ← p.getArr?
    if q.size != 3 then throw "per_value: triple expected"
    return (← q[0]!.getStr?, ← parseRes parseTree q[1]!, ← parseRes parseVal q[2]!)
  let ag ← j.getObjVal? "again"
  return {
    invalid := false
    state := ← parseNamed parseVal (← j.getObjVal? "state")
    ser := ← parseRes parseFields (← j.getObjVal? "ser")
    standard := ← getBool j "standard"
    deser := ← parseRes (parseNamed parseVal) (← j.getObjVal? "deser")
    rebuilt := ← parseRes (parseNamed parseVal) (← j.getObjVal? "rebuilt")
    perValue := pv
    subSer := ← parseRes parseFields (← j.getObjVal? "sub_ser")
    subDeser := ← parseRes (parseNamed parseVal) (← j.getObjVal? "sub_deser")
    narrowDeser := ← parseRes (parseNamed parseVal) (← j.getObjVal? "narrow_deser")
    subSer2 := ← parseRes parseFields (← j.getObjVal? "sub_ser2")
    subsetIntact := ← getBool j "subset_intact"
    againDeser := ← parseRes (parseNamed parseVal) (← ag.getObjVal? "deser")
    againRebuilt := ← parseRes (parseNamed parseVal) (← ag.getObjVal? "rebuilt")
    againShared := ← getBool ag "shared"
    againPerValue := ← parseNamed (parseRes parseVal) (← ag.getObjVal? "per_value") }

def typeName : PCfg → String
  | .integer _ => "Integer" | .number _ => "Number" | .string => "String" | .boolean => "Boolean"
  | .tuple _ => "Tuple" | .numericTuple _ => "NumericTuple" | .xy => "XYCoordinates" | .range _ => "Range"
  | .date => "Date" | .calendarDate => "CalendarDate" | .dateRange => "DateRange"
  | .calendarDateRange => "CalendarDateRange" | .list .. => "List" | .dict => "Dict"
  | .selector _ => "Selector" | .listSelector _ => "ListSelector" | .color => "Color"
  | .classSelector _ => "ClassSelector"

def smallYear : PyVal → Bool
  | .date y _ _ => y < 1000
  | .datetime y .. => y < 1000
  | .tuple l => l.any fun
    | .date y _ _ => y < 1000
    | .datetime y .. => y < 1000
    | _ => false
  | _ => false

def branchesOf (st : List (Param × PyVal)) : List String :=
  st.foldr (fun (p, v) acc =>
    let t := typeName p.cfg
    let shape := match v with
      | .none => "none"
      | .tuple (.date .. :: _) => "dates"
      | .tuple (.datetime .. :: _) => "datetimes"
      | _ => "value"
    let extra := (if smallYear v then ["year<1000"] else []) ++
      (match p.cfg, v with
       | .tuple _, .tuple l => if PyVal.jsonNativeL l then [] else ["non-native-element"]
       | .list .., .list l => if PyVal.jsonNativeL l then [] else ["non-native-element"]
       | .dict, v => if v.jsonNative then [] else ["non-native-element"]
       | _, _ => []) ++
      (if v.finite then [] else ["non-finite"])
    (s!"{t}:{shape}" :: extra) ++ acc) []

def handle (req : LJson) : Except String LJson := do
  let case ← req.getObjVal? "case"
  let st ← parseState case
  let subset ← parseSubset case
  let model := model15 st subset ((← getStr case "level") == "class")
  let impl ← req.getObjVal? "impl"
  let implInvalid := (getOpt impl "invalid").bind (fun b => b.getBool?.toOption) == some true
  let app := applicable15 st && !implInvalid
  let sImpl ← if implInvalid then pure none else do
    let o ← parseObs15 impl
    pure (if app then spec15 subset o else none)
  let sModel := if app && !model.invalid then spec15 subset model else none
  return Lean.Json.mkObj [
    ("model", jObs15 model),
    ("applicable", Lean.Json.bool app),
    ("checked_steps", toJson (if app then st.length else 0)),
    ("spec_impl", optS sImpl), ("spec_model", optS sModel),
    ("branches", Lean.Json.arr ((branchesOf st).map Lean.Json.str).toArray)]

def main : IO Unit := serve handle
