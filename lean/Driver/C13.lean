import ParamVerif.Util.Proto
import ParamVerif.Store.NamespaceSpec
open Lean ParamVerif ParamVerif.Proto ParamVerif.Store ParamVerif.Store.Namespace

def optInt (j : Json) : Option Int := match j with | .null => none | v => v.getInt?.toOption
def optNat (j : Json) : Option Nat := match j with | .null => none | v => v.getNat?.toOption
def jOptInt : Option Int → Json | some v => toJson v | none => Json.null
def jOptNat : Option Nat → Json | some v => toJson v | none => Json.null
def nats (j : Json) : Except String (List Nat) := do (← j.getArr?).toList.mapM (·.getNat?)

def kwPairs (j : Json) : Except String (List (String × Int)) := do
  (← j.getArr?).toList.mapM fun p => do
    let q ← p.getArr?
    if q.size != 2 then throw "pair expected"
    return (← q[0]!.getStr?, ← q[1]!.getInt?)

def parseOp (j : Json) : Except String Op := do
  match ← getStr j "op" with
  | "read" => return .read (← getNat j "c")
  | "clsSet" => return .clsSet (← getNat j "c") (← getStr j "n") (← getInt j "v")
  | "addParam" => return .addParam (← getNat j "c") (← getStr j "n") (← getInt j "d")
                    ((getOpt j "hi").bind optInt)
  | "newInst" => return .newInst (← getNat j "c") (← kwPairs (← j.getObjVal? "kw"))
  | "instSet" => return .instSet (← getNat j "i") (← getStr j "n") (← getInt j "v")
  | "instParam" => return .instParam (← getNat j "i") (← getStr j "n")
  | "instBlock" => return .instBlock (← getNat j "i")
  | "watchCls" => return .watchCls (← getNat j "c") (← getStr j "n")
  | "watchInst" => return .watchInst (← getNat j "i") (← getStr j "n")
  | "clsSetParam" => return (.clsSetParam (← getNat j "c") (← getStr j "n") (← getInt j "d") ((getOpt j "hi").bind optInt))
  | o => throw s!"unknown op {o}"

def resName : Res → String
  | .ok => "ok" | .skip => "skip" | .valueError => "ValueError" | .typeError => "TypeError"
  | .keyError => "KeyError" | .runtimeError => "RuntimeError" | .stuck => "stuck"

def opName : Op → String
  | .read .. => "read" | .clsSet .. => "clsSet" | .addParam .. => "addParam"
  | .newInst .. => "newInst" | .instSet .. => "instSet" | .instParam .. => "instParam"
  | .instBlock .. => "instBlock" | .clsSetParam .. => "clsSetParam"
  | .watchCls .. => "watchCls" | .watchInst .. => "watchInst"

/-- which branch of the model the step took (coverage table) -/
def branchOf (s : St) (op : Op) (r : Res) : String :=
  let extra := match op with
    | .read c => if (s.classes[c]?.map (·.cache)).getD [] == [] then ":fill" else ":cached"
    | .clsSet c n _ => match descriptor s c n with
        | some (_, owner) => if owner == c then ":own" else ":copy-on-write"
        | none => ""
    | .addParam c n _ hi =>
        (if (aget (clsDict s c) n).isSome then ":replace" else
          if (descriptor s c n).isSome then ":override-inherited" else ":new") ++
        (if hi.isSome then ":own-bounds" else "")
    | .newInst _ kw => if kw.isEmpty then "" else ":kwargs"
    | .instBlock i => match s.insts[i]? with
        | some x => if (s.classes[x.cls]?.map (·.cache)).getD [] == [] then ":fill" else ":cached"
        | none => ""
    | .clsSetParam c _ _ _ => if (s.classes[c]?.map (·.cache)).getD [] == [] then ":unread" else ":cache-read"
    | .instSet i n _ => match s.insts[i]? with
        | some x => if (aget x.iparams n).isSome then ":has-copy" else ":makes-copy"
        | none => ""
    | .instParam i n => match s.insts[i]? with
        | some x => if (aget x.iparams n).isSome then ":has-copy" else ":makes-copy"
        | none => ""
    | .watchCls .. => ""
    | .watchInst .. => ""
  opName op ++ ":" ++ resName r ++ extra

def parseClsRow (j : Json) : Except String ClsRow := do
  let a ← j.getArr?
  if a.size != 8 then throw "class row: 8 fields expected"
  return { listed := ← a[0]!.getBool?, pid := optNat a[1]!, static := optNat a[2]!, pdefault := optInt a[3]!,
           attr := optInt a[4]!, value := optInt a[5]!, ser := optInt a[6]!, attrpid := optNat a[7]! }

def parseInstRow (j : Json) : Except String InstRow := do
  let a ← j.getArr?
  if a.size != 6 then throw "instance row: 6 fields expected"
  return { listed := ← a[0]!.getBool?, pid := optNat a[1]!, gov := optNat a[2]!, attr := optInt a[3]!,
           value := optInt a[4]!, ser := optInt a[5]! }

def parseStepObs (j : Json) : Except String StepObs := do
  let cls ← (← getArr j "cls").toList.mapM fun o => do
    return ({ c := ← getNat o "c", order := ← (← getArr o "order").toList.mapM (·.getStr?),
              rows := ← (← getArr o "rows").toList.mapM parseClsRow } : ClsObs)
  let insts ← (← getArr j "inst").toList.mapM fun o => do
    return ({ i := ← getNat o "i", rows := ← (← getArr o "rows").toList.mapM parseInstRow } : InstObs)
  return { res := ← getStr j "res", cls := cls, insts := insts }

def jClsRow (r : ClsRow) : Json :=
  Json.arr #[Json.bool r.listed, jOptNat r.pid, jOptNat r.static, jOptInt r.pdefault, jOptInt r.attr,
             jOptInt r.value, jOptInt r.ser, jOptNat r.attrpid]
def jInstRow (r : InstRow) : Json :=
  Json.arr #[Json.bool r.listed, jOptNat r.pid, jOptNat r.gov, jOptInt r.attr, jOptInt r.value, jOptInt r.ser]
def jStepObs (o : StepObs) : Json := Json.mkObj [
  ("res", Json.str o.res),
  ("cls", Json.arr (o.cls.map fun c => Json.mkObj [("c", toJson c.c),
      ("order", Json.arr (c.order.map Json.str).toArray), ("rows", Json.arr (c.rows.map jClsRow).toArray)]).toArray),
  ("inst", Json.arr (o.insts.map fun i => Json.mkObj [("i", toJson i.i),
      ("rows", Json.arr (i.rows.map jInstRow).toArray)]).toArray)]

/-- the declared classes: Parameters numbered in (class, declaration) order; the metaclass runs
`_initialize_parameter` on each declared Parameter once the class exists, so a Parameter declared
without bounds inherits them exactly as in `add_parameter` (the generator never declares a default
above an inherited bound, so class creation does not fail) -/
def initState (decls : List (List CId × List (String × Int × Option Int))) : St :=
  decls.foldl (fun s d =>
    let (dict, heap) := d.2.foldl (fun (acc : List (String × PId) × List Param) e =>
        (aset acc.1 e.1 acc.2.length, acc.2 ++ [{ default := e.2.1, hi := e.2.2 }])) ([], s.heap)
    let s1 : St := { s with heap := heap, classes := s.classes ++ [{ mro := d.1, dict := dict, cache := [] }] }
    dict.foldl (fun s np =>
      match s.heap[np.2]? with
      | some q => match q.hi with
        | some _ => s
        | none => { s with heap := s.heap.set np.2 { q with hi := inheritedHi s np.2 d.1 np.1 } }
      | none => s) s1)
    { heap := [], classes := [], insts := [] }

def handle (req : Json) : Except String Json := do
  let case ← req.getObjVal? "case"
  let names ← (← getArr case "names").toList.mapM (·.getStr?)
  let decls ← (← getArr case "classes").toList.mapM fun c => do
    let mro ← nats (← c.getObjVal? "mro")
    let decl ← (← getArr c "decl").toList.mapM fun e => do
      let a ← e.getArr?
      if a.size != 3 then throw "decl: [name, default, hi] expected"
      return (← a[0]!.getStr?, ← a[1]!.getInt?, optInt a[2]!)
    return (mro, decl)
  let dyn := (← getStr case "kind") == "Integer"
  let steps ← (← getArr case "steps").toList.mapM fun st => do
    return (← parseOp st, ← nats (← st.getObjVal? "oc"), ← nats (← st.getObjVal? "oi"))
  -- model run: the operation, then the observation reads (they fill caches)
  let (_, revObs, branches) := steps.foldl (fun (acc : St × List StepObs × List String) st =>
      let (s, l, b) := acc
      let (op, oc, oi) := st
      let (s1, r) := step s op
      let s2 := oc.foldl (fun s c => (nsRead s c).1) s1
      let s3 := oi.foldl (fun s i => match s.insts[i]? with | some x => (nsRead s x.cls).1 | none => s) s2
      let o : StepObs := { res := resName r, cls := oc.map (clsObsOf dyn s3 names),
                           insts := (oi.filter (· < s3.insts.length)).map (instObsOf dyn s3 names) }
      (s3, o :: l, branchOf s op r :: b))
    (initState decls, [], [])
  let modelSteps := revObs.reverse
  let impl ← req.getObjVal? "impl"
  let implSteps ← (← getArr impl "steps").toList.mapM parseStepObs
  let opsOnly := steps.map (·.1)
  let (nImpl, sImpl) := specHistory names (opsOnly.zip implSteps) 0
  let (_, sModel) := specHistory names (opsOnly.zip modelSteps) 0
  let optJ : Option String → Json := fun | some s => Json.str s | none => Json.null
  return Json.mkObj [
    ("model", Json.mkObj [("steps", Json.arr (modelSteps.map jStepObs).toArray)]),
    ("applicable", Json.bool true),
    ("checked_steps", toJson nImpl),
    ("spec_impl", optJ sImpl), ("spec_model", optJ sModel),
    ("branches", Json.arr (branches.reverse.map Json.str).toArray)]

def main : IO Unit := serve handle
