import ParamVerif.Util.Proto
import ParamVerif.Validate.Spec
open Lean ParamVerif ParamVerif.Proto ParamVerif.Py ParamVerif.Validate

/-! JSON-lines driver for C01.  A case = one declaration (parameter type +
constructor arguments) and a list of candidate values; the response carries the
model's verdict for the constructor and for every value on every route, and the
oracle (`Sat`, `CtorSat`) evaluated on what the implementation did. -/

def parseExt (j : Json) : Except String ExtRat := do
  match j with
  | .str "nan" => return .nan
  | .str "inf" => return .pinf
  | .str "-inf" => return .ninf
  | .arr a =>
    if a.size != 2 then throw "ratio expected"
    let n ← a[0]!.getInt?
    let d ← a[1]!.getNat?
    if d == 0 then throw "zero denominator"
    return .fin (mkRat n d)
  | _ => throw "number expected"

partial def parseVal (j : Json) : Except String PyVal := do
  match j with
  | .null => return .none
  | _ =>
    if let some b := getOpt j "b" then return .num .bool (.fin (if (← b.getBool?) then 1 else 0))
    if let some i := getOpt j "i" then return .num .int (.fin ((← i.getInt?) : Int))
    if let some f := getOpt j "f" then return .num .float (← parseExt f)
    if let some f := getOpt j "q" then return .num .frac (← parseExt f)
    if let some f := getOpt j "d" then return .num .dec (← parseExt f)
    if let some s := getOpt j "s" then return .str (← s.getStr?)
    if let some s := getOpt j "y" then return .bytes (← s.getStr?)
    if let some l := getOpt j "l" then return .list (← (← l.getArr?).toList.mapM parseVal)
    if let some l := getOpt j "t" then return .tuple (← (← l.getArr?).toList.mapM parseVal)
    if let some m := getOpt j "m" then
      let kvs ← (← m.getArr?).toList.mapM fun p => do
        let q ← p.getArr?
        if q.size != 2 then throw "pair expected"
        return (← parseVal q[0]!, ← parseVal q[1]!)
      return .dict (kvs.map (·.1)) (kvs.map (·.2))
    if let some d := getOpt j "D" then return .date (← d.getInt?)
    if let some d := getOpt j "T" then return .datetime (← d.getInt?)
    if let some f := getOpt j "fn" then return .func (← f.getNat?) ((getOpt j "gen").bind (·.getBool?.toOption) |>.getD false)
    if let some c := getOpt j "c" then return .cls (← c.getNat?)
    if let some o := getOpt j "o" then
      let q ← o.getArr?
      return .obj (← q[0]!.getNat?) (← q[1]!.getNat?)
    throw s!"unknown value tag {j.compress}"

def encExt (x : ExtRat) : Json :=
  match x with
  | .nan => Json.str "nan"
  | .pinf => Json.str "inf"
  | .ninf => Json.str "-inf"
  | .fin q => Json.arr #[toJson q.num, toJson q.den]

/-- the tagged JSON form of a value (what harness/props/c01.py `E` produces) -/
partial def encVal : PyVal → Json
  | .none => Json.null
  | .num .bool x => Json.mkObj [("b", Json.bool (x.eq (.fin 1)))]
  | .num .int x => (match x with
      | .fin q => Json.mkObj [("i", toJson q.num)]
      | e => Json.mkObj [("i", encExt e)])
  | .num .float x => Json.mkObj [("f", encExt x)]
  | .num .frac x => Json.mkObj [("q", encExt x)]
  | .num .dec x => Json.mkObj [("d", encExt x)]
  | .str s => Json.mkObj [("s", Json.str s)]
  | .bytes s => Json.mkObj [("y", Json.str s)]
  | .list xs => Json.mkObj [("l", Json.arr (xs.map encVal).toArray)]
  | .tuple xs => Json.mkObj [("t", Json.arr (xs.map encVal).toArray)]
  | .dict ks vs => Json.mkObj [("m", Json.arr ((ks.zip vs).map fun (k, v) => Json.arr #[encVal k, encVal v]).toArray)]
  | .date d => Json.mkObj [("D", toJson d)]
  | .datetime u => Json.mkObj [("T", toJson u)]
  | .func i g => Json.mkObj [("fn", toJson i), ("gen", Json.bool g)]
  | .cls i => Json.mkObj [("c", toJson i)]
  | .obj c i => Json.mkObj [("o", Json.arr #[toJson c, toJson i])]

def parseHook (j : Json) : Except String Hook := do
  match ← getStr j "hook" with
  | "ident" => return .identity
  | "double" => return .double
  | "neg" => return .neg
  | "const" => return .const (← parseVal (← j.getObjVal? "k"))
  | o => throw s!"unknown hook {o}"

def parsePType (s : String) : Except String PType :=
  match s with
  | "String" => pure .string | "Bytes" => pure .bytes | "Number" => pure .number
  | "Integer" => pure .integer | "Magnitude" => pure .magnitude | "Date" => pure .date
  | "CalendarDate" => pure .calendarDate | "Boolean" => pure .boolean | "Event" => pure .event
  | "Tuple" => pure .tuple | "NumericTuple" => pure .numericTuple | "XYCoordinates" => pure .xy
  | "Range" => pure .range | "DateRange" => pure .dateRange | "CalendarDateRange" => pure .calendarDateRange
  | "Callable" => pure .callable | "Action" => pure .action | "List" => pure .list
  | "HookList" => pure .hookList | "Selector" => pure .selector | "ListSelector" => pure .listSelector
  | "ClassSelector" => pure .classSelector | "Dict" => pure .dict | "Color" => pure .color
  | o => throw s!"unknown parameter type {o}"

/-- an argument is absent (key missing) or `{"v": value}` -/
def arg (args : Json) (k : String) : Option Json :=
  match args.getObjVal? k with
  | .ok w => (w.getObjVal? "v").toOption
  | .error _ => none

def optVal (j : Json) : Except String (Option PyVal) :=
  match j with
  | .null => pure none
  | _ => some <$> parseVal j

def parseBounds (j : Json) : Except String Bounds := do
  match j with
  | .null => return none
  | _ =>
    let a ← j.getArr?
    if a.size != 2 then throw "bounds pair expected"
    return some (← optVal a[0]!, ← optVal a[1]!)

def optInt (j : Json) : Except String (Option Int) :=
  match j with
  | .null => pure none
  | _ => some <$> j.getInt?

def nats (j : Json) : Except String (List Nat) := do (← j.getArr?).toList.mapM (·.getNat?)

def parseArgs (t : PType) (args : Json) : Except String Args := do
  let default ← match arg args "default" with
    | some d => some <$> parseVal d
    | none => pure none
  let allowNone ← match arg args "allow_None" with
    | some b => some <$> b.getBool?
    | none => pure none
  let bounds ← match (if t == .list || t == .hookList then none else arg args "bounds") with
    | some b => some <$> parseBounds b
    | none => pure none
  let incl ← match arg args "inclusive_bounds" with
    | some b => do
      let a ← b.getArr?
      pure (some (← a[0]!.getBool?, ← a[1]!.getBool?))
    | none => pure none
  let softbounds ← match arg args "softbounds" with
    | some b => some <$> parseBounds b
    | none => pure none
  let hook ← match arg args "set_hook" with
    | some h => some <$> parseHook h
    | none => pure none
  let constant ← match arg args "constant" with
    | some b => some <$> b.getBool?
    | none => pure none
  let readonly ← match arg args "readonly" with
    | some b => some <$> b.getBool?
    | none => pure none
  let step ← match arg args "step" with
    | some d => optVal d
    | none => pure none
  let length ← match arg args "length" with
    | some d => some <$> d.getNat?
    | none => pure none
  let lenBounds ← match (if t == .list || t == .hookList then arg args "bounds" else none) with
    | some .null => pure (some none)
    | some b => do
      let a ← b.getArr?
      pure (some (some (← optInt a[0]!, ← optInt a[1]!)))
    | none => pure none
  let itemType ← match arg args "item_type" with
    | some .null => pure (some none)
    | some d => (fun ks => some (some ks)) <$> nats d
    | none => pure none
  let isList := t == .list || t == .hookList
  let classAlias ← match (if isList then arg args "class_" else none) with
    | some d => some <$> nats d
    | none => pure none
  let isInstance ← match arg args "is_instance" with
    | some b => some <$> b.getBool?
    | none => pure none
  let objects ← match arg args "objects" with
    | some d => some <$> ((← d.getArr?).toList.mapM parseVal)
    | none => pure none
  let checkOnSet ← match arg args "check_on_set" with
    | some b => some <$> b.getBool?
    | none => pure none
  let classes ← match (if isList then none else arg args "class_") with
    | some d => nats d
    | none => pure []
  let allowNamed ← match arg args "allow_named" with
    | some b => some <$> b.getBool?
    | none => pure none
  return { ptype := t, default, allowNone, bounds, incl, softbounds, step, length, hook, constant, readonly,
           regex := (arg args "regex").isSome, lenBounds, itemType, classAlias, isInstance, objects,
           checkOnSet, classes, allowNamed }

def errName : ErrKind → String
  | .valueError => "ValueError"
  | .typeError => "TypeError"
  | .other n => s!"other:{n}"

def resName : R → String
  | .ok _ => "ok"
  | .error e => errName e

def routeKeys : List (String × Route) :=
  [("kw", .ctorKw), ("inst", .instAttr), ("upd", .update), ("cls", .clsAttr), ("cupd", .clsUpdate)]
def aliasKeys : List String := ["inst", "upd", "cls"]
def aliasSit (k : String) (same : Bool) : Situation := if k == "cls" then .classLevel else .initialised same

def jSlots (c : Cfg) : Json :=
  let hasLen := match c.ptype with
    | .tuple | .numericTuple | .xy | .range | .dateRange | .calendarDateRange => true
    | _ => false
  let hasBounds := match c.ptype with
    | .number | .integer | .magnitude | .date | .calendarDate | .range | .dateRange | .calendarDateRange => true
    | _ => false
  let isSel := c.ptype == .selector || c.ptype == .listSelector
  Json.mkObj [
    ("allow_None", Json.bool c.allowNone),
    ("length", if hasLen then toJson c.length else Json.null),
    ("bounds", if hasBounds then
        (match c.bounds with
         | none => Json.null
         | some (lo, hi) => Json.arr #[Json.bool lo.isSome, Json.bool hi.isSome]) else Json.null),
    ("check_on_set", if isSel then Json.bool c.checkOnSet else Json.null),
    ("constant", Json.bool c.constant), ("readonly", Json.bool c.readonly),
    ("item_type", if c.ptype == .list || c.ptype == .hookList then
        (match c.itemType with | some ks => toJson ks | none => Json.null) else Json.null)]

def optStr (j : Json) : Option String :=
  match j with
  | .str s => some s
  | _ => none

def handle (req : Json) : Except String Json := do
  let case ← req.getObjVal? "case"
  let tname ← getStr case "ptype"
  let t ← parsePType tname
  let args ← parseArgs t (← case.getObjVal? "args")
  let mro ← match getOpt case "mro" with
    | some m => (← m.getArr?).toList.mapM fun p => do
      let q ← p.getArr?
      return (← q[0]!.getNat?, ← nats q[1]!)
    | none => pure []
  let values ← (← getArr case "values").toList.mapM parseVal
  let rxs ← match getOpt case "rx" with
    | some r => (← r.getArr?).toList.mapM (·.getBool?)
    | none => pure (values.map fun _ => false)
  let rxDefault := (getOpt case "rx_default").bind (·.getBool?.toOption) |>.getD false
  let impl ← req.getObjVal? "impl"
  let implCtor ← getStr impl "ctor"
  let implVals := match impl.getObjVal? "vals" with
    | .ok (.arr a) => a.toList
    | _ => []
  let ctxOf (rx : Bool) : Ctx := { mro := mro, rx := rx }
  -- model
  let built := construct args (ctxOf rxDefault)
  let specC := specCfg args
  let mut modelVals : List Json := []
  let mut modelAlias : List Json := []
  let mut branches : List String := []
  let mut specImpl : Option String := judgeCtor args (ctxOf rxDefault) implCtor |>.map (s!"constructor: {·}")
  let mut specModel : Option String :=
    judgeCtor args (ctxOf rxDefault) (match built with | .ok _ => "ok" | .error e => errName e)
      |>.map (s!"constructor: {·}")
  let mut checked : Nat := 0
  branches := s!"{tname}:ctor:{match built with | .ok _ => "ok" | .error e => errName e}" :: branches
  let ctorBlocked := specImpl.isSome
  match built with
  | .error _ => pure ()
  | .ok c0 =>
    -- Selector.objects edited after the declaration: the constraint in force is the list as it is now
    let objectsAfter ← match case.getObjVal? "objects_after" with
      | .ok (.arr a) => some <$> a.toList.mapM parseVal
      | _ => pure none
    let c : Cfg := match objectsAfter with
      | some os => { c0 with objects := os }
      | none => c0
    let specC : Option Cfg := match objectsAfter with
      | some os => specC.map fun sc => { sc with objects := os }
      | none => specC
    let mut i := 0
    for v in values do
      let x := ctxOf (rxs.getD i false)
      let iv := implVals.getD i Json.null
      -- a non-identity hook changes what is stored: the read-back is then compared by value
      let hooked := hasHook c.ptype && (match c.hook with | .identity => false | _ => true)
      let rbOf (w : PyVal) : Json :=
        if hooked then Json.mkObj [("val", encVal (storedValue c (setterValue c w)))]
        else Json.str (expectedReadback c w)
      let outOf (o : Outcome) (fallback : R) : String × Bool := match o with
        | .stored _ _ => ("ok", true)
        | .rejected e => (errName e, false)
        | .notModelled => (resName fallback, match fallback with | .ok _ => true | .error _ => false)
      let sameOf (o : Json) : Bool := match o with
        | .arr a => (a[2]?.bind (·.getBool?.toOption)).getD false
        | _ => false
      let mut fields : List (String × Json) := []
      let mut modelOuts : List (String × String × Json) := []
      for (k, route) in routeKeys do
        let same := sameOf ((iv.getObjVal? k).toOption.getD Json.null)
        let (out, acc) := outOf (assign route c x same v) (.ok ())
        let rb : Json := if acc then rbOf v else Json.null
        fields := fields ++ [(k, Json.arr #[Json.str out, rb, Json.bool same])]
        modelOuts := modelOuts ++ [(k, out, rb)]
      -- deserialisation route
      let dj := (iv.getObjVal? "deser").toOption.getD Json.null
      let mut dv? : Option PyVal := none
      match dj with
      | .arr a =>
        if a.size == 4 then
          -- a[2] = what the implementation deserialised, a[3] = the JSON-decoded value it started from
          let dv ← parseVal a[2]!
          let jv ← parseVal a[3]!
          dv? := some dv
          -- the model deserialises itself where it can (Tuple family, identity types), and falls back
          -- to the implementation's deserialised value for the date types (strptime: C15)
          let (outd, accd) := match assign .deser c x false jv with
            | .notModelled => outOf (setter c x .uninitialised .instanceValue dv) (.ok ())
            | o => outOf o (.ok ())
          let rbd : Json := if accd then rbOf dv else Json.null
          fields := fields ++ [("deser", Json.arr #[Json.str outd, rbd, a[2]!, a[3]!])]
        else fields := fields ++ [("deser", Json.null)]
      | _ => fields := fields ++ [("deser", Json.null)]
      modelVals := modelVals ++ [Json.mkObj fields]
      let r := validate c x (setterValue c v)
      let kind := match r with
        | .ok _ => if v.isNone then "ok-none" else if v.isCallable then "ok-callable" else "ok"
        | .error e => errName e
      let b := s!"{tname}:{kind}"
      if !branches.contains b then branches := b :: branches
      if hooked && !branches.contains "set_hook" then branches := "set_hook" :: branches
      if c.constant && !branches.contains "constant" then branches := "constant" :: branches
      -- oracle, against the *declared* constraints
      match specC with
      | none => pure ()
      | some sc =>
        let rbExp (w : PyVal) : Json :=
          if hooked then Json.mkObj [("val", encVal (storedValue sc (setterValue sc w)))]
          else Json.str (expectedReadback sc w)
        if !ctorBlocked then
          for (k, route) in routeKeys do
            let o := (iv.getObjVal? k).toOption.getD Json.null
            match o with
            | .arr a =>
              if a.size == 3 then
                checked := checked + 1
                if specImpl.isNone then
                  specImpl := (judgeAssign sc x (route.situation (sameOf o)) v ((optStr a[0]!).getD "?")
                    (a[1]! == rbExp v)).map (s!"value #{i} route {k}: {·}")
            | _ => pure ()
          match dj, dv? with
          | .arr a, some dv =>
            checked := checked + 1
            if specImpl.isNone then
              specImpl := (judgeAssign sc x .uninitialised dv ((optStr a[0]!).getD "?") (a[1]! == rbExp dv)).map
                (s!"value #{i} route deser: {·}")
          | _, _ => pure ()
        if specModel.isNone then
          for (k, route) in routeKeys do
            match modelOuts.find? (·.1 == k) with
            | some (_, out, rb) =>
              if specModel.isNone then
                let same := sameOf ((iv.getObjVal? k).toOption.getD Json.null)
                specModel := (judgeAssign sc x (route.situation same) v out (rb == rbExp v)).map
                  (s!"value #{i} route {k}: {·}")
            | none => pure ()
      i := i + 1
    -- aliasing stream: assign a container, mutate the *held* object in place, assign the identical
    -- object again.  Validity is a matter of the content at the time of each assignment.
    let aliasCases := match case.getObjVal? "alias" with
      | .ok (.arr a) => a.toList
      | _ => []
    let implAlias := match impl.getObjVal? "alias" with
      | .ok (.arr a) => a.toList
      | _ => []
    let x0 := ctxOf false
    let mut j := 0
    for ac in aliasCases do
      let start ← parseVal (← ac.getObjVal? "start")
      let after ← parseVal (← ac.getObjVal? "after")
      let ia := implAlias.getD j Json.null
      let r1 := validate c x0 start
      let r2 := validate c x0 after
      let entry : Json := match r1 with
        | .error e => Json.arr #[Json.str (errName e), Json.null, Json.null]
        | .ok _ => Json.arr #[Json.str "ok", Json.str (resName r2),
            match r2 with | .ok _ => Json.str (expectedReadback c after) | .error _ => Json.null]
      modelAlias := modelAlias ++ [Json.mkObj (aliasKeys.map fun k => (k, entry))]
      let b := s!"alias:{resName r1}:{match r1 with | .ok _ => resName r2 | .error _ => "-"}"
      if !branches.contains b then branches := b :: branches
      match specC with
      | none => pure ()
      | some sc =>
        if !ctorBlocked then
          for k in aliasKeys do
            match (ia.getObjVal? k).toOption.getD Json.null with
            | .arr a =>
              if a.size == 3 then
                checked := checked + 1
                let o1 := (optStr a[0]!).getD "?"
                if specImpl.isNone then
                  specImpl := (judgeAssign sc x0 (aliasSit k false) start o1 true).map
                    (s!"alias #{j} route {k}, first assignment: {·}")
                if specImpl.isNone && o1 == "ok" then
                  specImpl := (judgeAssign sc x0 (aliasSit k true) after ((optStr a[1]!).getD "?")
                    (optStr a[2]! == some (expectedReadback sc after))).map
                    (s!"alias #{j} route {k}, re-assignment of the held object after mutating it in place: {·}")
            | _ => pure ()
        if specModel.isNone then
          match r1 with
          | .ok _ => specModel := (judgeAssign sc x0 (.initialised true) after (resName r2) true).map (s!"alias #{j}: {·}")
          | .error _ => pure ()
      j := j + 1
  let optJ : Option String → Json := fun | some s => Json.str s | none => Json.null
  let model := match built with
    | .ok c => Json.mkObj [("ctor", Json.str "ok"), ("slots", jSlots c), ("vals", Json.arr modelVals.toArray),
                           ("alias", Json.arr modelAlias.toArray)]
    | .error e => Json.mkObj [("ctor", Json.str (errName e)), ("slots", Json.null), ("vals", Json.arr #[]),
                              ("alias", Json.arr #[])]
  return Json.mkObj [
    ("model", model), ("applicable", Json.bool true), ("checked_steps", toJson checked),
    ("spec_impl", optJ specImpl), ("spec_model", optJ specModel),
    ("branches", Json.arr (branches.map Json.str).toArray)]

def main : IO Unit := serve handle
