import ParamVerif.Util.Proto
import ParamVerif.Dispatch.Spec
import ParamVerif.Dispatch.Equal
open Lean ParamVerif ParamVerif.Proto ParamVerif.Dispatch

def parseWatcher (j : Json) : Except String Watcher := do
  let ps ← (← getArr j "params").toList.mapM (·.getNat?)
  let id ← getNat j "id"
  return { id := id, params := ps, onlychanged := ← getBool j "onlychanged",
           queued := ← getBool j "queued", precedence := ← getInt j "precedence", body := ← getNat j "body",
           cb := (getNat j "cb").toOption.getD id, what := (getNat j "what").toOption.getD 0,
           kw := (getBool j "kw").toOption.getD false }

def parseKvs (j : Json) : Except String (List (Nat × Int)) := do
  (← j.getArr?).toList.mapM fun p => do
    let q ← p.getArr?
    return (← q[0]!.getNat?, ← q[1]!.getInt?)

partial def parseStmt (j : Json) : Except String Stmt := do
  let body (k : String) : Except String (List Stmt) := do (← getArr j k).toList.mapM parseStmt
  match ← getStr j "s" with
  | "set" => return .set (← getNat j "p") (← getInt j "v")
  | "setSlot" => return .setSlot (← getNat j "p") (← getNat j "k") (← getInt j "v")
  | "update" => return .update (← parseKvs (← j.getObjVal? "kvs"))
  | "updateCtx" => return .updateCtx (← parseKvs (← j.getObjVal? "kvs")) (← body "body")
  | "trigger" => return .trigger (← (← getArr j "ps").toList.mapM (·.getNat?))
  | "batch" => return .batch (← body "body")
  | "discard" => return .discard (← body "body")
  | "watch" => return .watch (← parseWatcher (← j.getObjVal? "w"))
  | "unwatch" => return .unwatch (← getNat j "id")
  | "raise" => return .raise
  | "raiseBase" => return .raiseBase
  | "try" => return .try_ (← body "body")
  | "other" => return .other (← getNat j "k")
  | "clsSet" => return .clsSet (← getNat j "p") (← getInt j "v")
  | s => throw s!"unknown stmt {s}"

def jRes : Res → Json
  | .ok => "ok" | .raised .value => "ValueError" | .raised .boom => "Boom" | .raised .base => "BoomBase"
  | .raised .key => "KeyError" | .oof => "oof"
def jType : EvType → Json
  | .set => "set" | .changed => "changed" | .triggered => "triggered" | .kw => "kw"
def jInts (l : List Int) : Json := Json.arr (l.map toJson).toArray
def jNats (l : List Nat) : Json := Json.arr (l.map toJson).toArray

partial def jItem : Item → Json
  | .call wid evs fl snap ch res => Json.mkObj [("t", "call"), ("w", toJson wid),
      ("evs", Json.arr (evs.map fun e => Json.arr #[toJson e.name, toJson e.old, toJson e.new, jType e.type, toJson e.what]).toArray),
      ("flush", Json.bool fl), ("snap", jInts snap), ("ch", Json.arr (ch.map jItem).toArray), ("res", jRes res)]
  | .stmt k p old new b tr regs ch res => Json.mkObj [("t", "stmt"), ("k", Json.str k), ("p", toJson p),
      ("old", toJson old), ("new", toJson new), ("b", Json.bool b), ("tr", Json.bool tr), ("regs", Json.arr (regs.map (fun k => jNats [k.1, k.2])).toArray),
      ("ch", Json.arr (ch.map jItem).toArray), ("res", jRes res)]

def jSlots (n : Nat) (w : World) : Json :=
  Json.arr ((List.range n).flatMap fun p => [1, 2].map fun k =>
    Json.arr #[toJson p, toJson k, toJson (getSlot w p k)]).toArray

def jWorld (w : World) : List (String × Json) := [
  ("vals", jInts w.vals), ("batch", Json.bool w.batch), ("trigger", Json.bool w.trigger),
  ("events", Json.arr (w.events.map fun e => Json.arr #[toJson e.name, toJson e.old, toJson e.new, toJson e.what]).toArray),
  ("queued", jNats (w.queued.map (·.id))), ("regs", jNats (w.regs.map (·.id)))]

partial def parseItem (j : Json) : Except String Item := do
  let ch ← (← getArr j "ch").toList.mapM parseItem
  let res ← match ← getStr j "res" with
    | "ok" => pure Res.ok | "ValueError" => pure (Res.raised .value) | "Boom" => pure (Res.raised .boom)
    | "BoomBase" => pure (Res.raised .base) | "KeyError" => pure (Res.raised .key)
    | "oof" => pure Res.oof | s => throw s!"res {s}"
  match ← getStr j "t" with
  | "call" =>
    let evs ← (← getArr j "evs").toList.mapM fun e => do
      let q ← e.getArr?
      let ty ← match ← q[3]!.getStr? with
        | "set" => pure EvType.set | "changed" => pure EvType.changed | "triggered" => pure EvType.triggered
        | "kw" => pure EvType.kw
        | s => throw s!"type {s}"
      return ({ name := ← q[0]!.getNat?, old := ← q[1]!.getInt?, new := ← q[2]!.getInt?, type := ty,
                what := (q[4]?.bind (fun x => x.getNat?.toOption)).getD 0 } : TEv)
    return .call (← getNat j "w") evs (← getBool j "flush") (← (← getArr j "snap").toList.mapM (·.getInt?)) ch res
  | _ =>
    return .stmt (← getStr j "k") (← getNat j "p") (← getInt j "old") (← getInt j "new") (← getBool j "b")
      (← getBool j "tr") (← (← getArr j "regs").toList.mapM (fun k => do
          let a ← k.getArr?
          return ((← a[0]!.getNat?), (← a[1]!.getNat?)))) ch res

partial def parsePV (j : Json) : Except String PV := do
  let items (k : String) : Except String (List PV) := do (← getArr j k).toList.mapM parsePV
  match ← getStr j "t" with
  | "none" => return .none
  | "num" => return .num (← getInt j "v")
  | "nan" => return .nan
  | "str" => return .str (← getStr j "v")
  | "bytes" => return .bytes (← getStr j "v")
  | "date" => return .date (← getInt j "v")
  | "datetime" => return .datetime (← getInt j "v")
  | "list" => return .list (← items "v")
  | "tuple" => return .tuple (← items "v")
  | "set" => return .set (← items "v")
  | "dict" => do
    let kvs ← (← getArr j "v").toList.mapM fun p => do
      let q ← p.getArr?
      return (← q[0]!.getStr?, ← parsePV q[1]!)
    return .dict kvs
  | "other" => return .other (← getNat j "id")
  | t => throw s!"unknown value tag {t}"

/-- the changes-only test on arbitrary values: `Comparator.is_equal` vs the model, Python `==` vs the spec -/
def handleEqual (req case : Json) : Except String Json := do
  let a ← parsePV (← case.getObjVal? "a")
  let b ← parsePV (← case.getObjVal? "b")
  let impl ← req.getObjVal? "impl"
  let iEq ← getBool impl "is_equal"
  let iPy ← getBool impl "py_eq"
  let specOn (isEq pyE : Bool) : Option String :=
    if isEq && !pyE then some "Comparator.is_equal hides a genuine change (values differ in Python)"
    else if plain a && plain b && pyE && !isEq then
      some "equal numbers/strings/None/dates/containers of these are reported as changed"
    else none
  let optJ : Option String → Json := fun | some s => Json.str s | none => Json.null
  return Json.mkObj [
    ("model", Json.mkObj [("is_equal", Json.bool (isEqual a b)), ("py_eq", Json.bool (pyEq a b))]),
    ("applicable", Json.bool true), ("spec_impl", optJ (specOn iEq iPy)),
    ("spec_model", optJ (specOn (isEqual a b) (pyEq a b))),
    ("branches", Json.arr #[Json.str (if plain a && plain b then "equal:plain" else "equal:other")]),
    ("checked_steps", toJson (1 : Nat))]

/-- which branches of the model a run went through (for the evidence's coverage table) -/
partial def branchesOf : List Item → List String
  | [] => []
  | (.call _ evs fl _ ch res) :: rest =>
    s!"model:call:{if fl then "flush" else "direct"}:{evs.length}ev:{if res == .ok then "ok" else "raised"}" ::
      (branchesOf ch ++ branchesOf rest)
  | (.stmt k _ _ _ b tr _ ch res) :: rest =>
    s!"model:{k}:{if b then "batched" else "open"}{if tr then ":triggering" else ""}:{if res == .ok then "ok" else "raised"}" ::
      (branchesOf ch ++ branchesOf rest)

/-- the `other k` statements a log shows, in execution order -/
partial def otherKs : List Item → List Nat
  | [] => []
  | (.call _ _ _ _ ch _) :: rest => otherKs ch ++ otherKs rest
  | (.stmt "other" k _ _ _ _ _ _ _) :: rest => k :: otherKs rest
  | (.stmt _ _ _ _ _ _ _ ch _) :: rest => otherKs ch ++ otherKs rest

def handle (req : Json) : Except String Json := do
  let case ← req.getObjVal? "case"
  if (getStr case "kind").toOption == some "equal" then return ← handleEqual req case
  let bounds ← (← getArr case "bounds").toList.mapM fun b => do
    let q ← b.getArr?
    return ((q[0]!.getInt?).toOption, (q[1]!.getInt?).toOption)
  let bodies ← (← getArr case "bodies").toList.mapM fun b => do (← b.getArr?).toList.mapM parseStmt
  let events := match case.getObjVal? "events" with
    | .ok (.arr a) => a.toList.filterMap (fun j => j.getNat?.toOption)
    | _ => []
  let cfg : Cfg := { bounds := bounds, bodies := bodies, events := events }
  let vals ← (← getArr case "init").toList.mapM (·.getInt?)
  let prog ← (← getArr case "program").toList.mapM parseStmt
  let prop := (getStr case "prop").toOption.getD "C03"
  let fuel := 1000000
  -- one object: its watchers, then top-level statements, each under the harness's try/except, world observed after each
  let runObject (regs0 : List Watcher) (prog : List Stmt) : List Watcher × List Json × List (World × Res × World × List Item) :=
    -- the Watcher objects made by the harness before the program starts: identities 0, 1, …
    let regs := regs0.zipIdx.map (fun (wt, i) => { wt with uid := i })
    let w0 : World := { vals := vals, regs := regs, batch := false, trigger := false, events := [], queued := [], nreg := regs.length,
                        slotKeys := regs.flatMap (fun wt => if wt.what = 0 then [] else wt.params.map (fun p => (p, wt.what))) }
    let (_, revSteps, revRuns) := prog.foldl (fun (acc : World × List Json × List (World × Res × World × List Item)) s =>
        let (w, l, rs) := acc
        let (r, w', o) := run cfg fuel (.stmt s) w
        (w', Json.mkObj ([("res", jRes r), ("items", Json.arr (o.map jItem).toArray),
                           ("slots", jSlots cfg.nparams w')] ++ jWorld w') :: l,
          (w, r, w', o) :: rs)) (w0, [], [])
    (regs, revSteps.reverse, revRuns.reverse)
  let regsA ← (← getArr case "watchers").toList.mapM parseWatcher
  let (regs, stepsA, runsA) := runObject regsA prog
  -- the second object: the statement lists named by the `other` statements the first object executed, in
  -- execution order (pre-order of its log), replayed on an independent world with watchers of its own
  let others ← match case.getObjVal? "others" with
    | .ok (.arr a) => a.toList.mapM fun b => do (← b.getArr?).toList.mapM parseStmt
    | _ => pure []
  let regsB ← match case.getObjVal? "watchers2" with
    | .ok (.arr a) => a.toList.mapM parseWatcher
    | _ => pure []
  let prog2 := (otherKs (runsA.flatMap fun (_, _, _, o) => o)).flatMap fun k => others.getD k []
  let (regs2, stepsB, runsB) := runObject regsB prog2
  let hasTwin := match case.getObjVal? "others" with | .ok (.arr _) => true | _ => false
  let model := Json.mkObj ([("steps", Json.arr stepsA.toArray)] ++
    (if hasTwin then [("steps2", Json.arr stepsB.toArray)] else []))
  let allRuns := runsA ++ runsB
  -- the harness gave up on the implementation after too many callback invocations: how many does the model make?
  if (req.getObjVal? "calls_only").toOption == some (Json.bool true) then
    let last (rs : List (World × Res × World × List Item)) := match rs.getLast? with | some (_, _, w', _) => w'.ncalls | none => 0
    return Json.mkObj [("ncalls", toJson (last runsA + last runsB)), ("oof", Json.bool (allRuns.any fun (_, r, _, _) => r == Res.oof))]
  -- oracle on the implementation's observation
  let impl ← req.getObjVal? "impl"
  let parseSteps (key : String) : Except String (List StepObs) := do
    match impl.getObjVal? key with
    | .ok (.arr a) => a.toList.mapM fun st => do
      let items ← (← getArr st "items").toList.mapM parseItem
      let vals ← (← getArr st "vals").toList.mapM (·.getInt?)
      let evs := (← getArr st "events").size
      let q ← (← getArr st "queued").toList.mapM (·.getNat?)
      return ({ items := items, vals := vals, batch := ← getBool st "batch", trigger := ← getBool st "trigger",
                nevents := evs, queued := q } : StepObs)
    | _ => pure []
  let implSteps ← parseSteps "steps"
  let implSteps2 ← parseSteps "steps2"
  let obsOf (rs : List (World × Res × World × List Item)) : List StepObs := rs.map fun (_, _, w', o) =>
    { items := o, vals := w'.vals, batch := w'.batch, trigger := w'.trigger, nevents := w'.events.length,
      queued := w'.queued.map (·.id) }
  let watchers := allWatchers regs prog bodies
  let watchers2 := allWatchers regs2 prog2 bodies
  let tag2 (o : Option String) : Option String := o.map (fun s => "second object: " ++ s)
  let specI := (specProgram prop cfg watchers vals implSteps).orElse fun _ => tag2 (specProgram prop cfg watchers2 vals implSteps2)
  let specM := (specProgram prop cfg watchers vals (obsOf runsA)).orElse fun _ => tag2 (specProgram prop cfg watchers2 vals (obsOf runsB))
  let optJ : Option String → Json := fun | some s => Json.str s | none => Json.null
  let anyOof := allRuns.any fun (_, r, _, _) => r == Res.oof
  return Json.mkObj [("model", model), ("applicable", Json.bool (!anyOof)),
    ("spec_impl", optJ specI), ("spec_model", optJ specM),
    ("branches", Json.arr ((allRuns.flatMap fun (_, _, _, o) => branchesOf o).eraseDups.map Json.str).toArray),
    ("checked_steps", toJson (implSteps.length + implSteps2.length))]

def main : IO Unit := serve handle
