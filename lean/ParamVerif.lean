-- Root of the `ParamVerif` library.  Checks build the modules they need
-- (`lake build ParamVerif.Props.Cnn ParamVerif.Audit.Cnn`); this root imports
-- everything so that `lake build` (setup_cmd) warms the whole library.
import ParamVerif.All
