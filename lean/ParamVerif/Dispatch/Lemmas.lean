/-
Helper lemmas for C03/C04/C05: invariants of the dispatch interpreter, each by one
induction on fuel over all call kinds.  The property theorems are in Props/C03–C05.lean.
-/
import ParamVerif.Dispatch.Model

namespace ParamVerif.Dispatch

/-- proof pattern shared by every fuel induction below: unfold one step of `run` in `hrun`,
split every `match`/`if`, then let `grind` combine the induction hypotheses -/
macro "run_cases" hrun:ident " with " t:tactic : tactic =>
  `(tactic| (simp only [run] at $hrun:ident <;> (repeat' split at $hrun:ident) <;> $t))

theorem Res.andThen_ne_oof {a b : Res} (ha : a ≠ .oof) (hb : b ≠ .oof) : a.andThen b ≠ .oof := by
  cases b <;> simp_all [Res.andThen]

/-! ### L1: every call restores the batching and the trigger flag, whatever its outcome -/

theorem flags (c : Cfg) : ∀ (f : Nat) (call : Call) (w : World),
    (run c f call w).1 ≠ .oof →
    (run c f call w).2.1.batch = w.batch ∧ (run c f call w).2.1.trigger = w.trigger := by
  intro f
  induction f with
  | zero => intro call w h; simp [run] at h
  | succ f ih =>
    intro call w
    generalize hrun : run c (f+1) call w = out
    intro h
    cases call with
    | stmts l => cases l <;> run_cases hrun with grind
    | stmt s => cases s <;> run_cases hrun with grind [Res.andThen]
    | setAttr p v => run_cases hrun with grind [Res.andThen]
    | setPlain p v => run_cases hrun with grind [Res.andThen]
    | setSlot p k v => run_cases hrun with grind [Res.andThen]
    | dispatch ws ev => cases ws <;> run_cases hrun with grind
    | callWatcher wt ev => run_cases hrun with grind
    | exec wt evs fl => run_cases hrun with grind
    | flush => run_cases hrun with grind
    | flushRound ws d => cases ws <;> run_cases hrun with grind
    | update kvs => run_cases hrun with grind [Res.andThen]
    | updateKeys kvs => rcases kvs with _ | ⟨⟨k, v⟩, rest⟩ <;> run_cases hrun with grind
    | trigger ps => run_cases hrun with grind

theorem batch_restored (c : Cfg) (f : Nat) (call : Call) (w : World)
    (h : (run c f call w).1 ≠ .oof) : (run c f call w).2.1.batch = w.batch := (flags c f call w h).1

theorem trigger_restored (c : Cfg) (f : Nat) (call : Call) (w : World)
    (h : (run c f call w).1 ≠ .oof) : (run c f call w).2.1.trigger = w.trigger := (flags c f call w h).2

/-! ### L1b: no call leaves an Event parameter in mode 'set' that was not in that mode before -/

theorem setMode_subset (c : Cfg) : ∀ (f : Nat) (call : Call) (w : World),
    (run c f call w).1 ≠ .oof → ∀ p ∈ (run c f call w).2.1.setMode, p ∈ w.setMode := by
  intro f
  induction f with
  | zero => intro call w h; simp [run] at h
  | succ f ih =>
    intro call w
    generalize hrun : run c (f+1) call w = out
    intro h
    cases call with
    | stmts l => cases l <;> run_cases hrun with grind
    | stmt s => cases s <;> run_cases hrun with grind [Res.andThen]
    | setAttr p v => run_cases hrun with grind [Res.andThen]
    | setPlain p v => run_cases hrun with grind [Res.andThen]
    | setSlot p k v => run_cases hrun with grind [Res.andThen]
    | dispatch ws ev => cases ws <;> run_cases hrun with grind
    | callWatcher wt ev => run_cases hrun with grind
    | exec wt evs fl => run_cases hrun with grind
    | flush => run_cases hrun with grind
    | flushRound ws d => cases ws <;> run_cases hrun with grind
    | update kvs => run_cases hrun with grind [Res.andThen]
    | updateKeys kvs => rcases kvs with _ | ⟨⟨k, v⟩, rest⟩ <;> run_cases hrun with grind
    | trigger ps => run_cases hrun with grind

/-! ### L1c: the number of parameter values never changes -/

theorem foldl_set_length (tps : List Nat) (vs : List Int) :
    (tps.foldl (fun vs tp => vs.set tp 0) vs).length = vs.length := by
  induction tps generalizing vs with
  | nil => rfl
  | cons t rest ih => simp [ih]

theorem vals_length (c : Cfg) : ∀ (f : Nat) (call : Call) (w : World),
    (run c f call w).1 ≠ .oof → (run c f call w).2.1.vals.length = w.vals.length := by
  intro f
  induction f with
  | zero => intro call w h; simp [run] at h
  | succ f ih =>
    intro call w
    generalize hrun : run c (f+1) call w = out
    intro h
    cases call with
    | stmts l => cases l <;> run_cases hrun with grind
    | stmt s => cases s <;> run_cases hrun with grind [Res.andThen]
    | setAttr p v => run_cases hrun with grind [Res.andThen, List.length_set]
    | setPlain p v => run_cases hrun with grind [Res.andThen, List.length_set]
    | setSlot p k v => run_cases hrun with grind [Res.andThen]
    | dispatch ws ev => cases ws <;> run_cases hrun with grind
    | callWatcher wt ev => run_cases hrun with grind
    | exec wt evs fl => run_cases hrun with grind
    | flush => run_cases hrun with grind
    | flushRound ws d => cases ws <;> run_cases hrun with grind
    | update kvs => run_cases hrun with grind [Res.andThen, foldl_set_length]
    | updateKeys kvs => rcases kvs with _ | ⟨⟨k, v⟩, rest⟩ <;> run_cases hrun with grind
    | trigger ps => run_cases hrun with grind

/-! ### L2: a watcher is queued only together with an event; queues are empty again after every
statement-level call made with the batching flag off -/

/-- a watcher is queued only together with an event -/
def Inv2 (w : World) : Prop := w.events = [] → w.queued = []

theorem inv2 (c : Cfg) : ∀ (f : Nat) (call : Call) (w : World),
    (run c f call w).1 ≠ .oof → Inv2 w → Inv2 (run c f call w).2.1 := by
  intro f
  induction f with
  | zero => intro call w h; simp [run] at h
  | succ f ih =>
    intro call w
    generalize hrun : run c (f+1) call w = out
    intro h hi
    unfold Inv2 at *
    cases call with
    | stmts l => cases l <;> run_cases hrun with grind
    | stmt s => cases s <;> run_cases hrun with grind [Res.andThen]
    | setAttr p v => run_cases hrun with grind [Res.andThen]
    | setPlain p v => run_cases hrun with grind [Res.andThen]
    | setSlot p k v => run_cases hrun with grind [Res.andThen]
    | dispatch ws ev => cases ws <;> run_cases hrun with grind
    | callWatcher wt ev => run_cases hrun with grind [List.append_eq_nil_iff]
    | exec wt evs fl => run_cases hrun with grind
    | flush => run_cases hrun with grind
    | flushRound ws d => cases ws <;> run_cases hrun with grind
    | update kvs => run_cases hrun with grind [Res.andThen]
    | updateKeys kvs => rcases kvs with _ | ⟨⟨k, v⟩, rest⟩ <;> run_cases hrun with grind
    | trigger ps => run_cases hrun with grind [List.append_eq_nil_iff]

/-- both queues empty -/
def Q (w : World) : Prop := w.events = [] ∧ w.queued = []

/-- statement-level call kinds (what a program or a callback body can execute) and the flush -/
def Call.stmtLevel : Call → Bool
  | .stmts _ | .stmt _ | .setAttr .. | .setPlain .. | .setSlot .. | .update _ | .trigger _ => true
  | _ => false

set_option maxHeartbeats 800000 in
/-- With the batching flag off: a flush empties the queues from any state, and a
statement-level call that starts with empty queues ends with empty queues — for every
outcome, raised ones included. -/
theorem queues_empty (c : Cfg) : ∀ (f : Nat) (call : Call) (w : World),
    (run c f call w).1 ≠ .oof → w.batch = false → Inv2 w →
    ((call = .flush → Q (run c f call w).2.1) ∧
     (call.stmtLevel = true → Q w → Q (run c f call w).2.1)) := by
  intro f
  induction f with
  | zero => intro call w h; simp [run] at h
  | succ f ih =>
    intro call w
    generalize hrun : run c (f+1) call w = out
    intro h hb hi
    have hfl := flags c f
    have hi2 := inv2 c f
    unfold Inv2 Q at *
    cases call with
    | stmts l => cases l <;> run_cases hrun with grind [Call.stmtLevel]
    | stmt s => cases s <;> run_cases hrun with grind [Res.andThen, Call.stmtLevel]
    | setAttr p v => run_cases hrun with grind [Res.andThen, Call.stmtLevel]
    | setPlain p v => run_cases hrun with grind [Res.andThen, Call.stmtLevel]
    | setSlot p k v => run_cases hrun with grind [Res.andThen, Call.stmtLevel]
    | dispatch ws ev => simp [Call.stmtLevel]
    | callWatcher wt ev => simp [Call.stmtLevel]
    | exec wt evs fl => simp [Call.stmtLevel]
    | flush => run_cases hrun with grind [Call.stmtLevel, List.isEmpty_iff]
    | flushRound ws d => simp [Call.stmtLevel]
    | update kvs => run_cases hrun with grind [Res.andThen, Call.stmtLevel]
    | updateKeys kvs => simp [Call.stmtLevel]
    | trigger ps => run_cases hrun with grind [Call.stmtLevel, List.append_eq_nil_iff]

/-! ### L3: while the batching flag is set no callback runs -/

/-- call kinds that never run a callback when the batching flag is set (everything except
`exec` and the flush, which are only reached with the flag off) -/
def Call.deferring : Call → Bool
  | .exec .. | .flush | .flushRound .. => false
  | _ => true

theorem silent_in_batch (c : Cfg) : ∀ (f : Nat) (call : Call) (w : World),
    (run c f call w).1 ≠ .oof → w.batch = true → call.deferring = true →
    (run c f call w).2.1.ncalls = w.ncalls := by
  intro f
  induction f with
  | zero => intro call w h; simp [run] at h
  | succ f ih =>
    intro call w
    generalize hrun : run c (f+1) call w = out
    intro h hb hd
    have hfl := flags c f
    cases call with
    | stmts l => cases l <;> run_cases hrun with grind [Call.deferring]
    | stmt s => cases s <;> run_cases hrun with grind [Res.andThen, Call.deferring]
    | setAttr p v => run_cases hrun with grind [Res.andThen, Call.deferring]
    | setPlain p v => run_cases hrun with grind [Res.andThen, Call.deferring]
    | setSlot p k v => run_cases hrun with grind [Res.andThen, Call.deferring]
    | dispatch ws ev => cases ws <;> run_cases hrun with grind [Call.deferring]
    | callWatcher wt ev => run_cases hrun with grind [Call.deferring]
    | exec wt evs fl => simp [Call.deferring] at hd
    | flush => simp [Call.deferring] at hd
    | flushRound ws d => simp [Call.deferring] at hd
    | update kvs => run_cases hrun with grind [Res.andThen, Call.deferring]
    | updateKeys kvs => rcases kvs with _ | ⟨⟨k, v⟩, rest⟩ <;> run_cases hrun with grind [Call.deferring]
    | trigger ps => run_cases hrun with grind [Call.deferring]

/-! ### L6–L8: which callbacks a dispatch loop / a flush round invokes, in which order, with which events -/

/-- (watcher id, events, via flush?) of the callback invocations at the top level of a log -/
def callSigs (out : List Item) : List (Nat × List TEv × Bool) :=
  out.filterMap fun
    | .call wid evs fl _ _ _ => some (wid, evs, fl)
    | _ => none

@[simp] theorem callSigs_append (a b : List Item) : callSigs (a ++ b) = callSigs a ++ callSigs b := by
  simp [callSigs, List.filterMap_append]

@[simp] theorem callSigs_nil : callSigs [] = [] := rfl

theorem exec_shape (c : Cfg) (f : Nat) (w : World) (wt : Watcher) (evs : List TEv) (fl : Bool)
    (h : (run c f (.exec wt evs fl) w).1 ≠ .oof) :
    callSigs (run c f (.exec wt evs fl) w).2.2 = [(wt.cb, shown wt evs, fl)] := by
  cases f with
  | zero => simp [run] at h
  | succ f => simp [run, callSigs]

theorem callWatcher_shape (c : Cfg) (f : Nat) (w : World) (wt : Watcher) (ev : Ev)
    (hb : w.batch = false) (h : (run c f (.callWatcher wt ev) w).1 ≠ .oof) :
    callSigs (run c f (.callWatcher wt ev) w).2.2 =
      if passes w.trigger wt ev then [(wt.cb, shown wt [typed w.trigger wt ev], false)] else [] := by
  cases f with
  | zero => simp [run] at h
  | succ f =>
    simp only [run] at h ⊢
    by_cases hp : passes w.trigger wt ev
    · simp only [hp, Bool.not_true, Bool.false_eq_true, if_false, hb, if_true] at h ⊢
      exact exec_shape c f w wt _ false h
    · simp [hp]

/-- **dispatch loop**: with the batching flag off, a dispatch that returns normally has invoked
exactly the watchers that pass the changes-only filter, once each, in the order given, each with
the one typed event. -/
theorem dispatch_shape (c : Cfg) (ev : Ev) : ∀ (ws : List Watcher) (f : Nat) (w : World),
    w.batch = false → (run c f (.dispatch ws ev) w).1 = .ok →
    callSigs (run c f (.dispatch ws ev) w).2.2 =
      (ws.filter (fun wt => passes w.trigger wt ev)).map (fun wt => (wt.cb, shown wt [typed w.trigger wt ev], false)) := by
  intro ws
  induction ws with
  | nil =>
    intro f w _ h
    cases f with
    | zero => simp [run] at h
    | succ f => simp [run]
  | cons wt rest ih =>
    intro f w hb h
    cases f with
    | zero => simp [run] at h
    | succ f =>
      simp only [run] at h ⊢
      have hcw := callWatcher_shape c f w wt ev hb
      have hfl := flags c f (.callWatcher wt ev) w
      split at h
      · rename_i w1 o1 heq
        rw [heq] at hcw hfl
        simp only [ne_eq, reduceCtorEq, not_false_eq_true, forall_const] at hcw hfl
        have hb1 : w1.batch = false := by rw [hfl.1]; exact hb
        have ih' := ih f w1 hb1 h
        rw [hfl.2] at ih'
        simp only [callSigs_append, hcw, ih', List.filter_cons]
        by_cases hp : passes w.trigger wt ev <;> simp [hp]
      · rename_i r hne
        -- the first callback did not return normally: the loop result is that outcome, not ok
        exfalso
        rcases hr : run c f (.callWatcher wt ev) w with ⟨r1, w1, o1⟩
        rw [hr] at h hne
        cases r1 with
        | ok => exact hne w1 o1 rfl
        | raised e => simp at h
        | oof => simp at h

/-- **flush round**: a round that returns normally has invoked every queued watcher once, in
the order given, each with its events `evsFor`. -/
theorem flushRound_shape (c : Cfg) (dict : List Ev) : ∀ (ws : List Watcher) (f : Nat) (w : World),
    (run c f (.flushRound ws dict) w).1 = .ok →
    callSigs (run c f (.flushRound ws dict) w).2.2 =
      ws.map (fun wt => (wt.cb, shown wt (evsFor w.trigger wt dict), true)) := by
  intro ws
  induction ws with
  | nil =>
    intro f w h
    cases f with
    | zero => simp [run] at h
    | succ f => simp [run]
  | cons wt rest ih =>
    intro f w h
    cases f with
    | zero => simp [run] at h
    | succ f =>
      simp only [run] at h ⊢
      have hex := exec_shape c f w wt (evsFor w.trigger wt dict) true
      have hfl := flags c f (.exec wt (evsFor w.trigger wt dict) true) w
      split at h
      · rename_i w1 o1 heq
        rw [heq] at hex hfl
        simp only [ne_eq, reduceCtorEq, not_false_eq_true, forall_const] at hex hfl
        have ih' := ih f w1 h
        rw [hfl.2] at ih'
        simp [callSigs_append, hex, ih']
      · rename_i r hne
        exfalso
        rcases hr : run c f (.exec wt (evsFor w.trigger wt dict) true) w with ⟨r1, w1, o1⟩
        rw [hr] at h hne
        cases r1 with
        | ok => exact hne w1 o1 rfl
        | raised e => simp at h
        | oof => simp at h

/-- every top-level entry of a flush's log is a callback invocation made by the flush -/
def allFlushCalls (out : List Item) : Bool :=
  out.all fun
    | .call _ _ true _ _ _ => true
    | _ => false

theorem allFlushCalls_append (a b : List Item) :
    allFlushCalls (a ++ b) = (allFlushCalls a && allFlushCalls b) := by
  simp [allFlushCalls, List.all_append]

/-- a log made of via-flush invocations contains no direct invocation -/
theorem flush_sigs_not_direct {o : List Item} (h : allFlushCalls o = true) :
    (callSigs o).filter (fun s => !s.2.2) = [] := by
  induction o with
  | nil => rfl
  | cons it rest ih =>
    simp only [allFlushCalls, List.all_cons, Bool.and_eq_true] at h
    have ih' := ih (by simpa [allFlushCalls] using h.2)
    cases it with
    | call wid evs fl snap ch res =>
      cases fl with
      | true => simpa [callSigs, List.filterMap_cons] using ih'
      | false => simp at h
    | stmt => simp at h

theorem flush_only_flush_calls (c : Cfg) : ∀ (f : Nat) (call : Call) (w : World),
    (call = .flush ∨ (∃ ws d, call = .flushRound ws d) ∨ (∃ wt evs, call = .exec wt evs true)) →
    allFlushCalls (run c f call w).2.2 = true := by
  intro f
  induction f with
  | zero => intro call w _; simp [run, allFlushCalls]
  | succ f ih =>
    intro call w hc
    generalize hrun : run c (f+1) call w = out
    cases call with
    | flush => run_cases hrun with grind [allFlushCalls_append, allFlushCalls]
    | flushRound ws d => cases ws <;> run_cases hrun with grind [allFlushCalls_append, allFlushCalls]
    | exec wt evs fl =>
      have : fl = true := by grind
      subst this
      simp only [run] at hrun
      subst hrun
      simp [allFlushCalls]
    | _ => grind

/-! ### L4: a watcher is never queued twice -/

def NodupQ (w : World) : Prop := (w.queued.map (·.uid)).Nodup

theorem hasId_iff (l : List Watcher) (i : Nat) : hasId l i = true ↔ i ∈ l.map (·.uid) := by
  simp [hasId, List.any_eq_true]

theorem nodup_append_filter (a b : List Watcher) (ha : (a.map (·.uid)).Nodup) (hb : (b.map (·.uid)).Nodup) :
    ((a ++ b.filter (fun x => !hasId a x.uid)).map (·.uid)).Nodup := by
  rw [List.map_append, List.nodup_append]
  refine ⟨ha, (List.filter_sublist.map _).nodup hb, ?_⟩
  intro x hx y hy e
  subst e
  obtain ⟨z, hz, rfl⟩ := List.mem_map.1 hy
  have := (List.mem_filter.1 hz).2
  simp only [Bool.not_eq_true'] at this
  have h2 := (hasId_iff a z.uid).2 hx
  rw [this] at h2
  cases h2

theorem nodup_append_single (a : List Watcher) (x : Watcher) (ha : (a.map (·.uid)).Nodup)
    (hx : hasId a x.uid = false) : ((a ++ [x]).map (·.uid)).Nodup := by
  rw [List.map_append, List.nodup_append]
  refine ⟨ha, by simp, ?_⟩
  intro i hi j hj e
  simp at hj
  subst hj; subst e
  have := (hasId_iff a x.uid).2 hi
  rw [hx] at this; cases this

theorem nodupQ (c : Cfg) : ∀ (f : Nat) (call : Call) (w : World),
    (run c f call w).1 ≠ .oof → NodupQ w → NodupQ (run c f call w).2.1 := by
  intro f
  induction f with
  | zero => intro call w h; simp [run] at h
  | succ f ih =>
    intro call w
    generalize hrun : run c (f+1) call w = out
    intro h hi
    unfold NodupQ at *
    cases call with
    | stmts l => cases l <;> run_cases hrun with grind
    | stmt s => cases s <;> run_cases hrun with grind [Res.andThen]
    | setAttr p v => run_cases hrun with grind [Res.andThen]
    | setPlain p v => run_cases hrun with grind [Res.andThen]
    | setSlot p k v => run_cases hrun with grind [Res.andThen]
    | dispatch ws ev => cases ws <;> run_cases hrun with grind
    | callWatcher wt ev =>
      simp only [run] at hrun
      split at hrun
      · grind
      · split at hrun
        · subst hrun
          simp only
          split
          · exact hi
          · rename_i hh
            exact nodup_append_single _ _ hi (by simpa using hh)
        · grind
    | exec wt evs fl => run_cases hrun with grind
    | flush => run_cases hrun with grind
    | flushRound ws d => cases ws <;> run_cases hrun with grind
    | update kvs => run_cases hrun with grind [Res.andThen]
    | updateKeys kvs => rcases kvs with _ | ⟨⟨k, v⟩, rest⟩ <;> run_cases hrun with grind
    | trigger ps =>
      simp only [run] at hrun
      split at hrun
      · subst hrun; exact hi
      · subst hrun
        simp only at h ⊢
        exact nodup_append_filter _ _ hi (ih _ _ h (by simp))

/-! ### L5: inside an open batch what is queued stays queued, whatever a statement does -/

theorem deferred_kept (c : Cfg) : ∀ (f : Nat) (call : Call) (w : World),
    (run c f call w).1 ≠ .oof → w.batch = true → call.deferring = true →
    (∀ e ∈ w.events, e ∈ (run c f call w).2.1.events) ∧
    (∀ x ∈ w.queued, x.uid ∈ (run c f call w).2.1.queued.map (·.uid)) := by
  intro f
  induction f with
  | zero => intro call w h; simp [run] at h
  | succ f ih =>
    intro call w
    generalize hrun : run c (f+1) call w = out
    intro h hb hd
    have hfl := flags c f
    cases call with
    | stmts l => cases l <;> run_cases hrun with grind [Call.deferring]
    | stmt s =>
      by_cases hcs : ∃ p v, s = .clsSet p v
      · obtain ⟨p, v, rfl⟩ := hcs
        simp only [run] at hrun
        subst hrun
        exact ⟨fun e he => he, fun x hx => List.mem_map.2 ⟨x, hx, rfl⟩⟩
      · cases s <;> first | (exact absurd ⟨_, _, rfl⟩ hcs) | (run_cases hrun with grind [Res.andThen, Call.deferring])
    | setAttr p v => run_cases hrun with grind [Res.andThen, Call.deferring]
    | setPlain p v => run_cases hrun with grind [Res.andThen, Call.deferring]
    | setSlot p k v => run_cases hrun with grind [Res.andThen, Call.deferring]
    | dispatch ws ev => cases ws <;> run_cases hrun with grind [Call.deferring]
    | callWatcher wt ev => run_cases hrun with grind [Call.deferring]
    | exec wt evs fl => simp [Call.deferring] at hd
    | flush => simp [Call.deferring] at hd
    | flushRound ws d => simp [Call.deferring] at hd
    | update kvs => run_cases hrun with grind [Res.andThen, Call.deferring]
    | updateKeys kvs => rcases kvs with _ | ⟨⟨k, v⟩, rest⟩ <;> run_cases hrun with grind [Call.deferring]
    | trigger ps =>
      simp only [run] at hrun
      split at hrun
      · subst hrun; exact ⟨fun e he => he, fun x hx => List.mem_map.2 ⟨x, hx, rfl⟩⟩
      · subst hrun
        simp only
        refine ⟨fun e he => List.mem_append_left _ he, ?_⟩
        intro x hx
        simp only [List.map_append, List.mem_append]
        exact Or.inl (List.mem_map.2 ⟨x, hx, rfl⟩)

/-! ### L9: a queued callback's own assignments are not dispatched while it is running -/

theorem exec_queued_runs_nothing_else (c : Cfg) (f : Nat) (w : World) (wt : Watcher) (evs : List TEv) (fl : Bool)
    (hq : wt.queued = true) (h : (run c f (.exec wt evs fl) w).1 ≠ .oof) :
    (run c f (.exec wt evs fl) w).2.1.ncalls = w.ncalls + 1 := by
  cases f with
  | zero => simp [run] at h
  | succ f =>
    simp only [run] at h ⊢
    have := silent_in_batch c f (.stmts (c.body wt.body))
      { w with batch := wt.queued || w.batch, ncalls := w.ncalls + 1 } h (by simp [hq]) rfl
    simpa using this

/-! ### L12: with the batching flag set, dispatching changes no value and no registration -/

theorem dispatch_in_batch_keeps_vals (c : Cfg) (ev : Ev) : ∀ (ws : List Watcher) (f : Nat) (w : World),
    w.batch = true → (run c f (.dispatch ws ev) w).1 ≠ .oof →
    (run c f (.dispatch ws ev) w).2.1.vals = w.vals ∧ (run c f (.dispatch ws ev) w).2.1.regs = w.regs ∧
    (run c f (.dispatch ws ev) w).1 = .ok := by
  intro ws
  induction ws with
  | nil =>
    intro f w _ h
    cases f with
    | zero => simp [run] at h
    | succ f => simp [run]
  | cons wt rest ih =>
    intro f w hb h
    cases f with
    | zero => simp [run] at h
    | succ f =>
      simp only [run] at h ⊢
      cases f with
      | zero => simp [run] at h
      | succ f =>
        have hcw : run c (f+1) (.callWatcher wt ev) w =
            (.ok, (run c (f+1) (.callWatcher wt ev) w).2.1, []) ∧
            (run c (f+1) (.callWatcher wt ev) w).2.1.vals = w.vals ∧
            (run c (f+1) (.callWatcher wt ev) w).2.1.regs = w.regs ∧
            (run c (f+1) (.callWatcher wt ev) w).2.1.batch = true := by
          simp only [run]
          by_cases hp : passes w.trigger wt ev <;> simp [hp, hb]
        obtain ⟨e1, e2, e3, e4⟩ := hcw
        rw [e1] at h ⊢
        simp only at h ⊢
        have := ih (f+1) _ e4 h
        exact ⟨this.1.trans e2, this.2.1.trans e3, this.2.2⟩

/-! ### `sorted(..., key=precedence)`: a stable sort -/

theorem insertByPrec_perm (x : Watcher) (l : List Watcher) : (insertByPrec x l).Perm (x :: l) := by
  induction l with
  | nil => simp [insertByPrec]
  | cons y l ih =>
    simp only [insertByPrec]
    split
    · exact (List.Perm.cons y ih).trans (List.Perm.swap x y l)
    · exact List.Perm.refl _

theorem sortByPrec_perm (l : List Watcher) : (sortByPrec l).Perm l := by
  induction l with
  | nil => simp [sortByPrec]
  | cons x l ih =>
    simp only [sortByPrec, List.foldr_cons]
    exact (insertByPrec_perm x _).trans (List.Perm.cons x ih)

theorem insertByPrec_sorted (x : Watcher) (l : List Watcher)
    (h : l.Pairwise (fun a b => a.precedence ≤ b.precedence)) :
    (insertByPrec x l).Pairwise (fun a b => a.precedence ≤ b.precedence) := by
  induction l with
  | nil => simp [insertByPrec]
  | cons y l ih =>
    simp only [insertByPrec]
    rw [List.pairwise_cons] at h
    split
    · rename_i hlt
      rw [List.pairwise_cons]
      refine ⟨?_, ih h.2⟩
      intro z hz
      rcases List.mem_cons.1 ((List.Perm.mem_iff (insertByPrec_perm x l)).1 hz) with hz' | hz'
      · subst hz'; exact Int.le_of_lt hlt
      · exact h.1 z hz'
    · rename_i hge
      rw [List.pairwise_cons]
      refine ⟨?_, List.pairwise_cons.2 h⟩
      intro z hz
      have hxy : x.precedence ≤ y.precedence := Int.not_lt.1 hge
      rcases List.mem_cons.1 hz with e | hz'
      · subst e; exact hxy
      · exact Int.le_trans hxy (h.1 z hz')

/-- the dispatch order is non-decreasing in precedence … -/
theorem sortByPrec_sorted (l : List Watcher) :
    (sortByPrec l).Pairwise (fun a b => a.precedence ≤ b.precedence) := by
  induction l with
  | nil => simp [sortByPrec]
  | cons x l ih =>
    simp only [sortByPrec, List.foldr_cons]
    exact insertByPrec_sorted x _ ih

theorem insertByPrec_filter (k : Int) (x : Watcher) (l : List Watcher) :
    (insertByPrec x l).filter (fun w => w.precedence = k) =
      if x.precedence = k then x :: l.filter (fun w => w.precedence = k) else l.filter (fun w => w.precedence = k) := by
  induction l with
  | nil => simp [insertByPrec, List.filter_cons]
  | cons y l ih =>
    simp only [insertByPrec]
    split
    · rename_i hlt
      simp only [List.filter_cons, ih]
      by_cases hx : x.precedence = k
      · have hy : ¬ y.precedence = k := by omega
        simp [hx, hy]
      · simp [hx]
    · simp [List.filter_cons]

/-- … and among watchers of equal precedence it is the registration order (stability) -/
theorem sortByPrec_stable (k : Int) (l : List Watcher) :
    (sortByPrec l).filter (fun w => w.precedence = k) = l.filter (fun w => w.precedence = k) := by
  induction l with
  | nil => simp [sortByPrec]
  | cons x l ih =>
    simp only [sortByPrec, List.foldr_cons]
    rw [insertByPrec_filter]
    simp only [sortByPrec] at ih
    by_cases hx : x.precedence = k <;> simp [hx, ih, List.filter_cons]

/-! ### the events a watcher receives at a flush -/

theorem lastFor_some {dict : List Ev} {n k : Nat} {e : Ev} (h : lastFor dict n k = some e) :
    (e.name = n ∧ e.what = k) ∧ ∃ pre post, dict = pre ++ e :: post ∧ ∀ e' ∈ post, ¬(e'.name = n ∧ e'.what = k) := by
  unfold lastFor at h
  have h1 := List.find?_some h
  simp only [Bool.and_eq_true, decide_eq_true_eq] at h1
  refine ⟨h1, ?_⟩
  obtain ⟨as, bs, hsplit, hnot⟩ := List.find?_eq_some_iff_append.1 h |>.2
  refine ⟨bs.reverse, as.reverse, ?_, ?_⟩
  · have := congrArg List.reverse hsplit
    simpa using this
  · intro e' he'
    have := hnot e' (List.mem_reverse.1 he')
    intro hc
    simp [hc.1, hc.2] at this

theorem lastFor_none {dict : List Ev} {n k : Nat} (h : lastFor dict n k = none) :
    ∀ e ∈ dict, ¬(e.name = n ∧ e.what = k) := by
  unfold lastFor at h
  intro e he
  have := List.find?_eq_none.1 h e (List.mem_reverse.2 he)
  simpa using this

theorem lastFor_isSome_iff (dict : List Ev) (n k : Nat) :
    (lastFor dict n k).isSome = dict.any (fun e => e.name = n && e.what = k) := by
  cases h : lastFor dict n k with
  | none =>
    have := lastFor_none h
    simp only [Option.isSome_none]
    symm
    rw [Bool.eq_false_iff]
    intro hany
    obtain ⟨e, he, hn⟩ := List.any_eq_true.1 hany
    exact this e he (by simpa using hn)
  | some e =>
    obtain ⟨hn, pre, post, hd, _⟩ := lastFor_some h
    simp only [Option.isSome_some]
    symm
    rw [List.any_eq_true]
    exact ⟨e, by rw [hd]; simp, by simpa using hn⟩

/-- a watcher receives one event per watched parameter that has a queued event of the kind it
watches, in the order of its own parameter list -/
theorem evsFor_names (tr : Bool) (wt : Watcher) (dict : List Ev) :
    (evsFor tr wt dict).map (·.name) =
      wt.params.filter (fun n => dict.any (fun e => e.name = n && e.what = wt.what)) := by
  unfold evsFor
  induction wt.params with
  | nil => simp
  | cons n ps ih =>
    simp only [List.filterMap_cons, List.filter_cons]
    rw [← lastFor_isSome_iff]
    cases h : lastFor dict n wt.what with
    | none => simpa using ih
    | some e =>
      have := (lastFor_some h).1.1
      simp [typed, this, ih]

/-- … namely the *last* event queued for that parameter (and kind), typed for this watcher -/
theorem evsFor_mem {tr : Bool} {wt : Watcher} {dict : List Ev} {te : TEv} (h : te ∈ evsFor tr wt dict) :
    ∃ e, lastFor dict te.name wt.what = some e ∧ te = typed tr wt e := by
  unfold evsFor at h
  obtain ⟨n, _, hn⟩ := List.mem_filterMap.1 h
  cases hl : lastFor dict n wt.what with
  | none => simp [hl] at hn
  | some e =>
    simp only [hl, Option.map_some, Option.some.injEq] at hn
    subst hn
    have := (lastFor_some hl).1.1
    exact ⟨e, by simp [typed, this, hl], rfl⟩

/-! ### assignments made while the batching flag is set: values are stored, nothing else happens -/

theorem setPlain_in_batch (c : Cfg) (f : Nat) (w : World) (p : Nat) (v : Int) (hb : w.batch = true)
    (h : (run c f (.setPlain p v) w).1 ≠ .oof) :
    ((run c f (.setPlain p v) w).1 = .ok ∧ (run c f (.setPlain p v) w).2.1.vals = w.vals.set p v ∧ c.valid p v = true) ∨
    ((run c f (.setPlain p v) w).1 = .raised .value ∧ (run c f (.setPlain p v) w).2.1 = w ∧ c.valid p v = false) := by
  cases f with
  | zero => simp [run] at h
  | succ f =>
    simp only [run] at h ⊢
    by_cases hv : c.valid p v
    · left
      simp only [hv, Bool.not_true, Bool.false_eq_true, if_false] at h ⊢
      by_cases he : (regsFor w p).isEmpty
      · simp [he]
      · simp only [he, Bool.false_eq_true, if_false] at h ⊢
        have hd := dispatch_in_batch_keeps_vals c { name := p, old := getVal w p, new := v } (sortByPrec (regsFor w p)) f
          { w with vals := w.vals.set p v, owned := p :: w.owned } hb
        have hfl := flags c f (.dispatch (sortByPrec (regsFor w p)) { name := p, old := getVal w p, new := v }) { w with vals := w.vals.set p v, owned := p :: w.owned }
        generalize run c f (.dispatch (sortByPrec (regsFor w p)) { name := p, old := getVal w p, new := v }) { w with vals := w.vals.set p v, owned := p :: w.owned } = d at h hd hfl ⊢
        obtain ⟨r1, w2, o1⟩ := d
        simp only at h hd hfl ⊢
        cases r1 with
        | oof => simp at h
        | raised e => have := (hd (by simp)).2.2; simp at this
        | ok =>
          have hb2 : w2.batch = true := by rw [(hfl (by simp)).1]; exact hb
          simp [hb2, (hd (by simp)).1]
    · right
      simp [hv]

theorem getVal_set_self (w : World) (p : Nat) : w.vals.set p (getVal w p) = w.vals := by
  unfold getVal
  apply List.ext_getElem
  · simp
  · intro i h1 h2
    simp only [List.length_set] at h1
    by_cases hi : p = i
    · subst hi; simp [List.getD, List.getElem?_eq_getElem h2]
    · simp [List.getElem_set_ne hi]

theorem getD_set_ne (l : List Int) (p q : Nat) (x : Int) (h : p ≠ q) : (l.set p x).getD q 0 = l.getD q 0 := by
  simp [List.getD, List.getElem?_set_ne h]

/-- an assignment made while the flag is set touches only the value of the assigned parameter,
and not even that one when the value assigned is the current one (Event parameters aside) -/
theorem setAttr_in_batch_getVal (c : Cfg) (f : Nat) (w : World) (p : Nat) (v : Int) (hb : w.batch = true)
    (h : (run c f (.setAttr p v) w).1 ≠ .oof) (q : Nat)
    (hq : q = p → c.isEvent p = false ∧ v = getVal w p) :
    getVal (run c f (.setAttr p v) w).2.1 q = getVal w q := by
  cases f with
  | zero => simp [run] at h
  | succ f =>
    simp only [run] at h ⊢
    have key : ∀ (hh : (run c f (.setPlain p v) w).1 ≠ .oof),
        (q ≠ p ∨ v = getVal w p) → getVal (run c f (.setPlain p v) w).2.1 q = getVal w q := by
      intro hh hcase
      rcases setPlain_in_batch c f w p v hb hh with h1 | h1
      · unfold getVal
        rw [h1.2.1]
        rcases hcase with hne | heq
        · exact getD_set_ne _ _ _ _ (Ne.symm hne)
        · rw [heq, getVal_set_self]
      · rw [h1.2.1]
    by_cases he : c.isEvent p
    · -- an Event parameter: q ≠ p by hypothesis
      have hne : q ≠ p := fun e => by have := (hq e).1; rw [he] at this; cases this
      simp only [he, if_true] at h ⊢
      by_cases hv0 : c.valid p v = false
      · simp [hv0]
      have hv : c.valid p v = true := by simpa using hv0
      simp only [hv, Bool.not_true, Bool.false_eq_true, if_false] at h ⊢
      generalize hd : run c f (.setPlain p v) w = d at h key ⊢
      obtain ⟨r1, w1, o1⟩ := d
      have hr : r1 ≠ .oof := by intro e; subst e; simp at h
      have k := key hr (Or.inl hne)
      have goal : getVal (if w1.setMode.contains p = true then (r1, w1, o1)
          else (r1, { w1 with vals := w1.vals.set p 0 }, o1)).2.1 q = getVal w q := by
        split
        · exact k
        · simp only [getVal] at k ⊢
          rw [getD_set_ne _ _ _ _ (Ne.symm hne)]; exact k
      cases r1 with
      | oof => exact absurd rfl hr
      | ok => simpa using goal
      | raised e => simpa using goal
    · simp only [he, Bool.false_eq_true, if_false] at h ⊢
      refine key h ?_
      by_cases e : q = p
      · exact Or.inr (hq e).2
      · exact Or.inl e

/-- `dict(pairs)` keeps the property "the value is `g key`" -/
theorem dedupKeys_values (g : Nat → Int) : ∀ (l : List (Nat × Int)), (∀ kv ∈ l, kv.2 = g kv.1) →
    ∀ kv ∈ dedupKeys l, kv.2 = g kv.1 := by
  intro l
  induction l with
  | nil => simp [dedupKeys]
  | cons x rest ih =>
    intro hl
    obtain ⟨k, v⟩ := x
    have ih' := ih (fun kv hkv => hl kv (List.mem_cons_of_mem _ hkv))
    simp only [dedupKeys]
    split
    · rename_i kv hfind
      intro kv' hkv'
      rcases List.mem_cons.1 hkv' with e | e
      · subst e
        have h1 := List.mem_of_find?_eq_some hfind
        have h2 := List.find?_some hfind
        simp only [decide_eq_true_eq] at h2
        simp only
        rw [← h2]
        exact ih' kv h1
      · exact ih' kv' (List.mem_filter.1 e).1
    · intro kv' hkv'
      rcases List.mem_cons.1 hkv' with e | e
      · subst e; exact hl (k, v) (by simp)
      · exact ih' kv' e

/-- applying keys while the batching flag is set leaves alone every non-Event parameter that is
either not among the keys or is re-assigned its current value -/
theorem updateKeys_in_batch_getVal (c : Cfg) (q : Nat) (hqe : c.isEvent q = false) :
    ∀ (kvs : List (Nat × Int)) (f : Nat) (w : World),
    w.batch = true → (∀ kv ∈ kvs, kv.1 = q → kv.2 = getVal w q) → (run c f (.updateKeys kvs) w).1 ≠ .oof →
    getVal (run c f (.updateKeys kvs) w).2.1 q = getVal w q := by
  intro kvs
  induction kvs with
  | nil =>
    intro f w _ _ h
    cases f with
    | zero => simp [run] at h
    | succ f => simp [run]
  | cons kv rest ih =>
    intro f w hb hsame h
    obtain ⟨k, v⟩ := kv
    cases f with
    | zero => simp [run] at h
    | succ f =>
      simp only [run] at h ⊢
      by_cases hk : k ≥ c.nparams
      · simp [hk]
      · simp only [hk, if_false] at h ⊢
        have hs := setAttr_in_batch_getVal c f w k v hb
        have hfl := flags c f (.setAttr k v) w
        generalize run c f (.setAttr k v) w = d at h hs hfl ⊢
        obtain ⟨r1, w1, o1⟩ := d
        simp only at h hs hfl ⊢
        have hq1 : getVal w1 q = getVal w q := by
          refine hs (by cases r1 <;> simp_all) q ?_
          intro e
          subst e
          exact ⟨hqe, hsame (q, v) (by simp) rfl⟩
        cases r1 with
        | oof => simp at h
        | raised e => exact hq1
        | ok =>
          simp only at h ⊢
          have hb1 : w1.batch = true := by rw [(hfl (by simp)).1]; exact hb
          rw [ih f w1 hb1 (by
            intro kv hkv e
            rw [hsame kv (List.mem_cons_of_mem _ hkv) e, hq1]) h, hq1]

theorem getVal_set_same (w : World) (k : Nat) (v : Int) (hk : k < w.vals.length) :
    (w.vals.set k v).getD k 0 = v := by
  simp [List.getD, List.getElem?_set_self hk]

/-- an assignment of a valid value made while the flag is set succeeds and installs the value
(an Event parameter may have reset itself) -/
theorem setAttr_in_batch_sets (c : Cfg) (f : Nat) (w : World) (k : Nat) (v : Int) (hb : w.batch = true)
    (hv : c.valid k v = true) (hk : k < w.vals.length) (h : (run c f (.setAttr k v) w).1 ≠ .oof) :
    (run c f (.setAttr k v) w).1 = .ok ∧
    (c.isEvent k = false → getVal (run c f (.setAttr k v) w).2.1 k = v) := by
  cases f with
  | zero => simp [run] at h
  | succ f =>
    simp only [run] at h ⊢
    by_cases he : c.isEvent k
    · simp only [he, if_true, hv, Bool.not_true, Bool.false_eq_true, if_false] at h ⊢
      have hp := setPlain_in_batch c f w k v hb
      generalize run c f (.setPlain k v) w = d at h hp ⊢
      obtain ⟨r1, w1, o1⟩ := d
      cases r1 with
      | oof => simp at h
      | ok =>
        simp only
        refine ⟨?_, fun hh => by simp at hh⟩
        split <;> simp
      | raised e =>
        rcases hp (by simp) with h1 | h1
        · simp at h1
        · rw [hv] at h1; simp at h1
    · simp only [he, Bool.false_eq_true, if_false] at h ⊢
      rcases setPlain_in_batch c f w k v hb h with h1 | h1
      · refine ⟨h1.1, fun _ => ?_⟩
        unfold getVal
        rw [h1.2.1]
        exact getVal_set_same w k v hk
      · rw [hv] at h1; simp at h1

/-- applying valid, distinct keys while the batching flag is set succeeds and installs each value
(Event parameters aside, which reset themselves) -/
theorem updateKeys_in_batch_sets (c : Cfg) : ∀ (kvs : List (Nat × Int)) (f : Nat) (w : World),
    w.batch = true → w.vals.length = c.nparams →
    (∀ kv ∈ kvs, c.valid kv.1 kv.2 = true ∧ kv.1 < c.nparams) → (kvs.map (·.1)).Nodup →
    (run c f (.updateKeys kvs) w).1 ≠ .oof →
    (run c f (.updateKeys kvs) w).1 = .ok ∧
    ∀ kv ∈ kvs, c.isEvent kv.1 = false → getVal (run c f (.updateKeys kvs) w).2.1 kv.1 = kv.2 := by
  intro kvs
  induction kvs with
  | nil =>
    intro f w _ _ _ _ h
    cases f with
    | zero => simp [run] at h
    | succ f => simp [run]
  | cons kv rest ih =>
    intro f w hb hlen hval hnd h
    obtain ⟨k, v⟩ := kv
    simp only [List.map_cons, List.nodup_cons] at hnd
    have hk := hval (k, v) (by simp)
    cases f with
    | zero => simp [run] at h
    | succ f =>
      simp only [run] at h ⊢
      have hlt : ¬ k ≥ c.nparams := by have := hk.2; omega
      simp only [hlt, if_false] at h ⊢
      have hfl := flags c f (.setAttr k v) w
      have hvl := vals_length c f (.setAttr k v) w
      have hset := setAttr_in_batch_sets c f w k v hb hk.1 (by rw [hlen]; exact hk.2)
      generalize run c f (.setAttr k v) w = d at h hfl hvl hset ⊢
      obtain ⟨r1, w1, o1⟩ := d
      simp only at h hfl hvl hset ⊢
      have hr1 : r1 ≠ .oof := by intro e; subst e; simp at h
      obtain ⟨hok1, hval1⟩ := hset hr1
      subst hok1
      simp only at h ⊢
      have hb1 : w1.batch = true := by rw [(hfl (by simp)).1]; exact hb
      have hlen1 : w1.vals.length = c.nparams := by rw [hvl (by simp)]; exact hlen
      obtain ⟨hok2, hrest⟩ := ih f w1 hb1 hlen1 (fun kv hkv => hval kv (List.mem_cons_of_mem _ hkv)) hnd.2 h
      refine ⟨hok2, ?_⟩
      intro kv hkv hne
      rcases List.mem_cons.1 hkv with e | e
      · subst e
        -- the later keys are different from k: they leave its value alone
        have := updateKeys_in_batch_getVal c k hne rest f w1 hb1 (by
          intro kv' hkv' e'
          exact absurd (e' ▸ List.mem_map.2 ⟨kv', hkv', rfl⟩) hnd.1) h
        rw [this]; exact hval1 hne
      · exact hrest kv e hne

end ParamVerif.Dispatch
