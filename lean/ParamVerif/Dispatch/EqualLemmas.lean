/- Soundness and (restricted) completeness of the Comparator model w.r.t. Python equality. -/
import ParamVerif.Dispatch.Equal

namespace ParamVerif.Dispatch

theorem pyMem_cons_of (x y : PV) (b : List PV) (h : pyMem x b = true) : pyMem x (y :: b) = true := by
  simp [pyMem, h]

theorem pySubset_cons (a b : List PV) (y : PV) (h : pySubset a b = true) : pySubset a (y :: b) = true := by
  induction a with
  | nil => simp [pySubset]
  | cons x xs ih =>
    simp only [pySubset, Bool.and_eq_true] at h ⊢
    exact ⟨pyMem_cons_of _ _ _ h.1, ih h.2⟩

theorem isEqualList_length : ∀ (a b : List PV), isEqualList a b = true → a.length = b.length
  | [], [], _ => rfl
  | x :: xs, y :: ys, h => by
    simp only [isEqualList, Bool.and_eq_true] at h
    simp [isEqualList_length xs ys h.2]
  | [], _ :: _, h => by simp [isEqualList] at h
  | _ :: _, [], h => by simp [isEqualList] at h

mutual
/-- whenever the Comparator says "equal", Python's `==` says so too -/
theorem isEqual_sound : ∀ (a b : PV), isEqual a b = true → pyEq a b = true
  | .none, .none, _ => by simp [pyEq]
  | .num a, .num b, h => by simpa [isEqual, pyEq] using h
  | .str a, .str b, h => by simpa [isEqual, pyEq] using h
  | .bytes a, .bytes b, h => by simpa [isEqual, pyEq] using h
  | .datetime a, .datetime b, h => by simpa [isEqual, pyEq] using h
  | .date a, .date b, h => by simpa [isEqual, pyEq] using h
  | .list a, .list b, h => by
    simp only [isEqual] at h; simp only [pyEq]; exact isEqualList_sound a b h
  | .tuple a, .tuple b, h => by
    simp only [isEqual] at h; simp only [pyEq]; exact isEqualList_sound a b h
  | .set a, .set b, h => by
    simp only [isEqual] at h
    simp only [pyEq, Bool.and_eq_true, beq_iff_eq]
    exact ⟨isEqualList_length a b h, isEqualList_subset a b h⟩
  | .dict a, .dict b, h => by
    simp only [isEqual, Bool.and_eq_true] at h
    simp only [pyEq, Bool.and_eq_true]
    exact ⟨h.1, isEqualMap_sound a b h.2⟩
  | .nan, b, h => by cases b <;> simp [isEqual] at h
  | .other _, b, h => by cases b <;> simp [isEqual] at h
  | .none, .num _, h | .none, .nan, h | .none, .str _, h | .none, .bytes _, h | .none, .date _, h
  | .none, .datetime _, h | .none, .list _, h | .none, .tuple _, h | .none, .set _, h | .none, .dict _, h
  | .none, .other _, h => by simp [isEqual] at h
  | .num _, .none, h | .num _, .nan, h | .num _, .str _, h | .num _, .bytes _, h | .num _, .date _, h
  | .num _, .datetime _, h | .num _, .list _, h | .num _, .tuple _, h | .num _, .set _, h | .num _, .dict _, h
  | .num _, .other _, h => by simp [isEqual] at h
  | .str _, .none, h | .str _, .nan, h | .str _, .num _, h | .str _, .bytes _, h | .str _, .date _, h
  | .str _, .datetime _, h | .str _, .list _, h | .str _, .tuple _, h | .str _, .set _, h | .str _, .dict _, h
  | .str _, .other _, h => by simp [isEqual] at h
  | .bytes _, .none, h | .bytes _, .nan, h | .bytes _, .num _, h | .bytes _, .str _, h | .bytes _, .date _, h
  | .bytes _, .datetime _, h | .bytes _, .list _, h | .bytes _, .tuple _, h | .bytes _, .set _, h
  | .bytes _, .dict _, h | .bytes _, .other _, h => by simp [isEqual] at h
  | .date _, .none, h | .date _, .nan, h | .date _, .num _, h | .date _, .str _, h | .date _, .bytes _, h
  | .date _, .datetime _, h | .date _, .list _, h | .date _, .tuple _, h | .date _, .set _, h
  | .date _, .dict _, h | .date _, .other _, h => by simp [isEqual] at h
  | .datetime _, .none, h | .datetime _, .nan, h | .datetime _, .num _, h | .datetime _, .str _, h
  | .datetime _, .bytes _, h | .datetime _, .date _, h | .datetime _, .list _, h | .datetime _, .tuple _, h
  | .datetime _, .set _, h | .datetime _, .dict _, h | .datetime _, .other _, h => by simp [isEqual] at h
  | .list _, .none, h | .list _, .nan, h | .list _, .num _, h | .list _, .str _, h | .list _, .bytes _, h
  | .list _, .date _, h | .list _, .datetime _, h | .list _, .tuple _, h | .list _, .set _, h
  | .list _, .dict _, h | .list _, .other _, h => by simp [isEqual] at h
  | .tuple _, .none, h | .tuple _, .nan, h | .tuple _, .num _, h | .tuple _, .str _, h | .tuple _, .bytes _, h
  | .tuple _, .date _, h | .tuple _, .datetime _, h | .tuple _, .list _, h | .tuple _, .set _, h
  | .tuple _, .dict _, h | .tuple _, .other _, h => by simp [isEqual] at h
  | .set _, .none, h | .set _, .nan, h | .set _, .num _, h | .set _, .str _, h | .set _, .bytes _, h
  | .set _, .date _, h | .set _, .datetime _, h | .set _, .list _, h | .set _, .tuple _, h
  | .set _, .dict _, h | .set _, .other _, h => by simp [isEqual] at h
  | .dict _, .none, h | .dict _, .nan, h | .dict _, .num _, h | .dict _, .str _, h | .dict _, .bytes _, h
  | .dict _, .date _, h | .dict _, .datetime _, h | .dict _, .list _, h | .dict _, .tuple _, h
  | .dict _, .set _, h | .dict _, .other _, h => by simp [isEqual] at h
theorem isEqualList_sound : ∀ (a b : List PV), isEqualList a b = true → pyEqList a b = true
  | [], [], _ => by simp [pyEqList]
  | x :: xs, y :: ys, h => by
    simp only [isEqualList, Bool.and_eq_true] at h
    simp only [pyEqList, Bool.and_eq_true]
    exact ⟨isEqual_sound x y h.1, isEqualList_sound xs ys h.2⟩
  | [], _ :: _, h => by simp [isEqualList] at h
  | _ :: _, [], h => by simp [isEqualList] at h
theorem isEqualList_subset : ∀ (a b : List PV), isEqualList a b = true → pySubset a b = true
  | [], _, _ => by simp [pySubset]
  | x :: xs, y :: ys, h => by
    simp only [isEqualList, Bool.and_eq_true] at h
    simp only [pySubset, Bool.and_eq_true]
    exact ⟨by simp [pyMem, isEqual_sound x y h.1], pySubset_cons _ _ _ (isEqualList_subset xs ys h.2)⟩
  | _ :: _, [], h => by simp [isEqualList] at h
theorem isEqualMap_sound : ∀ (a b : List (String × PV)), isEqualMap a b = true → pyEqMap a b = true
  | [], _, _ => by simp [pyEqMap]
  | (k, v) :: rest, b, h => by
    simp only [isEqualMap, Bool.and_eq_true] at h
    simp only [pyEqMap, Bool.and_eq_true]
    refine ⟨?_, isEqualMap_sound rest b h.2⟩
    cases hl : lookupPV b k with
    | none => simp [hl] at h
    | some v' =>
      simp only [hl] at h ⊢
      exact isEqual_sound v v' h.1
end

theorem plain_of_lookup : ∀ (b : List (String × PV)) (k : String) (v : PV),
    plainMap b = true → lookupPV b k = some v → plain v = true
  | [], _, _, _, h => by simp [lookupPV] at h
  | (k', v') :: rest, k, v, hb, h => by
    simp only [plainMap, Bool.and_eq_true] at hb
    simp only [lookupPV] at h
    split at h
    · simp only [Option.some.injEq] at h; subst h; exact hb.1
    · exact plain_of_lookup rest k v hb.2 h

mutual
/-- for numbers, strings, None, dates and list/tuple/dict containers of these, values that are
equal in Python are recognised as equal (so a changes-only watcher *is* skipped) -/
theorem isEqual_complete : ∀ (a b : PV), plain a = true → plain b = true → pyEq a b = true → isEqual a b = true
  | .none, .none, _, _, _ => by simp [isEqual]
  | .num a, .num b, _, _, h => by simpa [isEqual, pyEq] using h
  | .str a, .str b, _, _, h => by simpa [isEqual, pyEq] using h
  | .bytes a, .bytes b, _, _, h => by simpa [isEqual, pyEq] using h
  | .date a, .date b, _, _, h => by simpa [isEqual, pyEq] using h
  | .datetime a, .datetime b, _, _, h => by simpa [isEqual, pyEq] using h
  | .list a, .list b, ha, hb, h => by
    simp only [plain] at ha hb; simp only [pyEq] at h; simp only [isEqual]
    exact isEqualList_complete a b ha hb h
  | .tuple a, .tuple b, ha, hb, h => by
    simp only [plain] at ha hb; simp only [pyEq] at h; simp only [isEqual]
    exact isEqualList_complete a b ha hb h
  | .dict a, .dict b, ha, hb, h => by
    simp only [plain] at ha hb
    simp only [pyEq, Bool.and_eq_true] at h
    simp only [isEqual, Bool.and_eq_true]
    exact ⟨h.1, isEqualMap_complete a b ha hb h.2⟩
  | .nan, _, ha, _, _ => by simp [plain] at ha
  | .set _, _, ha, _, _ => by simp [plain] at ha
  | .other _, _, ha, _, _ => by simp [plain] at ha
  | _, .nan, _, hb, _ => by simp [plain] at hb
  | _, .set _, _, hb, _ => by simp [plain] at hb
  | _, .other _, _, hb, _ => by simp [plain] at hb
  | .none, .num _, _, _, h
  | .none, .str _, _, _, h
  | .none, .bytes _, _, _, h
  | .none, .date _, _, _, h
  | .none, .datetime _, _, _, h
  | .none, .list _, _, _, h
  | .none, .tuple _, _, _, h
  | .none, .dict _, _, _, h => by simp [pyEq] at h
  | .num _, .none, _, _, h
  | .num _, .str _, _, _, h
  | .num _, .bytes _, _, _, h
  | .num _, .date _, _, _, h
  | .num _, .datetime _, _, _, h
  | .num _, .list _, _, _, h
  | .num _, .tuple _, _, _, h
  | .num _, .dict _, _, _, h => by simp [pyEq] at h
  | .str _, .none, _, _, h
  | .str _, .num _, _, _, h
  | .str _, .bytes _, _, _, h
  | .str _, .date _, _, _, h
  | .str _, .datetime _, _, _, h
  | .str _, .list _, _, _, h
  | .str _, .tuple _, _, _, h
  | .str _, .dict _, _, _, h => by simp [pyEq] at h
  | .bytes _, .none, _, _, h
  | .bytes _, .num _, _, _, h
  | .bytes _, .str _, _, _, h
  | .bytes _, .date _, _, _, h
  | .bytes _, .datetime _, _, _, h
  | .bytes _, .list _, _, _, h
  | .bytes _, .tuple _, _, _, h
  | .bytes _, .dict _, _, _, h => by simp [pyEq] at h
  | .date _, .none, _, _, h
  | .date _, .num _, _, _, h
  | .date _, .str _, _, _, h
  | .date _, .bytes _, _, _, h
  | .date _, .datetime _, _, _, h
  | .date _, .list _, _, _, h
  | .date _, .tuple _, _, _, h
  | .date _, .dict _, _, _, h => by simp [pyEq] at h
  | .datetime _, .none, _, _, h
  | .datetime _, .num _, _, _, h
  | .datetime _, .str _, _, _, h
  | .datetime _, .bytes _, _, _, h
  | .datetime _, .date _, _, _, h
  | .datetime _, .list _, _, _, h
  | .datetime _, .tuple _, _, _, h
  | .datetime _, .dict _, _, _, h => by simp [pyEq] at h
  | .list _, .none, _, _, h
  | .list _, .num _, _, _, h
  | .list _, .str _, _, _, h
  | .list _, .bytes _, _, _, h
  | .list _, .date _, _, _, h
  | .list _, .datetime _, _, _, h
  | .list _, .tuple _, _, _, h
  | .list _, .dict _, _, _, h => by simp [pyEq] at h
  | .tuple _, .none, _, _, h
  | .tuple _, .num _, _, _, h
  | .tuple _, .str _, _, _, h
  | .tuple _, .bytes _, _, _, h
  | .tuple _, .date _, _, _, h
  | .tuple _, .datetime _, _, _, h
  | .tuple _, .list _, _, _, h
  | .tuple _, .dict _, _, _, h => by simp [pyEq] at h
  | .dict _, .none, _, _, h
  | .dict _, .num _, _, _, h
  | .dict _, .str _, _, _, h
  | .dict _, .bytes _, _, _, h
  | .dict _, .date _, _, _, h
  | .dict _, .datetime _, _, _, h
  | .dict _, .list _, _, _, h
  | .dict _, .tuple _, _, _, h => by simp [pyEq] at h
theorem isEqualList_complete : ∀ (a b : List PV), plainList a = true → plainList b = true →
    pyEqList a b = true → isEqualList a b = true
  | [], [], _, _, _ => by simp [isEqualList]
  | x :: xs, y :: ys, ha, hb, h => by
    simp only [plainList, Bool.and_eq_true] at ha hb
    simp only [pyEqList, Bool.and_eq_true] at h
    simp only [isEqualList, Bool.and_eq_true]
    exact ⟨isEqual_complete x y ha.1 hb.1 h.1, isEqualList_complete xs ys ha.2 hb.2 h.2⟩
  | [], _ :: _, _, _, h => by simp [pyEqList] at h
  | _ :: _, [], _, _, h => by simp [pyEqList] at h
theorem isEqualMap_complete : ∀ (a b : List (String × PV)), plainMap a = true → plainMap b = true →
    pyEqMap a b = true → isEqualMap a b = true
  | [], _, _, _, _ => by simp [isEqualMap]
  | (k, v) :: rest, b, ha, hb, h => by
    simp only [plainMap, Bool.and_eq_true] at ha
    simp only [pyEqMap, Bool.and_eq_true] at h
    simp only [isEqualMap, Bool.and_eq_true]
    refine ⟨?_, isEqualMap_complete rest b ha.2 hb h.2⟩
    cases hl : lookupPV b k with
    | none => simp [hl] at h
    | some v' =>
      simp only [hl] at h ⊢
      exact isEqual_complete v v' ha.1 (plain_of_lookup b k v' hb hl) h.1
end

end ParamVerif.Dispatch
