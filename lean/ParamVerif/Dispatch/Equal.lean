/-
Model of `param.parameterized.Comparator.is_equal / compare_iterator / compare_mapping`
(the changes-only test `_changed(event) = not Comparator.is_equal(old, new)`) and of Python's `==`
on the same values (the specification).

Numbers: Python compares bool/int/float/Fraction/Decimal exactly, so a finite number is its exact
value (here an integer-valued representative: `True == 1 == 1.0`) and `nan` equals nothing.
`datetime` is a subclass of `date`, but a `date` never equals a `datetime`.
`other` is any object without a registered equality: `is_equal` says False even for the same object.
-/
namespace ParamVerif.Dispatch

inductive PV
  | none
  | num (v : Int)
  | nan
  | str (s : String)
  | bytes (s : String)
  | date (d : Int)
  | datetime (us : Int)
  | list (l : List PV)
  | tuple (l : List PV)
  | set (l : List PV)                 -- iteration order
  | dict (kvs : List (String × PV))   -- string keys, insertion order, unique
  | other (id : Nat)
  deriving Repr

mutual
/-- `Comparator.is_equal(a, b)` -/
def isEqual : PV → PV → Bool
  | .none, .none => true
  | .num a, .num b => a == b
  | .nan, .nan => false                 -- operator.eq(nan, nan)
  | .num _, .nan => false
  | .nan, .num _ => false
  | .str a, .str b => a == b
  | .bytes a, .bytes b => a == b
  | .datetime a, .datetime b => a == b
  | .date a, .date b => a == b
  | .date _, .datetime _ => false       -- both instances of `date`: date == datetime is False
  | .datetime _, .date _ => false
  | .list a, .list b => isEqualList a b
  | .tuple a, .tuple b => isEqualList a b
  | .set a, .set b => isEqualList a b   -- compare_iterator zips the two iteration orders
  | .dict a, .dict b => a.length == b.length && isEqualMap a b
  | _, _ => false
/-- `compare_iterator`: same length and elementwise `is_equal` -/
def isEqualList : List PV → List PV → Bool
  | [], [] => true
  | x :: xs, y :: ys => isEqual x y && isEqualList xs ys
  | _, _ => false
/-- `compare_mapping` body: every key of the first is in the second with an `is_equal` value -/
def isEqualMap : List (String × PV) → List (String × PV) → Bool
  | [], _ => true
  | (k, v) :: rest, b =>
    (match lookupPV b k with
     | some v' => isEqual v v'
     | none => false) && isEqualMap rest b
/-- dictionary lookup (kept in the mutual block so that recursion stays structural) -/
def lookupPV : List (String × PV) → String → Option PV
  | [], _ => none
  | (k', v) :: rest, k => if k' == k then some v else lookupPV rest k
end

mutual
/-- Python's `a == b` on the same universe (the specification) -/
def pyEq : PV → PV → Bool
  | .none, .none => true
  | .num a, .num b => a == b
  | .str a, .str b => a == b
  | .bytes a, .bytes b => a == b
  | .datetime a, .datetime b => a == b
  | .date a, .date b => a == b
  | .list a, .list b => pyEqList a b
  | .tuple a, .tuple b => pyEqList a b
  | .set a, .set b => a.length == b.length && pySubset a b    -- as sets (elements unique)
  | .dict a, .dict b => a.length == b.length && pyEqMap a b
  | .other a, .other b => a == b                               -- identity
  | _, _ => false
def pyEqList : List PV → List PV → Bool
  | [], [] => true
  | x :: xs, y :: ys => pyEq x y && pyEqList xs ys
  | _, _ => false
def pySubset : List PV → List PV → Bool
  | [], _ => true
  | x :: xs, b => pyMem x b && pySubset xs b
def pyMem : PV → List PV → Bool
  | _, [] => false
  | x, y :: ys => pyEq x y || pyMem x ys
def pyEqMap : List (String × PV) → List (String × PV) → Bool
  | [], _ => true
  | (k, v) :: rest, b =>
    (match lookupPV b k with
     | some v' => pyEq v v'
     | none => false) && pyEqMap rest b
end

mutual
/-- "numbers, strings, None, dates and containers (list/tuple/dict) of these" -/
def plain : PV → Bool
  | .none | .num _ | .str _ | .bytes _ | .date _ | .datetime _ => true
  | .list l | .tuple l => plainList l
  | .dict kvs => plainMap kvs
  | .nan | .set _ | .other _ => false
def plainList : List PV → Bool
  | [] => true
  | x :: xs => plain x && plainList xs
def plainMap : List (String × PV) → Bool
  | [] => true
  | (_, v) :: rest => plain v && plainMap rest
end

end ParamVerif.Dispatch
