/-
C04/C05: what a batched assignment leaves in the queues, exactly; and the shape of `batch` / `update`
as "body, then flush of what the body queued" whatever the outcome of the body.
-/
import ParamVerif.Dispatch.Lemmas

namespace ParamVerif.Dispatch

/-- `_call_watcher` while batching, for a list of watchers: each one is appended to the queue unless the
same object is already there -/
def enqueue (q : List Watcher) (l : List Watcher) : List Watcher :=
  l.foldl (fun q wt => if hasId q wt.uid then q else q ++ [wt]) q

theorem enqueue_cons (q : List Watcher) (wt : Watcher) (l : List Watcher) :
    enqueue q (wt :: l) = enqueue (if hasId q wt.uid then q else q ++ [wt]) l := rfl

theorem mem_enqueue_left (q l : List Watcher) (x : Watcher) (h : x ∈ q) : x ∈ enqueue q l := by
  induction l generalizing q with
  | nil => exact h
  | cons wt l ih =>
    rw [enqueue_cons]
    apply ih
    split
    · exact h
    · exact List.mem_append_left _ h

/-- every watcher handed to `enqueue` ends up in the queue (as an object: by identity) -/
theorem uid_mem_enqueue (q l : List Watcher) (x : Watcher) (h : x ∈ l) : x.uid ∈ (enqueue q l).map (·.uid) := by
  induction l generalizing q with
  | nil => cases h
  | cons wt l ih =>
    rw [enqueue_cons]
    rcases List.mem_cons.1 h with rfl | h
    · by_cases hq : hasId q x.uid
      · simp only [hq, if_true]
        obtain ⟨y, hy, hyu⟩ := List.mem_map.1 ((hasId_iff q x.uid).1 hq)
        exact List.mem_map.2 ⟨y, mem_enqueue_left q l y hy, hyu⟩
      · simp only [hq, Bool.false_eq_true, if_false]
        exact List.mem_map.2 ⟨x, mem_enqueue_left _ l x (by simp), rfl⟩
    · exact ih _ h

/-- nothing else gets in: a queued watcher was queued before or was handed over -/
theorem mem_enqueue (q l : List Watcher) (x : Watcher) (h : x ∈ enqueue q l) : x ∈ q ∨ x ∈ l := by
  induction l generalizing q with
  | nil => exact Or.inl h
  | cons wt l ih =>
    rw [enqueue_cons] at h
    rcases ih _ h with h | h
    · split at h
      · exact Or.inl h
      · rcases List.mem_append.1 h with h | h
        · exact Or.inl h
        · simp at h; subst h; exact Or.inr (by simp)
    · exact Or.inr (List.mem_cons_of_mem _ h)

/-- `_call_watcher` while batching: nothing runs; the event is appended and the watcher queued once -/
theorem callWatcher_in_batch (c : Cfg) (f : Nat) (w : World) (wt : Watcher) (ev : Ev)
    (hb : w.batch = true) (h : (run c f (.callWatcher wt ev) w).1 ≠ .oof) :
    run c f (.callWatcher wt ev) w =
      if passes w.trigger wt ev then
        (.ok, { w with events := w.events ++ [ev],
                       queued := if hasId w.queued wt.uid then w.queued else w.queued ++ [wt] }, [])
      else (.ok, w, []) := by
  cases f with
  | zero => simp [run] at h
  | succ f =>
    simp only [run]
    by_cases hp : passes w.trigger wt ev = true
    · simp [hp, hb]
    · have hp' : passes w.trigger wt ev = false := by simpa using hp
      simp [hp']

/-- **the dispatch loop while batching**: nothing runs; one copy of the event per passing watcher is
appended to the event queue and each passing watcher is queued once -/
theorem dispatch_in_batch (c : Cfg) (ev : Ev) : ∀ (ws : List Watcher) (f : Nat) (w : World),
    w.batch = true → (run c f (.dispatch ws ev) w).1 ≠ .oof →
    run c f (.dispatch ws ev) w =
      (.ok, { w with events := w.events ++ (ws.filter (fun wt => passes w.trigger wt ev)).map (fun _ => ev),
                     queued := enqueue w.queued (ws.filter (fun wt => passes w.trigger wt ev)) }, []) := by
  intro ws
  induction ws with
  | nil =>
    intro f w _ h
    cases f with
    | zero => simp [run] at h
    | succ f => simp [run, enqueue]
  | cons wt rest ih =>
    intro f w hb h
    cases f with
    | zero => simp [run] at h
    | succ f =>
      simp only [run] at h ⊢
      have hcw := callWatcher_in_batch c f w wt ev hb
      generalize run c f (.callWatcher wt ev) w = d at h hcw ⊢
      obtain ⟨r1, w1, o1⟩ := d
      cases r1 with
      | oof => simp at h
      | raised e =>
        have := hcw (by simp)
        split at this <;> simp at this
      | ok =>
        have hcw := hcw (by simp)
        simp only at h ⊢
        by_cases hp : passes w.trigger wt ev = true
        · simp only [hp, if_true, Prod.mk.injEq, true_and] at hcw
          obtain ⟨hw1, ho1⟩ := hcw
          subst hw1 ho1
          rw [ih f { w with events := w.events ++ [ev],
                            queued := if hasId w.queued wt.uid then w.queued else w.queued ++ [wt] } hb h]
          simp [enqueue_cons, List.filter_cons, hp, List.append_assoc]
        · have hp' : passes w.trigger wt ev = false := by simpa using hp
          simp only [hp', Bool.false_eq_true, if_false, Prod.mk.injEq, true_and] at hcw
          obtain ⟨hw1, ho1⟩ := hcw
          rw [hw1] at h ⊢
          rw [ho1, ih f w hb h]
          simp [List.filter_cons, hp']

/-- the watchers an assignment `p := v` raises an event for, in dispatch order -/
def passing (w : World) (p : Nat) (v : Int) : List Watcher :=
  (sortByPrec (regsFor w p)).filter (fun wt => passes w.trigger wt { name := p, old := getVal w p, new := v })

/-- **a batched assignment, exactly**: a valid value is stored, nothing runs, one copy of the event
`(p, old, v)` per passing watcher joins the event queue and each passing watcher is queued (once) -/
theorem setPlain_in_batch_exact (c : Cfg) (f : Nat) (w : World) (p : Nat) (v : Int)
    (hb : w.batch = true) (hv : c.valid p v = true) (h : (run c f (.setPlain p v) w).1 ≠ .oof) :
    run c f (.setPlain p v) w =
      (.ok, { w with vals := w.vals.set p v, owned := p :: w.owned,
                     events := w.events ++ (passing w p v).map (fun _ => { name := p, old := getVal w p, new := v }),
                     queued := enqueue w.queued (passing w p v) }, []) := by
  cases f with
  | zero => simp [run] at h
  | succ f =>
    simp only [run, hv, Bool.not_true, Bool.false_eq_true, if_false] at h ⊢
    by_cases he : (regsFor w p).isEmpty = true
    · have : regsFor w p = [] := List.isEmpty_iff.1 he
      simp [he, passing, this, sortByPrec, enqueue]
    · simp only [he, Bool.false_eq_true, if_false] at h ⊢
      have hd := dispatch_in_batch c { name := p, old := getVal w p, new := v } (sortByPrec (regsFor w p)) f
        { w with vals := w.vals.set p v, owned := p :: w.owned } hb
      generalize run c f (.dispatch (sortByPrec (regsFor w p)) { name := p, old := getVal w p, new := v })
        { w with vals := w.vals.set p v, owned := p :: w.owned } = d at h hd ⊢
      obtain ⟨r1, w2, o1⟩ := d
      cases r1 with
      | oof => simp at h
      | raised e => have := hd (by simp); simp at this
      | ok =>
        have := hd (by simp)
        simp only [Prod.mk.injEq, true_and] at this
        obtain ⟨hw2, ho1⟩ := this
        subst hw2 ho1
        simp [hb, passing]

/-- `batch_call_watchers` with no batch open around it: the body runs with the flag set, then — whatever
the outcome of the body — the flag is cleared and what the body queued is flushed -/
theorem batch_is_body_then_flush (c : Cfg) (f : Nat) (body : List Stmt) (w : World) (hb : w.batch = false)
    (h : (run c (f + 1) (.stmt (.batch body)) w).1 ≠ .oof) :
    ∃ r, (run c (f + 1) (.stmt (.batch body)) w).2.2 =
      [.stmt "batch" 0 0 0 false w.trigger []
        ((run c f (.stmts body) { w with batch := true }).2.2 ++
         (run c f .flush { (run c f (.stmts body) { w with batch := true }).2.1 with batch := false }).2.2) r] := by
  simp only [run] at h ⊢
  generalize run c f (.stmts body) { w with batch := true } = d at h ⊢
  obtain ⟨r1, w1, o1⟩ := d
  cases r1 with
  | oof => simp at h
  | ok => simp [hb]
  | raised e => simp [hb]

/-- `param.update` with no batch open around it: the keys are applied with the flag set — nothing runs
(`ncalls` unchanged) — then, whether or not a key was rejected, what the applied keys queued is flushed -/
theorem update_is_keys_then_flush (c : Cfg) (f : Nat) (kvs : List (Nat × Int)) (w : World) (hb : w.batch = false)
    (h : (run c (f + 1) (.update kvs) w).1 ≠ .oof) :
    let w0 : World := { w with batch := true, setMode := (kvs.map (·.1)).filter c.isEvent ++ w.setMode }
    (run c (f + 1) (.update kvs) w).2.2 =
      (run c f (.updateKeys kvs) w0).2.2 ++
      (run c f .flush { (run c f (.updateKeys kvs) w0).2.1 with batch := false }).2.2 ∧
    (run c f (.updateKeys kvs) w0).2.1.ncalls = w.ncalls ∧
    (run c f (.updateKeys kvs) w0).1 ≠ .oof := by
  intro w0
  have hs := silent_in_batch c f (.updateKeys kvs) w0
  simp only [run] at h ⊢
  generalize hd : run c f (.updateKeys kvs) w0 = d at h hs ⊢
  obtain ⟨r1, w1, o1⟩ := d
  cases r1 with
  | oof => simp at h
  | ok =>
    refine ⟨?_, hs (by simp) rfl rfl, by simp⟩
    simp only [hb, Bool.false_eq_true, if_false] at h ⊢
    generalize run c f .flush { w1 with batch := false } = e at h ⊢
    obtain ⟨r3, w3, o3⟩ := e
    cases r3 <;> simp_all
  | raised e =>
    refine ⟨?_, hs (by simp) rfl rfl, by simp⟩
    simp only [hb, Bool.false_eq_true, if_false] at h ⊢
    generalize run c f .flush { w1 with batch := false } = e' at h ⊢
    obtain ⟨r3, w3, o3⟩ := e'
    cases r3 <;> simp_all

/-- what a batched assignment of a valid value does to the world (`setPlain_in_batch_exact`) -/
def applyKey (w : World) (p : Nat) (v : Int) : World :=
  { w with vals := w.vals.set p v, owned := p :: w.owned,
           events := w.events ++ (passing w p v).map (fun _ => { name := p, old := getVal w p, new := v }),
           queued := enqueue w.queued (passing w p v) }

/-- … and a list of them, one after the other -/
def applyKeys : World → List (Nat × Int) → World
  | w, [] => w
  | w, (k, v) :: rest => applyKeys (applyKey w k v) rest

@[simp] theorem applyKey_batch (w : World) (p : Nat) (v : Int) : (applyKey w p v).batch = w.batch := rfl
@[simp] theorem applyKey_trigger (w : World) (p : Nat) (v : Int) : (applyKey w p v).trigger = w.trigger := rfl

/-- **the keys of an `update`, exactly** (ordinary parameters, valid values): nothing runs; the keys are
applied one after the other, each queueing its event for, and, each of its passing watchers -/
theorem updateKeys_in_batch_exact (c : Cfg) : ∀ (kvs : List (Nat × Int)) (f : Nat) (w : World),
    w.batch = true →
    (∀ kv ∈ kvs, c.valid kv.1 kv.2 = true ∧ kv.1 < c.nparams ∧ c.isEvent kv.1 = false) →
    (run c f (.updateKeys kvs) w).1 ≠ .oof →
    run c f (.updateKeys kvs) w = (.ok, applyKeys w kvs, []) := by
  intro kvs
  induction kvs with
  | nil =>
    intro f w _ _ h
    cases f with
    | zero => simp [run] at h
    | succ f => simp [run, applyKeys]
  | cons kv rest ih =>
    obtain ⟨k, v⟩ := kv
    intro f w hb hval h
    have hk := hval (k, v) (by simp)
    cases f with
    | zero => simp [run] at h
    | succ f =>
      have hlt : ¬ k ≥ c.nparams := Nat.not_le.2 hk.2.1
      simp only [run, hlt, if_false] at h ⊢
      -- the key is an ordinary parameter: the Event wrapper is the plain setter
      have hattr : run c f (.setAttr k v) w = run c (f - 1) (.setPlain k v) w ∨ f = 0 := by
        cases f with
        | zero => exact Or.inr rfl
        | succ f => left; simp [run, hk.2.2]
      rcases hattr with hattr | hf0
      · rw [hattr] at h ⊢
        have hsp := setPlain_in_batch_exact c (f - 1) w k v hb hk.1
        generalize run c (f - 1) (.setPlain k v) w = d at h hsp ⊢
        obtain ⟨r1, w1, o1⟩ := d
        cases r1 with
        | oof => simp at h
        | raised e => have := hsp (by simp); simp at this
        | ok =>
          have := hsp (by simp)
          simp only [Prod.mk.injEq, true_and] at this
          obtain ⟨hw1, ho1⟩ := this
          subst hw1 ho1
          simp only at h ⊢
          have hrest := ih f (applyKey w k v) hb (fun kv hkv => hval kv (List.mem_cons_of_mem _ hkv)) h
          simp only [applyKey] at hrest
          rw [hrest]
          simp [applyKeys, applyKey]
      · subst hf0; simp [run] at h

end ParamVerif.Dispatch
