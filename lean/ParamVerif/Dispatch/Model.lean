/-
Model of param's watcher dispatch for ONE Parameterized instance
(param/parameterized.py: `Parameter.__set__` dispatch tail, `Parameters._call_watcher`,
`_execute_watcher`, `_batch_call_watchers` (flush), the context managers
`batch_call_watchers`, `_batch_call_watchers(enable, run)`, `discard_events`,
`Parameters.update/_update`, `_ParametersRestorer`, `trigger`, `watch`, `unwatch`).

Parameters are numbered 0..n-1 and hold integers (so `Comparator.is_equal` is `=`;
the subtle equality domain is modelled separately in Dispatch/Equal.lean).  A parameter has
optional hard bounds, which is how a value gets rejected.  Watcher callbacks are
*programs* in the statement language below (they may assign, batch, trigger, raise …).

The interpreter `run` is fuel-indexed (a cascade of callbacks is Python recursion);
`Res.oof` marks exhausted fuel and every theorem is stated for `r ≠ oof`.
`try/finally` is an explicit "run body, then restore, then propagate" clause.

No Mathlib, no imports: loaded by the driver.
-/
namespace ParamVerif.Dispatch

/-- ValueError (rejected value, unknown key of `update`) | an `Exception` raised by a body | a
`BaseException` that is not an `Exception` (KeyboardInterrupt, CancelledError …) raised by a body |
KeyError (`trigger` of an unknown name) -/
inductive Err | value | boom | base | key
  deriving Repr, DecidableEq

inductive Res | ok | raised (e : Err) | oof
  deriving Repr, DecidableEq

structure Watcher where
  id : Nat
  params : List Nat            -- `parameter_names`
  onlychanged : Bool
  queued : Bool
  precedence : Int
  body : Nat                   -- index of the callback's program in `Cfg.bodies`
  /-- identity of the callback function: what the callback itself can log.  Two registrations of the
  same function with the same options are *equal* as Python namedtuples but distinct watchers. -/
  cb : Nat
  /-- what is watched: 0 = the parameter's value, k > 0 = the k-th watchable Parameter attribute (slot) -/
  what : Nat := 0
  /-- registered with `watch_values`: the callback is called with keyword arguments `name=new` -/
  kw : Bool := false
  /-- identity of the `Watcher` *object*: `id` names the registration statement (what `unwatch` is
  given, what the logs show), but a `watch` statement inside a callback body makes a new object every
  time it runs, and the queue of a batch holds each object once (`watcher is w`).  Assigned from
  `World.nreg` when the watcher is registered. -/
  uid : Nat := 0
  deriving Repr, DecidableEq

/-- how a registration shows in the logs: the id of the registering statement and the object identity -/
def Watcher.key (x : Watcher) : Nat × Nat := (x.id, x.uid)

/-- shorthand for examples: a value watcher whose callback identity is its id -/
def mkW (id : Nat) (params : List Nat) (onlychanged queued : Bool) (precedence : Int) (body : Nat) : Watcher :=
  { id := id, params := params, onlychanged := onlychanged, queued := queued, precedence := precedence,
    body := body, cb := id, uid := id }

/-- a raw event (`type=None`) -/
structure Ev where
  name : Nat
  old : Int
  new : Int
  what : Nat := 0
  deriving Repr, DecidableEq

inductive EvType | set | changed | triggered | kw   -- `kw`: a `watch_values` callback only sees name=new
  deriving Repr, DecidableEq

/-- an event as handed to a callback -/
structure TEv where
  name : Nat
  old : Int
  new : Int
  type : EvType
  what : Nat := 0
  deriving Repr, DecidableEq

inductive Stmt
  | set (p : Nat) (v : Int)                         -- obj.p = v
  | setSlot (p : Nat) (k : Nat) (v : Int)           -- obj.param.p.<slot k> = v   (a Parameter attribute)
  | update (kvs : List (Nat × Int))                 -- obj.param.update(...)
  | updateCtx (kvs : List (Nat × Int)) (body : List Stmt)   -- with obj.param.update(...): body
  | trigger (ps : List Nat)                         -- obj.param.trigger(...)
  | batch (body : List Stmt)                        -- with batch_call_watchers(obj): body
  | discard (body : List Stmt)                      -- with discard_events(obj): body
  | watch (w : Watcher)                             -- obj.param.watch(...)
  | unwatch (wid : Nat)                             -- obj.param.unwatch(w)
  | raise                                           -- raise Boom()            (an Exception)
  | raiseBase                                       -- raise BoomBase()        (a BaseException only)
  | try_ (body : List Stmt)                         -- try: body / except Exception: pass
  /-- statements run on *another* object (a second instance of the class, whose callbacks never touch this
  one), each under its own try/except: nothing of this object is involved.  `k` names the statement list;
  the driver replays the lists, in the order the log shows them, on a second, independent world. -/
  | other (k : Nat)
  /-- `type(obj).p = v` while `obj` is an instance (no class-level watchers here): the class default changes;
  the instance shows it iff it has never been assigned `p` itself.  Nothing is dispatched on the instance. -/
  | clsSet (p : Nat) (v : Int)
  deriving Repr

/-- static part: bounds per parameter and the callback programs -/
structure Cfg where
  bounds : List (Option Int × Option Int)           -- inclusive hard bounds per parameter
  bodies : List (List Stmt)
  /-- indices of `param.Event` parameters (booleans 0/1 that reset themselves to False) -/
  events : List Nat := []

def Cfg.nparams (c : Cfg) : Nat := c.bounds.length

def Cfg.valid (c : Cfg) (p : Nat) (v : Int) : Bool :=
  match c.bounds[p]? with
  | some (lo, hi) => (match lo with | some l => decide (l ≤ v) | none => true) &&
                     (match hi with | some h => decide (v ≤ h) | none => true)
  | none => false

def Cfg.isEvent (c : Cfg) (p : Nat) : Bool := c.events.contains p && decide (p < c.nparams)

def Cfg.body (c : Cfg) (i : Nat) : List Stmt := c.bodies.getD i []

structure World where
  vals : List Int
  regs : List Watcher          -- registered value watchers, registration order
  batch : Bool                 -- `_BATCH_WATCH`
  trigger : Bool               -- `_TRIGGER`
  events : List Ev             -- `_events`
  queued : List Watcher        -- `_state_watchers`
  /-- Event parameters whose `_mode` is currently 'set' (all others are in 'set-reset') -/
  setMode : List Nat := []
  /-- values of the watchable Parameter attributes, keyed by (parameter, slot) -/
  slotVals : List ((Nat × Nat) × Int) := []
  /-- (parameter, slot) pairs for which a watcher has ever been registered: the keys of the
  Parameter's `watchers` dict, which survive `unwatch` (the list just becomes empty) -/
  slotKeys : List (Nat × Nat) := []
  ncalls : Nat := 0            -- number of callback invocations so far (ghost)
  /-- number of registrations so far: the identity given to the next Watcher object -/
  nreg : Nat := 0
  /-- parameters that have been assigned on the object itself (an entry in the instance's `values`); the
  others show the class-level default and follow it when it is re-assigned (`Stmt.clsSet`) -/
  owned : List Nat := []
  deriving Repr

/-- what a run leaves in the log; a tree, because callbacks nest -/
inductive Item
  /-- a callback invocation: watcher, events, via the flush?, values at entry, what it did, outcome -/
  | call (wid : Nat) (evs : List TEv) (viaFlush : Bool) (snap : List Int) (children : List Item) (res : Res)
  /-- a statement executed by the program: rendered name, payload, flags at entry, watchers registered
      for the assigned parameter (statement id and object identity, registration order), what happened
      inside, outcome -/
  | stmt (kind : String) (p : Nat) (old new : Int) (batchAtEntry trigAtEntry : Bool)
         (regs : List (Nat × Nat)) (children : List Item) (res : Res)
  deriving Repr

def Item.isCallNode : Item → Bool
  | .call .. => true
  | _ => false

/-! ### helpers -/

def getVal (w : World) (p : Nat) : Int := w.vals.getD p 0

/-- stable insertion of an *earlier* element into the sorted later ones: after every element whose
precedence is strictly smaller -/
def insertByPrec (x : Watcher) : List Watcher → List Watcher
  | [] => [x]
  | y :: l => if y.precedence < x.precedence then y :: insertByPrec x l else x :: y :: l

/-- `sorted(watchers, key=lambda w: w.precedence)` (stable) -/
def sortByPrec (l : List Watcher) : List Watcher := l.foldr insertByPrec []

/-- value watchers registered for parameter `p`, registration order -/
def regsFor (w : World) (p : Nat) : List Watcher := w.regs.filter (fun x => x.params.contains p && x.what == 0)

/-- watchers of slot `k` (k > 0) of parameter `p`, registration order -/
def regsForSlot (w : World) (p k : Nat) : List Watcher :=
  w.regs.filter (fun x => x.params.contains p && x.what == k)

def getSlot (w : World) (p k : Nat) : Int :=
  match w.slotVals.find? (fun e => e.1 == (p, k)) with
  | some e => e.2
  | none => 0

def setSlotVal (l : List ((Nat × Nat) × Int)) (p k : Nat) (v : Int) : List ((Nat × Nat) × Int) :=
  ((p, k), v) :: l.filter (fun e => e.1 != (p, k))

def evType (trig : Bool) (wt : Watcher) : EvType :=
  if trig then .triggered else if wt.onlychanged then .changed else .set

def typed (trig : Bool) (wt : Watcher) (e : Ev) : TEv :=
  { name := e.name, old := e.old, new := e.new, type := evType trig wt, what := e.what }

/-- what the callback is actually handed (`_execute_watcher`): the events themselves in 'args' mode,
`{event.name: event.new}` in 'kwargs' mode — rendered as events whose old is the new value -/
def shown (wt : Watcher) (evs : List TEv) : List TEv :=
  if wt.kw then evs.map (fun e => { e with old := e.new, type := .kw }) else evs

/-- the last queued event for a name (`OrderedDict([((name, what), event) …])` keeps the last) -/
def lastFor (dict : List Ev) (name : Nat) (what : Nat := 0) : Option Ev :=
  dict.reverse.find? (fun e => e.name = name && e.what = what)

/-- the events a watcher receives at a flush: in the order of its own `parameter_names` -/
def evsFor (trig : Bool) (wt : Watcher) (dict : List Ev) : List TEv :=
  wt.params.filterMap (fun n => (lastFor dict n wt.what).map (typed trig wt))

/-- `any(watcher is w for w in l)` -/
def hasId (l : List Watcher) (uid : Nat) : Bool := l.any (fun x => x.uid = uid)

/-- Values from `opaqueBase` on stand for objects without a usable equality - the callables a Dynamic
(numeric) parameter may hold instead of a number.  `Comparator.is_equal` knows no rule for them and
answers False, also for one and the same object: such a value always counts as changed. -/
def opaqueBase : Int := 100

/-- `Comparator.is_equal(old, new)` on the modelled values -/
def same (a b : Int) : Bool := a == b && decide (a < opaqueBase)

/-- does the changes-only filter let the event through (`_call_watcher`) -/
def passes (trig : Bool) (wt : Watcher) (e : Ev) : Bool :=
  trig || !wt.onlychanged || !same e.old e.new

/-- `dict(kvs)`: later values win, first-occurrence order -/
def dedupKeys : List (Nat × Int) → List (Nat × Int)
  | [] => []
  | (k, v) :: rest =>
    let rest' := dedupKeys rest
    match rest'.find? (fun kv => kv.1 = k) with
    | some kv => (k, kv.2) :: rest'.filter (fun kv => kv.1 ≠ k)
    | none => (k, v) :: rest'

/-- the keys of an `update`/`trigger` as the program wrote them, with the values and the
registered watchers seen at entry (what a caller can observe before making the call) -/
def keyNodes (w : World) (kvs : List (Nat × Int)) (tr : Bool) : List Item :=
  kvs.map fun kv => .stmt "key" kv.1 (getVal w kv.1) kv.2 true tr ((regsFor w kv.1).map Watcher.key) [] .ok

/-- `dict({name: current value}, **{event: True})` -/
def triggerKvs (c : Cfg) (w : World) (ps : List Nat) : List (Nat × Int) :=
  dedupKeys (ps.map (fun p => (p, if c.isEvent p then 1 else getVal w p)))

inductive Call
  | stmts (l : List Stmt)
  | stmt (s : Stmt)
  | setAttr (p : Nat) (v : Int)
  | setPlain (p : Nat) (v : Int)
  | setSlot (p : Nat) (k : Nat) (v : Int)
  | dispatch (ws : List Watcher) (ev : Ev)
  | callWatcher (wt : Watcher) (ev : Ev)
  | exec (wt : Watcher) (evs : List TEv) (viaFlush : Bool)
  | flush
  | flushRound (ws : List Watcher) (dict : List Ev)
  | update (kvs : List (Nat × Int))
  | updateKeys (kvs : List (Nat × Int))
  | trigger (ps : List Nat)

/-- "finally" outcome: an exception raised by the clean-up replaces the pending one -/
def Res.andThen (body cleanup : Res) : Res :=
  match cleanup with
  | .ok => body
  | r => r

/-- The interpreter.  Returns outcome, final world, log of this call. -/
def run (c : Cfg) : Nat → Call → World → Res × World × List Item
  | 0, _, w => (.oof, w, [])
  | f + 1, call, w =>
    match call with
    | .stmts [] => (.ok, w, [])
    | .stmts (s :: l) =>
      match run c f (.stmt s) w with
      | (.ok, w1, o1) =>
        let (r2, w2, o2) := run c f (.stmts l) w1
        (r2, w2, o1 ++ o2)
      | r => r
    | .stmt (.set p v) =>
      let (r, w1, o) := run c f (.setAttr p v) w
      (r, w1, [.stmt "set" p (getVal w p) v w.batch w.trigger ((regsFor w p).map Watcher.key) o r])
    | .stmt (.setSlot p k v) =>
      let (r, w1, o) := run c f (.setSlot p k v) w
      (r, w1, [.stmt s!"setSlot{k}" p (getSlot w p k) v w.batch w.trigger ((regsForSlot w p k).map Watcher.key) o r])
    | .stmt (.update kvs) =>
      let (r, w1, o) := run c f (.update (dedupKeys kvs)) w
      (r, w1, [.stmt "update" 0 0 0 w.batch w.trigger [] (keyNodes w (dedupKeys kvs) w.trigger ++ o) r])
    | .stmt (.updateCtx kvs body) =>
      -- `update` computes the restore dict from the values before, applies, returns the restorer
      let kvs' := dedupKeys kvs
      let restore := (kvs'.filter (fun kv => kv.1 < c.nparams)).map (fun kv => (kv.1, getVal w kv.1))
      match run c f (.update kvs') w with
      | (.ok, w1, o1) =>
        let (r2, w2, o2) := run c f (.stmts body) w1
        match r2 with
        | .oof => (.oof, w2, [])
        | _ =>
          -- `__exit__`: `_update(restore)`, whatever happened in the body
          let (r3, w3, o3) := run c f (.update restore) w2
          let r := match r3 with | .oof => .oof | _ => r2.andThen r3
          (r, w3, [.stmt "updateCtx" 0 0 0 w.batch w.trigger []
                    (keyNodes w kvs' w.trigger ++ o1 ++ o2 ++ keyNodes w2 restore w2.trigger ++ o3) r])
      | (r1, w1, o1) => (r1, w1, [.stmt "updateCtx" 0 0 0 w.batch w.trigger [] (keyNodes w kvs' w.trigger ++ o1) r1])
    | .stmt (.trigger ps) =>
      let (r, w1, o) := run c f (.trigger ps) w
      (r, w1, [.stmt "trigger" 0 0 0 w.batch w.trigger []
                (keyNodes w (triggerKvs c w ps) true ++ o) r])
    | .stmt (.batch body) =>
      -- batch_call_watchers: save flag, set, finally restore and flush iff the saved flag was off
      let saved := w.batch
      let (r1, w1, o1) := run c f (.stmts body) { w with batch := true }
      match r1 with
      | .oof => (.oof, w1, [])
      | _ =>
        let w2 := { w1 with batch := saved }
        if saved then (r1, w2, [.stmt "batch" 0 0 0 w.batch w.trigger [] o1 r1])
        else
          let (r3, w3, o3) := run c f .flush w2
          let r := match r3 with | .oof => .oof | _ => r1.andThen r3
          (r, w3, [.stmt "batch" 0 0 0 w.batch w.trigger [] (o1 ++ o3) r])
    | .stmt (.discard body) =>
      -- discard_events: save flag and copies of both queues, finally restore all three
      let (r1, w1, o1) := run c f (.stmts body) { w with batch := true }
      (r1, { w1 with batch := w.batch, events := w.events, queued := w.queued },
        [.stmt "discard" 0 0 0 w.batch w.trigger [] o1 r1])
    | .stmt (.watch wt) =>
      if wt.params.all (fun p => decide (p < c.nparams)) then
        (.ok, { w with regs := w.regs ++ [{ wt with uid := w.nreg }], nreg := w.nreg + 1,
                       slotKeys := if wt.what = 0 then w.slotKeys else w.slotKeys ++ wt.params.map (fun p => (p, wt.what)) },
          [.stmt "watch" wt.id 0 0 w.batch w.trigger [] [] .ok])
      else (.raised .value, w, [.stmt "watch" wt.id 0 0 w.batch w.trigger [] [] (.raised .value)])
    | .stmt (.unwatch wid) =>
      (.ok, { w with regs := w.regs.filter (fun x => x.id ≠ wid) },
        [.stmt "unwatch" wid 0 0 w.batch w.trigger [] [] .ok])
    | .stmt (.other k) => (.ok, w, [.stmt "other" k 0 0 w.batch w.trigger [] [] .ok])
    | .stmt (.clsSet p v) =>
      -- (an Event parameter resets itself at class level too: the instance keeps reading False)
      (.ok, { w with vals := if c.isEvent p || w.owned.contains p then w.vals else w.vals.set p v },
        [.stmt "clsSet" p (getVal w p) v w.batch w.trigger [] [] .ok])
    | .stmt .raise => (.raised .boom, w, [])
    | .stmt .raiseBase => (.raised .base, w, [])
    | .stmt (.try_ body) =>
      -- `except Exception`: everything but a bare BaseException
      match run c f (.stmts body) w with
      | (.raised .base, w1, o1) => (.raised .base, w1, o1)
      | (.raised _, w1, o1) => (.ok, w1, o1)
      | r => r
    | .setAttr p v =>
      if c.isEvent p then
        -- `Event.__set__`: a value that is going to be rejected is rejected up front and leaves the event
        -- as it is (it may be True while its watchers run).  Otherwise, in modes 'set-reset' and 'set',
        -- run the ordinary setter; then, unless the mode (re-read) is 'set', `_reset_event` puts False
        -- back without any event (in a `finally`).
        if !c.valid p v then (.raised .value, w, []) else
        match run c f (.setPlain p v) w with
        | (.oof, w1, o1) => (.oof, w1, o1)
        | (r, w1, o1) =>
          -- finally: the reset also happens when the setter raised
          if w1.setMode.contains p then (r, w1, o1)
          else (r, { w1 with vals := w1.vals.set p 0 }, o1)
      else run c f (.setPlain p v) w
    | .setPlain p v =>
      -- `Parameter.__set__`: validate, store, then dispatch to the watchers registered for p
      if !c.valid p v then (.raised .value, w, [])
      else
        let old := getVal w p
        let w1 := { w with vals := w.vals.set p v, owned := p :: w.owned }
        let ws := regsFor w p
        if ws.isEmpty then (.ok, w1, [])          -- no watcher: no event object, no flush
        else
          let (r1, w2, o1) := run c f (.dispatch (sortByPrec ws) { name := p, old := old, new := v }) w1
          match r1 with
          | .oof => (.oof, w2, [])
          | _ =>
            -- finally: flush iff the batching flag is off
            if w2.batch then (r1, w2, o1)
            else
              let (r3, w3, o3) := run c f .flush w2
              let r := match r3 with | .oof => .oof | _ => r1.andThen r3
              (r, w3, o1 ++ o3)
    | .setSlot p k v =>
      -- `Parameter.__setattr__` + `_trigger_event`: store, then the slot's watchers in REGISTRATION
      -- order (not sorted), finally flush iff the batching flag is off
      let old := getSlot w p k
      let w1 := { w with slotVals := setSlotVal w.slotVals p k v }
      let ws := regsForSlot w p k
      -- `has_watcher = attribute in self.watchers`: the dict key exists once a watcher was registered,
      -- also after it was removed again - then nothing is invoked but the flush still happens
      if !w.slotKeys.contains (p, k) then (.ok, w1, [])
      else
        let (r1, w2, o1) := run c f (.dispatch ws { name := p, old := old, new := v, what := k }) w1
        match r1 with
        | .oof => (.oof, w2, [])
        | _ =>
          if w2.batch then (r1, w2, o1)
          else
            let (r3, w3, o3) := run c f .flush w2
            let r := match r3 with | .oof => .oof | _ => r1.andThen r3
            (r, w3, o1 ++ o3)
    | .dispatch [] _ => (.ok, w, [])
    | .dispatch (wt :: rest) ev =>
      match run c f (.callWatcher wt ev) w with
      | (.ok, w1, o1) =>
        let (r2, w2, o2) := run c f (.dispatch rest ev) w1
        (r2, w2, o1 ++ o2)
      | r => r
    | .callWatcher wt ev =>
      if !passes w.trigger wt ev then (.ok, w, [])
      else if w.batch then
        (.ok, { w with events := w.events ++ [ev],
                       queued := if hasId w.queued wt.uid then w.queued else w.queued ++ [wt] }, [])
      else run c f (.exec wt [typed w.trigger wt ev] false) w
    | .exec wt evs viaFlush =>
      -- `_batch_call_watchers(enable=watcher.queued, run=False)` around the callback
      let saved := w.batch
      let w0 := { w with batch := wt.queued || w.batch, ncalls := w.ncalls + 1 }
      let (r1, w1, o1) := run c f (.stmts (c.body wt.body)) w0
      (r1, { w1 with batch := saved }, [.call wt.cb (shown wt evs) viaFlush w.vals o1 r1])
    | .flush =>
      if w.events.isEmpty then (.ok, w, [])
      else
        let dict := w.events
        let ws := sortByPrec w.queued
        let (r1, w1, o1) := run c f (.flushRound ws dict) { w with events := [], queued := [] }
        match r1 with
        | .oof => (.oof, w1, [])
        | .ok =>
          let (r2, w2, o2) := run c f .flush w1
          (r2, w2, o1 ++ o2)
        | .raised e =>
          -- do not leave behind what the failing round has queued, then re-raise
          let (r2, w2, o2) := run c f .flush w1
          let r := match r2 with | .oof => .oof | .ok => .raised e | r => r
          (r, w2, o1 ++ o2)
    | .flushRound [] _ => (.ok, w, [])
    | .flushRound (wt :: rest) dict =>
      match run c f (.exec wt (evsFor w.trigger wt dict) true) w with
      | (.ok, w1, o1) =>
        let (r2, w2, o2) := run c f (.flushRound rest dict) w1
        (r2, w2, o1 ++ o2)
      | r => r
    | .update kvs =>
      -- `_update`: save flag, set it, put the Event parameters among the keys in mode 'set', apply the
      -- keys; finally restore the flag and flush iff it was off; finally (nested) reset those Event
      -- parameters to False without events and put them back in mode 'set-reset'
      let saved := w.batch
      let tps := (kvs.map (·.1)).filter c.isEvent
      let (r1, w1, o1) := run c f (.updateKeys kvs) { w with batch := true, setMode := tps ++ w.setMode }
      match r1 with
      | .oof => (.oof, w1, [])
      | _ =>
        let w2 := { w1 with batch := saved }
        let (r3, w3, o3) := if saved then (Res.ok, w2, []) else run c f .flush w2
        match r3 with
        | .oof => (.oof, w3, [])
        | _ =>
          (r1.andThen r3,
           { w3 with vals := tps.foldl (fun vs tp => vs.set tp 0) w3.vals,
                     setMode := w3.setMode.filter (fun p => !tps.contains p) },
           o1 ++ o3)
    | .updateKeys [] => (.ok, w, [])
    | .updateKeys ((k, v) :: rest) =>
      if k ≥ c.nparams then (.raised .value, w, [])
      else
        match run c f (.setAttr k v) w with
        | (.ok, w1, o1) =>
          let (r2, w2, o2) := run c f (.updateKeys rest) w1
          (r2, w2, o1 ++ o2)
        | r => r
    | .trigger ps =>
      -- the names are looked up first: an unknown one raises KeyError before anything is touched
      if ps.any (fun p => decide (p ≥ c.nparams)) then (.raised .key, w, []) else
      -- park the queues, set the flag, `update({name: current value})`; finally clear the flag and
      -- put the parked queues back *in front* (chronological order; watchers by identity, no duplicates);
      -- the flag is restored to what it was
      let parkedE := w.events
      let parkedQ := w.queued
      let kvs := triggerKvs c w ps
      let (r1, w1, o1) := run c f (.update kvs) { w with events := [], queued := [], trigger := true }
      (r1, { w1 with trigger := w.trigger, events := parkedE ++ w1.events,
                     queued := parkedQ ++ w1.queued.filter (fun x => !hasId parkedQ x.uid) }, o1)

end ParamVerif.Dispatch
