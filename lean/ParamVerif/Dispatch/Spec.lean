/-
Specification side of C03/C04/C05, executable: decidable predicates over the
*observation tree* (what callbacks and the statement interpreter logged), phrased in
the properties' own terms.  The driver evaluates them on what the real code did
(oracle) and on the model's output.  They restate the conclusions of the theorems in
Props/C03.lean, Props/C04.lean, Props/C05.lean node by node.
-/
import ParamVerif.Dispatch.Model

namespace ParamVerif.Dispatch

structure StepObs where
  items : List Item
  vals : List Int
  batch : Bool
  trigger : Bool
  nevents : Nat
  queued : List Nat

/-- every Watcher record mentioned by the case (initial ones and `watch` statements) -/
def stmtWatchers : Nat → List Stmt → List Watcher
  | 0, _ => []
  | _ + 1, [] => []
  | f + 1, s :: rest =>
    (match s with
      | .watch w => [w]
      | .batch b | .discard b | .try_ b | .updateCtx _ b => stmtWatchers f b
      | _ => []) ++ stmtWatchers f rest

def allWatchers (regs : List Watcher) (prog : List Stmt) (bodies : List (List Stmt)) : List Watcher :=
  regs ++ stmtWatchers 10000 prog ++ (bodies.map (stmtWatchers 10000)).flatten

def findW (ws : List Watcher) (id : Nat) : Option Watcher := ws.find? (fun w => w.id = id)
/-- a watcher with the given callback identity (registrations sharing a callback are identical otherwise) -/
def findCb (ws : List Watcher) (cb : Nat) : Option Watcher := ws.find? (fun w => w.cb = cb)

/-- `setSlot<k>` → k -/
def slotOf (kind : String) : Option Nat :=
  if kind.startsWith "setSlot" then (kind.drop 7).toNat? else none

def Item.isCall : Item → Bool | .call .. => true | _ => false

/-- number of callback invocations anywhere below -/
def countCalls : Nat → List Item → Nat
  | 0, _ => 0
  | _ + 1, [] => 0
  | f + 1, (.call _ _ _ _ ch _) :: rest => 1 + countCalls f ch + countCalls f rest
  | f + 1, (.stmt _ _ _ _ _ _ _ ch _) :: rest => countCalls f ch + countCalls f rest

def directCalls (ch : List Item) (flush : Bool) : List (Nat × List TEv × List Int) :=
  ch.filterMap fun
    | .call wid evs fl snap _ _ => if fl = flush then some (wid, evs, snap) else none
    | _ => none

/-- the watchers that must be invoked directly for a non-batched assignment, in order -/
def expectedDirect (ws : List Watcher) (regs : List (Nat × Nat)) (tr : Bool) (ev : Ev) : List Watcher :=
  (sortByPrec (regs.filterMap (fun k => findW ws k.1))).filter (fun w => passes tr w ev)

/-- a qualifying-assignment record harvested from a batch body -/
structure Rec where
  ev : Ev
  tr : Bool
  /-- (statement id, object identity) of the watchers registered for the assigned parameter -/
  regs : List (Nat × Nat)

def bodyHasAssign : Nat → List Stmt → Bool
  | 0, _ => true
  | _ + 1, [] => false
  | f + 1, s :: rest =>
    (match s with
      | .set .. | .update .. | .trigger .. | .updateCtx .. => true
      | .batch b | .discard b | .try_ b => bodyHasAssign f b
      | _ => false) || bodyHasAssign f rest

/-- Records of successful assignments made directly (not through a callback) in a list of
statement nodes, skipping what lies inside `discard`.  The keys of an `update`/`trigger` are listed
as the program wrote them; those after the first rejected one were not applied. -/
def records (c : Cfg) : Nat → Bool → List Item → List Rec
  | 0, _, _ => []
  | _ + 1, _, [] => []
  | f + 1, blocked, it :: rest =>
    match it with
    | .stmt "key" p old new _ tr regs _ _ =>
      if blocked || !c.valid p new then records c f true rest
      else { ev := { name := p, old := old, new := new }, tr := tr, regs := regs } :: records c f false rest
    | .stmt "set" p old new _ tr regs _ .ok =>
      { ev := { name := p, old := old, new := new }, tr := tr, regs := regs } :: records c f false rest
    | .stmt "set" .. => records c f false rest
    | .stmt "setSlot1" p old new _ tr regs _ .ok =>
      { ev := { name := p, old := old, new := new, what := 1 }, tr := tr, regs := regs } :: records c f false rest
    | .stmt "setSlot2" p old new _ tr regs _ .ok =>
      { ev := { name := p, old := old, new := new, what := 2 }, tr := tr, regs := regs } :: records c f false rest
    | .stmt "setSlot1" .. => records c f false rest
    | .stmt "setSlot2" .. => records c f false rest
    | .stmt "discard" .. => records c f false rest
    | .stmt "trigger" _ _ _ _ _ _ _ (.raised .key) => records c f false rest   -- unknown name: nothing applied
    | .stmt _ _ _ _ _ _ _ ch _ => records c f false ch ++ records c f false rest
    | .call .. => records c f false rest

def anyCallFailed : Nat → List Item → Bool
  | 0, _ => true
  | _ + 1, [] => false
  | f + 1, (.call _ _ _ _ ch res) :: rest => res != .ok || anyCallFailed f ch || anyCallFailed f rest
  | f + 1, (.stmt _ _ _ _ _ _ _ ch _) :: rest => anyCallFailed f ch || anyCallFailed f rest

/-- does a statement of the given kind occur anywhere below -/
def hasKind : Nat → String → List Item → Bool
  | 0, _, _ => true
  | _ + 1, _, [] => false
  | f + 1, k, (.stmt k' _ _ _ _ _ _ ch _) :: rest => k' == k || hasKind f k ch || hasKind f k rest
  | f + 1, k, (.call _ _ _ _ ch _) :: rest => hasKind f k ch || hasKind f k rest

/-- did the assignment raise an event for (a registration of) this watcher's callback -/
def qualifies (ws : List Watcher) (r : Rec) (w : Watcher) : Bool :=
  r.ev.what == w.what && (r.regs.filterMap (fun k => findW ws k.1)).any (fun x => x.cb = w.cb) && passes r.tr w r.ev

/-- C04: the first flush round after a batch whose body produced `recs` -/
def checkFlushRound (ws : List Watcher) (recs : List Rec) (calls : List (Nat × List TEv × List Int)) :
    Option String :=
  -- the Watcher *objects* (a `watch` statement in a callback body makes a new one each time it runs) with
  -- a qualifying event, each once
  let expectedKeys := recs.flatMap fun r => r.regs.filter fun k =>
    match findW ws k.1 with | some w => qualifies ws r w | none => false
  let expSet := expectedKeys.eraseDups
  let expCbs := (expSet.filterMap (fun k => findW ws k.1)).map (·.cb)
  let k := expSet.length
  let round := calls.take k
  let ids := round.map (·.1)
  if calls.length < k then some s!"flush: {calls.length} callbacks ran, {k} watchers had qualifying events"
  else if !ids.isPerm expCbs then
    some s!"flush: callbacks {ids} ran, the watchers with qualifying events have callbacks {expCbs} (each exactly once)"
  else
    let precs := ids.filterMap (fun i => (findCb ws i).map (·.precedence))
    if !(precs.zip (precs.drop 1)).all (fun (a, b) => decide (a ≤ b)) then some "flush: not in precedence order"
    else
      round.findSome? fun (wid, evs, _) =>
        match findCb ws wid with
        | none => some "flush: unknown watcher"
        | some w =>
          let want := w.params.filter fun n => recs.any fun r => r.ev.name = n && qualifies ws r w
          let got := evs.map (·.name)
          if got != want then
            let extra := evs.filter (fun e => !want.contains e.name)
            if w.onlychanged && want.all got.contains && got.filter want.contains == want
                && extra.all (fun e => same e.old e.new) then
              some s!"flush: changes-only watcher {wid} also received the unchanged event of {extra.map (·.name)} queued on behalf of another watcher"
            else
              some s!"flush: watcher {wid} received events for {got}, qualifying parameters {want}"
          else if evs.any (fun e => e.what != w.what) then
            -- a watcher of the value is told about the value, a watcher of a Parameter attribute about that attribute
            some s!"flush: watcher {wid} (what = {w.what}) received an event of another kind {evs.map (·.what)}"
          else evs.findSome? fun e =>
            -- the most recent assignment of that parameter that raised an event for somebody (an
            -- assignment inside `discard_events`, or a same-value one nobody listens to, raises none)
            match (recs.filter (fun r => r.ev.name = e.name && r.ev.what == e.what &&
                    (r.regs.filterMap (fun k => findW ws k.1)).any (qualifies ws r))).getLast? with
            | some r => if e.new != r.ev.new then some s!"flush: event for {e.name} does not carry the final value" else none
            | none => some "flush: event without assignment"

/-- C03 + C04 node-local checks, applied to every node of the tree -/
def checkNodes (prop : String) (c : Cfg) (ws : List Watcher) (top : Bool) : Nat → List Item → Option String
  | 0, _ => none
  | _ + 1, [] => none
  | f + 1, it :: rest =>
    let here : Option String :=
      match it with
      | .call wid _ _ _ ch _ =>
        match findCb ws wid with
        | some w =>
          if w.queued && countCalls 100000 ch != 0 then
            some s!"callback {wid} is queued but its own assignments were dispatched while it was running"
          -- a callback is only ever entered with the batching flag off (else it would have been queued), and
          -- runs with the flag equal to its own `queued` option: its assignments are dispatched depth-first
          -- iff it is not queued
          else if ch.any (fun it => match it with
                | .stmt k _ _ _ b _ _ _ _ => k != "key" && b != w.queued
                | _ => false) then
            some s!"callback {wid} (queued={w.queued}) ran its statements with the batching flag {!w.queued}"
          else none
        | none => some s!"callback of unknown watcher {wid}"
      | .stmt kind p old new b tr regs ch res =>
        if b && countCalls 100000 ch != 0 then
          some s!"a watcher ran while a batch was open (statement {kind})"
        else if (kind == "set" || (slotOf kind).isSome) && !b && res == .ok then
          let ev : Ev := { name := p, old := old, new := new, what := (slotOf kind).getD 0 }
          -- value watchers: ascending precedence then registration; attribute watchers: registration order
          let exp := if kind == "set" then expectedDirect ws regs tr ev
                     else (regs.filterMap (fun k => findW ws k.1)).filter (fun w => passes tr w ev)
          let got := directCalls ch false
          if got.map (·.1) != exp.map (·.cb) then
            some s!"{kind} p{p} {old}->{new}: watchers invoked {got.map (·.1)}, expected exactly once each, in order, {exp.map (·.cb)}"
          else if (got.zip exp).any (fun (g, w) => g.2.1 != shown w [typed tr w ev]) then
            some s!"{kind} p{p} {old}->{new}: event payload differs from the true old/new/type"
          else match got.head? with
            | some (_, _, snap) => if kind == "set" && snap.getD p 0 != new then some s!"set p{p}: first watcher ran before the object showed the new value" else none
            | none => none
        else if prop != "C03" && top && (kind == "batch" || kind == "update" || kind == "trigger") && !b
                && (res == .ok || (kind == "update" && res == .raised .value))
                && !anyCallFailed 100000 ch
                && !hasKind 100000 "watch" ch && !hasKind 100000 "unwatch" ch then
          let calls := directCalls ch true
          match checkFlushRound ws (records c 100000 false ch) calls with
          | some s => some s!"{kind}: {s}"
          | none =>
            if kind == "trigger" then
              let k := ((records c 100000 false ch).flatMap (·.regs)).eraseDups.length
              if (calls.take k).any (fun cl => cl.2.1.any (fun e => (e.type != .triggered && e.type != .kw) ||
                    (e.old != e.new && !c.isEvent e.name))) then
                some "trigger: an event is not typed 'triggered' with old = new (Event parameters: the transient True)"
              else none
            else none
        else none
    match here with
    | some s => some s
    | none =>
      let below := match it with
        | .call _ _ _ _ ch _ => checkNodes prop c ws false f ch
        | .stmt _ _ _ _ _ _ _ ch _ => checkNodes prop c ws false f ch
      match below with
      | some s => some s
      | none => checkNodes prop c ws top f rest

/-- C05 (checked for all three properties): sibling statements see the same flags (every statement restores them, whatever its outcome) -/
def siblingFlags : Nat → List Item → Option String
  | 0, _ => none
  | f + 1, items =>
    let flags := items.filterMap fun | .stmt k _ _ _ b tr _ _ _ => if k == "key" then none else some (b, tr) | _ => none
    match flags with
    | [] => goDown f items
    | x :: xs => if xs.all (· == x) then goDown f items
                 else some "a statement left the batching/trigger flag changed for the next statement"
where
  goDown : Nat → List Item → Option String
    | _, [] => none
    | f, (.call _ _ _ _ ch _) :: rest => (siblingFlags f ch).orElse fun _ => goDown f rest
    | f, (.stmt _ _ _ _ _ _ _ ch _) :: rest => (siblingFlags f ch).orElse fun _ => goDown f rest

/-- the whole program: node checks on every step, plus (C05) idleness after every top-level statement -/
def specProgram (prop : String) (c : Cfg) (ws : List Watcher) (_init : List Int) (steps : List StepObs) :
    Option String :=
  let rec go : Nat → List StepObs → Option String
    | _, [] => none
    | n, st :: rest =>
      let e1 := checkNodes prop c ws true 100000 st.items
      -- (stated by C05; C03 and C04 rely on it: the type of an event and whether it is deferred follow from the flags)
      let e2 := siblingFlags 100000 st.items
      let e3 := if st.batch then some "batching flag left set after a top-level statement"
                else if st.trigger then some "trigger flag left set after a top-level statement"
                else if st.nevents != 0 || !st.queued.isEmpty then
                  some s!"{st.nevents} events / {st.queued.length} watchers left queued after a top-level statement"
                else none
      -- C04: an update context in which no callback ran leaves the (non-Event) keys as they were
      let e4 : Option String :=
        if prop == "C04" then
          -- only when the context is the whole top-level statement (nothing after it in the step)
          match st.items with
          | [Item.stmt "updateCtx" _ _ _ _ _ _ ch .ok] =>
            if countCalls 100000 ch != 0 then none else
            -- the first group of key nodes lists the keys with the values held before
            -- (keys are distinct within the update: a repeated parameter starts the restore group)
            let keys := ch.takeWhile (fun (it : Item) => match it with | Item.stmt "key" .. => true | _ => false)
            let first := (keys.foldl (fun (acc : List Nat × List Item × Bool) (it : Item) =>
              match it with
              | Item.stmt _ p .. => if acc.2.2 || acc.1.contains p then (acc.1, acc.2.1, true)
                                    else (p :: acc.1, acc.2.1 ++ [it], false)
              | _ => acc) ([], [], false)).2.1
            first.findSome?
              fun (it : Item) => match it with
                | Item.stmt "key" p old _ _ _ _ _ _ =>
                  if p < c.nparams && !c.isEvent p && st.vals.getD p 0 != old then
                    some s!"update context did not restore p{p} to {old}"
                  else none
                | _ => none
          | _ => none
        else none
      -- C04/C05: an Event parameter only holds its transient True while a statement is running
      let e5 : Option String :=
        (List.range c.nparams).findSome? fun p =>
          if c.isEvent p && st.vals.getD p 0 != 0 then
            some s!"Event parameter p{p} still reads True after a top-level statement"
          else none
      match e1.orElse (fun _ => e2) |>.orElse (fun _ => e3) |>.orElse (fun _ => e4) |>.orElse (fun _ => e5) with
      | some s => some s!"step {n}: {s}"
      | none => go (n + 1) rest
  go 0 steps

end ParamVerif.Dispatch
