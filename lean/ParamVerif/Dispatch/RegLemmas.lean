/-
C03: invariants of the registration table over all histories.  The registration table
(`regs`, the identity counter `nreg`, the recorded attribute keys `slotKeys`) is only ever changed
by `watch` and `unwatch`; so any predicate closed under those two steps is preserved by every call
(`reg_frame`, one fuel induction over all call kinds).  Instances: Watcher objects have pairwise
distinct identities (`RegsOk`), every registered attribute watcher has its key recorded (`SlotInv`).
-/
import ParamVerif.Dispatch.Lemmas

namespace ParamVerif.Dispatch

/-- a predicate on (regs, nreg, slotKeys) closed under the two statements that change them -/
structure RegClosed (P : List Watcher → Nat → List (Nat × Nat) → Prop) : Prop where
  watch : ∀ regs nreg sk (wt : Watcher), P regs nreg sk →
    P (regs ++ [{ wt with uid := nreg }]) (nreg + 1)
      (if wt.what = 0 then sk else sk ++ wt.params.map (fun p => (p, wt.what)))
  unwatch : ∀ regs nreg sk (wid : Nat), P regs nreg sk → P (regs.filter (fun x => x.id ≠ wid)) nreg sk

/-- the predicate, read off a world -/
def RegP (P : List Watcher → Nat → List (Nat × Nat) → Prop) (w : World) : Prop := P w.regs w.nreg w.slotKeys

theorem reg_frame (c : Cfg) (P : List Watcher → Nat → List (Nat × Nat) → Prop) (hP : RegClosed P) :
    ∀ (f : Nat) (call : Call) (w : World),
    (run c f call w).1 ≠ .oof → RegP P w → RegP P (run c f call w).2.1 := by
  intro f
  induction f with
  | zero => intro call w h; simp [run] at h
  | succ f ih =>
    intro call w
    generalize hrun : run c (f+1) call w = out
    intro h hq
    have hw := hP.watch w.regs w.nreg w.slotKeys
    have hu := hP.unwatch w.regs w.nreg w.slotKeys
    cases call with
    | stmts l => cases l <;> run_cases hrun with grind [RegP]
    | stmt s =>
      cases s with
      | set p v => run_cases hrun with grind [RegP]
      | setSlot p k v => run_cases hrun with grind [RegP]
      | update kvs => run_cases hrun with grind [RegP]
      | updateCtx kvs body => run_cases hrun with grind [RegP, Res.andThen]
      | trigger ps => run_cases hrun with grind [RegP]
      | batch body =>
        have h1 := ih (.stmts body) { w with batch := true }
        simp only [run] at hrun
        generalize run c f (.stmts body) { w with batch := true } = d at hrun h1
        obtain ⟨r1, w1, o1⟩ := d
        have h2 := ih .flush { w1 with batch := w.batch }
        generalize run c f .flush { w1 with batch := w.batch } = e at hrun h2
        obtain ⟨r3, w3, o3⟩ := e
        have hk1 : r1 ≠ .oof → P w1.regs w1.nreg w1.slotKeys := fun hne => h1 (by simpa using hne) hq
        have hk3 : r1 ≠ .oof → r3 ≠ .oof → P w3.regs w3.nreg w3.slotKeys :=
          fun hne hne3 => h2 (by simpa using hne3) (hk1 hne)
        cases r1 <;> by_cases hb : w.batch = true <;> cases r3 <;> simp [hb, Res.andThen] at hrun <;> subst hrun <;>
          first
          | (simp [Res.andThen] at h; done)
          | (simpa [RegP] using hk1 (by simp))
          | (simpa [RegP] using hk3 (by simp) (by simp))
      | discard body =>
        have h1 := ih (.stmts body) { w with batch := true }
        run_cases hrun with grind [RegP]
      | watch wt =>
        simp only [run] at hrun
        split at hrun
        · subst hrun; exact hw wt hq
        · subst hrun; exact hq
      | unwatch wid =>
        simp only [run] at hrun
        subst hrun; exact hu wid hq
      | other k => run_cases hrun with grind [RegP]
      | clsSet p v => run_cases hrun with grind [RegP]
      | raise => run_cases hrun with grind [RegP]
      | raiseBase => run_cases hrun with grind [RegP]
      | try_ body => run_cases hrun with grind [RegP]
    | setAttr p v =>
      have h1 := ih (.setPlain p v) w
      run_cases hrun with grind [RegP]
    | setPlain p v =>
      have h1 := ih (.dispatch (sortByPrec (regsFor w p)) { name := p, old := getVal w p, new := v })
        { w with vals := w.vals.set p v, owned := p :: w.owned }
      run_cases hrun with grind [RegP]
    | setSlot p k v =>
      have h1 := ih (.dispatch (regsForSlot w p k) { name := p, old := getSlot w p k, new := v, what := k })
        { w with slotVals := setSlotVal w.slotVals p k v }
      run_cases hrun with grind [RegP]
    | dispatch ws ev => cases ws <;> run_cases hrun with grind [RegP]
    | callWatcher wt ev => run_cases hrun with grind [RegP]
    | exec wt evs fl =>
      have := ih (.stmts (c.body wt.body)) { w with batch := wt.queued || w.batch, ncalls := w.ncalls + 1 }
      run_cases hrun with grind [RegP]
    | flush =>
      have := ih (.flushRound (sortByPrec w.queued) w.events) { w with events := [], queued := [] }
      run_cases hrun with grind [RegP]
    | flushRound ws d => cases ws <;> run_cases hrun with grind [RegP]
    | update kvs =>
      have h1 := ih (.updateKeys kvs) { w with batch := true, setMode := (kvs.map (·.1)).filter c.isEvent ++ w.setMode }
      simp only [run] at hrun
      generalize run c f (.updateKeys kvs) { w with batch := true, setMode := (kvs.map (·.1)).filter c.isEvent ++ w.setMode } = d at hrun h1
      obtain ⟨r1, w1, o1⟩ := d
      have h2 := ih .flush { w1 with batch := w.batch }
      generalize run c f .flush { w1 with batch := w.batch } = e at hrun h2
      obtain ⟨r3, w3, o3⟩ := e
      have hk1 : r1 ≠ .oof → P w1.regs w1.nreg w1.slotKeys := fun hne => h1 (by simpa using hne) hq
      have hk3 : r1 ≠ .oof → r3 ≠ .oof → P w3.regs w3.nreg w3.slotKeys :=
        fun hne hne3 => h2 (by simpa using hne3) (hk1 hne)
      cases r1 <;> by_cases hb : w.batch = true <;> cases r3 <;> simp [hb, Res.andThen] at hrun <;> subst hrun <;>
        first
        | (simp [Res.andThen] at h; done)
        | (simpa [RegP] using hk1 (by simp))
        | (simpa [RegP] using hk3 (by simp) (by simp))
    | updateKeys kvs => rcases kvs with _ | ⟨⟨k, v⟩, rest⟩ <;> run_cases hrun with grind [RegP]
    | trigger ps =>
      have h1 := ih (.update (triggerKvs c w ps)) { w with events := [], queued := [], trigger := true }
      run_cases hrun with grind [RegP]

/-! ### instance 1: distinct identities -/

/-- registered Watcher objects have pairwise distinct identities, all below the allocation counter -/
def RegsOkV (regs : List Watcher) (nreg : Nat) (_ : List (Nat × Nat)) : Prop :=
  (regs.map (·.uid)).Nodup ∧ ∀ x ∈ regs, x.uid < nreg

def RegsOk (w : World) : Prop := RegP RegsOkV w

theorem regsOk_closed : RegClosed RegsOkV where
  watch := by
    intro regs nreg sk wt ⟨h1, h2⟩
    refine ⟨?_, ?_⟩
    · simp only [List.map_append, List.map_cons, List.map_nil]
      rw [List.nodup_append]
      refine ⟨h1, by simp, ?_⟩
      intro a ha b hb e
      simp at hb
      obtain ⟨x, hx, hxa⟩ := List.mem_map.1 ha
      have := h2 x hx
      omega
    · intro x hx
      simp only [List.mem_append, List.mem_singleton] at hx
      rcases hx with hx | hx
      · exact Nat.lt_succ_of_lt (h2 x hx)
      · subst hx; exact Nat.lt_succ_self _
  unwatch := by
    intro regs nreg sk wid ⟨h1, h2⟩
    exact ⟨(List.filter_sublist.map _).nodup h1, fun x hx => h2 x (List.mem_filter.1 hx).1⟩

theorem regsOk_preserved (c : Cfg) (f : Nat) (call : Call) (w : World)
    (h : (run c f call w).1 ≠ .oof) (hq : RegsOk w) : RegsOk (run c f call w).2.1 :=
  reg_frame c RegsOkV regsOk_closed f call w h hq

/-! ### instance 2: every registered attribute watcher has its key recorded -/

def SlotInvV (regs : List Watcher) (_ : Nat) (sk : List (Nat × Nat)) : Prop :=
  ∀ x ∈ regs, x.what ≠ 0 → ∀ q ∈ x.params, (q, x.what) ∈ sk

def SlotInv (w : World) : Prop := RegP SlotInvV w

theorem slotInv_closed : RegClosed SlotInvV where
  watch := by
    intro regs nreg sk wt h x hx hne q hq
    simp only [List.mem_append, List.mem_singleton] at hx
    rcases hx with hx | hx
    · have := h x hx hne q hq
      split
      · exact this
      · exact List.mem_append_left _ this
    · subst hx
      simp only at hne hq ⊢
      simp only [hne, if_false]
      exact List.mem_append_right _ (List.mem_map.2 ⟨q, hq, rfl⟩)
  unwatch := by
    intro regs nreg sk wid h x hx
    exact h x (List.mem_filter.1 hx).1

theorem slotInv_preserved (c : Cfg) (f : Nat) (call : Call) (w : World)
    (h : (run c f call w).1 ≠ .oof) (hq : SlotInv w) : SlotInv (run c f call w).2.1 :=
  reg_frame c SlotInvV slotInv_closed f call w h hq

end ParamVerif.Dispatch

namespace ParamVerif.Dispatch

/-! ### the dispatch loop when a callback does not return normally: a prefix of the expected calls -/

/-- **dispatch loop, any outcome**: with the batching flag off, whatever the outcome (a callback may
raise), the watchers invoked are a *prefix* of the expected ones — nobody is skipped, nobody is
invoked twice, the order is kept — and the whole list when the loop returns normally. -/
theorem dispatch_prefix (c : Cfg) (ev : Ev) : ∀ (ws : List Watcher) (f : Nat) (w : World),
    w.batch = false → (run c f (.dispatch ws ev) w).1 ≠ .oof →
    ∃ n, callSigs (run c f (.dispatch ws ev) w).2.2 =
      ((ws.filter (fun wt => passes w.trigger wt ev)).map
        (fun wt => (wt.cb, shown wt [typed w.trigger wt ev], false))).take n := by
  intro ws
  induction ws with
  | nil =>
    intro f w _ h
    cases f with
    | zero => simp [run] at h
    | succ f => exact ⟨0, by simp [run]⟩
  | cons wt rest ih =>
    intro f w hb h
    cases f with
    | zero => simp [run] at h
    | succ f =>
      simp only [run] at h ⊢
      have hcw := callWatcher_shape c f w wt ev hb
      have hfl := flags c f (.callWatcher wt ev) w
      generalize hr : run c f (.callWatcher wt ev) w = d at hcw hfl h ⊢
      obtain ⟨r1, w1, o1⟩ := d
      cases r1 with
      | oof => simp at h
      | ok =>
        simp only at h ⊢
        simp only [ne_eq, reduceCtorEq, not_false_eq_true, forall_const] at hcw hfl
        have hb1 : w1.batch = false := by rw [hfl.1]; exact hb
        obtain ⟨n, hn⟩ := ih f w1 hb1 h
        rw [hfl.2] at hn
        simp only [callSigs_append, hcw, hn, List.filter_cons]
        by_cases hp : passes w.trigger wt ev
        · exact ⟨n + 1, by simp [hp]⟩
        · exact ⟨n, by simp [hp]⟩
      | raised e =>
        simp only [ne_eq, reduceCtorEq, not_false_eq_true, forall_const] at hcw
        simp only [hcw, List.filter_cons]
        by_cases hp : passes w.trigger wt ev
        · exact ⟨1, by simp [hp]⟩
        · exact ⟨0, by simp [hp]⟩

/-- the log of a dispatch loop whose first watcher passes the filter starts with that watcher's callback,
invoked directly, seeing the values of the world the loop started in -/
theorem dispatch_head_item (c : Cfg) (f : Nat) (w : World) (wt : Watcher) (rest : List Watcher) (ev : Ev)
    (hb : w.batch = false) (hp : passes w.trigger wt ev = true)
    (h : (run c f (.dispatch (wt :: rest) ev) w).1 ≠ .oof) :
    ∃ evs ch r tail, (run c f (.dispatch (wt :: rest) ev) w).2.2 = .call wt.cb evs false w.vals ch r :: tail := by
  cases f with
  | zero => simp [run] at h
  | succ f =>
    have hcw : ∃ evs ch r, (run c f (.callWatcher wt ev) w).1 ≠ .oof →
        (run c f (.callWatcher wt ev) w).2.2 = [.call wt.cb evs false w.vals ch r] := by
      cases f with
      | zero => exact ⟨[], [], .ok, fun h => by simp [run] at h⟩
      | succ f =>
        cases f with
        | zero => exact ⟨[], [], .ok, fun h => by simp [run, hp, hb] at h⟩
        | succ f =>
          refine ⟨shown wt [typed w.trigger wt ev],
            (run c f (.stmts (c.body wt.body)) { w with batch := wt.queued || w.batch, ncalls := w.ncalls + 1 }).2.2,
            (run c f (.stmts (c.body wt.body)) { w with batch := wt.queued || w.batch, ncalls := w.ncalls + 1 }).1,
            fun _ => ?_⟩
          simp only [run, hp, hb, Bool.not_true, Bool.false_eq_true, if_false]
    obtain ⟨evs, ch, r, hcw⟩ := hcw
    simp only [run] at h ⊢
    generalize run c f (.callWatcher wt ev) w = d at h hcw ⊢
    obtain ⟨r1, w1, o1⟩ := d
    cases r1 with
    | oof => simp at h
    | ok =>
      simp only at h hcw ⊢
      rw [hcw (by simp)]
      exact ⟨evs, ch, r, _, rfl⟩
    | raised e =>
      simp only at h hcw ⊢
      rw [hcw (by simp)]
      exact ⟨evs, ch, r, [], rfl⟩

end ParamVerif.Dispatch
