/-
C04/C05: an Event parameter holds its transient True only while the statement that set it is running.
One fuel induction over all call kinds, in the style of Dispatch/Lemmas.lean.
-/
import ParamVerif.Dispatch.Lemmas

namespace ParamVerif.Dispatch

/-- every Event parameter outside `S` that is not in mode 'set' reads False -/
def EvResetV (c : Cfg) (S : List Nat) (vals : List Int) (setMode : List Nat) : Prop :=
  ∀ p, c.isEvent p = true → p ∉ setMode → p ∉ S → vals.getD p 0 = 0

/-- … stated on a world (only the values and the modes matter) -/
def EvReset (c : Cfg) (S : List Nat) (w : World) : Prop := EvResetV c S w.vals w.setMode

/-- the parameter a call may leave at the value just assigned: only the bare setter, whose caller
(`Event.__set__`) does the reset -/
def Call.inflight : Call → List Nat
  | .setPlain p _ => [p]
  | _ => []

theorem getD_set_zero (l : List Int) (p : Nat) : (l.set p 0).getD p 0 = 0 := by
  grind [List.getD_eq_getElem?_getD, List.getElem?_set]

theorem getD_set_other (l : List Int) (p q : Nat) (x : Int) (h : p ≠ q) : (l.set p x).getD q 0 = l.getD q 0 := by
  grind [List.getD_eq_getElem?_getD, List.getElem?_set]

theorem getD_foldl_set_zero (tps : List Nat) (vs : List Int) (q : Nat) :
    (tps.foldl (fun vs tp => vs.set tp 0) vs).getD q 0 = if q ∈ tps then 0 else vs.getD q 0 := by
  induction tps generalizing vs with
  | nil => simp
  | cons t rest ih =>
    rw [List.foldl_cons, ih]
    by_cases hq : q ∈ rest
    · simp [hq]
    · by_cases ht : q = t
      · subst ht; simp only [hq, if_false, List.mem_cons, true_or, if_true]; exact getD_set_zero vs q
      · simp only [hq, if_false, List.mem_cons, ht, false_or]; exact getD_set_other vs t q 0 (Ne.symm ht)

theorem EvResetV.cons {c : Cfg} {S : List Nat} {vals : List Int} {sm : List Nat} (p : Nat)
    (h : EvResetV c S vals sm) : EvResetV c (p :: S) vals sm := by
  intro q hq hm hs; exact h q hq hm (by simp at hs; exact hs.2)

theorem EvResetV.set {c : Cfg} {S : List Nat} {vals : List Int} {sm : List Nat} (p : Nat) (v : Int)
    (h : EvResetV c S vals sm) : EvResetV c (p :: S) (vals.set p v) sm := by
  intro q hq hm hs
  simp at hs
  rw [getD_set_other _ _ _ _ (Ne.symm hs.1)]
  exact h q hq hm hs.2

theorem EvResetV.reset {c : Cfg} {S : List Nat} {vals : List Int} {sm : List Nat} (p : Nat)
    (h : EvResetV c (p :: S) vals sm) : EvResetV c S (vals.set p 0) sm := by
  intro q hq hm hs
  by_cases e : q = p
  · subst e; exact getD_set_zero _ _
  · rw [getD_set_other _ _ _ _ (Ne.symm e)]; exact h q hq hm (by simp [e, hs])

theorem EvResetV.inMode {c : Cfg} {S : List Nat} {vals : List Int} {sm : List Nat} (p : Nat) (hp : p ∈ sm)
    (h : EvResetV c (p :: S) vals sm) : EvResetV c S vals sm := by
  intro q hq hm hs
  by_cases e : q = p
  · subst e; exact absurd hp hm
  · exact h q hq hm (by simp [e, hs])

theorem EvResetV.nonEvent {c : Cfg} {S : List Nat} {vals : List Int} {sm : List Nat} (p : Nat)
    (hp : c.isEvent p = false) (h : EvResetV c (p :: S) vals sm) : EvResetV c S vals sm := by
  intro q hq hm hs
  by_cases e : q = p
  · subst e; rw [hp] at hq; cases hq
  · exact h q hq hm (by simp [e, hs])

theorem EvResetV.moreMode {c : Cfg} {S : List Nat} {vals : List Int} {sm : List Nat} (tps : List Nat)
    (h : EvResetV c S vals sm) : EvResetV c S vals (tps ++ sm) := by
  intro q hq hm hs; exact h q hq (by simp at hm; exact hm.2) hs

theorem EvResetV.updateExit {c : Cfg} {S : List Nat} {vals : List Int} {sm : List Nat} (tps : List Nat)
    (h : EvResetV c S vals sm) :
    EvResetV c S (tps.foldl (fun vs tp => vs.set tp 0) vals) (sm.filter (fun p => !tps.contains p)) := by
  intro q hq hm hs
  rw [getD_foldl_set_zero]
  by_cases e : q ∈ tps
  · simp [e]
  · simp only [e, if_false]
    exact h q hq (fun hin => hm (by simp [List.mem_filter, hin, e])) hs

theorem events_reset (c : Cfg) : ∀ (f : Nat) (call : Call) (w : World) (S : List Nat),
    (run c f call w).1 ≠ .oof → EvReset c S w → EvReset c (call.inflight ++ S) (run c f call w).2.1 := by
  intro f
  induction f with
  | zero => intro call w S h; simp [run] at h
  | succ f ih =>
    intro call w S
    generalize hrun : run c (f+1) call w = out
    intro h hq
    cases call with
    | stmts l => cases l <;> simp only [Call.inflight, List.nil_append] <;> run_cases hrun with grind [Call.inflight, EvReset]
    | stmt s =>
      simp only [Call.inflight, List.nil_append]
      cases s with
      | set p v => run_cases hrun with grind [Call.inflight, EvReset]
      | setSlot p k v => run_cases hrun with grind [Call.inflight, EvReset]
      | update kvs => run_cases hrun with grind [Call.inflight, EvReset]
      | updateCtx kvs body => run_cases hrun with grind [Call.inflight, EvReset, Res.andThen]
      | trigger ps => run_cases hrun with grind [Call.inflight, EvReset]
      | batch body =>
        have h1 := ih (.stmts body) { w with batch := true } S
        simp only [Call.inflight, List.nil_append] at h1
        simp only [run] at hrun
        generalize run c f (.stmts body) { w with batch := true } = d at hrun h1
        obtain ⟨r1, w1, o1⟩ := d
        have h2 := ih .flush { w1 with batch := w.batch } S
        simp only [Call.inflight, List.nil_append] at h2
        generalize run c f .flush { w1 with batch := w.batch } = e at hrun h2
        obtain ⟨r3, w3, o3⟩ := e
        have hk1 : r1 ≠ .oof → EvResetV c S w1.vals w1.setMode := fun hne => h1 (by simpa using hne) hq
        have hk3 : r1 ≠ .oof → r3 ≠ .oof → EvResetV c S w3.vals w3.setMode :=
          fun hne hne3 => h2 (by simpa using hne3) (hk1 hne)
        cases r1 <;> by_cases hb : w.batch = true <;> cases r3 <;> simp [hb, Res.andThen] at hrun <;> subst hrun <;>
          first
          | (simp [Res.andThen] at h; done)
          | (simpa [EvReset] using hk1 (by simp))
          | (simpa [EvReset] using hk3 (by simp) (by simp))
      | discard body =>
        have h1 := ih (.stmts body) { w with batch := true } S
        run_cases hrun with grind [Call.inflight, EvReset]
      | watch wt => run_cases hrun with grind [Call.inflight, EvReset]
      | unwatch wid => run_cases hrun with grind [Call.inflight, EvReset]
      | other k => run_cases hrun with grind [Call.inflight, EvReset]
      | clsSet p v =>
        simp only [run] at hrun
        subst hrun
        by_cases hc : (c.isEvent p || w.owned.contains p) = true
        · simp only [hc, if_true]; exact hq
        · simp only [hc, Bool.false_eq_true, if_false]
          have hne : c.isEvent p = false := by
            cases he : c.isEvent p <;> simp_all
          intro q hq' hm hs
          by_cases e : q = p
          · subst e; rw [hne] at hq'; cases hq'
          · show (w.vals.set p v).getD q 0 = 0
            rw [getD_set_other _ _ _ _ (Ne.symm e)]
            exact hq q hq' hm hs
      | raise => run_cases hrun with grind [Call.inflight, EvReset]
      | raiseBase => run_cases hrun with grind [Call.inflight, EvReset]
      | try_ body => run_cases hrun with grind [Call.inflight, EvReset]
    | setAttr p v =>
      simp only [Call.inflight, List.nil_append]
      have h1 := ih (.setPlain p v) w S
      simp only [Call.inflight, List.singleton_append] at h1
      have hin := @EvResetV.inMode c S (run c f (.setPlain p v) w).2.1.vals (run c f (.setPlain p v) w).2.1.setMode p
      have hre := @EvResetV.reset c S (run c f (.setPlain p v) w).2.1.vals (run c f (.setPlain p v) w).2.1.setMode p
      have hne := @EvResetV.nonEvent c S (run c f (.setPlain p v) w).2.1.vals (run c f (.setPlain p v) w).2.1.setMode p
      run_cases hrun with grind [Call.inflight, EvReset]
    | setPlain p v =>
      simp only [Call.inflight, List.singleton_append]
      have h1 := ih (.dispatch (sortByPrec (regsFor w p)) { name := p, old := getVal w p, new := v })
        { w with vals := w.vals.set p v, owned := p :: w.owned } (p :: S)
      have h0 : EvReset c (p :: S) w := EvResetV.cons p hq
      have h2 : EvReset c (p :: S) { w with vals := w.vals.set p v, owned := p :: w.owned } := EvResetV.set p v hq
      run_cases hrun with grind [Call.inflight, EvReset]
    | setSlot p k v =>
      simp only [Call.inflight, List.nil_append]
      have h1 := ih (.dispatch (regsForSlot w p k) { name := p, old := getSlot w p k, new := v, what := k })
        { w with slotVals := setSlotVal w.slotVals p k v } S
      run_cases hrun with grind [Call.inflight, EvReset]
    | dispatch ws ev => cases ws <;> simp only [Call.inflight, List.nil_append] <;> run_cases hrun with grind [Call.inflight, EvReset]
    | callWatcher wt ev => simp only [Call.inflight, List.nil_append]; run_cases hrun with grind [Call.inflight, EvReset]
    | exec wt evs fl =>
      simp only [Call.inflight, List.nil_append]
      have := ih (.stmts (c.body wt.body)) { w with batch := wt.queued || w.batch, ncalls := w.ncalls + 1 } S
      run_cases hrun with grind [Call.inflight, EvReset]
    | flush =>
      simp only [Call.inflight, List.nil_append]
      have := ih (.flushRound (sortByPrec w.queued) w.events) { w with events := [], queued := [] } S
      run_cases hrun with grind [Call.inflight, EvReset]
    | flushRound ws d => cases ws <;> simp only [Call.inflight, List.nil_append] <;> run_cases hrun with grind [Call.inflight, EvReset]
    | update kvs =>
      simp only [Call.inflight, List.nil_append]
      have h0 : EvReset c S { w with batch := true, setMode := (kvs.map (·.1)).filter c.isEvent ++ w.setMode } :=
        EvResetV.moreMode _ hq
      have h1 := ih (.updateKeys kvs) { w with batch := true, setMode := (kvs.map (·.1)).filter c.isEvent ++ w.setMode } S
      simp only [Call.inflight, List.nil_append] at h1
      simp only [run] at hrun
      generalize run c f (.updateKeys kvs) { w with batch := true, setMode := (kvs.map (·.1)).filter c.isEvent ++ w.setMode } = d at hrun h1
      obtain ⟨r1, w1, o1⟩ := d
      have h2 := ih .flush { w1 with batch := w.batch } S
      simp only [Call.inflight, List.nil_append] at h2
      have hx := @EvResetV.updateExit c S
      generalize run c f .flush { w1 with batch := w.batch } = e at hrun h2
      obtain ⟨r3, w3, o3⟩ := e
      have hk1 : r1 ≠ .oof → EvResetV c S w1.vals w1.setMode := fun hne => h1 (by simpa using hne) h0
      have hk3 : r1 ≠ .oof → r3 ≠ .oof → EvResetV c S w3.vals w3.setMode :=
        fun hne hne3 => h2 (by simpa using hne3) (hk1 hne)
      cases r1 <;> by_cases hb : w.batch = true <;> cases r3 <;> simp [hb, Res.andThen] at hrun <;> subst hrun <;>
        first
        | (simp [Res.andThen] at h; done)
        | (simpa [EvReset] using hx ((kvs.map (·.1)).filter c.isEvent) (hk1 (by simp)))
        | (simpa [EvReset] using hx ((kvs.map (·.1)).filter c.isEvent) (hk3 (by simp) (by simp)))
    | updateKeys kvs => rcases kvs with _ | ⟨⟨k, v⟩, rest⟩ <;> simp only [Call.inflight, List.nil_append] <;> run_cases hrun with grind [Call.inflight, EvReset]
    | trigger ps =>
      simp only [Call.inflight, List.nil_append]
      have h1 := ih (.update (triggerKvs c w ps)) { w with events := [], queued := [], trigger := true } S
      run_cases hrun with grind [Call.inflight, EvReset]

end ParamVerif.Dispatch
