/-
C19 model: `param.Time`, `param.Dynamic` (value caching keyed by time), numbergen
time-dependent generators, `Parameterized._state_push/_state_pop`.

Everything here mirrors the code as written (branch order, `try/finally`-like
behaviour of the `with` statement as an explicit clause).  Opaque functions
(md5 hashing, Mersenne twister) are the fields of `Env`.
-/
namespace ParamVerif.TimeDyn

/-- time values: `Time.time_type` is `int` or `fractions.Fraction`; both embed in the rationals, and
Python compares and hashes them as such (`Fraction(2) == 2`) -/
abbrev TimeV := Rat

/-- `Time.time_type`: the callable every user-supplied time goes through -/
inductive TimeType where
  | int      -- `int(x)`: truncation towards zero
  | frac     -- `fractions.Fraction(x)`: exact
  deriving DecidableEq, Repr

def TimeType.conv : TimeType → TimeV → TimeV
  | .int, q => ((q.num.tdiv q.den : Int) : Rat)
  | .frac, q => q

/-- Opaque functions.  `hash name seed t` stands for
`numbergen.Hash(name + str(seed), 2)(t, param.random_seed)`
(numbergen/__init__.py `TimeAwareRandomState._initialize_random_state`, `_hash_and_seed`),
`reseed h` for the state of `random_generator` after `random_generator.seed(h)`,
`next st` for drawing one number (`random_generator.uniform(lbound, ubound)`, `UniformRandom.__call__`):
the value and the advanced state; `init k` for the state a generator of kind `k` is constructed with. -/
structure Env (H S V : Type) where
  hash : String → Int → TimeV → H
  reseed : H → S
  next : S → V × S
  init : Nat → S

/-- value of a time-dependent generator at time `t`: reseed from `(name, seed, t)`, then draw -/
def Env.tdVal {H S V} (env : Env H S V) (name : String) (seed : Int) (t : TimeV) : V :=
  (env.next (env.reseed (env.hash name seed t))).1

/-- Python `x % p` for a rational `x` and a positive integer `p`: `x - p * floor(x / p)` -/
def pyMod (x : TimeV) (p : Int) : TimeV := x - (p : Rat) * (((x / (p : Rat)).floor : Int) : Rat)

/-- the time `numbergen.TimeSampledFn` evaluates its function at: the latest sample point
`k * period - offset ≤ now` (always an integer for integer period and offset, so the conversion by
`time_type` on the way there changes nothing).  src: numbergen/__init__.py TimeSampledFn.__call__ -/
def sampleTime (now : TimeV) (period offset : Int) : TimeV :=
  (now + (offset : Rat)) - pyMod (now + (offset : Rat)) period - (offset : Rat)

inductive GenKind where
  | td (name : String) (seed : Int)     -- numbergen RandomDistribution(name=, seed=, time_dependent=True)
  | sampled (name : String) (seed : Int) (period offset : Int)
      -- numbergen TimeSampledFn(fn=RandomDistribution(name=, seed=, time_dependent=True), period=, offset=)
  | stream (sid : Nat)                  -- any callable that ignores time (time_dependent=False, counters)
  deriving DecidableEq, Repr

inductive Exc where
  | stopIteration | userError | indexError | valueError
  | malformed          -- the case refers to something that does not exist: not an input
  deriving DecidableEq, Repr

/-- A value generator with the attributes `Dynamic._initialize_generator` adds to it.
`saved` is `zip(_saved_Dynamic_last, _saved_Dynamic_time)`, most recent first: the two
Python lists are reset / appended / popped together at their only three use sites
(`_initialize_generator`, `_state_push`, `_state_pop`); the harness reports both lengths. -/
structure Gen (S V : Type) where
  kind : GenKind
  rng : Option S := none           -- state of the generator's random stream; none = as constructed (`env.init`)
  calls : Nat                      -- values produced so far (position in the stream)
  last : Option V                  -- _Dynamic_last   (None = placeholder)
  lastTime : Option TimeV          -- _Dynamic_time; none = the marker `_NO_TIME`, unequal to every time
  saved : List (Option V × Option TimeV)
  fail : Option (Nat × Exc) := none   -- a fault: the k-th call (0-based) raises instead of returning
  explicitTf : Bool := false          -- constructed with `time_fn=T` (T = the global Time object)
  frozen : Option TimeV := none       -- a deep copy of such a generator owns a copy of T, stopped at this time
  deriving DecidableEq, Repr

/-- src: param/parameters.py Dynamic._initialize_generator -/
def Gen.fresh {S V} (k : GenKind) (fail : Option (Nat × Exc) := none) (tf : Bool := false) : Gen S V :=
  { kind := k, calls := 0, last := none, lastTime := none, saved := [], fail := fail, explicitTf := tf }

/-- `copy.deepcopy(generator)` (instantiation of a Parameter default): a `time_fn` that was given to the
constructor is a parameter value of the generator and is copied with it — the copy's clock stays at the
time of the copy; without an explicit `time_fn` the generator looks the global Time object up on its class.
src: param/parameterized.py Parameters._instantiate_param; numbergen/__init__.py TimeAware.time_fn -/
def Gen.copyAt {S V} (now : TimeV) (g : Gen S V) : Gen S V :=
  { g with frozen := match g.frozen with
      | some f => some f
      | none => if g.explicitTf then some now else none }

/-- the time the generator itself sees (`self.time_fn()`) when the global clock shows `now` -/
def Gen.ownTime {S V} (g : Gen S V) (now : TimeV) : TimeV :=
  match g.frozen with
  | some f => f
  | none => now

/-- src: param/parameters.py Dynamic._initialize_generator (on an existing callable) -/
def Gen.reinit {S V} (g : Gen S V) : Gen S V :=
  { g with last := none, lastTime := none, saved := [] }

/-- what `Parameter.__get__` finds: a plain value, a generator of the heap, or (instances only)
nothing in the instance dictionary, i.e. the class default -/
inductive Slot where
  | const (v : Int)
  | gen (g : Nat)
  | inherit
  deriving DecidableEq, Repr

inductive PType where
  | dynamic      -- param.Dynamic
  | number       -- param.Number: validates dynamically generated values (None -> ValueError)
  deriving DecidableEq, Repr

/-- src: param/parameters.py Time (`_time`, `timestep`, `until`, `_pushed_state`, `in_context`) -/
structure Clock where
  time : TimeV
  timeType : TimeType := .int               -- not part of the pushed state
  timestep : Int
  untl : Option Int                        -- none = Time.forever
  pushed : List (TimeV × Int × Option Int)  -- most recent first
  inContext : Option Bool                   -- the attribute does not exist before the first __enter__
  deriving DecidableEq, Repr

/-- what a balanced `__enter__`/`__exit__` pair leaves behind: only `in_context` is (re)assigned -/
def Clock.touch (c : Clock) : Clock := { c with inContext := some (!c.pushed.isEmpty) }

def Clock.init : Clock := { time := 0, timestep := 1, untl := none, pushed := [], inContext := none }

structure World (S V : Type) where
  dynTD : Bool                 -- param.Dynamic.time_dependent
  clock : Clock                -- param.Dynamic.time_fn
  gens : List (Gen S V)          -- heap of generator objects, index = creation order
  ptypes : List PType          -- the class's Dynamic parameters, definition order
  defaults : List Slot         -- class-level values (never `inherit`)
  insts : List (List Slot)     -- per instance: `_param__private.values`
  deriving Repr

inductive Target where
  | cls
  | inst (i : Nat)
  deriving DecidableEq, Repr

inductive Src where
  | fresh (k : GenKind) (fail : Option (Nat × Exc) := none) (tf : Bool := false)
  | existing (g : Nat)
  | const (v : Int)
  deriving DecidableEq, Repr

inductive Op where
  | setTime (t : TimeV)                        -- time_fn(t): `_time = time_type(t)`
  | setTimeType (t : TimeV) (tt : TimeType)    -- time_fn(t, time_type=tt)
  | advance (d : TimeV)                        -- time_fn += d / time_fn -= -d: `_time + time_type(d)`
  | setStep (s : Int)                          -- time_fn.timestep = s
  | setUntil (u : Option Int)                  -- time_fn.until = u
  | read (tg : Target) (p : Nat)               -- getattr(obj, p)
  | inspect (tg : Target) (p : Nat)            -- obj.param.inspect_value(p)
  | force (tg : Target) (p : Nat)              -- obj.param.force_new_dynamic_value(p)
  | push (i : Nat)                             -- inst.param._state_push()
  | pop (i : Nat)                              -- inst.param._state_pop()
  | assign (tg : Target) (p : Nat) (src : Src) -- setattr(obj, p, value)
  | newInst                                    -- Cls()
  | ctx (body : List Op)                       -- with time_fn: body
  | raise (e : Exc)                            -- raise StopIteration / raise KeyError
  deriving Repr

inductive Ret (V : Type) where
  | unit
  | val (v : Option V)       -- value from a generator (or its None placeholder)
  | const (v : Int)          -- the parameter is not dynamic
  deriving DecidableEq, Repr

inductive Res (V : Type) where
  | ok (r : Ret V)
  | raised (e : Exc)
  deriving DecidableEq, Repr

variable {H S V : Type}

/-- `obj._param__private.values.get(name, param.default)`
src: param/parameterized.py Parameter.__get__, Parameters.get_value_generator -/
def resolve (w : World S V) (tg : Target) (p : Nat) : Option Slot :=
  match tg with
  | .cls => w.defaults[p]?
  | .inst i =>
    match w.insts[i]? with
    | none => none
    | some sl =>
      match sl[p]? with
      | none => none
      | some .inherit => w.defaults[p]?
      | some s => some s

/-- calling the generator.  src: numbergen RandomDistribution.__call__ (`_hash_and_seed` at the
current time, then draw) / an arbitrary callable -/
def Gen.produce (env : Env H S V) (g : Gen S V) (now : TimeV) : V × Gen S V :=
  match g.kind with
  | .td name seed =>
    -- `_hash_and_seed()`: whatever state the stream was in, it is re-seeded from (name, seed, now)
    let r := env.next (env.reseed (env.hash name seed (g.ownTime now)))
    (r.1, { g with calls := g.calls + 1, rng := some r.2 })
  | .sampled name seed period offset =>
    -- the wrapped function is called at the sample time (inside `with time_fn`)
    let r := env.next (env.reseed (env.hash name seed (sampleTime (g.ownTime now) period offset)))
    (r.1, { g with calls := g.calls + 1, rng := some r.2 })
  | .stream sid =>
    let r := env.next (match g.rng with | some st => st | none => env.init sid)
    (r.1, { g with calls := g.calls + 1, rng := some r.2 })

/-- src: param/parameters.py Dynamic._produce_value -/
def produceValue (env : Env H S V) (dynTD : Bool) (now : TimeV) (g : Gen S V) (force : Bool) : Option V × Gen S V :=
  if !dynTD then
    -- (time_fn is None) or (not self.time_dependent)
    let r := g.produce env now
    (some r.1, { r.2 with last := some r.1 })
  else if force || some now != g.lastTime then
    let r := g.produce env now
    (some r.1, { r.2 with last := some r.1, lastTime := some now })
  else
    (g.last, g)

/-- the exception the generator raises if it is called now -/
def Gen.failsNow (g : Gen S V) : Option Exc :=
  match g.fail with
  | some (k, e) => if k == g.calls then some e else none
  | none => none

/-- whether `_produce_value` calls the generator -/
def willCall (dynTD : Bool) (now : TimeV) (g : Gen S V) (force : Bool) : Bool :=
  !dynTD || force || some now != g.lastTime

/-- src: param/parameters.py Number.__get__ -> _validate of a dynamically generated value -/
def validateRead (pt : PType) (v : Option V) : Res V :=
  match pt, v with
  | .number, none => .raised .valueError
  | _, v => .ok (.val v)

/-- reading through one generator object.
src: param/parameters.py Dynamic._produce_value as called by __get__ / _force -/
def readGen (env : Env H S V) (dynTD : Bool) (now : TimeV) (pt : PType) (g : Gen S V) (force : Bool) : Res V × Gen S V :=
  match (if willCall dynTD now g force then g.failsNow else none) with
  | some e =>
    -- `value = _produce_value(gen)` raises: neither `_Dynamic_last` nor `_Dynamic_time` is assigned
    (.raised e, { g with calls := g.calls + 1 })
  | none =>
    let r := produceValue env dynTD now g force
    -- `_force` is called on the Parameter directly: no Number validation there
    ((if force then .ok (.val r.1) else validateRead pt r.1), r.2)

/-- `TimeSampledFn.__call__` visits its sample time inside `with self.time_fn`: on the way out the
time, timestep, until and the stack are as before, and `in_context` has been (re)assigned -/
def entersCtx (dynTD : Bool) (now : TimeV) (g : Gen S V) (force : Bool) : Bool :=
  willCall dynTD now g force && g.failsNow.isNone &&
  (match g.kind with | .sampled _ _ _ _ => true | _ => false)

/-- src: param/parameters.py Dynamic.__get__ (force = false), Dynamic._force (force = true) -/
def readSlot (env : Env H S V) (w : World S V) (tg : Target) (p : Nat) (force : Bool) : Res V × World S V :=
  match resolve w tg p, w.ptypes[p]? with
  | some (.const v), some _ => (.ok (.const v), w)
  | some (.gen gi), some pt =>
    match w.gens[gi]? with
    | none => (.raised .malformed, w)
    | some g =>
      let r := readGen env w.dynTD w.clock.time pt g force
      (r.1, { w with gens := w.gens.set gi r.2,
                     clock := if entersCtx w.dynTD w.clock.time g force then w.clock.touch else w.clock })
  | _, _ => (.raised .malformed, w)

/-- src: param/parameters.py Dynamic._inspect -/
def inspectSlot (w : World S V) (tg : Target) (p : Nat) : Res V :=
  match resolve w tg p with
  | some (.const v) => .ok (.const v)
  | some (.gen gi) =>
    match w.gens[gi]? with
    | none => .raised .malformed
    | some g => .ok (.val g.last)
  | _ => .raised .malformed

/-- the generators `_state_push/_state_pop` visit, in `param.objects('existing')` order -/
def instGens (w : World S V) (i : Nat) : Option (List Nat) :=
  match w.insts[i]? with
  | none => none
  | some sl => some ((List.range sl.length).filterMap fun p =>
      match resolve w (.inst i) p with
      | some (.gen g) => some g
      | _ => none)

def Gen.push (g : Gen S V) : Gen S V := { g with saved := (g.last, g.lastTime) :: g.saved }

/-- src: param/parameterized.py Parameters._state_push (loop body for a dynamic value) -/
def pushGens : List Nat → List (Gen S V) → List (Gen S V)
  | [], hp => hp
  | g :: gs, hp =>
    match hp[g]? with
    | none => pushGens gs hp
    | some x => pushGens gs (hp.set g x.push)

/-- src: param/parameterized.py Parameters._state_pop: `list.pop()` on an empty list raises
IndexError after the generators visited earlier have already been restored -/
def popGens : List Nat → List (Gen S V) → Res V × List (Gen S V)
  | [], hp => (.ok .unit, hp)
  | g :: gs, hp =>
    match hp[g]? with
    | none => popGens gs hp
    | some x =>
      match x.saved with
      | [] => (.raised .indexError, hp)
      | (l, t) :: rest => popGens gs (hp.set g { x with last := l, lastTime := t, saved := rest })

/-- src: param/parameterized.py Parameters._setup_params / _instantiate_param: deep copy of every
callable default (cache attributes included), other values stay on the class -/
def instantiate (now : TimeV) : List Slot → List (Gen S V) → List Slot × List (Gen S V)
  | [], hp => ([], hp)
  | s :: ss, hp =>
    match s with
    | .gen g =>
      match hp[g]? with
      | some x =>
        (.gen hp.length :: (instantiate now ss (hp ++ [x.copyAt now])).1, (instantiate now ss (hp ++ [x.copyAt now])).2)
      | none => (.inherit :: (instantiate now ss hp).1, (instantiate now ss hp).2)
    | _ => (.inherit :: (instantiate now ss hp).1, (instantiate now ss hp).2)

/-- the value being assigned: a new generator object, one that already exists, or a plain number.
src: param/parameters.py Dynamic.__set__ -> _initialize_generator(val, obj) -/
def srcSlot (w : World S V) : Src → Option (Slot × List (Gen S V))
  | .const v => some (.const v, w.gens)
  | .fresh (.td n s) f tf =>
    -- numbergen TimeAware._check_time_fn asserts that Dynamic.time_dependent is on
    if w.dynTD then some (.gen w.gens.length, w.gens ++ [Gen.fresh (.td n s) f tf]) else none
  | .fresh (.sampled n s p o) f tf =>
    -- TimeSampledFn: period > 0 (Number bounds), offset >= 0, and `offset >= period` raises
    if w.dynTD && decide (0 < p) && decide (0 ≤ o) && decide (o < p) then some (.gen w.gens.length, w.gens ++ [Gen.fresh (.sampled n s p o) f tf]) else none
  | .fresh (.stream sid) f tf => some (.gen w.gens.length, w.gens ++ [Gen.fresh (.stream sid) f tf])
  | .existing g =>
    match w.gens[g]? with
    | none => none
    | some x => some (.gen g, w.gens.set g x.reinit)

def storeSlot (w : World S V) (tg : Target) (p : Nat) (slot : Slot) (hp : List (Gen S V)) : Res V × World S V :=
  match tg with
  | .cls => (.ok .unit, { w with gens := hp, defaults := w.defaults.set p slot })
  | .inst i =>
    match w.insts[i]? with
    | none => (.raised .malformed, w)
    | some sl => (.ok .unit, { w with gens := hp, insts := w.insts.set i (sl.set p slot) })

/-- src: param/parameters.py Dynamic.__set__ -/
def assignSlot (w : World S V) (tg : Target) (p : Nat) (src : Src) : Res V × World S V :=
  if p ≥ w.ptypes.length then (.raised .malformed, w) else
  match srcSlot w src with
  | none => (.raised .malformed, w)
  | some r => storeSlot w tg p r.1 r.2

/-- src: param/parameters.py Time.__enter__ -/
def Clock.enter (c : Clock) : Clock :=
  { c with pushed := (c.time, c.timestep, c.untl) :: c.pushed, inContext := some true }

/-- src: param/parameters.py Time.__exit__ : restore, whatever happened in the block -/
def Clock.exit (c : Clock) : Option Clock :=
  match c.pushed with
  | [] => none
  | (t, s, u) :: rest =>
    -- the saved `_time` is put back as it is (not through `time_type`, which may have been switched since)
    some { c with time := t, timestep := s, untl := u, pushed := rest, inContext := some (!rest.isEmpty) }

/-- leaving the `with` block.  src: param/parameters.py Time.__exit__ -/
def exitCtx (rw : Res V × World S V) : Res V × World S V :=
  match rw.2.clock.exit with
  | none => (.raised .indexError, rw.2)
  | some c =>
    match rw.1 with
    | .raised .stopIteration => (.ok .unit, { rw.2 with clock := c })  -- `if exc is StopIteration: return True`
    | .raised e => (.raised e, { rw.2 with clock := c })
    | .ok _ => (.ok .unit, { rw.2 with clock := c })

mutual
/-- one statement -/
def runOp (env : Env H S V) : Op → World S V → Res V × World S V
  | .setTime t, w => (.ok .unit, { w with clock := { w.clock with time := w.clock.timeType.conv t } })
  | .setTimeType t tt, w => (.ok .unit, { w with clock := { w.clock with timeType := tt, time := tt.conv t } })
  | .advance d, w =>
    (.ok .unit, { w with clock := { w.clock with time := w.clock.time + w.clock.timeType.conv d } })
  | .setStep s, w => (.ok .unit, { w with clock := { w.clock with timestep := s } })
  | .setUntil u, w => (.ok .unit, { w with clock := { w.clock with untl := u } })
  | .read tg p, w => readSlot env w tg p false
  | .force tg p, w => readSlot env w tg p true
  | .inspect tg p, w => (inspectSlot w tg p, w)
  | .push i, w =>
    match instGens w i with
    | none => (.raised .malformed, w)
    | some gs => (.ok .unit, { w with gens := pushGens gs w.gens })
  | .pop i, w =>
    match instGens w i with
    | none => (.raised .malformed, w)
    | some gs =>
      ((popGens gs w.gens).1, { w with gens := (popGens gs w.gens).2 })
  | .assign tg p src, w => assignSlot w tg p src
  | .newInst, w =>
    (.ok .unit, { w with gens := (instantiate w.clock.time w.defaults w.gens).2,
                         insts := w.insts ++ [(instantiate w.clock.time w.defaults w.gens).1] })
  | .raise e, w => (.raised e, w)
  | .ctx body, w =>
    -- __enter__; body; __exit__ runs on every path out of the block
    exitCtx (runOps env body { w with clock := w.clock.enter })
/-- a block: stops at the first exception -/
def runOps (env : Env H S V) : List Op → World S V → Res V × World S V
  | [], w => (.ok .unit, w)
  | o :: os, w =>
    match runOp env o w with
    | (.ok _, w') => runOps env os w'
    | (.raised e, w') => (.raised e, w')
end

/-! ### Observable trace -/

structure Snap where
  time : TimeV
  timeType : TimeType
  timestep : Int
  untl : Option Int
  depth : Nat
  inContext : Option Bool
  deriving DecidableEq, Repr

def Clock.snap (c : Clock) : Snap :=
  { time := c.time, timeType := c.timeType, timestep := c.timestep, untl := c.untl, depth := c.pushed.length, inContext := c.inContext }

inductive EvKind where
  | op | enter | exit
  deriving DecidableEq, Repr

/-- identity of what a read/inspect/force touched -/
structure Touched where
  g : Nat
  kind : GenKind
  own : Bool := false        -- the generator's `time_fn` is not the global Time object (a per-instance copy)
  deriving DecidableEq, Repr

def Target.tag : Target → String
  | .cls => "c"
  | .inst i => toString i

/-- which statement an event belongs to -/
def Op.tag : Op → String
  | .setTime _ => "setTime" | .setTimeType _ _ => "setTimeType" | .advance _ => "advance" | .setStep _ => "setStep" | .setUntil _ => "setUntil"
  | .read tg p => s!"read:{tg.tag}:{p}" | .inspect tg p => s!"inspect:{tg.tag}:{p}"
  | .force tg p => s!"force:{tg.tag}:{p}"
  | .push i => s!"push:{i}" | .pop i => s!"pop:{i}"
  | .assign tg p _ => s!"assign:{tg.tag}:{p}" | .newInst => "newInst" | .ctx _ => "ctx" | .raise _ => "raise"

structure Ev (V : Type) where
  kind : EvKind
  tag : String
  res : Res V
  clock : Snap
  caches : List (Option V × Option TimeV × Nat)     -- per generator: last, lastTime, len(saved)
  touched : Option Touched                  -- read / inspect / force of a dynamic value
  gens : List Nat                           -- push / pop: the generators visited
  deriving Repr

def cachesOf (w : World S V) : List (Option V × Option TimeV × Nat) :=
  w.gens.map fun g => (g.last, g.lastTime, g.saved.length)

def touchedOf (w : World S V) : Op → Option Touched
  | .read tg p | .inspect tg p | .force tg p =>
    match resolve w tg p with
    | some (.gen g) => (w.gens[g]?).map fun x => { g := g, kind := x.kind, own := x.frozen.isSome }
    | _ => none
  | _ => none

def gensOf (w : World S V) : Op → List Nat
  | .push i | .pop i => (instGens w i).getD []
  | _ => []

mutual
def traceOp (env : Env H S V) : Op → World S V → List (Ev V)
  | .ctx body, w =>
    let w0 := { w with clock := w.clock.enter }
    let (r, w') := runOp env (.ctx body) w
    [{ kind := .enter, tag := "enter", res := .ok .unit, clock := w0.clock.snap, caches := cachesOf w0, touched := none, gens := [] }]
      ++ traceOps env body w0
      ++ [{ kind := .exit, tag := "exit", res := r, clock := w'.clock.snap, caches := cachesOf w', touched := none, gens := [] }]
  | o, w =>
    let (r, w') := runOp env o w
    [{ kind := .op, tag := o.tag, res := r, clock := w'.clock.snap, caches := cachesOf w', touched := touchedOf w o, gens := gensOf w o }]
def traceOps (env : Env H S V) : List Op → World S V → List (Ev V)
  | [], _ => []
  | o :: os, w =>
    match runOp env o w with
    | (.ok _, w') => traceOp env o w ++ traceOps env os w'
    | (.raised _, _) => traceOp env o w
end

end ParamVerif.TimeDyn
