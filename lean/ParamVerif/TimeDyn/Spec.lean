/-
C19 specification side, executable: the conclusions of the theorems of Props/C19.lean as a
decidable check on an *observed* trace (of the implementation or of the model).  Used by the
driver as the oracle.  Nothing here looks at the model's state: only at what was returned, at
`time_fn()`/`timestep`/`until`, and at the cache attributes reported after every statement.
-/
import ParamVerif.TimeDyn.Model

namespace ParamVerif.TimeDyn

/-- an observed value: `None`, a generated number (exact ratio, or a symbolic key for the model's
trace), a plain non-dynamic value, or no value -/
inductive OV where
  | none
  | num (n : Int) (d : Nat)
  | sym (s : String)
  | const (v : Int)
  | unit
  deriving DecidableEq, Repr

inductive ORes where
  | ok (v : OV)
  | raised (e : String)
  deriving DecidableEq, Repr

structure OEv where
  tag : String
  res : ORes
  clock : Snap
  caches : List (OV × Option TimeV × Nat × Nat)   -- per generator: _Dynamic_last, _Dynamic_time, len of both saved lists
  touched : Option Touched
  gens : List Nat
  deriving Repr

structure Frame where
  inst : String
  caches : List (OV × Option TimeV × Nat × Nat)   -- as reported right after the push
  gens : List Nat
  dirty : Bool

structure SpecSt where
  prev : OEv
  table : List ((String × Int × TimeV) × OV)      -- (name, seed, time) ↦ value read
  lastRead : Option (String × TimeV × ORes)       -- tag, time, result of the read just before (inspections aside)
  lastByGen : List (Nat × TimeV × ORes)           -- per generator: time and result of its latest read/force
  ctxStack : List Snap                          -- clock seen just before each open `with`
  frames : List Frame
  failure : Option String
  checked : Nat

def isRead (tag : String) : Bool := tag.startsWith "read:"
def isForce (tag : String) : Bool := tag.startsWith "force:"
def isInspect (tag : String) : Bool := tag.startsWith "inspect:"

def fail (st : SpecSt) (msg : String) : SpecSt :=
  if st.failure.isSome then st else { st with failure := some msg }

/-- `read_is_function_of_time`: table keyed by (generator name, seed, time) -/
def checkTd (dynTD : Bool) (st : SpecSt) (i : Nat) (e : OEv) : SpecSt :=
  if !dynTD || !(isRead e.tag || isForce e.tag) then st else
  -- (name, seed, time the value is a function of): a TimeSampledFn shares its table with the
  -- distribution it samples, at the sample time
  let key : Option (String × Int × TimeV) := match e.touched with
    | some { g := _, kind := .td n s, own := _ } => some (n, s, e.clock.time)
    | some { g := _, kind := .sampled n s p o, own := _ } => some (n, s, sampleTime e.clock.time p o)
    | _ => none
  let own := match e.touched with | some t => t.own | none => false
  match key with
  | some (n, s, t) =>
    if own then
      -- a generator whose time function is a per-instance copy of the clock: never entered into the table;
      -- when it disagrees with what the table holds for the current time, the reason is named as such
      match e.res, st.table.lookup (n, s, t) with
      | .ok v, some v' =>
        if v == v' then st
        else fail st s!"own-clock: event {i} ({e.tag}): generator ({n}, {s}) follows a copy of the clock and returned at time {t} another value than the generators on the shared clock"
      | _, _ => st
    else
    let placeholder (st : SpecSt) : SpecSt :=
      fail st s!"event {i} ({e.tag}): read of a time-dependent generator returned the placeholder at time {e.clock.time}"
    match e.res with
    | .ok .none => placeholder st
    | .raised "ValueError" => placeholder st
    | .ok v =>
      match st.table.lookup (n, s, t) with
      | some v' =>
        if v == v' then { st with checked := st.checked + 1 }
        else fail st s!"event {i} ({e.tag}): generator ({n}, {s}) at time {t} returned a value different from an earlier read at that time"
      | none => { st with table := ((n, s, t), v) :: st.table, checked := st.checked + 1 }
    | _ => st
  | none => st

/-- `repeated_read_same` -/
def checkRepeat (dynTD : Bool) (st : SpecSt) (i : Nat) (e : OEv) : SpecSt :=
  if isInspect e.tag then st else
  if !isRead e.tag then { st with lastRead := none } else
  let st' := { st with lastRead := some (e.tag, e.clock.time, e.res) }
  if !dynTD then st' else
  match st.lastRead with
  | some (tag, t, r) =>
    if tag == e.tag && t == e.clock.time then
      (if r == e.res then { st' with checked := st'.checked + 1 }
       else fail st' s!"event {i} ({e.tag}): two consecutive reads at time {t} returned different results")
    else st'
  | none => st'

/-- `repeated_read_same`, over intervening statements: a generator read again at the time of its
latest read/force returns the same value, however the clock got back to that time (the same
number may arrive as a different object) — unless a pop or an assignment replaced the cache. -/
def checkSameTime (dynTD : Bool) (st : SpecSt) (i : Nat) (e : OEv) : SpecSt :=
  if !dynTD then st else
  if e.tag.startsWith "pop:" || e.tag.startsWith "assign" then { st with lastByGen := [] } else
  if !(isRead e.tag || isForce e.tag) then st else
  match e.touched, e.res with
  | some t, .ok v =>
    let st' := { st with lastByGen := (t.g, e.clock.time, ORes.ok v) :: st.lastByGen.filter (fun r => r.1 != t.g) }
    if isForce e.tag then st' else
    match st.lastByGen.find? (fun r => r.1 == t.g) with
    | some (_, tm, r) =>
      if tm == e.clock.time then
        (if r == .ok v then { st' with checked := st'.checked + 1 }
         else fail st' s!"event {i} ({e.tag}): read at time {tm} differs from the generator's previous value at that same time")
      else st'
    | none => st'
  | _, _ => st

/-- `failed_read_keeps_cache`: a read/force that ends in the generator's own exception changes no
cached value / time stamp / saved stack -/
def checkFailedRead (st : SpecSt) (i : Nat) (e : OEv) : SpecSt :=
  if !(isRead e.tag || isForce e.tag) then st else
  match e.res with
  | .raised x =>
    if x == "StopIteration" || x == "KeyError" then
      (if e.caches == st.prev.caches then { st with checked := st.checked + 1 }
       else fail st s!"event {i} ({e.tag}): the generator raised {x} but a cached value / time stamp changed")
    else st
  | _ => st

/-- `read_keeps_clock`: reading, forcing or inspecting a value does not move the clock -/
def checkReadKeepsClock (st : SpecSt) (i : Nat) (e : OEv) : SpecSt :=
  if !(isRead e.tag || isForce e.tag || isInspect e.tag) then st else
  if e.clock.time != st.prev.clock.time then
    fail st s!"event {i} ({e.tag}): the time was {st.prev.clock.time} before and is {e.clock.time} after"
  else if e.clock.timestep != st.prev.clock.timestep || e.clock.untl != st.prev.clock.untl
      || e.clock.depth != st.prev.clock.depth || e.clock.timeType != st.prev.clock.timeType then
    fail st s!"event {i} ({e.tag}): timestep / until / context stack / time type changed"
  else { st with checked := st.checked + 1 }

/-- `inspect_never_advances` -/
def checkInspect (st : SpecSt) (i : Nat) (e : OEv) : SpecSt :=
  if !isInspect e.tag then st else
  if e.caches != st.prev.caches then fail st s!"event {i} ({e.tag}): inspection changed a cache"
  else if e.clock != st.prev.clock then fail st s!"event {i} ({e.tag}): inspection changed the clock"
  else match e.touched, e.res with
    | some t, .ok v =>
      match st.prev.caches[t.g]? with
      | some (l, _, _, _) =>
        if v == l then { st with checked := st.checked + 1 }
        else fail st s!"event {i} ({e.tag}): inspection did not return the cached value"
      | none => fail st s!"event {i} ({e.tag}): unknown generator"
    | _, _ => st

/-- `time_context_restores_exactly`, `clock_stack_balanced` -/
def checkCtx (st : SpecSt) (i : Nat) (e : OEv) : SpecSt :=
  if e.tag == "enter" then { st with ctxStack := st.prev.clock :: st.ctxStack }
  else if e.tag == "exit" then
    match st.ctxStack with
    | [] => fail st s!"event {i}: exit without enter"
    | c :: rest =>
      let st := { st with ctxStack := rest }
      if e.clock.time != c.time then fail st s!"event {i}: time {e.clock.time} after the context, {c.time} before"
      else if e.clock.timestep != c.timestep || e.clock.untl != c.untl then
        fail st s!"event {i}: timestep/until not restored by the context"
      else if e.clock.depth != c.depth then fail st s!"event {i}: context stack depth not restored"
      else if e.res == .raised "StopIteration" then fail st s!"event {i}: StopIteration left the context"
      else { st with checked := st.checked + 1 }
  else if e.clock.depth != st.prev.clock.depth then fail st s!"event {i} ({e.tag}): context stack changed outside enter/exit"
  else st

def instOf (tag : String) : String := (tag.splitOn ":").getD 1 ""

/-- `state_pop_restores_cache` -/
def checkPushPop (st : SpecSt) (i : Nat) (e : OEv) : SpecSt :=
  if e.tag.startsWith "assign" || e.tag == "newInst" then
    { st with frames := st.frames.map fun f => { f with dirty := true } }
  else if e.tag.startsWith "push:" then
    { st with frames := { inst := instOf e.tag, caches := e.caches, gens := e.gens, dirty := false } :: st.frames }
  else if e.tag.startsWith "pop:" then
    match st.frames with
    | [] => st
    | f :: rest =>
      let st := { st with frames := rest }
      if f.inst != instOf e.tag then { st with frames := [] }    -- not properly nested: outside the statement
      else if f.dirty then st
      else if e.res != .ok .unit then fail st s!"event {i} ({e.tag}): pop after a matching push failed"
      else
        let bad := f.gens.any fun g =>
          match e.caches[g]?, f.caches[g]? with
          | some (l, t, n1, n2), some (l', t', n1', n2') =>
            !(l == l' && t == t' && n1 + f.gens.count g == n1' && n2 + f.gens.count g == n2')
          | _, _ => true
        if bad then fail st s!"event {i} ({e.tag}): pop did not restore the cached value/time/saved stack of a generator"
        else { st with checked := st.checked + 1 }
  else st

/-- both saved lists always have the same length -/
def checkSaved (st : SpecSt) (i : Nat) (e : OEv) : SpecSt :=
  if e.caches.any (fun c => c.2.2.1 != c.2.2.2) then
    fail st s!"event {i} ({e.tag}): _saved_Dynamic_last and _saved_Dynamic_time differ in length"
  else st

def specStep (dynTD : Bool) (acc : SpecSt × Nat) (e : OEv) : SpecSt × Nat :=
  let (st, i) := acc
  let st := checkTd dynTD st i e
  let st := checkRepeat dynTD st i e
  let st := checkSameTime dynTD st i e
  let st := checkFailedRead st i e
  let st := checkReadKeepsClock st i e
  let st := checkInspect st i e
  let st := checkCtx st i e
  let st := checkPushPop st i e
  let st := checkSaved st i e
  ({ st with prev := e }, i + 1)

/-- Returns (number of conclusions checked, first violation). -/
def specTrace (dynTD : Bool) (init : OEv) (evs : List OEv) : Nat × Option String :=
  let st0 : SpecSt := { prev := init, table := [], lastRead := none, ctxStack := [], frames := [],
                        failure := none, checked := 0, lastByGen := [] }
  let (st, _) := evs.foldl (specStep dynTD) (st0, 0)
  (st.checked, st.failure)

end ParamVerif.TimeDyn
