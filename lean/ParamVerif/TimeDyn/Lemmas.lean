/-
C19 helper lemmas (frame properties of the single operations, heap coherence,
push/pop bookkeeping).  Property theorems are in Props/C19.lean.
-/
import ParamVerif.TimeDyn.Model

namespace ParamVerif.TimeDyn
variable {H S V : Type}

/-! ### list helpers -/

theorem set_self_of_getElem? {α} : ∀ (l : List α) (i : Nat) (x : α), l[i]? = some x → l.set i x = l
  | [], _, _, h => by simp at h
  | a :: l, 0, x, h => by simp at h; simp [h]
  | a :: l, i + 1, x, h => by
    simp at h
    simp [set_self_of_getElem? l i x h]

theorem replicate_push {α} (n : Nat) (e : α) (s : List α) :
    List.replicate n e ++ e :: s = List.replicate (n + 1) e ++ s := by
  induction n with
  | zero => rfl
  | succ n ih => simp [List.replicate_succ, ih]

/-! ### frame lemmas: what a single operation cannot touch -/

theorem produce_frame (env : Env H S V) (g : Gen S V) (now : TimeV) :
    (g.produce env now).2.saved = g.saved ∧ (g.produce env now).2.kind = g.kind ∧
    (g.produce env now).2.last = g.last ∧ (g.produce env now).2.lastTime = g.lastTime ∧
    (g.produce env now).2.frozen = g.frozen := by
  unfold Gen.produce
  cases g.kind <;> simp

theorem produceValue_saved (env : Env H S V) (d : Bool) (now : TimeV) (g : Gen S V) (f : Bool) :
    (produceValue env d now g f).2.saved = g.saved ∧ (produceValue env d now g f).2.kind = g.kind := by
  unfold produceValue
  split
  · simp [produce_frame]
  · split
    · simp [produce_frame]
    · simp

theorem readGen_saved (env : Env H S V) (d : Bool) (now : TimeV) (pt : PType) (g : Gen S V) (f : Bool) :
    (readGen env d now pt g f).2.saved = g.saved ∧ (readGen env d now pt g f).2.kind = g.kind := by
  unfold readGen
  split
  · simp
  · exact produceValue_saved env d now g f

/-- a generation that raises leaves the cached value and time untouched -/
theorem readGen_raised (env : Env H S V) (d : Bool) (now : TimeV) (pt : PType) (g : Gen S V) (f : Bool) (e : Exc)
    (h : g.failsNow = some e) (hc : willCall d now g f = true) :
    (readGen env d now pt g f).1 = .raised e ∧ (readGen env d now pt g f).2.last = g.last ∧
    (readGen env d now pt g f).2.lastTime = g.lastTime ∧ (readGen env d now pt g f).2.saved = g.saved := by
  unfold readGen
  simp [hc, h]

theorem readGen_nofail (env : Env H S V) (d : Bool) (now : TimeV) (pt : PType) (g : Gen S V) (f : Bool)
    (h : (if willCall d now g f then g.failsNow else none) = none) :
    readGen env d now pt g f =
      ((if f then .ok (.val (produceValue env d now g f).1) else validateRead pt (produceValue env d now g f).1),
       (produceValue env d now g f).2) := by
  unfold readGen
  rw [h]

theorem readSlot_frame (env : Env H S V) (w : World S V) (tg : Target) (p : Nat) (f : Bool) :
    ((readSlot env w tg p f).2.clock = w.clock ∨ (readSlot env w tg p f).2.clock = w.clock.touch) ∧
    (readSlot env w tg p f).2.dynTD = w.dynTD ∧
    (readSlot env w tg p f).2.defaults = w.defaults ∧ (readSlot env w tg p f).2.insts = w.insts ∧
    (readSlot env w tg p f).2.ptypes = w.ptypes ∧
    (readSlot env w tg p f).2.gens.length = w.gens.length := by
  unfold readSlot
  split
  · simp
  · split
    · simp
    · simp only [List.length_set, and_self, and_true]
      split <;> simp
  · simp

/-- a read never moves the clock: time, timestep, until and the context stack are as before -/
theorem readSlot_clock (env : Env H S V) (w : World S V) (tg : Target) (p : Nat) (f : Bool) :
    (readSlot env w tg p f).2.clock.time = w.clock.time ∧
    (readSlot env w tg p f).2.clock.timestep = w.clock.timestep ∧
    (readSlot env w tg p f).2.clock.untl = w.clock.untl ∧
    (readSlot env w tg p f).2.clock.pushed = w.clock.pushed := by
  rcases (readSlot_frame env w tg p f).1 with h | h <;> rw [h] <;> simp [Clock.touch]

theorem storeSlot_frame (w : World S V) (tg : Target) (p : Nat) (slot : Slot) (hp : List (Gen S V)) :
    (storeSlot w tg p slot hp).2.clock = w.clock ∧ (storeSlot w tg p slot hp).2.dynTD = w.dynTD ∧
    ((storeSlot w tg p slot hp).2.gens = hp ∨ (storeSlot w tg p slot hp).2.gens = w.gens) := by
  unfold storeSlot
  split
  · simp
  · split <;> simp

theorem assignSlot_frame (w : World S V) (tg : Target) (p : Nat) (src : Src) :
    (assignSlot w tg p src).2.clock = w.clock ∧ (assignSlot w tg p src).2.dynTD = w.dynTD := by
  unfold assignSlot
  split
  · simp
  · split
    · simp
    · exact ⟨(storeSlot_frame ..).1, (storeSlot_frame ..).2.1⟩

theorem exitCtx_frame (rw : Res V × World S V) :
    (exitCtx rw).2.dynTD = rw.2.dynTD ∧ (exitCtx rw).2.gens = rw.2.gens ∧
    (exitCtx rw).2.defaults = rw.2.defaults ∧ (exitCtx rw).2.insts = rw.2.insts ∧
    (exitCtx rw).2.ptypes = rw.2.ptypes := by
  unfold exitCtx
  split
  · simp
  · split <;> simp

theorem exitCtx_clock (rw : Res V × World S V) (t : TimeV) (s : Int) (u : Option Int) (rest : List (TimeV × Int × Option Int))
    (h : rw.2.clock.pushed = (t, s, u) :: rest) :
    (exitCtx rw).2.clock = { rw.2.clock with time := t, timestep := s, untl := u, pushed := rest,
                                             inContext := some (!rest.isEmpty) } ∧
    (exitCtx rw).1 = (match rw.1 with
      | .raised .stopIteration => .ok .unit
      | .raised e => .raised e
      | .ok _ => .ok .unit) := by
  unfold exitCtx Clock.exit
  rw [h]
  simp only
  split <;> simp_all

/-! ### the clock stack is balanced -/

theorem exit_enter (c : Clock) :
    ∃ c', c.enter.exit = some c' ∧ c'.time = c.time ∧ c'.timestep = c.timestep ∧ c'.untl = c.untl ∧
      c'.pushed = c.pushed := by
  simp [Clock.enter, Clock.exit]

mutual
theorem runOp_pushed (env : Env H S V) : ∀ (o : Op) (w : World S V),
    (runOp env o w).2.clock.pushed = w.clock.pushed ∧ (runOp env o w).2.dynTD = w.dynTD
  | .setTime _, _ => by simp [runOp]
  | .setTimeType _ _, _ => by simp [runOp]
  | .advance _, _ => by simp [runOp]
  | .setStep _, _ => by simp [runOp]
  | .setUntil _, _ => by simp [runOp]
  | .read tg p, w => by simp [runOp, readSlot_frame, readSlot_clock]
  | .force tg p, w => by simp [runOp, readSlot_frame, readSlot_clock]
  | .inspect _ _, _ => by simp [runOp]
  | .push i, w => by simp only [runOp]; split <;> simp
  | .pop i, w => by simp only [runOp]; split <;> simp
  | .assign tg p src, w => by simp [runOp, assignSlot_frame]
  | .newInst, w => by simp [runOp]
  | .raise _, _ => by simp [runOp]
  | .ctx body, w => by
    have ih := runOps_pushed env body { w with clock := w.clock.enter }
    simp only [runOp]
    have hp : (runOps env body { w with clock := w.clock.enter }).2.clock.pushed
        = (w.clock.time, w.clock.timestep, w.clock.untl) :: w.clock.pushed := by
      rw [ih.1]; rfl
    have hc := (exitCtx_clock _ _ _ _ _ hp).1
    exact ⟨by rw [hc], by rw [(exitCtx_frame _).1, ih.2]⟩
theorem runOps_pushed (env : Env H S V) : ∀ (os : List Op) (w : World S V),
    (runOps env os w).2.clock.pushed = w.clock.pushed ∧ (runOps env os w).2.dynTD = w.dynTD
  | [], _ => by simp [runOps]
  | o :: os, w => by
    have h1 := runOp_pushed env o w
    simp only [runOps]
    split
    · rename_i r w' heq
      have h2 := runOps_pushed env os w'
      rw [heq] at h1
      exact ⟨h2.1.trans h1.1, h2.2.trans h1.2⟩
    · rename_i e w' heq
      rw [heq] at h1
      exact h1
end

/-! ### heap coherence: a cached pair of a generator whose value is a function `f` of time is either
the placeholder `(None, _NO_TIME)` or `(f t, t)` -/

/-- the function of time a generator computes, if it is one: `t ↦ draw (reseed (hash name seed t))`
for a time-dependent random distribution, the same at the sample time for a `TimeSampledFn` -/
def GenKind.timeFn (env : Env H S V) : GenKind → Option (TimeV → V)
  | .td n s => some (env.tdVal n s)
  | .sampled n s p o => some (fun t => env.tdVal n s (sampleTime t p o))
  | .stream _ => none

def CacheOK (f : TimeV → V) (c : Option V × Option TimeV) : Prop :=
  (∃ t, c.2 = some t ∧ c.1 = some (f t)) ∨ (c.1 = none ∧ c.2 = none)

/-- `GenOK` on the four fields it depends on -/
def GenOK' (env : Env H S V) (k : GenKind) (l : Option V) (t : Option TimeV) (sv : List (Option V × Option TimeV)) : Prop :=
  match k.timeFn env with
  | some f => CacheOK f (l, t) ∧ ∀ c ∈ sv, CacheOK f c
  | none => True

/-- coherence of one generator; a per-instance copy that owns a stopped copy of the clock
(`frozen`, the recorded finding) is exempt: its values are those of the time of the copy -/
def GenOK (env : Env H S V) (g : Gen S V) : Prop :=
  g.frozen ≠ none ∨ GenOK' env g.kind g.last g.lastTime g.saved

def HeapOK (env : Env H S V) (hp : List (Gen S V)) : Prop := ∀ g ∈ hp, GenOK env g

theorem GenOK'_placeholder (env : Env H S V) (k : GenKind) : GenOK' env k none none [] := by
  unfold GenOK' CacheOK
  split <;> simp

theorem GenOK_fresh (env : Env H S V) (k : GenKind) (f : Option (Nat × Exc) := none) (tf : Bool := false) :
    GenOK env (Gen.fresh k f tf : Gen S V) := Or.inr (GenOK'_placeholder env k)

theorem GenOK_reinit (env : Env H S V) (g : Gen S V) : GenOK env g.reinit := Or.inr (GenOK'_placeholder env g.kind)

theorem GenOK'_push (env : Env H S V) (k : GenKind) (l : Option V) (t : Option TimeV) (sv : List (Option V × Option TimeV))
    (h : GenOK' env k l t sv) : GenOK' env k l t ((l, t) :: sv) := by
  unfold GenOK' at *
  split at h
  · rename_i f hf
    try simp only [hf]
    refine ⟨h.1, ?_⟩
    intro c hc
    simp only [List.mem_cons] at hc
    rcases hc with rfl | hc
    · exact h.1
    · exact h.2 c hc
  · rename_i hf
    try simp only [hf]
    try trivial

theorem GenOK_push (env : Env H S V) (g : Gen S V) (h : GenOK env g) : GenOK env g.push := by
  rcases h with h | h
  · exact Or.inl h
  · exact Or.inr (GenOK'_push env _ _ _ _ h)

theorem produce_val (env : Env H S V) (g : Gen S V) (now : TimeV) (f : TimeV → V)
    (hk : g.kind.timeFn env = some f) (hfz : g.frozen = none) : (g.produce env now).1 = f now := by
  unfold Gen.produce Gen.ownTime
  cases hg : g.kind <;> simp only [hg, hfz, GenKind.timeFn, Option.some.injEq] at hk ⊢
  · rw [← hk]; rfl
  · rw [← hk]; rfl
  · simp at hk

theorem produce_val_td (env : Env H S V) (g : Gen S V) (now : TimeV) (n : String) (s : Int)
    (hk : g.kind = .td n s) (hfz : g.frozen = none) : (g.produce env now).1 = env.tdVal n s now :=
  produce_val env g now _ (by rw [hk]; rfl) hfz

theorem GenOK_produce (env : Env H S V) (now : TimeV) (g : Gen S V) (f : Bool) (h : GenOK env g) :
    GenOK env (produceValue env true now g f).2 := by
  unfold produceValue
  simp only [Bool.not_true, Bool.false_eq_true, if_false]
  split
  · have pf := produce_frame env g now
    rcases h with h | h
    · left
      show (g.produce env now).2.frozen ≠ none
      rw [pf.2.2.2.2]; exact h
    · by_cases hfz : g.frozen = none
      · right
        show GenOK' env (g.produce env now).2.kind (some (g.produce env now).1) (some now) (g.produce env now).2.saved
        rw [pf.2.1, pf.1]
        unfold GenOK' at *
        split at h
        · rename_i fn hf
          try simp only [hf]
          exact ⟨Or.inl ⟨now, rfl, by simp [produce_val env g now fn hf hfz]⟩, h.2⟩
        · rename_i hf
          try simp only [hf]
          try trivial
      · left
        show (g.produce env now).2.frozen ≠ none
        rw [pf.2.2.2.2]; exact hfz
  · exact h

theorem GenOK_readGen (env : Env H S V) (now : TimeV) (pt : PType) (g : Gen S V) (f : Bool) (h : GenOK env g) :
    GenOK env (readGen env true now pt g f).2 := by
  unfold readGen
  split
  · exact h
  · exact GenOK_produce env now g f h

theorem GenOK_copyAt (env : Env H S V) (now : TimeV) (g : Gen S V) (h : GenOK env g) : GenOK env (g.copyAt now) := by
  unfold Gen.copyAt
  rcases h with h | h
  · left
    cases hf : g.frozen with
    | none => exact absurd hf h
    | some f => simp
  · cases hf : g.frozen with
    | some f => left; simp
    | none =>
      cases g.explicitTf
      · right; exact h
      · left; simp

theorem HeapOK_set (env : Env H S V) (hp : List (Gen S V)) (i : Nat) (g : Gen S V)
    (h : HeapOK env hp) (hg : GenOK env g) : HeapOK env (hp.set i g) := by
  intro x hx
  rcases List.mem_or_eq_of_mem_set hx with h' | h'
  · exact h x h'
  · exact h' ▸ hg

theorem HeapOK_append (env : Env H S V) (hp : List (Gen S V)) (g : Gen S V)
    (h : HeapOK env hp) (hg : GenOK env g) : HeapOK env (hp ++ [g]) := by
  intro x hx
  simp only [List.mem_append, List.mem_singleton] at hx
  rcases hx with h' | h'
  · exact h x h'
  · exact h' ▸ hg

theorem HeapOK_get (env : Env H S V) (hp : List (Gen S V)) (i : Nat) (g : Gen S V)
    (h : HeapOK env hp) (hg : hp[i]? = some g) : GenOK env g :=
  h g (List.mem_of_getElem? hg)

theorem pushGens_ok (env : Env H S V) : ∀ (gs : List Nat) (hp : List (Gen S V)),
    HeapOK env hp → HeapOK env (pushGens gs hp)
  | [], _, h => h
  | g :: gs, hp, h => by
    simp only [pushGens]
    split
    · exact pushGens_ok env gs hp h
    · rename_i x hx
      exact pushGens_ok env gs _ (HeapOK_set env hp g _ h (GenOK_push env x (HeapOK_get env hp g x h hx)))

theorem GenOK_pop (env : Env H S V) (x : Gen S V) (l : Option V) (t : Option TimeV) (rest : List (Option V × Option TimeV))
    (h : GenOK env x) (hs : x.saved = (l, t) :: rest) :
    GenOK env { x with last := l, lastTime := t, saved := rest } := by
  rcases h with h | h
  · exact Or.inl h
  · right
    show GenOK' env x.kind l t rest
    unfold GenOK' at *
    rw [hs] at h
    split at h
    · rename_i f hf
      try simp only [hf]
      exact ⟨h.2 (l, t) (by simp), fun c hc => h.2 c (by simp [hc])⟩
    · rename_i hf
      try simp only [hf]
      try trivial

theorem popGens_ok (env : Env H S V) : ∀ (gs : List Nat) (hp : List (Gen S V)),
    HeapOK env hp → HeapOK env (popGens gs hp).2
  | [], _, h => h
  | g :: gs, hp, h => by
    simp only [popGens]
    split
    · exact popGens_ok env gs hp h
    · rename_i x hx
      split
      · exact h
      · rename_i l t rest hs
        exact popGens_ok env gs _ (HeapOK_set env hp g _ h
          (GenOK_pop env x l t rest (HeapOK_get env hp g x h hx) hs))

theorem instantiate_ok (env : Env H S V) (now : TimeV) : ∀ (ss : List Slot) (hp : List (Gen S V)),
    HeapOK env hp → HeapOK env (instantiate now ss hp).2
  | [], _, h => h
  | s :: ss, hp, h => by
    cases s with
    | const v => simp only [instantiate]; exact instantiate_ok env now ss hp h
    | inherit => simp only [instantiate]; exact instantiate_ok env now ss hp h
    | gen g =>
      simp only [instantiate]
      cases hx : hp[g]? with
      | none => exact instantiate_ok env now ss hp h
      | some x => exact instantiate_ok env now ss _ (HeapOK_append env hp _ h
          (GenOK_copyAt env now x (HeapOK_get env hp g x h hx)))

theorem readSlot_ok (env : Env H S V) (w : World S V) (tg : Target) (p : Nat) (f : Bool)
    (hd : w.dynTD = true) (h : HeapOK env w.gens) : HeapOK env (readSlot env w tg p f).2.gens := by
  unfold readSlot
  split
  · exact h
  · split
    · exact h
    · rename_i g hg
      simp only [hd]
      exact HeapOK_set env _ _ _ h (GenOK_readGen env _ _ g f (HeapOK_get env _ _ g h hg))
  · exact h

theorem srcSlot_ok (env : Env H S V) (w : World S V) (src : Src) (r : Slot × List (Gen S V))
    (h : HeapOK env w.gens) (hr : srcSlot w src = some r) : HeapOK env r.2 := by
  unfold srcSlot at hr
  split at hr
  · simp only [Option.some.injEq] at hr; subst hr; exact h
  · split at hr
    · simp only [Option.some.injEq] at hr; subst hr
      exact HeapOK_append env _ _ h (GenOK_fresh env _ _ _)
    · simp at hr
  · split at hr
    · simp only [Option.some.injEq] at hr; subst hr
      exact HeapOK_append env _ _ h (GenOK_fresh env _ _ _)
    · simp at hr
  · simp only [Option.some.injEq] at hr; subst hr
    exact HeapOK_append env _ _ h (GenOK_fresh env _ _ _)
  · split at hr
    · simp at hr
    · simp only [Option.some.injEq] at hr; subst hr
      exact HeapOK_set env _ _ _ h (GenOK_reinit env _)

theorem assignSlot_ok (env : Env H S V) (w : World S V) (tg : Target) (p : Nat) (src : Src)
    (h : HeapOK env w.gens) : HeapOK env (assignSlot w tg p src).2.gens := by
  unfold assignSlot
  split
  · exact h
  · split
    · exact h
    · rename_i r hr
      rcases (storeSlot_frame w tg p r.1 r.2).2.2 with e | e
      · rw [e]; exact srcSlot_ok env w src r h hr
      · rw [e]; exact h

mutual
theorem runOp_heapOK (env : Env H S V) : ∀ (o : Op) (w : World S V),
    w.dynTD = true → HeapOK env w.gens → HeapOK env (runOp env o w).2.gens
  | .setTime _, _, _, h => by simpa [runOp] using h
  | .setTimeType _ _, _, _, h => by simpa [runOp] using h
  | .advance _, _, _, h => by simpa [runOp] using h
  | .setStep _, _, _, h => by simpa [runOp] using h
  | .setUntil _, _, _, h => by simpa [runOp] using h
  | .read tg p, w, hd, h => by simpa [runOp] using readSlot_ok env w tg p false hd h
  | .force tg p, w, hd, h => by simpa [runOp] using readSlot_ok env w tg p true hd h
  | .inspect _ _, _, _, h => by simpa [runOp] using h
  | .push i, w, _, h => by
    simp only [runOp]; split
    · exact h
    · exact pushGens_ok env _ _ h
  | .pop i, w, _, h => by
    simp only [runOp]; split
    · exact h
    · exact popGens_ok env _ _ h
  | .assign tg p src, w, _, h => by simpa [runOp] using assignSlot_ok env w tg p src h
  | .newInst, w, _, h => by simpa [runOp] using instantiate_ok env w.clock.time w.defaults w.gens h
  | .raise _, _, _, h => by simpa [runOp] using h
  | .ctx body, w, hd, h => by
    have ih := runOps_heapOK env body { w with clock := w.clock.enter } hd h
    simp only [runOp]
    rw [(exitCtx_frame _).2.1]
    exact ih
theorem runOps_heapOK (env : Env H S V) : ∀ (os : List Op) (w : World S V),
    w.dynTD = true → HeapOK env w.gens → HeapOK env (runOps env os w).2.gens
  | [], _, _, h => by simpa [runOps] using h
  | o :: os, w, hd, h => by
    have h1 := runOp_heapOK env o w hd h
    have hd1 := (runOp_pushed env o w).2
    simp only [runOps]
    split
    · rename_i r w' heq
      rw [heq] at h1 hd1
      exact runOps_heapOK env os w' (hd1.trans hd) h1
    · rename_i e w' heq
      rw [heq] at h1
      exact h1
end

/-! ### push / pop bookkeeping, per heap index -/

def Gen.pushN (n : Nat) (g : Gen S V) : Gen S V :=
  { g with saved := List.replicate n (g.last, g.lastTime) ++ g.saved }

theorem pushGens_get : ∀ (gs : List Nat) (hp : List (Gen S V)) (x : Nat),
    (pushGens gs hp)[x]? = (hp[x]?).map (Gen.pushN (gs.count x))
  | [], hp, x => by
    simp only [pushGens, List.count_nil]
    cases hp[x]? <;> simp [Gen.pushN]
  | g :: gs, hp, x => by
    simp only [pushGens]
    split
    · rename_i hg
      rw [pushGens_get gs hp x]
      by_cases hx : g = x
      · subst hx; simp [hg]
      · simp [List.count_cons, hx]
    · rename_i y hy
      rw [pushGens_get gs _ x]
      have hlt : g < hp.length := by
        rcases Nat.lt_or_ge g hp.length with h | h
        · exact h
        · simp [List.getElem?_eq_none h] at hy
      by_cases hx : g = x
      · subst hx
        simp only [List.getElem?_set_self hlt, hy, Option.map_some, List.count_cons_self]
        simp only [Gen.pushN, Gen.push, Option.some.injEq]
        rw [replicate_push]
      · simp [List.getElem?_set_ne hx, List.count_cons, hx]

/-- what `_state_pop` leaves in a generator: the pair on top of the stack -/
def Gen.restore (c : Option V × Option TimeV) (s : List (Option V × Option TimeV)) (g : Gen S V) : Gen S V :=
  { g with last := c.1, lastTime := c.2, saved := s }

theorem popGens_get (c : Nat → Option V × Option TimeV) (s : Nat → List (Option V × Option TimeV)) :
    ∀ (gs : List Nat) (hp : List (Gen S V)),
    (∀ x ∈ gs, ∀ y, hp[x]? = some y → y.saved = List.replicate (gs.count x) (c x) ++ s x) →
    (popGens gs hp).1 = .ok .unit ∧
    ∀ x, (popGens gs hp).2[x]? = if x ∈ gs then (hp[x]?).map (Gen.restore (c x) (s x)) else hp[x]?
  | [], hp, _ => by simp [popGens]
  | g :: gs, hp, h => by
    simp only [popGens]
    split
    · rename_i hg
      have ih := popGens_get c s gs hp (by
        intro x hx y hy
        have := h x (by simp [hx]) y hy
        have hne : g ≠ x := by intro e; subst e; simp [hg] at hy
        simpa [List.count_cons, hne] using this)
      refine ⟨ih.1, ?_⟩
      intro x
      rw [ih.2 x]
      by_cases hx : x = g
      · subst hx; simp [hg]
      · simp [hx]
    · rename_i y hy
      have hlt : g < hp.length := by
        rcases Nat.lt_or_ge g hp.length with h | h
        · exact h
        · simp [List.getElem?_eq_none h] at hy
      have hs := h g (by simp) y hy
      simp only [List.count_cons_self, List.replicate_succ, List.cons_append] at hs
      rw [hs]
      simp only
      have ih := popGens_get c s gs
        (hp.set g { y with last := (c g).1, lastTime := (c g).2,
                           saved := List.replicate (gs.count g) (c g) ++ s g }) (by
        intro x hx z hz
        by_cases hxg : g = x
        · subst hxg
          simp only [List.getElem?_set_self hlt, Option.some.injEq] at hz
          subst hz; rfl
        · rw [List.getElem?_set_ne hxg] at hz
          have := h x (by simp [hx]) z hz
          simpa [List.count_cons, hxg] using this)
      refine ⟨ih.1, ?_⟩
      intro x
      rw [ih.2 x]
      by_cases hxg : g = x
      · subst hxg
        simp only [List.getElem?_set_self hlt, hy, Option.map_some, List.mem_cons, true_or, if_true]
        by_cases hm : g ∈ gs
        · simp [hm, Gen.restore]
        · simp [hm, Gen.restore, List.count_eq_zero_of_not_mem hm]
      · have hxg' : x ≠ g := fun e => hxg e.symm
        simp [List.getElem?_set_ne hxg, hxg']

/-! ### operations that leave the saved stacks and the object graph alone -/

mutual
def neutralOp : Op → Bool
  | .push _ => false
  | .pop _ => false
  | .assign _ _ _ => false
  | .newInst => false
  | .ctx b => neutralOps b
  | _ => true
def neutralOps : List Op → Bool
  | [] => true
  | o :: os => neutralOp o && neutralOps os
end

/-- same object graph, same saved stacks (the caches themselves may differ) -/
def SameShape (w w' : World S V) : Prop :=
  w'.defaults = w.defaults ∧ w'.insts = w.insts ∧
  ∀ x : Nat, (w'.gens[x]?).map (fun g : Gen S V => g.saved) = (w.gens[x]?).map (fun g : Gen S V => g.saved)

theorem SameShape.refl (w : World S V) : SameShape w w := ⟨rfl, rfl, fun _ => rfl⟩

theorem SameShape.trans {a b c : World S V} (h1 : SameShape a b) (h2 : SameShape b c) : SameShape a c :=
  ⟨h2.1.trans h1.1, h2.2.1.trans h1.2.1, fun x => (h2.2.2 x).trans (h1.2.2 x)⟩

theorem readSlot_shape (env : Env H S V) (w : World S V) (tg : Target) (p : Nat) (f : Bool) :
    SameShape w (readSlot env w tg p f).2 := by
  unfold readSlot
  split
  · exact SameShape.refl w
  · split
    · exact SameShape.refl w
    · rename_i gi pt h1 h2 _ g hg
      refine ⟨rfl, rfl, ?_⟩
      intro x
      simp only
      by_cases hx : gi = x
      · subst hx
        have hlt : gi < w.gens.length := by
          rcases Nat.lt_or_ge gi w.gens.length with h | h
          · exact h
          · simp [List.getElem?_eq_none h] at hg
        simp [List.getElem?_set_self hlt, hg, (readGen_saved env w.dynTD w.clock.time pt g f).1]
      · simp [List.getElem?_set_ne hx]
  · exact SameShape.refl w

mutual
theorem runOp_shape (env : Env H S V) : ∀ (o : Op) (w : World S V),
    neutralOp o = true → SameShape w (runOp env o w).2
  | .setTime _, w, _ => by simp only [runOp]; exact ⟨rfl, rfl, fun _ => rfl⟩
  | .setTimeType _ _, w, _ => by simp only [runOp]; exact ⟨rfl, rfl, fun _ => rfl⟩
  | .advance _, w, _ => by simp only [runOp]; exact ⟨rfl, rfl, fun _ => rfl⟩
  | .setStep _, w, _ => by simp only [runOp]; exact ⟨rfl, rfl, fun _ => rfl⟩
  | .setUntil _, w, _ => by simp only [runOp]; exact ⟨rfl, rfl, fun _ => rfl⟩
  | .read tg p, w, _ => by simp only [runOp]; exact readSlot_shape env w tg p false
  | .force tg p, w, _ => by simp only [runOp]; exact readSlot_shape env w tg p true
  | .inspect _ _, w, _ => by simp only [runOp]; exact SameShape.refl w
  | .raise _, w, _ => by simp only [runOp]; exact SameShape.refl w
  | .push _, _, h => by simp [neutralOp] at h
  | .pop _, _, h => by simp [neutralOp] at h
  | .assign _ _ _, _, h => by simp [neutralOp] at h
  | .newInst, _, h => by simp [neutralOp] at h
  | .ctx body, w, h => by
    have ih := runOps_shape env body { w with clock := w.clock.enter } (by simpa [neutralOp] using h)
    simp only [runOp]
    have f := exitCtx_frame (runOps env body { w with clock := w.clock.enter })
    exact ⟨f.2.2.1.trans ih.1, f.2.2.2.1.trans ih.2.1, fun x => by rw [f.2.1]; exact ih.2.2 x⟩
theorem runOps_shape (env : Env H S V) : ∀ (os : List Op) (w : World S V),
    neutralOps os = true → SameShape w (runOps env os w).2
  | [], w, _ => by simp only [runOps]; exact SameShape.refl w
  | o :: os, w, h => by
    simp only [neutralOps, Bool.and_eq_true] at h
    have h1 := runOp_shape env o w h.1
    simp only [runOps]
    split
    · rename_i r w' heq
      rw [heq] at h1
      exact SameShape.trans h1 (runOps_shape env os w' h.2)
    · rename_i e w' heq
      rw [heq] at h1
      exact h1
end

theorem instGens_shape {w w' : World S V} (h : SameShape w w') (i : Nat) : instGens w' i = instGens w i := by
  simp only [instGens, resolve, h.1, h.2.1]

/-! ### deleting inspections from a history -/

mutual
/-- remove every inspection from a history (also inside contexts) -/
def stripOp : Op → List Op
  | .inspect _ _ => []
  | .ctx b => [.ctx (stripOps b)]
  | .setTime t => [.setTime t]
  | .setTimeType t tt => [.setTimeType t tt]
  | .advance d => [.advance d]
  | .setStep s => [.setStep s]
  | .setUntil u => [.setUntil u]
  | .read tg p => [.read tg p]
  | .force tg p => [.force tg p]
  | .push i => [.push i]
  | .pop i => [.pop i]
  | .assign tg p s => [.assign tg p s]
  | .newInst => [.newInst]
  | .raise e => [.raise e]
def stripOps : List Op → List Op
  | [] => []
  | o :: os => stripOp o ++ stripOps os
end

theorem inspectSlot_ok_or_malformed (w : World S V) (tg : Target) (p : Nat) :
    (∃ r, inspectSlot w tg p = .ok r) ∨ inspectSlot w tg p = .raised .malformed := by
  unfold inspectSlot
  split
  · exact Or.inl ⟨_, rfl⟩
  · split
    · exact Or.inr rfl
    · exact Or.inl ⟨_, rfl⟩
  · exact Or.inr rfl

mutual
theorem strip_op (env : Env H S V) : ∀ (o : Op) (rest : List Op) (w : World S V),
    (runOp env o w).1 ≠ .raised .malformed →
    runOps env (stripOp o ++ rest) w = runOps env (o :: rest) w
  | .inspect tg p, rest, w, h => by
    simp only [stripOp, List.nil_append, runOps, runOp]
    rcases inspectSlot_ok_or_malformed w tg p with ⟨r, hr⟩ | hr
    · simp [hr]
    · simp [runOp, hr] at h
  | .ctx b, rest, w, h => by
    have hp : (runOps env b { w with clock := w.clock.enter }).2.clock.pushed
        = (w.clock.time, w.clock.timestep, w.clock.untl) :: w.clock.pushed := by
      rw [(runOps_pushed env b _).1]; rfl
    have hb : (runOps env b { w with clock := w.clock.enter }).1 ≠ .raised .malformed := by
      intro e
      apply h
      simp only [runOp]
      rw [(exitCtx_clock _ _ _ _ _ hp).2, e]
    have ih := strip_ops env b { w with clock := w.clock.enter } hb
    simp only [stripOp, List.cons_append, List.nil_append, runOps, runOp, ih]
  | .setTime _, _, _, _ => rfl
  | .setTimeType _ _, _, _, _ => rfl
  | .advance _, _, _, _ => rfl
  | .setStep _, _, _, _ => rfl
  | .setUntil _, _, _, _ => rfl
  | .read _ _, _, _, _ => rfl
  | .force _ _, _, _, _ => rfl
  | .push _, _, _, _ => rfl
  | .pop _, _, _, _ => rfl
  | .assign _ _ _, _, _, _ => rfl
  | .newInst, _, _, _ => rfl
  | .raise _, _, _, _ => rfl
theorem strip_ops (env : Env H S V) : ∀ (os : List Op) (w : World S V),
    (runOps env os w).1 ≠ .raised .malformed →
    runOps env (stripOps os) w = runOps env os w
  | [], _, _ => rfl
  | o :: os, w, h => by
    have ho : (runOp env o w).1 ≠ .raised .malformed := by
      intro e
      apply h
      simp only [runOps]
      split
      · rename_i heq; rw [heq] at e; simp at e
      · rename_i heq; rw [heq] at e; simpa using e
    simp only [stripOps]
    rw [strip_op env o (stripOps os) w ho]
    simp only [runOps] at h ⊢
    split
    · rename_i r w' heq
      rw [heq] at h
      exact strip_ops env os w' h
    · rfl
end


end ParamVerif.TimeDyn
