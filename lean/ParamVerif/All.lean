import ParamVerif.Util.Proto
import ParamVerif.Selector.ListProxy
import ParamVerif.Selector.Spec
import ParamVerif.Props.C18
import ParamVerif.Dispatch.Spec
import ParamVerif.Props.C03
import ParamVerif.Props.C04
import ParamVerif.Props.C05
