import ParamVerif.Util.Proto
import ParamVerif.Selector.ListProxy
import ParamVerif.Selector.Spec
import ParamVerif.Props.C18
