/-
Model of param's *references* (`allow_refs` parameters linked to other Parameters, bound
functions, reactive expressions, containers of these) — param/parameterized.py:
`Parameter.__set__` (reference resolution, **deferred** relink, `_validate`, constant/readonly
guard, store, `relink()`), `Parameters._resolve_ref`, `_update_ref`, `_setup_refs`,
`_setup_params`, `_sync_refs`, `_syncing`, `edit_constant`, `resolve_ref`, `resolve_value`,
`Parameters.update/_update`, `_ParametersRestorer`; param/reactive.py `bind`, `_rx_transform`.

World: source objects S0.. with `nsp` unconstrained Integer parameters each; target objects
T0.. (one class each) whose parameters are integer-valued (`param.Integer`) or pair-valued
(`param.Range`) with hard bounds and the flags constant / readonly / allow_refs / nested_refs.
Every object carries the universal user watcher (`onlychanged=False`, all parameters) whose calls
are the log.  References point at source parameters only (no chains target → target), so every
cascade is source → `_sync_refs` of the linked targets → their universal watchers; no fuel needed.

A bound function / rx expression is an opaque function `F k [values of its dependencies]`
(parameter of the model; the driver instantiates `k + sum`).

No Mathlib, no imports: loaded by the driver.
-/
namespace ParamVerif.Refs

inductive Err
  | value          -- ValueError  (`_validate`, unknown key of `update`)
  | type_          -- TypeError   (constant / readonly guard, unknown constructor keyword)
  | noCtx          -- harness-level: `ctxExit` without an open context
  | notModelled    -- input outside the model (see `Rhs.supported`, class-level references …)
  deriving Repr, DecidableEq

inductive Res | ok | raised (e : Err)
  deriving Repr, DecidableEq

inductive Val | int (n : Int) | tup (l : List Int) | nest (l : List (List Int))   -- an int, a tuple of ints, a tuple of tuples
  deriving Repr, DecidableEq

/-- a source parameter: (object, parameter) -/
abbrev SrcP := Nat × Nat

inductive Atom
  | lit (n : Int)                                  -- a plain integer
  | par (s i : Nat)                                -- `S<s>.param.v<i>`
  | fn (deps : List SrcP) (k : Int) (rx : Bool) (sk : Option Int)
      -- `bind(f_k, deps…)` / the rx expression over deps; `sk = some b`: the function raises `param.Skip`
      -- whenever its result would be below b ("no value to offer yet")
  deriving Repr, DecidableEq

inductive Rhs
  | atom (a : Atom)
  | cont (items : List Atom)                       -- a tuple of atoms
  | cont2 (rows : List (List Atom))                -- a tuple of tuples of atoms (nesting depth 2)
  deriving Repr, DecidableEq

inductive Kind | int | pair | any      -- param.Integer | param.Range | param.Parameter (no validation)
  deriving Repr, DecidableEq

structure PDecl where
  kind : Kind
  lo : Option Int
  hi : Option Int
  constant : Bool
  readonly : Bool
  allowRefs : Bool
  nestedRefs : Bool
  deriving Repr, DecidableEq

structure Cfg where
  F : Int → List Int → Int
  nsp : Nat                          -- parameters per source object
  decls : List (List PDecl)          -- per target class

structure Target where
  vals : List (Option Val)           -- `_param__private.values` (none: reads the class default)
  dflt : List Val                    -- the class Parameters' `default`
  refs : List (Nat × Rhs)            -- `_param__private.refs`, dict order
  deriving Repr, DecidableEq

/-- what `_ParametersRestorer.__exit__` will apply: `dict(restore, **refs)` -/
structure Restorer where
  t : Nat
  kvs : List (Nat × Rhs)
  deriving Repr, DecidableEq

structure World where
  src : List (List Int)
  /-- per source object: the `_sync_refs` watchers registered on it, as (target, parameter names),
  in registration order.  `ref_watchers` of target t = the entries with first component t. -/
  watch : List (List (Nat × List Nat))
  tgts : List Target
  stack : List Restorer
  deriving Repr, DecidableEq

inductive Who | src | tgt
  deriving Repr, DecidableEq

/-- one call of a universal watcher: object and the events (parameter, new value) it was handed -/
structure Entry where
  who : Who
  idx : Nat
  evs : List (Nat × Val)
  deriving Repr, DecidableEq

inductive Op
  | set (t p : Nat) (rhs : Rhs)                 -- t.p = rhs
  | setCls (t p : Nat) (rhs : Rhs)              -- T.p = rhs
  | update (t : Nat) (kvs : List (Nat × Rhs))   -- t.param.update({...})
  | ctxEnter (t : Nat) (kvs : List (Nat × Rhs)) -- r = t.param.update({...}); r.__enter__()
  | ctxExit                                     -- r.__exit__(…) of the innermost open context
  | srcSet (s i : Nat) (v : Int)                -- S<s>.v<i> = v
  deriving Repr, DecidableEq

/-! ### values, validation -/

def PDecl.inB (d : PDecl) (n : Int) : Bool :=
  (match d.lo with | some l => decide (l ≤ n) | none => true) &&
  (match d.hi with | some h => decide (n ≤ h) | none => true)

/-- `_validate`: Integer accepts an int inside the bounds; Range a pair of numbers inside the bounds -/
def PDecl.valid (d : PDecl) : Val → Bool
  | .int n => d.kind == .any || (d.kind == .int && d.inB n)
  | .tup l => d.kind == .any || (d.kind == .pair && l.length == 2 && l.all d.inB)
  | .nest _ => d.kind == .any

/-- `val is _old` of the constant guard: equal small ints are the same object, a tuple never is -/
def identical : Val → Val → Bool
  | .int a, .int b => a == b
  | _, _ => false

def Cfg.decl (c : Cfg) (t p : Nat) : Option PDecl := (c.decls[t]?).bind (·[p]?)

def Target.read (tg : Target) (p : Nat) : Option Val :=
  match tg.vals[p]? with
  | some (some v) => some v
  | some none => tg.dflt[p]?
  | none => none

def readSrc (w : World) (d : SrcP) : Option Int := (w.src[d.1]?).bind (·[d.2]?)

/-! ### references: `resolve_ref`, `resolve_value`, `_resolve_ref` -/

def Atom.deps : Atom → List SrcP
  | .lit _ => []
  | .par s i => [(s, i)]
  | .fn deps _ _ _ => deps

def Atom.isLit : Atom → Bool
  | .lit _ => true
  | _ => false

/-- a bound function without dependencies is a plain callable (a Dynamic value for Integer): outside the model -/
def Atom.supported : Atom → Bool
  | .fn [] _ _ _ => false
  | _ => true

def Rhs.supported : Rhs → Bool
  | .atom a => a.supported
  | .cont items => items.all Atom.supported
  | .cont2 rows => rows.all (·.all Atom.supported)

def Rhs.isLit : Rhs → Bool
  | .atom a => a.isLit
  | .cont items => items.all Atom.isLit
  | .cont2 rows => rows.all (·.all Atom.isLit)

/-- src: parameterized.py resolve_ref(reference, recursive) -/
def depsOf (r : Rhs) (nested : Bool) : List SrcP :=
  match r with
  | .atom a => a.deps
  | .cont items => if nested then items.flatMap Atom.deps else []
  | .cont2 rows => if nested then rows.flatMap (·.flatMap Atom.deps) else []

def resolveAtom (c : Cfg) (w : World) : Atom → Option Int
  | .lit n => some n
  | .par s i => readSrc w (s, i)
  | .fn deps k _ _ => (deps.mapM (readSrc w)).map (c.F k)

def Atom.litVal : Atom → Option Int
  | .lit n => some n
  | _ => none

/-- the value as written when it holds no reference; `none`: it holds an object no validator accepts -/
def plainOf : Rhs → Option Val
  | .atom (.lit n) => some (.int n)
  | .atom _ => none
  | .cont items => (items.mapM Atom.litVal).map .tup
  | .cont2 rows => (rows.mapM (fun (row : List Atom) => row.mapM Atom.litVal)).map .nest

/-- src: parameterized.py resolve_value(value, recursive); `none`: a source does not exist, or
(container, not recursive) the value is returned as it is and holds an unresolved object -/
def resolveRhs (c : Cfg) (w : World) (r : Rhs) (nested : Bool) : Option Val :=
  match r with
  | .atom a => (resolveAtom c w a).map .int
  | .cont items => if nested then (items.mapM (resolveAtom c w)).map .tup else plainOf r
  -- `resolve_value` recurses: the inner tuples are resolved by the recursive calls (default `recursive=True`)
  | .cont2 rows => if nested then (rows.mapM (fun (row : List Atom) => row.mapM (resolveAtom c w))).map .nest else plainOf r

/-- does evaluating the atom raise `Skip` on the current source values -/
def Atom.skips (c : Cfg) (w : World) : Atom → Bool
  | .fn deps k _ (some b) =>
    match deps.mapM (readSrc w) with
    | some xs => decide (c.F k xs < b)
    | none => false
  | _ => false

/-- src: the `except Skip: value = Undefined` of `_resolve_ref` / `_sync_refs`: resolving the reference
raises `Skip` (a container is only resolved item by item on a `nested_refs` parameter) -/
def skipsRhs (c : Cfg) (w : World) (r : Rhs) (nested : Bool) : Bool :=
  match r with
  | .atom a => a.skips c w
  | .cont items => nested && items.any (Atom.skips c w)
  | .cont2 rows => nested && rows.any (·.any (Atom.skips c w))

def Val.toRhs : Val → Rhs
  | .int n => .atom (.lit n)
  | .tup l => .cont (l.map Atom.lit)
  | .nest l => .cont2 (l.map (·.map Atom.lit))

/-! ### dict helpers -/

/-- `dict(d, **{k: v})`: in place when the key exists, appended otherwise -/
def dictSet (l : List (Nat × Rhs)) (k : Nat) (v : Rhs) : List (Nat × Rhs) :=
  if l.any (·.1 == k) then l.map (fun kv => if kv.1 == k then (k, v) else kv) else l ++ [(k, v)]

def dictGet (l : List (Nat × Rhs)) (k : Nat) : Option Rhs := (l.find? (·.1 == k)).map (·.2)

def dictDel (l : List (Nat × Rhs)) (k : Nat) : List (Nat × Rhs) := l.filter (·.1 != k)

/-- `dict(kvs)`: later values win, first-occurrence order -/
def dedupKeys : List (Nat × Rhs) → List (Nat × Rhs)
  | [] => []
  | (k, v) :: rest =>
    let rest' := dedupKeys rest
    match rest'.find? (fun kv => kv.1 == k) with
    | some kv => (k, kv.2) :: rest'.filter (fun kv => kv.1 != k)
    | none => (k, v) :: rest'

/-! ### link installation -/

/-- all dependencies of a refs table; `self_[name].nested_refs` per link -/
def allDeps (ds : List PDecl) (refs : List (Nat × Rhs)) : List SrcP :=
  refs.flatMap fun kv => match ds[kv.1]? with
    | some d => depsOf kv.2 d.nestedRefs
    | none => []

/-- src: Parameters._setup_refs — one `_sync_refs` watcher per owner, on `list(set(pnames))` -/
def setupRefs (c : Cfg) (t : Nat) (deps : List SrcP) (watch : List (List (Nat × List Nat))) :
    List (List (Nat × List Nat)) :=
  watch.zipIdx.map fun (ws, s) =>
    let names := (List.range c.nsp).filter (fun i => deps.contains (s, i))
    if names.isEmpty then ws else ws ++ [(t, names)]

/-- `for _, watcher in ref_watchers: unwatch` -/
def unwatchAll (t : Nat) (watch : List (List (Nat × List Nat))) : List (List (Nat × List Nat)) :=
  watch.map (·.filter (·.1 != t))

def World.setTgt (w : World) (t : Nat) (tg : Target) : World := { w with tgts := w.tgts.set t tg }

/-- src: Parameters._update_ref(name, ref) — `ref = none` is `Undefined`: the link is removed.
Unwatch *all* ref watchers of the object, build the new refs dict, recompute the dependencies of
every remaining link (`self_[name].nested_refs`), re-install one watcher per owner. -/
def updateRef (c : Cfg) (t p : Nat) (r : Option Rhs) (w : World) : World :=
  match w.tgts[t]?, c.decls[t]? with
  | some tg, some ds =>
    let refs := match r with
      | some r => dictSet tg.refs p r
      | none => dictDel tg.refs p            -- `dict(refs, name=Undefined)` then `del refs[name]`
    { w with watch := setupRefs c t (allDeps ds refs) (unwatchAll t w.watch),
             tgts := w.tgts.set t { tg with refs := refs } }
  | _, _ => w

/-- the deferred link change of `Parameter.__set__` -/
inductive Relink
  | keep                 -- no reference involved
  | drop                 -- plain value on a linked parameter: `_update_ref(name, Undefined)`
  | link (r : Rhs)       -- `_update_ref(name, ref)`
  deriving Repr, DecidableEq

def applyRelink (c : Cfg) (t p : Nat) (rl : Relink) (w : World) : World :=
  match rl with
  | .keep => w
  | .drop => updateRef c t p none w
  | .link r => updateRef c t p (some r) w

/-! ### the setter -/

def store (t p : Nat) (v : Val) (w : World) : World :=
  match w.tgts[t]? with
  | some tg => w.setTgt t { tg with vals := tg.vals.set p (some v) }
  | none => w

/-- src: Parameter.__set__ from `_validate` on, for an initialised instance:
validate → constant/readonly guard → store → relink → one event for the universal watcher.
`v = none`: the value holds an unresolved object.  `editConst`: inside `edit_constant`. -/
def setCore (c : Cfg) (t p : Nat) (d : PDecl) (old : Val) (v : Option Val) (rl : Relink) (editConst : Bool)
    (w : World) : Res × World × List (Nat × Val) :=
  match v with
  | none => (.raised .value, w, [])
  | some v =>
    if !d.valid v then (.raised .value, w, [])
    else if d.readonly then (.raised .type_, w, [])
    else if d.constant && !editConst then
      if identical v old then (.ok, applyRelink c t p rl w, [(p, v)])   -- nothing stored
      else (.raised .type_, w, [])
    else (.ok, applyRelink c t p rl (store t p v w), [(p, v)])

/-! ### the same setter, statement by statement

`setCore` above is written as one expression whose rejecting branches return the world they were
given.  To make *the order of the statements* the subject of C02, here is the same code as a list of
statements executed one after the other on a world that is **not rolled back** when a statement
raises (Python has no rollback): `validate` and `guard` may raise, `store` and `relink` change the
world.  `Lemmas.setCore_is_code_order` proves that `setCore` is this machine run on `codeOrder`. -/

inductive Stage | validate | guard | store | relink
  deriving Repr, DecidableEq

def Stage.isCheck : Stage → Bool
  | .validate | .guard => true
  | _ => false

structure SetArgs where
  t : Nat
  p : Nat
  d : PDecl
  old : Val
  v : Val
  rl : Relink
  editConst : Bool

/-- one statement; state = (world, "the guard lets the store happen"); an exception carries the
world as it is at that moment -/
def runStage (c : Cfg) (a : SetArgs) : Stage → World × Bool → Except (Err × World) (World × Bool)
  | .validate, (w, b) => if a.d.valid a.v then .ok (w, b) else .error (.value, w)
  | .guard, (w, b) =>
    if a.d.readonly then .error (.type_, w)
    else if a.d.constant && !a.editConst then
      (if identical a.v a.old then .ok (w, false) else .error (.type_, w))
    else .ok (w, b)
  | .store, (w, b) => .ok (if b then store a.t a.p a.v w else w, b)
  | .relink, (w, b) => .ok (applyRelink c a.t a.p a.rl w, b)

def runStages (c : Cfg) (a : SetArgs) : List Stage → World × Bool → Except (Err × World) (World × Bool)
  | [], s => .ok s
  | st :: rest, s =>
    match runStage c a st s with
    | .ok s' => runStages c a rest s'
    | .error e => .error e

/-- the order of the code since fix a2a2c2a -/
def codeOrder : List Stage := [.validate, .guard, .store, .relink]
/-- the order before it: the link change ran first -/
def preFixOrder : List Stage := [.relink, .validate, .guard, .store]

def setStaged (c : Cfg) (a : SetArgs) (order : List Stage) (w : World) : Res × World × List (Nat × Val) :=
  match runStages c a order (w, true) with
  | .ok (w', _) => (.ok, w', [(a.p, a.v)])
  | .error (e, w') => (.raised e, w', [])

/-- src: Parameter.__set__ lines before `_validate`, instance route (`syncing` false):
`_resolve_ref`, and which link change to defer -/
def resolveForSet (c : Cfg) (d : PDecl) (linked : Bool) (rhs : Rhs) (w : World) : Option (Option Val × Relink) :=
  if !rhs.supported then none
  else if !d.allowRefs then
    if rhs.isLit then some (plainOf rhs, .keep) else none        -- a callable on a Dynamic parameter
  else
    if (depsOf rhs d.nestedRefs).isEmpty then
      some (plainOf rhs, if linked then .drop else .keep)
    else
      match resolveRhs c w rhs d.nestedRefs with
      | some v => some (some v, .link rhs)
      | none => none

/-- the reference handed to an `allow_refs` parameter resolved to `Undefined` (its evaluation raised `Skip`) -/
def skipsForSet (c : Cfg) (d : PDecl) (rhs : Rhs) (w : World) : Bool :=
  rhs.supported && d.allowRefs && !(depsOf rhs d.nestedRefs).isEmpty && skipsRhs c w rhs d.nestedRefs

/-- `t.p = rhs` on an initialised instance, up to the event (the caller announces it) -/
def setInst (c : Cfg) (t p : Nat) (rhs : Rhs) (w : World) : Res × World × List (Nat × Val) :=
  match w.tgts[t]?, c.decl t p with
  | some tg, some d =>
    match tg.read p, resolveForSet c d ((dictGet tg.refs p).isSome) rhs w with
    | some old, some (v, rl) =>
      -- `if is_async or val is Undefined: relink(); return` — no validation, no store, no event
      if skipsForSet c d rhs w then (.ok, applyRelink c t p rl w, [])
      else setCore c t p d old v rl false w
    | _, _ => (.raised .notModelled, w, [])
  | _, _ => (.raised .notModelled, w, [])

/-- src: `_batch_call_watchers` for the universal watcher: one call, events in the order of its
`parameter_names`, the last event per name -/
def flushEntry (t : Nat) (n : Nat) (evs : List (Nat × Val)) : List Entry :=
  if evs.isEmpty then []
  else [{ who := .tgt, idx := t, evs := (List.range n).filterMap fun p => evs.reverse.find? (·.1 == p) }]

def nparams (c : Cfg) (t : Nat) : Nat := (c.decls[t]?).map List.length |>.getD 0

/-- the key loop of `_update` -/
def updateKeys (c : Cfg) (t : Nat) : List (Nat × Rhs) → World → Res × World × List (Nat × Val)
  | [], w => (.ok, w, [])
  | (k, r) :: rest, w =>
    if k ≥ nparams c t then (.raised .value, w, [])
    else
      match setInst c t k r w with
      | (.ok, w1, e1) =>
        let (r2, w2, e2) := updateKeys c t rest w1
        (r2, w2, e1 ++ e2)
      | out => out

/-- src: Parameters._update — batch, apply the keys, `finally` flush -/
def update (c : Cfg) (t : Nat) (kvs : List (Nat × Rhs)) (w : World) : Res × World × List Entry :=
  let (r, w1, evs) := updateKeys c t (dedupKeys kvs) w
  (r, w1, flushEntry t (nparams c t) evs)

/-- `T.p = rhs`: no reference handling at class level; `_validate`, readonly guard, `default := val` -/
def setCls (c : Cfg) (t p : Nat) (rhs : Rhs) (w : World) : Res × World × List Entry :=
  match w.tgts[t]?, c.decl t p with
  | some tg, some d =>
    if !rhs.isLit || p ≥ tg.dflt.length then (.raised .notModelled, w, [])
    else
      match plainOf rhs with
      | none => (.raised .value, w, [])
      | some v =>
        if !d.valid v then (.raised .value, w, [])
        else if d.readonly then (.raised .type_, w, [])
        else (.ok, w.setTgt t { tg with dflt := tg.dflt.set p v }, [])
  | _, _ => (.raised .notModelled, w, [])

/-! ### propagation -/

/-- the writes of `_sync_refs`: `update(updates)` under `edit_constant` and `_syncing(updates)`
(no link change, constants editable) -/
def syncKeys (c : Cfg) (t : Nat) : List (Nat × Val) → World → Res × World × List (Nat × Val)
  | [], w => (.ok, w, [])
  | (k, v) :: rest, w =>
    match w.tgts[t]?, c.decl t k with
    | some tg, some d =>
      match tg.read k with
      | some old =>
        match setCore c t k d old (some v) .keep true w with
        | (.ok, w1, e1) =>
          let (r2, w2, e2) := syncKeys c t rest w1
          (r2, w2, e1 ++ e2)
        | out => out
      | none => (.raised .notModelled, w, [])
    | _, _ => (.raised .notModelled, w, [])

/-- src: Parameters._sync_refs(event) on target t for the change of source parameter `d` -/
def syncRefs (c : Cfg) (t : Nat) (d : SrcP) (w : World) : Res × World × List Entry :=
  match w.tgts[t]?, c.decls[t]? with
  | some tg, some ds =>
    let hit := tg.refs.filter fun kv => match ds[kv.1]? with
      | some pd => (depsOf kv.2 pd.nestedRefs).contains d && !skipsRhs c w kv.2 pd.nestedRefs   -- Skip: `continue`
      | none => false
    match hit.mapM (fun kv => (resolveRhs c w kv.2 (((ds[kv.1]?).map (·.nestedRefs)).getD false)).map (kv.1, ·)) with
    | some updates =>
      let (r, w1, evs) := syncKeys c t updates w
      (r, w1, flushEntry t ds.length evs)
    | none => (.raised .notModelled, w, [])
  | _, _ => (.raised .notModelled, w, [])

/-- the `_sync_refs` watchers of the changed source parameter, in registration order; the first
failure aborts the dispatch -/
def syncAll (c : Cfg) (d : SrcP) : List Nat → World → Res × World × List Entry
  | [], w => (.ok, w, [])
  | t :: rest, w =>
    match syncRefs c t d w with
    | (.ok, w1, l1) =>
      let (r2, w2, l2) := syncAll c d rest w1
      (r2, w2, l1 ++ l2)
    | out => out

/-- `S<s>.v<i> = v`: store, then the watchers sorted by precedence: `_sync_refs` (−1, changes only)
in registration order, then the universal watcher (0) -/
def srcSet (c : Cfg) (s i : Nat) (v : Int) (w : World) : Res × World × List Entry :=
  if i ≥ c.nsp || s ≥ w.watch.length then (.raised .notModelled, w, []) else   -- no such source parameter
  match readSrc w (s, i), w.src[s]? with
  | some old, some row =>
    let w1 := { w with src := w.src.set s (row.set i v) }
    let here : Entry := { who := .src, idx := s, evs := [(i, .int v)] }
    if old == v then (.ok, w1, [here])
    else
      let ws := ((w.watch[s]?).getD []).filter (·.2.contains i) |>.map (·.1)
      match syncAll c (s, i) ws w1 with
      | (.ok, w2, l) => (.ok, w2, l ++ [here])
      | out => out
  | _, _ => (.raised .notModelled, w, [])

/-! ### `update` as a context manager -/

/-- what `update()` records before applying: for every key the link if there is one, else the value -/
def restorerOf (tg : Target) (kvs : List (Nat × Rhs)) : Option (List (Nat × Rhs)) :=
  kvs.mapM fun kv => match dictGet tg.refs kv.1 with
    | some r => some (kv.1, r)
    | none => (tg.read kv.1).map fun v => (kv.1, v.toRhs)

def ctxEnter (c : Cfg) (t : Nat) (kvs : List (Nat × Rhs)) (w : World) : Res × World × List Entry :=
  let kvs' := dedupKeys kvs
  match update c t kvs w with
  | (.ok, w1, l) =>
    match (w.tgts[t]?).bind (restorerOf · kvs') with
    | some back => (.ok, { w1 with stack := { t := t, kvs := back } :: w1.stack }, l)
    | none => (.raised .notModelled, w, [])
  | out => out

def ctxExit (c : Cfg) (w : World) : Res × World × List Entry :=
  match w.stack with
  | [] => (.raised .noCtx, w, [])
  | r :: rest => update c r.t r.kvs { w with stack := rest }

/-! ### operations, histories -/

/-- inputs the model covers: no dependency-free bound function; a reference only where references
are resolved (an `allow_refs` parameter on the instance route — elsewhere a callable would be taken
for a Dynamic value and a Parameter object at class level *redefines* the parameter) -/
def keySupported (c : Cfg) (t : Nat) (kv : Nat × Rhs) : Bool :=
  match c.decl t kv.1 with
  | some d =>
    kv.2.supported && (d.allowRefs || kv.2.isLit) &&
    -- an unvalidated parameter (`param.Parameter`) would *store* a container that still holds unresolved
    -- reference objects: outside the value universe of the model
    (d.kind != .any || kv.2.isLit || !(depsOf kv.2 d.nestedRefs).isEmpty)
  | none => kv.2.isLit           -- unknown key: rejected before the value is looked at

def Op.supported (c : Cfg) : Op → Bool
  | .set t p rhs => keySupported c t (p, rhs)
  | .setCls _ _ rhs => rhs.isLit
  | .update t kvs | .ctxEnter t kvs => kvs.all (keySupported c t)
  | .ctxExit | .srcSet .. => true

def step (c : Cfg) (op : Op) (w : World) : Res × World × List Entry :=
  if !op.supported c then (.raised .notModelled, w, []) else
  match op with
  | .set t p rhs =>
    if p ≥ nparams c t then (.raised .notModelled, w, [])
    else
      let (r, w1, evs) := setInst c t p rhs w
      (r, w1, evs.map fun e => { who := .tgt, idx := t, evs := [e] })   -- not batching: announced at once
  | .setCls t p rhs => setCls c t p rhs w
  | .update t kvs => if t < w.tgts.length then update c t kvs w else (.raised .notModelled, w, [])
  | .ctxEnter t kvs => if t < w.tgts.length then ctxEnter c t kvs w else (.raised .notModelled, w, [])
  | .ctxExit => ctxExit c w
  | .srcSet s i v => srcSet c s i v w

/-- run a history; every operation under try/except -/
def runOps (c : Cfg) : List Op → World → World
  | [], w => w
  | op :: rest, w => runOps c rest (step c op w).2.1

/-! ### construction -/

/-- the keyword loop of `_setup_params` on the uninitialised instance: resolve, remember the link,
`setattr` (validate, readonly guard, store — constants may be set) -/
def ctorKeys (c : Cfg) (ds : List PDecl) (w : World) : List (Nat × Rhs) → Target → Res × Target
  | [], tg => (.ok, tg)
  | (k, rhs) :: rest, tg =>
    match ds[k]? with
    | none => (.raised .type_, tg)                      -- unexpected keyword argument
    | some d =>
      match resolveForSet c d false rhs w with
      | none => (.raised .notModelled, tg)
      | some (none, _) => (.raised .value, tg)
      | some (some v, rl) =>
        -- resolved is Undefined (Skip): the link is recorded, nothing is set
        if skipsForSet c d rhs w then
          ctorKeys c ds w rest { tg with refs := match rl with | .link r => tg.refs ++ [(k, r)] | _ => tg.refs }
        else
        if !d.valid v then (.raised .value, tg)
        else if d.readonly then (.raised .type_, tg)
        else
          let tg1 := { tg with vals := tg.vals.set k (some v),
                               refs := match rl with | .link r => tg.refs ++ [(k, r)] | _ => tg.refs }
          ctorKeys c ds w rest tg1

/-- `T<t>(**kws)` for the next target (t = number of targets alive); `dflt`: the class defaults -/
def construct (c : Cfg) (dflt : List Val) (kws : List (Nat × Rhs)) (w : World) : Res × World :=
  let t := w.tgts.length
  match c.decls[t]? with
  | none => (.raised .notModelled, w)
  | some ds =>
    -- constants are referenced on the instance
    let vals := (ds.zip dflt).map fun (d, v) => if d.constant || d.readonly then some v else none
    if !kws.all (keySupported c t) then (.raised .notModelled, w) else
    match ctorKeys c ds w (dedupKeys kws) { vals := vals, dflt := dflt, refs := [] } with
    | (.ok, tg) =>
      (.ok, { w with tgts := w.tgts ++ [tg], watch := setupRefs c t (allDeps ds tg.refs) w.watch })
    | (r, _) => (r, w)

end ParamVerif.Refs
