/-
The operation layer of Refs/Model.lean once more, with two things a user can add to the objects:

* **watchers that assign** (`Hook`): `T<t>.param.watch(cb, ['p<a>'], onlychanged=False)` registered after
  the universal watcher, whose callback does `try: t.p<b> = k  except (ValueError, TypeError): pass`.
  The callback runs inside the dispatch that delivers the event of `p<a>` — in particular inside the flush
  of the `update` that `_sync_refs` issues, i.e. under `edit_constant` and while the names being synced
  are in `_param__private.syncing` (a plain value arriving for a *syncing* name does not end its link);
* **a parameter made constant on one instance** (`lock`): `t.param.p<p>.constant = True` — the flag of the
  instance's own Parameter copy; the class-level Parameter stays as declared.  `edit_constant` (hence
  `_sync_refs`) lifts it like a declared one.

Everything below re-uses the setter (`setCore`, `setInst`), `syncKeys`, `updateRef`, … of the model; only
the loops that call them are repeated with the two additions.  `HooksLemmas.stepH_eq_step`: without hooks
and locks this layer *is* the model, so the theorems of Props/C02.lean and Props/C08.lean are about what
the driver executes in that case.  With hooks/locks the tie to the code is correspondence and oracle only.

No Mathlib, no proofs: loaded by the driver.
-/
import ParamVerif.Refs.Model

namespace ParamVerif.Refs

structure Hook where
  t : Nat
  a : Nat          -- watched parameter
  b : Nat          -- assigned parameter
  k : Int          -- the plain value assigned
  deriving Repr, DecidableEq

structure HCfg where
  hooks : List Hook
  /-- parameters declared with per_instance=False: `t.param.p` is the class Parameter, not lockable here -/
  shared : List (Nat × Nat)

structure WorldH where
  w : World
  locked : List (Nat × Nat)      -- (target, parameter) made constant on the instance
  deriving Repr, DecidableEq

inductive OpH
  | base (op : Op)
  | lock (t p : Nat)             -- t.param.p<p>.constant = True
  deriving Repr, DecidableEq

/-- hooks do not chain and do not assign the parameter they watch -/
def HCfg.ok (h : HCfg) (c : Cfg) : Bool :=
  h.hooks.all fun x => x.a != x.b && (c.decl x.t x.a).isSome && (c.decl x.t x.b).isSome &&
    !(h.hooks.any fun y => y.t == x.t && y.a == x.b)

def entryOf (t : Nat) (e : Nat × Val) : Entry := { who := .tgt, idx := t, evs := [e] }

/-- the declaration the instance's setter sees -/
def effDecl (L : List (Nat × Nat)) (t p : Nat) (d : PDecl) : PDecl :=
  if L.contains (t, p) then { d with constant := true } else d

/-- the callback of a hook: `t.p<b> = k` on the instance route (plain value: no reference to resolve; the
link of b is dropped unless b is being synced), dispatched at once; a rejection is swallowed -/
def hookAssign (c : Cfg) (L : List (Nat × Nat)) (t b : Nat) (k : Int) (inSync : List Nat) (ec : Bool)
    (w : World) : World × List Entry :=
  match w.tgts[t]?, c.decl t b with
  | some tg, some d =>
    match tg.read b with
    | some old =>
      let rl := if d.allowRefs && (dictGet tg.refs b).isSome && !inSync.contains b then Relink.drop else Relink.keep
      match setCore c t b (effDecl L t b d) old (some (.int k)) rl ec w with
      | (.ok, w', evs) => (w', evs.map (entryOf t))
      | _ => (w, [])
    | none => (w, [])
  | _, _ => (w, [])

/-- the hook watchers queued by the events of `keys`, in queue order: by key, then registration order -/
def fireHooks (c : Cfg) (h : HCfg) (L : List (Nat × Nat)) (t : Nat) (keys : List Nat) (inSync : List Nat) (ec : Bool)
    (w : World) : World × List Entry :=
  (keys.flatMap fun k => h.hooks.filter fun x => x.t == t && x.a == k).foldl
    (fun (acc : World × List Entry) x =>
      let (w', l) := hookAssign c L t x.b x.k inSync ec acc.1
      (w', acc.2 ++ l))
    (w, [])

/-- `t.p = rhs` on the instance; a parameter locked on the instance takes plain values only here -/
def setInstH (c : Cfg) (L : List (Nat × Nat)) (t p : Nat) (rhs : Rhs) (w : World) : Res × World × List (Nat × Val) :=
  if L.contains (t, p) then
    match w.tgts[t]?, c.decl t p with
    | some tg, some d =>
      match tg.read p with
      | some old =>
        let rl := if d.allowRefs && (dictGet tg.refs p).isSome then Relink.drop else Relink.keep
        setCore c t p { d with constant := true } old (plainOf rhs) rl false w
      | none => (.raised .notModelled, w, [])
    | _, _ => (.raised .notModelled, w, [])
  else setInst c t p rhs w

def updateKeysH (c : Cfg) (L : List (Nat × Nat)) (t : Nat) : List (Nat × Rhs) → World → Res × World × List (Nat × Val)
  | [], w => (.ok, w, [])
  | (k, r) :: rest, w =>
    if k ≥ nparams c t then (.raised .value, w, [])
    else
      match setInstH c L t k r w with
      | (.ok, w1, e1) =>
        let (r2, w2, e2) := updateKeysH c L t rest w1
        (r2, w2, e1 ++ e2)
      | out => out

/-- `_update`: apply the keys, flush (universal watcher, then the queued hooks) -/
def updateH (c : Cfg) (h : HCfg) (L : List (Nat × Nat)) (t : Nat) (kvs : List (Nat × Rhs)) (w : World) :
    Res × World × List Entry :=
  let (r, w1, evs) := updateKeysH c L t (dedupKeys kvs) w
  let (w2, l2) := fireHooks c h L t (evs.map (·.1)) [] false w1
  (r, w2, flushEntry t (nparams c t) evs ++ l2)

def ctxEnterH (c : Cfg) (h : HCfg) (L : List (Nat × Nat)) (t : Nat) (kvs : List (Nat × Rhs)) (w : World) :
    Res × World × List Entry :=
  match updateH c h L t kvs w with
  | (.ok, w1, l) =>
    match (w.tgts[t]?).bind (restorerOf · (dedupKeys kvs)) with
    | some back => (.ok, { w1 with stack := { t := t, kvs := back } :: w1.stack }, l)
    | none => (.raised .notModelled, w, [])
  | out => out

def ctxExitH (c : Cfg) (h : HCfg) (L : List (Nat × Nat)) (w : World) : Res × World × List Entry :=
  match w.stack with
  | [] => (.raised .noCtx, w, [])
  | r :: rest => updateH c h L r.t r.kvs { w with stack := rest }

/-- `_sync_refs` on target t: as `syncRefs`, and the hooks of the written parameters run inside the flush
of its `update` — under `edit_constant`, with the names of `updates` in `syncing` -/
def syncRefsH (c : Cfg) (h : HCfg) (L : List (Nat × Nat)) (t : Nat) (d : SrcP) (w : World) : Res × World × List Entry :=
  match w.tgts[t]?, c.decls[t]? with
  | some tg, some ds =>
    let hit := tg.refs.filter fun kv => match ds[kv.1]? with
      | some pd => (depsOf kv.2 pd.nestedRefs).contains d && !skipsRhs c w kv.2 pd.nestedRefs
      | none => false
    match hit.mapM (fun kv => (resolveRhs c w kv.2 (((ds[kv.1]?).map (·.nestedRefs)).getD false)).map (kv.1, ·)) with
    | some updates =>
      let (r, w1, evs) := syncKeys c t updates w
      let (w2, l2) := fireHooks c h L t (evs.map (·.1)) (updates.map (·.1)) true w1
      (r, w2, flushEntry t ds.length evs ++ l2)
    | none => (.raised .notModelled, w, [])
  | _, _ => (.raised .notModelled, w, [])

def syncAllH (c : Cfg) (h : HCfg) (L : List (Nat × Nat)) (d : SrcP) : List Nat → World → Res × World × List Entry
  | [], w => (.ok, w, [])
  | t :: rest, w =>
    match syncRefsH c h L t d w with
    | (.ok, w1, l1) =>
      let (r2, w2, l2) := syncAllH c h L d rest w1
      (r2, w2, l1 ++ l2)
    | out => out

def srcSetH (c : Cfg) (h : HCfg) (L : List (Nat × Nat)) (s i : Nat) (v : Int) (w : World) : Res × World × List Entry :=
  if i ≥ c.nsp || s ≥ w.watch.length then (.raised .notModelled, w, []) else
  match readSrc w (s, i), w.src[s]? with
  | some old, some row =>
    let w1 := { w with src := w.src.set s (row.set i v) }
    let here : Entry := { who := .src, idx := s, evs := [(i, .int v)] }
    if old == v then (.ok, w1, [here])
    else
      let ws := ((w.watch[s]?).getD []).filter (·.2.contains i) |>.map (·.1)
      match syncAllH c h L (s, i) ws w1 with
      | (.ok, w2, l) => (.ok, w2, l ++ [here])
      | out => out
  | _, _ => (.raised .notModelled, w, [])

/-- a locked parameter takes plain values only (a reference with the very value it holds would be
accepted without being stored — outside the model) -/
def lockedOk (L : List (Nat × Nat)) (t : Nat) (kv : Nat × Rhs) : Bool := !L.contains (t, kv.1) || kv.2.isLit

def OpH.supported (c : Cfg) (h : HCfg) (L : List (Nat × Nat)) (w : World) : OpH → Bool
  | .base op =>
    op.supported c && (match op with
      | .set t p rhs => lockedOk L t (p, rhs)
      | .update t kvs | .ctxEnter t kvs => kvs.all (lockedOk L t)
      | .ctxExit => (match w.stack with | r :: _ => r.kvs.all (lockedOk L r.t) | [] => true)   -- restoring a link
      | _ => true)
  | .lock t p =>
    match c.decl t p with
    | some d => !d.constant && !d.readonly && !h.shared.contains (t, p) && d.kind == .int   -- (tuple identity: not modelled)
    | none => false

def stepH (c : Cfg) (h : HCfg) (op : OpH) (wh : WorldH) : Res × WorldH × List Entry :=
  if !op.supported c h wh.locked wh.w then (.raised .notModelled, wh, []) else
  let L := wh.locked
  let w := wh.w
  let back (out : Res × World × List Entry) : Res × WorldH × List Entry := (out.1, { wh with w := out.2.1 }, out.2.2)
  match op with
  | .lock t p =>
    if t < w.tgts.length then (.ok, { wh with locked := if L.contains (t, p) then L else (t, p) :: L }, [])
    else (.raised .notModelled, wh, [])
  | .base (.set t p rhs) =>
    if p ≥ nparams c t then (.raised .notModelled, wh, [])
    else
      let (r, w1, evs) := setInstH c L t p rhs w
      let (w2, l2) := fireHooks c h L t (evs.map (·.1)) [] false w1
      back (r, w2, evs.map (entryOf t) ++ l2)
  | .base (.setCls t p rhs) => back (setCls c t p rhs w)
  | .base (.update t kvs) => if t < w.tgts.length then back (updateH c h L t kvs w) else (.raised .notModelled, wh, [])
  | .base (.ctxEnter t kvs) => if t < w.tgts.length then back (ctxEnterH c h L t kvs w) else (.raised .notModelled, wh, [])
  | .base .ctxExit => back (ctxExitH c h L w)
  | .base (.srcSet s i v) => back (srcSetH c h L s i v w)

end ParamVerif.Refs
