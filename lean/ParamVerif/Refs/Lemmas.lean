/-
Helper lemmas for C02 / C08 (model: Refs/Model.lean).  The property theorems are in
Props/C02.lean and Props/C08.lean.
-/
import ParamVerif.Refs.Model
namespace ParamVerif.Refs

theorem find_map_ne (l : List (Nat × Rhs)) (k q : Nat) (v : Rhs) (h : q ≠ k) :
    ((l.map (fun kv => if kv.1 == k then (k, v) else kv)).find? (·.1 == q)).map (·.2) = (l.find? (·.1 == q)).map (·.2) := by
  induction l with
  | nil => rfl
  | cons a l ih => grind

theorem dictGet_dictSet_ne (l : List (Nat × Rhs)) (k q : Nat) (v : Rhs) (h : q ≠ k) :
    dictGet (dictSet l k v) q = dictGet l q := by
  unfold dictGet dictSet
  split
  · exact find_map_ne l k q v h
  · rw [List.find?_append]; grind

theorem dictGet_dictDel_ne (l : List (Nat × Rhs)) (k q : Nat) (h : q ≠ k) :
    dictGet (dictDel l k) q = dictGet l q := by
  unfold dictGet dictDel
  induction l with
  | nil => rfl
  | cons a l ih => grind

theorem dictGet_dictDel_self (l : List (Nat × Rhs)) (k : Nat) : dictGet (dictDel l k) k = none := by
  unfold dictGet dictDel
  simp [List.find?_eq_none]

theorem mem_dictDel {l : List (Nat × Rhs)} {k : Nat} {kv : Nat × Rhs} :
    kv ∈ dictDel l k ↔ kv ∈ l ∧ kv.1 ≠ k := by
  simp [dictDel]

theorem dictGet_none_iff {l : List (Nat × Rhs)} {k : Nat} : dictGet l k = none ↔ ∀ r, (k, r) ∉ l := by
  unfold dictGet
  induction l with
  | nil => simp
  | cons a l ih => grind

theorem mem_dictSet {l : List (Nat × Rhs)} {k : Nat} {v : Rhs} {kv : Nat × Rhs} :
    kv ∈ dictSet l k v ↔ kv = (k, v) ∨ (kv ∈ l ∧ kv.1 ≠ k) := by
  unfold dictSet
  split
  · rename_i hany
    induction l with
    | nil => simp at hany
    | cons a l ih => grind
  · rename_i hany
    simp only [List.any_eq_true, not_exists] at hany
    grind
def keysNodup (l : List (Nat × Rhs)) : Prop := (l.map (·.1)).Nodup

theorem keysNodup_dictDel {l : List (Nat × Rhs)} (k : Nat) (h : keysNodup l) : keysNodup (dictDel l k) := by
  unfold keysNodup dictDel at *
  exact List.Nodup.sublist (List.Sublist.map _ List.filter_sublist) h

theorem keysNodup_dictSet {l : List (Nat × Rhs)} (k : Nat) (v : Rhs) (h : keysNodup l) :
    keysNodup (dictSet l k v) := by
  unfold keysNodup dictSet at *
  split
  · have : (l.map (fun kv => if kv.1 == k then (k, v) else kv)).map (·.1) = l.map (·.1) := by
      rw [List.map_map]; apply List.map_congr_left; intro a _
      by_cases e : a.1 = k <;> simp [e]
    rw [this]; exact h
  · rename_i hany
    simp only [List.any_eq_true, not_exists] at hany
    rw [List.map_append, List.nodup_append]
    grind

theorem keysNodup_unique {l : List (Nat × Rhs)} (h : keysNodup l) {k : Nat} {r r' : Rhs}
    (h1 : (k, r) ∈ l) (h2 : (k, r') ∈ l) : r = r' := by
  unfold keysNodup at h
  induction l with
  | nil => cases h1
  | cons a l ih => grind

theorem mem_of_dictGet {l : List (Nat × Rhs)} {k : Nat} {r : Rhs} (hg : dictGet l k = some r) : (k, r) ∈ l := by
  unfold dictGet at hg
  induction l with
  | nil => simp at hg
  | cons a l ih => grind

theorem dictGet_of_mem {l : List (Nat × Rhs)} (h : keysNodup l) {k : Nat} {r : Rhs} (hm : (k, r) ∈ l) :
    dictGet l k = some r := by
  cases hg : dictGet l k with
  | none => exact absurd hm (dictGet_none_iff.1 hg r)
  | some r' => rw [keysNodup_unique h hm (mem_of_dictGet hg)]

/-! ### C02: a raised setter returns the world it was given -/


theorem setCore_raised {c : Cfg} {t p : Nat} {d : PDecl} {old : Val} {v : Option Val} {rl : Relink} {ec : Bool}
    {w w' : World} {e : Err} {evs : List (Nat × Val)}
    (h : setCore c t p d old v rl ec w = (.raised e, w', evs)) : w' = w ∧ evs = [] := by
  unfold setCore at h
  grind

theorem setInst_raised {c : Cfg} {t p : Nat} {rhs : Rhs} {w w' : World} {e : Err} {evs : List (Nat × Val)}
    (h : setInst c t p rhs w = (.raised e, w', evs)) : w' = w ∧ evs = [] := by
  unfold setInst at h
  grind [setCore_raised]

theorem setCls_raised {c : Cfg} {t p : Nat} {rhs : Rhs} {w w' : World} {e : Err} {log : List Entry}
    (h : setCls c t p rhs w = (.raised e, w', log)) : w' = w ∧ log = [] := by
  unfold setCls at h
  grind

theorem updateKeys_raised {c : Cfg} {t : Nat} : ∀ {kvs : List (Nat × Rhs)} {w w' : World} {e : Err} {evs : List (Nat × Val)},
    updateKeys c t kvs w = (.raised e, w', evs) →
    ∃ pre k r post, kvs = pre ++ (k, r) :: post ∧ updateKeys c t pre w = (.ok, w', evs) ∧
      (k ≥ nparams c t ∨ setInst c t k r w' = (.raised e, w', [])) := by
  intro kvs
  induction kvs with
  | nil => intro w w' e evs h; simp [updateKeys] at h
  | cons kv rest ih =>
    intro w w' e evs h
    obtain ⟨k, r⟩ := kv
    simp only [updateKeys] at h
    split at h
    · refine ⟨[], k, r, rest, rfl, ?_, Or.inl (by assumption)⟩
      simp [updateKeys]; grind
    · split at h
      · rename_i w1 e1 hs
        cases hr : updateKeys c t rest w1 with
        | mk r2 p2 =>
          obtain ⟨w2, e2⟩ := p2
          rw [hr] at h
          simp at h
          obtain ⟨h1, h2, h3⟩ := h
          subst h1 h2 h3
          obtain ⟨pre, k', r', post, hk, hp, hrej⟩ := ih hr
          refine ⟨(k, r) :: pre, k', r', post, by simp [hk], ?_, hrej⟩
          simp only [updateKeys]
          rw [if_neg (by assumption), hs]; simp [hp]
      · rename_i out hne
        cases hs : setInst c t k r w with
        | mk r1 p1 =>
          obtain ⟨w1, e1⟩ := p1
          rw [hs] at h hne
          cases r1 with
          | ok => exact absurd rfl (hne w1 e1)
          | raised e' =>
            simp at h
            obtain ⟨h1, h2, h3⟩ := h
            subst h1 h2 h3
            obtain ⟨hw, he⟩ := setInst_raised hs
            subst hw he
            exact ⟨[], k, r, rest, rfl, by simp [updateKeys], Or.inr hs⟩

/-! ### C08: the invariant and its preservation by the target-side operations -/


theorem setupRefs_get (c : Cfg) (t : Nat) (deps : List SrcP) (watch : List (List (Nat × List Nat))) (s : Nat) :
    (setupRefs c t deps watch)[s]? = (watch[s]?).map fun ws =>
      let names := (List.range c.nsp).filter (fun i => deps.contains (s, i))
      if names.isEmpty then ws else ws ++ [(t, names)] := by
  unfold setupRefs
  simp [List.getElem?_map, List.getElem?_zipIdx]
  cases watch[s]? <;> simp

theorem unwatchAll_get (t : Nat) (watch : List (List (Nat × List Nat))) (s : Nat) :
    (unwatchAll t watch)[s]? = (watch[s]?).map (·.filter (·.1 != t)) := by
  unfold unwatchAll; simp

theorem setupRefs_length (c : Cfg) (t : Nat) (deps : List SrcP) (watch : List (List (Nat × List Nat))) :
    (setupRefs c t deps watch).length = watch.length := by
  unfold setupRefs; simp

theorem unwatchAll_length (t : Nat) (watch : List (List (Nat × List Nat))) :
    (unwatchAll t watch).length = watch.length := by
  unfold unwatchAll; simp

theorem readSrc_congr {w w' : World} (h : w'.src = w.src) : readSrc w' = readSrc w := by
  funext d; simp [readSrc, h]

theorem resolveRhs_congr {c : Cfg} {w w' : World} (h : w'.src = w.src) (r : Rhs) (n : Bool) :
    resolveRhs c w' r n = resolveRhs c w r n := by
  have hr := readSrc_congr h
  have ha : resolveAtom c w' = resolveAtom c w := by
    funext a; cases a <;> simp [resolveAtom, hr]
  cases r <;> simp [resolveRhs, ha]

theorem skipsRhs_congr {c : Cfg} {w w' : World} (h : w'.src = w.src) (r : Rhs) (n : Bool) :
    skipsRhs c w' r n = skipsRhs c w r n := by
  have hr := readSrc_congr h
  have ha : Atom.skips c w' = Atom.skips c w := by
    funext a; cases a <;> simp [Atom.skips, hr]
  cases r <;> simp [skipsRhs, ha]

/-- the dependencies of a link as `_update_ref` / `_sync_refs` compute them (`self_[name].nested_refs`) -/
def ldeps (c : Cfg) (t : Nat) (kv : Nat × Rhs) : List SrcP :=
  match c.decl t kv.1 with
  | some d => depsOf kv.2 d.nestedRefs
  | none => []

/-- the invariant behind C08.  `st` (ghost): the *stale* source parameters — those whose last
value-changing assignment raised from inside `_sync_refs`, so that links depending on them may not
have been written.  Only the tracking clause looks at it. -/
structure Inv (c : Cfg) (st : List SrcP) (w : World) : Prop where
  /-- every live link that has a value to offer (its evaluation does not raise Skip) and whose resolved
  value is valid for the target: the instance holds that value -/
  tracks : ∀ (t : Nat) (tg : Target) (p : Nat) (r : Rhs) (d : PDecl) (v : Val), w.tgts[t]? = some tg → (p, r) ∈ tg.refs → c.decl t p = some d →
    resolveRhs c w r d.nestedRefs = some v → skipsRhs c w r d.nestedRefs = false → d.valid v = true →
    (∀ x ∈ ldeps c t (p, r), x ∉ st) → tg.vals[p]? = some (some v)
  /-- every (existing) dependency of every live link carries the target's `_sync_refs` watcher -/
  watched : ∀ (t : Nat) (tg : Target) (p : Nat) (r : Rhs) (s i : Nat), w.tgts[t]? = some tg → (p, r) ∈ tg.refs → (s, i) ∈ ldeps c t (p, r) →
    i < c.nsp → s < w.watch.length → ∃ ws names, w.watch[s]? = some ws ∧ (t, names) ∈ ws ∧ i ∈ names
  /-- refs is a dict -/
  nodup : ∀ (t : Nat) (tg : Target), w.tgts[t]? = some tg → keysNodup tg.refs
  /-- only `allow_refs` parameters are ever linked -/
  allow : ∀ (t : Nat) (tg : Target) (p : Nat) (r : Rhs) (d : PDecl), w.tgts[t]? = some tg → (p, r) ∈ tg.refs →
    c.decl t p = some d → d.allowRefs = true
  /-- constants are referenced on the instance -/
  consts : ∀ (t : Nat) (tg : Target) (p : Nat) (d : PDecl), w.tgts[t]? = some tg → c.decl t p = some d → d.constant = true →
    ∃ v, tg.vals[p]? = some (some v)
  /-- no leftover watcher: a `_sync_refs` watcher of t sits on S.v only on behalf of a live link of t -/
  exact : ∀ (t s : Nat) (ws : List (Nat × List Nat)) (names : List Nat) (i : Nat), w.watch[s]? = some ws →
    (t, names) ∈ ws → i ∈ names → ∃ tg q r, w.tgts[t]? = some tg ∧ (q, r) ∈ tg.refs ∧ (s, i) ∈ ldeps c t (q, r)

variable {st : List SrcP}

theorem allDeps_mem {c : Cfg} {t : Nat} {ds : List PDecl} (hds : c.decls[t]? = some ds) {refs : List (Nat × Rhs)} {d : SrcP} :
    d ∈ allDeps ds refs ↔ ∃ kv ∈ refs, d ∈ ldeps c t kv := by
  unfold allDeps ldeps Cfg.decl
  simp [List.mem_flatMap, hds]
  exact Iff.rfl

theorem identical_eq {v old : Val} (h : identical v old = true) : v = old := by
  cases v <;> cases old <;> simp_all [identical]

theorem read_of_vals {tg : Target} {p : Nat} {v : Val} (h : tg.vals[p]? = some (some v)) : tg.read p = some v := by
  simp [Target.read, h]


/-- the world after a store at (t, p) followed by a link change, spelled out -/
theorem setCore_ok_form {c : Cfg} {t p : Nat} {d : PDecl} {old : Val} {v : Option Val} {rl : Relink} {ec : Bool}
    {w w' : World} {tg : Target} {evs : List (Nat × Val)} (htg : w.tgts[t]? = some tg)
    (h : setCore c t p d old v rl ec w = (.ok, w', evs)) :
    ∃ v0 vals', v = some v0 ∧ d.valid v0 = true ∧ evs = [(p, v0)] ∧
      (vals' = tg.vals.set p (some v0) ∨ (vals' = tg.vals ∧ identical v0 old = true ∧ d.constant = true ∧ ec = false)) ∧
      w' = applyRelink c t p rl { w with tgts := w.tgts.set t { tg with vals := vals' } } := by
  unfold setCore at h
  have hself : w.tgts.set t tg = w.tgts := by
    apply List.ext_getElem?; intro i; rw [List.getElem?_set]; grind
  split at h
  · simp at h
  · rename_i v0
    refine ⟨v0, ?_⟩
    split at h
    · simp at h
    · split at h
      · simp at h
      · split at h
        · split at h
          · refine ⟨tg.vals, rfl, by simp_all, by simp_all, Or.inr ⟨rfl, by simp_all, by simp_all, by simp_all⟩, ?_⟩
            simp at h
            rw [← h.1]; congr 1
            cases w; simp_all
          · simp at h
        · refine ⟨tg.vals.set p (some v0), rfl, by simp_all, by simp_all, Or.inl rfl, ?_⟩
          simp at h
          rw [← h.1]; simp [store, htg, World.setTgt]


theorem tgts_set_get (l : List Target) (t t' : Nat) (x : Target) (tg : Target) (h : l[t]? = some tg) :
    (l.set t x)[t']? = if t = t' then some x else l[t']? := by
  rw [List.getElem?_set]; grind

/-- changing one target (values, links) and the watcher tables keeps the invariant when the new
links of that target are tracked and watched and nobody else's watcher is lost -/
theorem inv_update_target {c : Cfg} {w : World} {t : Nat} {tg tg' : Target} {watch' : List (List (Nat × List Nat))}
    (hi : Inv c st w) (htg : w.tgts[t]? = some tg)
    (hA : ∀ (q : Nat) (r : Rhs), (q, r) ∈ tg'.refs →
      ((q, r) ∈ tg.refs ∧ tg'.vals[q]? = tg.vals[q]?) ∨
      (∀ d v, c.decl t q = some d → resolveRhs c w r d.nestedRefs = some v → skipsRhs c w r d.nestedRefs = false →
        d.valid v = true → tg'.vals[q]? = some (some v)))
    (hB : ∀ (q : Nat) (r : Rhs) (s i : Nat), (q, r) ∈ tg'.refs → (s, i) ∈ ldeps c t (q, r) → i < c.nsp → s < watch'.length →
      ∃ ws names, watch'[s]? = some ws ∧ (t, names) ∈ ws ∧ i ∈ names)
    (hB' : ∀ (t' s : Nat) (ws : List (Nat × List Nat)) (names : List Nat), t' ≠ t → w.watch[s]? = some ws → (t', names) ∈ ws →
      ∃ ws', watch'[s]? = some ws' ∧ (t', names) ∈ ws')
    (hL : watch'.length = w.watch.length)
    (hC : keysNodup tg'.refs)
    (hE : ∀ (q : Nat) (r : Rhs) (d : PDecl), (q, r) ∈ tg'.refs → c.decl t q = some d → d.allowRefs = true)
    (hD : ∀ (q : Nat) (v : Val), tg.vals[q]? = some (some v) → ∃ v', tg'.vals[q]? = some (some v'))
    (hX : ∀ (s : Nat) (ws : List (Nat × List Nat)) (names : List Nat) (i : Nat), watch'[s]? = some ws → (t, names) ∈ ws →
      i ∈ names → ∃ q r, (q, r) ∈ tg'.refs ∧ (s, i) ∈ ldeps c t (q, r))
    (hX' : ∀ (t' s : Nat) (ws : List (Nat × List Nat)) (names : List Nat), t' ≠ t → watch'[s]? = some ws → (t', names) ∈ ws →
      ∃ ws0, w.watch[s]? = some ws0 ∧ (t', names) ∈ ws0) :
    Inv c st { w with watch := watch', tgts := w.tgts.set t tg' } := by
  have hget := fun t' x => tgts_set_get w.tgts t t' x tg htg
  constructor
  · intro t' tg'' q r d' v ht hm hd' hres hsk hv hst
    simp only [hget] at ht
    have hres' : resolveRhs c w r d'.nestedRefs = some v := by rw [← hres]; exact (resolveRhs_congr rfl r _).symm
    have hsk' : skipsRhs c w r d'.nestedRefs = false := by rw [← hsk]; exact (skipsRhs_congr rfl r _).symm
    split at ht
    · subst_vars; simp at ht; subst ht
      rcases hA q r hm with ⟨hm', hval⟩ | h2
      · rw [hval]; exact hi.tracks _ _ _ _ _ _ htg hm' hd' hres' hsk' hv hst
      · exact h2 d' v hd' hres' hsk' hv
    · exact hi.tracks _ _ _ _ _ _ ht hm hd' hres' hsk' hv hst
  · intro t' tg'' q r s i ht hm hdep hi' hs
    simp only [hget] at ht
    split at ht
    · subst_vars; simp at ht; subst ht
      exact hB q r s i hm hdep hi' hs
    · rename_i hne
      obtain ⟨ws, names, h1, h2, h3⟩ := hi.watched _ _ _ _ _ _ ht hm hdep hi' (by simpa [hL] using hs)
      obtain ⟨ws', h4, h5⟩ := hB' t' s ws names (fun e => hne e.symm) h1 h2
      exact ⟨ws', names, h4, h5, h3⟩
  · intro t' tg'' ht
    simp only [hget] at ht
    split at ht
    · subst_vars; simp at ht; subst ht; exact hC
    · exact hi.nodup _ _ ht
  · intro t' tg'' q r d' ht hm hd'
    simp only [hget] at ht
    split at ht
    · subst_vars; simp at ht; subst ht; exact hE q r d' hm hd'
    · exact hi.allow _ _ _ _ _ ht hm hd'
  · intro t' tg'' q d' ht hd' hc
    simp only [hget] at ht
    split at ht
    · subst_vars; simp at ht; subst ht
      obtain ⟨v, hv⟩ := hi.consts _ _ _ _ htg hd' hc
      exact hD q v hv
    · exact hi.consts _ _ _ _ ht hd' hc
  · intro t' s ws names i hws hm hin
    by_cases e : t' = t
    · subst e
      obtain ⟨q, r, h1, h2⟩ := hX s ws names i hws hm hin
      exact ⟨tg', q, r, by simp [hget], h1, h2⟩
    · obtain ⟨ws0, h1, h2⟩ := hX' t' s ws names e hws hm
      obtain ⟨tg0, q, r, h3, h4, h5⟩ := hi.exact t' s ws0 names i h1 h2 hin
      exact ⟨tg0, q, r, by simp only [hget]; rw [if_neg (fun e' => e e'.symm)]; exact h3, h4, h5⟩

/-- `_update_ref`: after unwatching everything of t and re-installing the watchers of the new refs
table, the invariant holds when the new links are tracked -/
theorem rewatch_inv {c : Cfg} {t : Nat} {w : World} {tg : Target} {ds : List PDecl} {vals' : List (Option Val)}
    {refs' : List (Nat × Rhs)}
    (hi : Inv c st w) (htg : w.tgts[t]? = some tg) (hds : c.decls[t]? = some ds)
    (hA : ∀ (q : Nat) (r : Rhs), (q, r) ∈ refs' →
      ((q, r) ∈ tg.refs ∧ vals'[q]? = tg.vals[q]?) ∨
      (∀ d v, c.decl t q = some d → resolveRhs c w r d.nestedRefs = some v → skipsRhs c w r d.nestedRefs = false →
        d.valid v = true → vals'[q]? = some (some v)))
    (hC : keysNodup refs')
    (hE : ∀ (q : Nat) (r : Rhs) (d : PDecl), (q, r) ∈ refs' → c.decl t q = some d → d.allowRefs = true)
    (hD : ∀ (q : Nat) (v : Val), tg.vals[q]? = some (some v) → ∃ v', vals'[q]? = some (some v')) :
    Inv c st ({ w with watch := setupRefs c t (allDeps ds refs') (unwatchAll t w.watch),
                       tgts := w.tgts.set t { tg with vals := vals', refs := refs' } } : World) := by
  refine inv_update_target (tg' := { tg with vals := vals', refs := refs' }) hi htg hA ?_ ?_
    (by rw [setupRefs_length, unwatchAll_length]) hC hE hD ?_ ?_
  · intro q r' s i hm hdep hi' hs
    have hall : (s, i) ∈ allDeps ds refs' := (allDeps_mem hds).2 ⟨_, hm, hdep⟩
    rw [setupRefs_length, unwatchAll_length] at hs
    rw [setupRefs_get, unwatchAll_get]
    obtain ⟨ws, hws⟩ : ∃ ws, w.watch[s]? = some ws := ⟨w.watch[s], by simp [hs]⟩
    have hin : i ∈ (List.range c.nsp).filter (fun i => (allDeps ds refs').contains (s, i)) := by
      simp [List.mem_filter, hi', hall]
    have hne : ((List.range c.nsp).filter (fun i => (allDeps ds refs').contains (s, i))).isEmpty = false := by
      cases hx : (List.range c.nsp).filter (fun i => (allDeps ds refs').contains (s, i)) with
      | nil => rw [hx] at hin; cases hin
      | cons _ _ => rfl
    refine ⟨_, _, by simp only [hws, Option.map_some, hne]; rfl, ?_, hin⟩
    simp
  · intro t' s ws names hne h1 h2
    rw [setupRefs_get, unwatchAll_get, h1]
    simp only [Option.map_some]
    refine ⟨_, rfl, ?_⟩
    have : (t', names) ∈ ws.filter (fun x => x.1 != t) := by simp [List.mem_filter, h2, hne]
    split
    · exact this
    · exact List.mem_append_left _ this
  · intro s ws names i hws hm hin
    rw [setupRefs_get, unwatchAll_get] at hws
    cases hws0 : w.watch[s]? with
    | none => simp [hws0] at hws
    | some ws0 =>
      simp only [hws0, Option.map_some, Option.some.injEq] at hws
      have hmem' : (t, names) = (t, (List.range c.nsp).filter (fun i => (allDeps ds refs').contains (s, i))) := by
        split at hws
        · subst hws; simp [List.mem_filter] at hm
        · subst hws
          simp only [List.mem_append, List.mem_filter, List.mem_singleton] at hm
          rcases hm with ⟨_, hne⟩ | e
          · simp at hne
          · exact e
      rw [(Prod.mk.inj hmem').2] at hin
      simp only [List.mem_filter, List.contains_iff_mem] at hin
      obtain ⟨kv, hkv, hdep⟩ := (allDeps_mem hds).1 hin.2
      exact ⟨kv.1, kv.2, hkv, hdep⟩
  · intro t' s ws names hne hws hm
    rw [setupRefs_get, unwatchAll_get] at hws
    cases hws0 : w.watch[s]? with
    | none => simp [hws0] at hws
    | some ws0 =>
      simp only [hws0, Option.map_some, Option.some.injEq] at hws
      refine ⟨ws0, rfl, ?_⟩
      split at hws
      · subst hws; exact (List.mem_filter.1 hm).1
      · subst hws
        simp only [List.mem_append, List.mem_filter, List.mem_singleton] at hm
        rcases hm with ⟨h, _⟩ | e
        · exact h
        · exact absurd (Prod.mk.inj e).1 hne

/-- a store at (t, p) followed by the deferred link change keeps the invariant -/
theorem relink_inv {c : Cfg} {t p : Nat} {d : PDecl} {rl : Relink} {w : World} {tg : Target}
    {vals' : List (Option Val)}
    (hi : Inv c st w) (htg : w.tgts[t]? = some tg) (hd : c.decl t p = some d)
    (hD : ∀ (q : Nat) (v : Val), tg.vals[q]? = some (some v) → ∃ v', vals'[q]? = some (some v'))
    (hq : ∀ q, q ≠ p → vals'[q]? = tg.vals[q]?)
    (hrl : match rl with
      | .keep => dictGet tg.refs p = none
      | .drop => True
      | .link r => (∀ v, resolveRhs c w r d.nestedRefs = some v → skipsRhs c w r d.nestedRefs = false →
          vals'[p]? = some (some v)) ∧ d.allowRefs = true) :
    Inv c st (applyRelink c t p rl { w with tgts := w.tgts.set t { tg with vals := vals' } }) := by
  have hget := fun t' x => tgts_set_get w.tgts t t' x tg htg
  obtain ⟨ds, hds⟩ : ∃ ds, c.decls[t]? = some ds := by
    unfold Cfg.decl at hd
    cases h : c.decls[t]? with
    | none => simp [h] at hd
    | some ds => exact ⟨ds, rfl⟩
  cases rl with
  | keep =>
    simp only at hrl
    have hnone := dictGet_none_iff.1 hrl
    simp only [applyRelink]
    have := inv_update_target (tg' := { tg with vals := vals' }) (watch' := w.watch) hi htg
      (fun q r hm => Or.inl ⟨hm, hq q (fun e => by subst e; exact hnone r hm)⟩)
      (fun q r s i hm hdep hi' hs => hi.watched _ _ _ _ _ _ htg hm hdep hi' hs)
      (fun t' s ws names _ h1 h2 => ⟨ws, h1, h2⟩) rfl (hi.nodup _ tg htg)
      (fun q r d' hm hd' => hi.allow _ _ _ _ _ htg hm hd') hD
      (by
        intro s ws names i hws hm hin
        obtain ⟨tg0, q, r, h1, h2, h3⟩ := hi.exact t s ws names i hws hm hin
        rw [htg] at h1; cases h1
        exact ⟨q, r, h2, h3⟩)
      (fun t' s ws names _ h1 h2 => ⟨ws, h1, h2⟩)
    simpa using this
  | drop =>
    simp only [applyRelink, updateRef, hget, if_true, hds, List.set_set]
    have := rewatch_inv (vals' := vals') (refs' := dictDel tg.refs p) hi htg hds
      (fun q r hm => Or.inl ⟨(mem_dictDel.1 hm).1, hq q (mem_dictDel.1 hm).2⟩)
      (keysNodup_dictDel p (hi.nodup _ _ htg))
      (fun q r d' hm hd' => hi.allow _ _ _ _ _ htg (mem_dictDel.1 hm).1 hd') hD
    simpa using this
  | link r =>
    simp only at hrl
    simp only [applyRelink, updateRef, hget, if_true, hds, List.set_set]
    have := rewatch_inv (vals' := vals') (refs' := dictSet tg.refs p r) hi htg hds
      (by
        intro q r' hm
        rcases mem_dictSet.1 hm with e | ⟨hm', hne⟩
        · right; intro d' v hd' hres hsk _
          have e1 := (Prod.mk.inj e).1; have e2 := (Prod.mk.inj e).2; subst e1 e2
          rw [hd] at hd'; cases hd'
          exact hrl.1 v hres hsk
        · exact Or.inl ⟨hm', hq q hne⟩)
      (keysNodup_dictSet p r (hi.nodup _ _ htg))
      (by
        intro q r' d' hm hd'
        rcases mem_dictSet.1 hm with e | ⟨hm', _⟩
        · have e1 := (Prod.mk.inj e).1; subst e1
          rw [hd] at hd'; cases hd'; exact hrl.2
        · exact hi.allow _ _ _ _ _ htg hm' hd') hD
    simpa using this

/-- what the setter may assume about the deferred link change -/
def relinkCond (c : Cfg) (w : World) (d : PDecl) (tg : Target) (p : Nat) (v : Option Val) : Relink → Prop
  | .keep => dictGet tg.refs p = none
  | .drop => True
  | .link r => (resolveRhs c w r d.nestedRefs = v ∨ skipsRhs c w r d.nestedRefs = true) ∧ d.allowRefs = true

/-- the setter keeps the invariant, whatever its outcome (instance route: the assigned value is
plain or the resolved value of the reference that becomes the link) -/
theorem setCore_inv {c : Cfg} {t p : Nat} {d : PDecl} {old : Val} {v : Option Val} {rl : Relink}
    {w w' : World} {tg : Target} {res : Res} {evs : List (Nat × Val)}
    (hi : Inv c st w) (htg : w.tgts[t]? = some tg) (hd : c.decl t p = some d) (hold : tg.read p = some old)
    (hrl : relinkCond c w d tg p v rl)
    (h : setCore c t p d old v rl false w = (res, w', evs)) : Inv c st w' := by
  cases res with
  | raised e => rw [(setCore_raised h).1]; exact hi
  | ok =>
    obtain ⟨v0, vals', hv, hvalid, _, hvals, hw⟩ := setCore_ok_form htg h
    subst hw hv
    have hlt : p < tg.vals.length := by
      by_cases hlt : p < tg.vals.length
      · exact hlt
      · exfalso
        have : tg.vals[p]? = none := by simp; omega
        simp [Target.read, this] at hold
    have hp : vals'[p]? = some (some v0) := by
      rcases hvals with e | ⟨e, hid, hc, _⟩
      · subst e; simp [hlt]
      · subst e
        obtain ⟨v1, hv1⟩ := hi.consts _ _ _ _ htg hd hc
        have := read_of_vals hv1
        rw [hold] at this; cases this
        rw [identical_eq hid]; exact hv1
    apply relink_inv hi htg hd
    · intro q v hv
      by_cases e : q = p
      · subst e; exact ⟨v0, hp⟩
      · refine ⟨v, ?_⟩
        rcases hvals with e' | ⟨e', _⟩
        · subst e'; rw [List.getElem?_set_ne (fun h => e h.symm)]; exact hv
        · subst e'; exact hv
    · intro q hq
      rcases hvals with e | ⟨e, _⟩
      · subst e; rw [List.getElem?_set_ne (by omega)]
      · subst e; rfl
    · cases rl with
      | keep => simpa [relinkCond] using hrl
      | drop => trivial
      | link r =>
        simp only [relinkCond] at hrl ⊢
        refine ⟨?_, hrl.2⟩
        intro v hres hsk
        rcases hrl.1 with e | e
        · rw [hres] at e; cases e; exact hp
        · rw [hsk] at e; cases e

theorem world_set_self (w : World) (t : Nat) (tg : Target) (h : w.tgts[t]? = some tg) :
    { w with tgts := w.tgts.set t tg } = w := by
  have : w.tgts.set t tg = w.tgts := by
    apply List.ext_getElem?; intro i; rw [List.getElem?_set]; grind
  cases w; simp_all

/-- which link change `resolveForSet` defers, and what it knows about the value -/
theorem resolveForSet_cond {c : Cfg} {d : PDecl} {rhs : Rhs} {w : World} {tg : Target} {t p : Nat} {v : Option Val} {rl : Relink}
    (hallow : ∀ r0, dictGet tg.refs p = some r0 → d.allowRefs = true)
    (hres : resolveForSet c d ((dictGet tg.refs p).isSome) rhs w = some (v, rl)) :
    relinkCond c w d tg p v rl ∧ (skipsForSet c d rhs w = true → rl = .link rhs) := by
  unfold resolveForSet at hres
  unfold skipsForSet
  split at hres
  · simp at hres
  · split at hres
    · rename_i hna
      split at hres
      · simp at hres; obtain ⟨_, e⟩ := hres; subst e
        refine ⟨?_, by simp_all⟩
        simp only [relinkCond]
        cases hg : dictGet tg.refs p with
        | none => rfl
        | some r0 => have := hallow r0 hg; simp_all
      · simp at hres
    · split at hres
      · rename_i hempty
        simp at hres; obtain ⟨_, e⟩ := hres
        refine ⟨?_, by simp_all⟩
        by_cases hl : (dictGet tg.refs p).isSome = true
        · simp [hl] at e; subst e; trivial
        · simp [hl] at e; subst e; simpa [relinkCond] using hl
      · split at hres
        · simp at hres; obtain ⟨e1, e2⟩ := hres; subst e1 e2
          exact ⟨⟨Or.inl (by assumption), by simp_all⟩, fun _ => rfl⟩
        · simp at hres

theorem setInst_inv {c : Cfg} {t p : Nat} {rhs : Rhs} {w w' : World} {res : Res} {evs : List (Nat × Val)}
    (hi : Inv c st w) (h : setInst c t p rhs w = (res, w', evs)) : Inv c st w' := by
  unfold setInst at h
  split at h
  · rename_i tg d htg hd
    split at h
    · rename_i old v rl hold hres
      obtain ⟨hcond, hskip⟩ := resolveForSet_cond (t := t)
        (fun r0 hg => hi.allow _ _ _ _ _ htg (mem_of_dictGet hg) hd) hres
      split at h
      · -- the reference has no value to offer: only the link changes
        rename_i hsk
        have hrl := hskip hsk
        subst hrl
        simp at h
        obtain ⟨_, hw, _⟩ := h; subst hw
        have hskips : skipsRhs c w rhs d.nestedRefs = true := by
          unfold skipsForSet at hsk; simp at hsk; exact hsk.2
        have := relink_inv (rl := .link rhs) (vals' := tg.vals) hi htg hd (fun q v hv => ⟨v, hv⟩) (fun _ _ => rfl)
          ⟨(fun v _ hns => by rw [hskips] at hns; cases hns), hcond.2⟩
        rwa [world_set_self w t tg htg] at this
      · exact setCore_inv hi htg hd hold hcond h
    · simp at h; rw [← h.2.1]; exact hi
  · simp at h; rw [← h.2.1]; exact hi

theorem updateKeys_inv {c : Cfg} {t : Nat} : ∀ {kvs : List (Nat × Rhs)} {w w' : World} {res : Res} {evs : List (Nat × Val)},
    Inv c st w → updateKeys c t kvs w = (res, w', evs) → Inv c st w' := by
  intro kvs
  induction kvs with
  | nil => intro w w' res evs hi h; simp [updateKeys] at h; rw [← h.2.1]; exact hi
  | cons kv rest ih =>
    intro w w' res evs hi h
    obtain ⟨k, r⟩ := kv
    simp only [updateKeys] at h
    split at h
    · simp at h; rw [← h.2.1]; exact hi
    · cases hs : setInst c t k r w with
      | mk r1 q =>
        obtain ⟨w1, e1⟩ := q
        have hi1 := setInst_inv hi hs
        rw [hs] at h
        cases r1 with
        | ok =>
          simp only at h
          cases hr : updateKeys c t rest w1 with
          | mk r2 q2 =>
            obtain ⟨w2, e2⟩ := q2
            rw [hr] at h; simp at h
            rw [← h.2.1]; exact ih hi1 hr
        | raised e => simp at h; rw [← h.2.1]; exact hi1

theorem update_inv {c : Cfg} {t : Nat} {kvs : List (Nat × Rhs)} {w w' : World} {res : Res} {log : List Entry}
    (hi : Inv c st w) (h : update c t kvs w = (res, w', log)) : Inv c st w' := by
  unfold update at h
  cases hu : updateKeys c t (dedupKeys kvs) w with
  | mk r q =>
    obtain ⟨w1, evs⟩ := q
    rw [hu] at h; simp at h
    rw [← h.2.1]; exact updateKeys_inv hi hu

/-- the invariant does not look at the open `update` contexts -/
theorem inv_stack {c : Cfg} {w : World} (stk : List Restorer) (hi : Inv c st w) : Inv c st { w with stack := stk } :=
  ⟨fun t tg p r d v ht hm hd hres hv => hi.tracks t tg p r d v ht hm hd (by rw [← hres]; exact (resolveRhs_congr rfl r _).symm) hv,
   hi.watched, hi.nodup, hi.allow, hi.consts, hi.exact⟩

theorem setCls_inv {c : Cfg} {t p : Nat} {rhs : Rhs} {w w' : World} {res : Res} {log : List Entry}
    (hi : Inv c st w) (h : setCls c t p rhs w = (res, w', log)) : Inv c st w' := by
  cases res with
  | raised e => rw [(setCls_raised h).1]; exact hi
  | ok =>
    unfold setCls at h
    split at h
    · rename_i tg d htg hd
      split at h
      · simp at h
      · split at h
        · simp at h
        · split at h
          · simp at h
          · split at h
            · simp at h
            · simp at h
              rw [← h.1]
              have := inv_update_target (tg' := { tg with dflt := tg.dflt.set p ‹Val› }) (watch' := w.watch) hi htg
                (fun q r hm => Or.inl ⟨hm, rfl⟩)
                (fun q r s i hm hdep hi' hs => hi.watched _ _ _ _ _ _ htg hm hdep hi' hs)
                (fun t' s ws names _ h1 h2 => ⟨ws, h1, h2⟩) rfl (hi.nodup _ tg htg)
                (fun q r d' hm hd' => hi.allow _ _ _ _ _ htg hm hd') (fun q v hv => ⟨v, hv⟩)
                (by
                  intro s ws names i hws hm hin
                  obtain ⟨tg0, q, r, h1, h2, h3⟩ := hi.exact t s ws names i hws hm hin
                  rw [htg] at h1; cases h1
                  exact ⟨q, r, h2, h3⟩)
                (fun t' s ws names _ h1 h2 => ⟨ws, h1, h2⟩)
              simpa [World.setTgt] using this
    · simp at h

theorem ctxEnter_inv {c : Cfg} {t : Nat} {kvs : List (Nat × Rhs)} {w w' : World} {res : Res} {log : List Entry}
    (hi : Inv c st w) (h : ctxEnter c t kvs w = (res, w', log)) : Inv c st w' := by
  unfold ctxEnter at h
  cases hu : update c t kvs w with
  | mk r q =>
    obtain ⟨w1, l⟩ := q
    have hi1 := update_inv hi hu
    rw [hu] at h
    cases r with
    | ok =>
      simp only at h
      split at h
      · simp at h; rw [← h.2.1]; exact inv_stack _ hi1
      · simp at h; rw [← h.2.1]; exact hi
    | raised e => simp at h; rw [← h.2.1]; exact hi1

theorem ctxExit_inv {c : Cfg} {w w' : World} {res : Res} {log : List Entry}
    (hi : Inv c st w) (h : ctxExit c w = (res, w', log)) : Inv c st w' := by
  unfold ctxExit at h
  split at h
  · simp at h; rw [← h.2.1]; exact hi
  · exact update_inv (inv_stack _ hi) h

/-! ### C08: propagation (`_sync_refs`) -/

/-- what the writes of `_sync_refs` do to the world: only the values of target t change; keys that
are not written keep their value; with distinct keys and an `ok` outcome every written key holds
what was written and that value is valid -/
theorem syncKeys_spec {c : Cfg} {t : Nat} : ∀ (ups : List (Nat × Val)) {w w' : World} {tg : Target} {res : Res}
    {evs : List (Nat × Val)}, w.tgts[t]? = some tg → syncKeys c t ups w = (res, w', evs) →
    ∃ vals', w' = { w with tgts := w.tgts.set t { tg with vals := vals' } } ∧
      (∀ (q : Nat), (∀ v, (q, v) ∉ ups) → vals'[q]? = tg.vals[q]?) ∧
      (∀ (q : Nat) (v0 : Val), tg.vals[q]? = some (some v0) → ∃ v1, vals'[q]? = some (some v1)) ∧
      (res = .ok → (ups.map (·.1)).Nodup → ∀ q v, (q, v) ∈ ups →
        vals'[q]? = some (some v) ∧ ∃ d, c.decl t q = some d ∧ d.valid v = true) := by
  intro ups
  induction ups with
  | nil =>
    intro w w' tg res evs htg h
    simp [syncKeys] at h
    refine ⟨tg.vals, ?_, fun _ _ => rfl, fun q v0 h => ⟨v0, h⟩, fun _ _ q v hm => by cases hm⟩
    rw [← h.2.1]; exact (world_set_self w t tg htg).symm
  | cons kv rest ih =>
    intro w w' tg res evs htg h
    obtain ⟨k, v⟩ := kv
    simp only [syncKeys, htg] at h
    split at h
    · rename_i tg0 d heq hd
      simp at heq; subst heq
      split at h
      · rename_i old hold
        cases hs : setCore c t k d old (some v) .keep true w with
        | mk r1 q1 =>
          obtain ⟨w1, e1⟩ := q1
          rw [hs] at h
          cases r1 with
          | raised e =>
            simp at h
            obtain ⟨hr, hw, _⟩ := h
            subst hr hw
            rw [(setCore_raised hs).1]
            exact ⟨tg.vals, (world_set_self w t tg htg).symm, fun _ _ => rfl, fun q v0 h => ⟨v0, h⟩,
              fun h => by cases h⟩
          | ok =>
            simp only at h
            obtain ⟨v0, vals1, hv, hvalid, _, hvals, hw1⟩ := setCore_ok_form htg hs
            simp at hv; subst hv
            have hvals1 : vals1 = tg.vals.set k (some v) := by
              rcases hvals with e | ⟨_, _, _, e⟩
              · exact e
              · cases e
            subst hvals1
            simp only [applyRelink] at hw1
            have hlt : k < tg.vals.length := by
              by_cases hlt : k < tg.vals.length
              · exact hlt
              · exfalso
                have : tg.vals[k]? = none := by simp; omega
                simp [Target.read, this] at hold
            have htg1 : w1.tgts[t]? = some { tg with vals := tg.vals.set k (some v) } := by
              rw [hw1]; simp [tgts_set_get _ _ _ _ _ htg]
            cases hr : syncKeys c t rest w1 with
            | mk r2 q2 =>
              obtain ⟨w2, e2⟩ := q2
              rw [hr] at h
              simp at h
              obtain ⟨hres, hw, _⟩ := h
              subst hres hw
              obtain ⟨vals', hw2, ha, hb, hc⟩ := ih htg1 hr
              refine ⟨vals', ?_, ?_, ?_, ?_⟩
              · rw [hw2, hw1]; simp [List.set_set]
              · intro q hq
                rw [ha q (fun v' hm => hq v' (List.mem_cons_of_mem _ hm))]
                have hne : k ≠ q := fun e => hq v (by rw [e]; exact List.mem_cons_self ..)
                simp [List.getElem?_set_ne hne]
              · intro q v0 hv0
                by_cases e : k = q
                · subst e; exact hb k v (by simp [hlt])
                · exact hb q v0 (by simp [List.getElem?_set_ne e]; exact hv0)
              · intro hok hnd q v' hm
                simp only [List.map_cons, List.nodup_cons] at hnd
                rcases List.mem_cons.1 hm with e | hm'
                · have e1 := (Prod.mk.inj e).1; have e2 := (Prod.mk.inj e).2; subst e1 e2
                  refine ⟨?_, d, hd, hvalid⟩
                  rw [ha q (fun v'' hm'' => hnd.1 (List.mem_map.2 ⟨_, hm'', rfl⟩))]
                  simp [hlt]
                · exact hc hok hnd.2 q v' hm'
      · simp at h
        obtain ⟨_, hw, _⟩ := h; subst hw
        exact ⟨tg.vals, (world_set_self w t tg htg).symm, fun _ _ => rfl, fun q v0 h => ⟨v0, h⟩,
          fun h => by simp_all⟩
    · simp at h
      obtain ⟨_, hw, _⟩ := h; subst hw
      exact ⟨tg.vals, (world_set_self w t tg htg).symm, fun _ _ => rfl, fun q v0 h => ⟨v0, h⟩,
        fun h => by simp_all⟩


theorem mapM_pairs (g : Nat × Rhs → Option Val) : ∀ (l : List (Nat × Rhs)) (out : List (Nat × Val)),
    l.mapM (fun kv => (g kv).map (kv.1, ·)) = some out →
    out.map (·.1) = l.map (·.1) ∧
    (∀ q v, (q, v) ∈ out → ∃ r, (q, r) ∈ l ∧ g (q, r) = some v) ∧
    (∀ q r, (q, r) ∈ l → ∃ v, (q, v) ∈ out ∧ g (q, r) = some v) := by
  intro l
  induction l with
  | nil => intro out h; simp at h; subst h; simp
  | cons a l ih =>
    intro out h
    simp only [List.mapM_cons] at h
    cases hf : g a with
    | none => simp [hf] at h
    | some b =>
      cases hl : l.mapM (fun kv => (g kv).map (kv.1, ·)) with
      | none => simp [hf, hl] at h
      | some bs =>
        simp [hf, hl] at h
        subst h
        obtain ⟨h1, h2, h3⟩ := ih bs hl
        obtain ⟨k, r⟩ := a
        refine ⟨by simp [h1], ?_, ?_⟩
        · intro q v hm
          rcases List.mem_cons.1 hm with e | hm'
          · have e1 := (Prod.mk.inj e).1; have e2 := (Prod.mk.inj e).2; subst e1 e2
            exact ⟨r, List.mem_cons_self .., hf⟩
          · obtain ⟨r', hr, hg⟩ := h2 q v hm'
            exact ⟨r', List.mem_cons_of_mem _ hr, hg⟩
        · intro q r' hm
          rcases List.mem_cons.1 hm with e | hm'
          · have e1 := (Prod.mk.inj e).1; have e2 := (Prod.mk.inj e).2; subst e1 e2
            exact ⟨b, List.mem_cons_self .., hf⟩
          · obtain ⟨v, hv, hg⟩ := h3 q r' hm'
            exact ⟨v, List.mem_cons_of_mem _ hv, hg⟩



/-- parameter q of target t has a link that depends on the source parameter d -/
def dependent (c : Cfg) (t : Nat) (d : SrcP) (refs : List (Nat × Rhs)) (q : Nat) : Prop :=
  ∃ r, (q, r) ∈ refs ∧ d ∈ ldeps c t (q, r)

theorem decl_of_decls {c : Cfg} {t : Nat} {ds : List PDecl} (hds : c.decls[t]? = some ds) (p : Nat) :
    c.decl t p = ds[p]? := by
  simp [Cfg.decl, hds]

/-- `_sync_refs` on target t for a change of d: only the values of t change, only at parameters
whose link depends on d; with an `ok` outcome each of those holds the resolved value of its link,
and that value is valid -/
theorem syncRefs_spec {c : Cfg} {t : Nat} {d : SrcP} {w w' : World} {tg : Target} {res : Res} {log : List Entry}
    (htg : w.tgts[t]? = some tg) (hnd : keysNodup tg.refs) (h : syncRefs c t d w = (res, w', log)) :
    ∃ vals', w' = { w with tgts := w.tgts.set t { tg with vals := vals' } } ∧
      (∀ (q : Nat), ¬ dependent c t d tg.refs q → vals'[q]? = tg.vals[q]?) ∧
      (∀ (q : Nat) (v0 : Val), tg.vals[q]? = some (some v0) → ∃ v1, vals'[q]? = some (some v1)) ∧
      (res = .ok → ∀ q r, (q, r) ∈ tg.refs → d ∈ ldeps c t (q, r) →
        (∀ dcl, c.decl t q = some dcl → skipsRhs c w r dcl.nestedRefs = false) →
        ∃ dcl v, c.decl t q = some dcl ∧ resolveRhs c w r dcl.nestedRefs = some v ∧ dcl.valid v = true ∧
          vals'[q]? = some (some v)) := by
  have trivial_case : w' = w → res ≠ .ok →
      ∃ vals', w' = { w with tgts := w.tgts.set t { tg with vals := vals' } } ∧
      (∀ (q : Nat), ¬ dependent c t d tg.refs q → vals'[q]? = tg.vals[q]?) ∧
      (∀ (q : Nat) (v0 : Val), tg.vals[q]? = some (some v0) → ∃ v1, vals'[q]? = some (some v1)) ∧
      (res = .ok → ∀ q r, (q, r) ∈ tg.refs → d ∈ ldeps c t (q, r) →
        (∀ dcl, c.decl t q = some dcl → skipsRhs c w r dcl.nestedRefs = false) →
        ∃ dcl v, c.decl t q = some dcl ∧ resolveRhs c w r dcl.nestedRefs = some v ∧ dcl.valid v = true ∧
          vals'[q]? = some (some v)) := by
    intro hw hne; subst hw
    exact ⟨tg.vals, (world_set_self w' t tg htg).symm, fun _ _ => rfl, fun q v0 h => ⟨v0, h⟩, fun e => absurd e hne⟩
  unfold syncRefs at h
  simp only [htg] at h
  split at h
  · rename_i tg0 ds heq hds
    simp at heq; subst heq
    split at h
    · rename_i updates hmap
      obtain ⟨hkeys, hfrom, hto⟩ := mapM_pairs _ _ _ hmap
      have hit_mem : ∀ kv, kv ∈ tg.refs.filter (fun kv => match ds[kv.1]? with
            | some pd => (depsOf kv.2 pd.nestedRefs).contains d && !skipsRhs c w kv.2 pd.nestedRefs | none => false) ↔
            kv ∈ tg.refs ∧ d ∈ ldeps c t kv ∧ ∀ dcl, c.decl t kv.1 = some dcl → skipsRhs c w kv.2 dcl.nestedRefs = false := by
        intro kv
        simp only [List.mem_filter, ldeps, decl_of_decls hds]
        cases ds[kv.1]? <;> simp
      cases hs : syncKeys c t updates w with
      | mk r1 q1 =>
        obtain ⟨w1, evs⟩ := q1
        rw [hs] at h
        simp at h
        obtain ⟨hr, hw, _⟩ := h
        subst hr hw
        obtain ⟨vals', hw1, ha, hb, hc⟩ := syncKeys_spec updates htg hs
        refine ⟨vals', hw1, ?_, hb, ?_⟩
        · intro q hq
          apply ha
          intro v hm
          obtain ⟨r, hr, _⟩ := hfrom q v hm
          exact hq ⟨r, ((hit_mem _).1 hr).1, ((hit_mem _).1 hr).2.1⟩
        · intro hok q r hm hdep hns
          obtain ⟨v, hv, hg⟩ := hto q r ((hit_mem _).2 ⟨hm, hdep, hns⟩)
          have hnd' : (updates.map (·.1)).Nodup := by
            rw [hkeys]
            exact List.Nodup.sublist (List.Sublist.map _ List.filter_sublist) hnd
          obtain ⟨hval, dcl, hdcl, hvalid⟩ := hc hok hnd' q v hv
          refine ⟨dcl, v, hdcl, ?_, hvalid, hval⟩
          rw [decl_of_decls hds] at hdcl
          simpa [hdcl] using hg
    · simp at h
      exact trivial_case h.2.1.symm (by rw [← h.1]; simp)
  · simp at h
    exact trivial_case h.2.1.symm (by rw [← h.1]; simp)

/-- the effect of running the `_sync_refs` watchers `ws` for a change of d -/
structure SyncPost (c : Cfg) (d : SrcP) (ws : List Nat) (res : Res) (w w' : World) : Prop where
  src : w'.src = w.src
  watch : w'.watch = w.watch
  stack : w'.stack = w.stack
  len : w'.tgts.length = w.tgts.length
  tg : ∀ (t : Nat) (tg : Target), w.tgts[t]? = some tg →
    ∃ vals', w'.tgts[t]? = some { tg with vals := vals' } ∧
      (∀ (q : Nat), ¬ dependent c t d tg.refs q → vals'[q]? = tg.vals[q]?) ∧
      (∀ (q : Nat) (v0 : Val), tg.vals[q]? = some (some v0) → ∃ v1, vals'[q]? = some (some v1)) ∧
      (t ∉ ws → vals' = tg.vals) ∧
      (res = .ok → t ∈ ws → ∀ q r, (q, r) ∈ tg.refs → d ∈ ldeps c t (q, r) →
        (∀ dcl, c.decl t q = some dcl → skipsRhs c w r dcl.nestedRefs = false) →
        ∃ dcl v, c.decl t q = some dcl ∧ resolveRhs c w r dcl.nestedRefs = some v ∧ dcl.valid v = true ∧
          vals'[q]? = some (some v))

theorem SyncPost.refl (c : Cfg) (d : SrcP) (res : Res) (w : World) (hne : res ≠ .ok) (ws : List Nat) :
    SyncPost c d ws res w w :=
  ⟨rfl, rfl, rfl, rfl, fun _ tg h => ⟨tg.vals, h, fun _ _ => rfl, fun _ v0 h => ⟨v0, h⟩, fun _ => rfl, fun e => absurd e hne⟩⟩

theorem syncAll_spec {c : Cfg} {d : SrcP} : ∀ (ws : List Nat) {w w' : World} {res : Res} {log : List Entry},
    (∀ (t : Nat) (tg : Target), w.tgts[t]? = some tg → keysNodup tg.refs) → syncAll c d ws w = (res, w', log) →
    SyncPost c d ws res w w' := by
  intro ws
  induction ws with
  | nil =>
    intro w w' res log _ h
    simp [syncAll] at h
    obtain ⟨hr, hw, _⟩ := h; subst hr hw
    exact ⟨rfl, rfl, rfl, rfl, fun t tg h => ⟨tg.vals, h, fun _ _ => rfl, fun q v0 h => ⟨v0, h⟩, fun _ => rfl,
      fun _ hm => by cases hm⟩⟩
  | cons t0 rest ih =>
    intro w w' res log hnd h
    simp only [syncAll] at h
    cases hs : syncRefs c t0 d w with
    | mk r1 q1 =>
      obtain ⟨w1, l1⟩ := q1
      rw [hs] at h
      cases htg0 : w.tgts[t0]? with
      | none =>
        have : r1 = .raised .notModelled ∧ w1 = w := by
          unfold syncRefs at hs; simp [htg0] at hs; exact ⟨hs.1.symm, hs.2.1.symm⟩
        obtain ⟨e1, e2⟩ := this; subst e1 e2
        simp at h
        obtain ⟨hr, hw, _⟩ := h; subst hr hw
        exact SyncPost.refl c d _ _ (by simp) _
      | some tg0 =>
        obtain ⟨v1, hw1, ha1, hb1, hc1⟩ := syncRefs_spec htg0 (hnd _ _ htg0) hs
        have hget := fun t' x => tgts_set_get w.tgts t0 t' x tg0 htg0
        have hsrc1 : w1.src = w.src := by rw [hw1]
        cases r1 with
        | raised e =>
          simp at h
          obtain ⟨hr, hw, _⟩ := h; subst hr hw
          refine ⟨hsrc1, by rw [hw1], by rw [hw1], by rw [hw1]; simp, ?_⟩
          intro t tg htg
          by_cases e : t0 = t
          · subst e; rw [htg0] at htg; cases htg
            exact ⟨v1, by rw [hw1]; simp [hget], ha1, hb1, fun hn => absurd (List.mem_cons_self ..) hn,
              fun e => by cases e⟩
          · exact ⟨tg.vals, by rw [hw1]; simp [hget, e, htg], fun _ _ => rfl, fun q v0 h => ⟨v0, h⟩,
              fun _ => rfl, fun e => by cases e⟩
        | ok =>
          simp only at h
          cases hr : syncAll c d rest w1 with
          | mk r2 q2 =>
            obtain ⟨w2, l2⟩ := q2
            rw [hr] at h
            simp at h
            obtain ⟨hres, hw, _⟩ := h; subst hres hw
            have hnd1 : ∀ (t : Nat) (tg : Target), w1.tgts[t]? = some tg → keysNodup tg.refs := by
              intro t tg htg
              rw [hw1] at htg; simp only [hget] at htg
              split at htg
              · simp at htg; subst htg; exact hnd _ tg0 htg0
              · exact hnd _ _ htg
            have post := ih hnd1 hr
            refine ⟨post.src.trans hsrc1, post.watch.trans (by rw [hw1]), post.stack.trans (by rw [hw1]),
              post.len.trans (by rw [hw1]; simp), ?_⟩
            intro t tg htg
            by_cases e : t0 = t
            · subst e; rw [htg0] at htg; cases htg
              have htg1 : w1.tgts[t0]? = some { tg0 with vals := v1 } := by rw [hw1]; simp [hget]
              obtain ⟨v2, h2, ha2, hb2, hu2, hc2⟩ := post.tg t0 _ htg1
              refine ⟨v2, h2, ?_, ?_, fun hn => absurd (List.mem_cons_self ..) hn, ?_⟩
              · intro q hq; rw [ha2 q hq]; exact ha1 q hq
              · intro q v0 hv0
                obtain ⟨v', hv'⟩ := hb1 q v0 hv0
                exact hb2 q v' hv'
              · intro hok _ q r hm hdep hns
                have hns1 : ∀ dcl, c.decl t0 q = some dcl → skipsRhs c w1 r dcl.nestedRefs = false :=
                  fun dcl hd => by rw [skipsRhs_congr hsrc1]; exact hns dcl hd
                by_cases hmem : t0 ∈ rest
                · obtain ⟨dcl, v, h1, h2', h3, h4⟩ := hc2 hok hmem q r hm hdep hns1
                  exact ⟨dcl, v, h1, by rw [← h2']; exact (resolveRhs_congr hsrc1 r _).symm, h3, h4⟩
                · obtain ⟨dcl, v, h1, h2', h3, h4⟩ := hc1 rfl q r hm hdep hns
                  exact ⟨dcl, v, h1, h2', h3, by rw [hu2 hmem]; exact h4⟩
            · have htg1 : w1.tgts[t]? = some tg := by rw [hw1]; simp [hget, e, htg]
              obtain ⟨v2, h2, ha2, hb2, hu2, hc2⟩ := post.tg t _ htg1
              refine ⟨v2, h2, ha2, hb2, fun hn => hu2 (fun hm => hn (List.mem_cons_of_mem _ hm)), ?_⟩
              intro hok hmem q r hm hdep hns
              have hmem' : t ∈ rest := by
                rcases List.mem_cons.1 hmem with e' | h'
                · exact absurd e'.symm e
                · exact h'
              obtain ⟨dcl, v, h1, h2', h3, h4⟩ := hc2 hok hmem' q r hm hdep
                (fun dcl hd => by rw [skipsRhs_congr hsrc1]; exact hns dcl hd)
              exact ⟨dcl, v, h1, by rw [← h2']; exact (resolveRhs_congr hsrc1 r _).symm, h3, h4⟩

theorem mapM_congr_mem {α β : Type} {f g : α → Option β} : ∀ (l : List α), (∀ a ∈ l, f a = g a) → l.mapM f = l.mapM g := by
  intro l
  induction l with
  | nil => intro _; rfl
  | cons a l ih =>
    intro h
    simp only [List.mapM_cons]
    rw [h a (List.mem_cons_self ..), ih (fun x hx => h x (List.mem_cons_of_mem _ hx))]

theorem resolveAtom_frame {c : Cfg} {w w' : World} (a : Atom) (h : ∀ d ∈ a.deps, readSrc w' d = readSrc w d) :
    resolveAtom c w' a = resolveAtom c w a := by
  cases a with
  | lit n => rfl
  | par s i => simp [resolveAtom, h (s, i) (by simp [Atom.deps])]
  | fn deps k rx =>
    simp only [resolveAtom]
    rw [mapM_congr_mem deps (fun d hd => h d (by simpa [Atom.deps] using hd))]

/-- a reference resolves to the same value in two worlds that agree on its dependencies -/
theorem resolveRhs_frame {c : Cfg} {w w' : World} (r : Rhs) (n : Bool)
    (h : ∀ d ∈ depsOf r n, readSrc w' d = readSrc w d) : resolveRhs c w' r n = resolveRhs c w r n := by
  cases r with
  | atom a => simp only [resolveRhs]; rw [resolveAtom_frame a (by simpa [depsOf] using h)]
  | cont items =>
    simp only [resolveRhs]
    cases n with
    | false => rfl
    | true =>
      simp only [if_true]
      rw [mapM_congr_mem items (fun a ha => resolveAtom_frame a (fun d hd => h d (by
        simp only [depsOf, if_true, List.mem_flatMap]; exact ⟨a, ha, hd⟩)))]
  | cont2 rows =>
    simp only [resolveRhs]
    cases n with
    | false => rfl
    | true =>
      simp only [if_true]
      rw [mapM_congr_mem rows (fun row hrow => mapM_congr_mem row (fun a ha => resolveAtom_frame a (fun d hd => h d (by
        simp only [depsOf, if_true, List.mem_flatMap]; exact ⟨row, hrow, a, ha, hd⟩))))]

theorem skipsAtom_frame {c : Cfg} {w w' : World} (a : Atom) (h : ∀ d ∈ a.deps, readSrc w' d = readSrc w d) :
    a.skips c w' = a.skips c w := by
  cases a with
  | lit n => rfl
  | par s i => rfl
  | fn deps k rx sk =>
    cases sk with
    | none => rfl
    | some b =>
      simp only [Atom.skips]
      rw [mapM_congr_mem deps (fun d hd => h d (by simpa [Atom.deps] using hd))]

/-- whether a reference raises Skip depends only on its dependencies -/
theorem skipsRhs_frame {c : Cfg} {w w' : World} (r : Rhs) (n : Bool)
    (h : ∀ d ∈ depsOf r n, readSrc w' d = readSrc w d) : skipsRhs c w' r n = skipsRhs c w r n := by
  cases r with
  | atom a => simp only [skipsRhs]; exact skipsAtom_frame a (by simpa [depsOf] using h)
  | cont items =>
    simp only [skipsRhs]
    cases n with
    | false => rfl
    | true =>
      simp only [Bool.true_and]
      have : ∀ a ∈ items, Atom.skips c w' a = Atom.skips c w a := fun a ha =>
        skipsAtom_frame a (fun d hd => h d (by simp only [depsOf, if_true, List.mem_flatMap]; exact ⟨a, ha, hd⟩))
      apply Bool.eq_iff_iff.2
      simp only [List.any_eq_true]
      constructor
      · rintro ⟨a, ha, h⟩; exact ⟨a, ha, by rw [← this a ha]; exact h⟩
      · rintro ⟨a, ha, h⟩; exact ⟨a, ha, by rw [this a ha]; exact h⟩
  | cont2 rows =>
    simp only [skipsRhs]
    cases n with
    | false => rfl
    | true =>
      simp only [Bool.true_and]
      have : ∀ row ∈ rows, ∀ a ∈ row, Atom.skips c w' a = Atom.skips c w a := fun row hrow a ha =>
        skipsAtom_frame a (fun d hd => h d (by simp only [depsOf, if_true, List.mem_flatMap]; exact ⟨row, hrow, a, ha, hd⟩))
      apply Bool.eq_iff_iff.2
      simp only [List.any_eq_true]
      constructor
      · rintro ⟨row, hrow, a, ha, h⟩; exact ⟨row, hrow, a, ha, by rw [← this row hrow a ha]; exact h⟩
      · rintro ⟨row, hrow, a, ha, h⟩; exact ⟨row, hrow, a, ha, by rw [this row hrow a ha]; exact h⟩

theorem readSrc_set {w : World} {s i : Nat} {row : List Int} {v : Int} (hrow : w.src[s]? = some row) (d : SrcP)
    (hne : d ≠ (s, i)) : readSrc { w with src := w.src.set s (row.set i v) } d = readSrc w d := by
  obtain ⟨s', i'⟩ := d
  simp only [readSrc]
  by_cases e : s = s'
  · subst e
    have : i ≠ i' := fun e => hne (by rw [e])
    have hlt : s < w.src.length := by
      by_cases hlt : s < w.src.length
      · exact hlt
      · exfalso; have : w.src[s]? = none := by simp; omega
        rw [this] at hrow; cases hrow
    have hrow' : w.src[s] = row := by simpa [hlt] using hrow
    simp [hlt, List.getElem?_set_ne this, hrow']
  · simp [List.getElem?_set_ne e]

/-- `S<s>.v<i> = v`, whatever the outcome: watchers, links, class defaults and open contexts are
untouched; of the target values only those whose link depends on the source parameter can change,
and a value that was set stays set -/
theorem srcSet_frame {c : Cfg} {s i : Nat} {v : Int} {w w' : World} {res : Res} {log : List Entry}
    (hnd : ∀ (t : Nat) (tg : Target), w.tgts[t]? = some tg → keysNodup tg.refs)
    (h : srcSet c s i v w = (res, w', log)) :
    w'.watch = w.watch ∧ w'.stack = w.stack ∧ w'.tgts.length = w.tgts.length ∧
    (∀ d, d ≠ (s, i) → readSrc w' d = readSrc w d) ∧
    ∀ (t : Nat) (tg : Target), w.tgts[t]? = some tg →
      ∃ vals', w'.tgts[t]? = some { tg with vals := vals' } ∧
        (∀ (q : Nat), ¬ dependent c t (s, i) tg.refs q → vals'[q]? = tg.vals[q]?) ∧
        (∀ (q : Nat) (v0 : Val), tg.vals[q]? = some (some v0) → ∃ v1, vals'[q]? = some (some v1)) := by
  have same : w' = w → w'.watch = w.watch ∧ w'.stack = w.stack ∧ w'.tgts.length = w.tgts.length ∧
    (∀ d, d ≠ (s, i) → readSrc w' d = readSrc w d) ∧
    ∀ (t : Nat) (tg : Target), w.tgts[t]? = some tg →
      ∃ vals', w'.tgts[t]? = some { tg with vals := vals' } ∧
        (∀ (q : Nat), ¬ dependent c t (s, i) tg.refs q → vals'[q]? = tg.vals[q]?) ∧
        (∀ (q : Nat) (v0 : Val), tg.vals[q]? = some (some v0) → ∃ v1, vals'[q]? = some (some v1)) := by
    intro e; subst e
    exact ⟨rfl, rfl, rfl, fun _ _ => rfl, fun t tg h => ⟨tg.vals, h, fun _ _ => rfl, fun q v0 h => ⟨v0, h⟩⟩⟩
  unfold srcSet at h
  split at h
  · simp at h; exact same h.2.1.symm
  · split at h
    · rename_i old row hold hrow
      simp only at h
      split at h
      · simp at h
        obtain ⟨_, hw, _⟩ := h; subst hw
        exact ⟨rfl, rfl, rfl, fun d hne => readSrc_set hrow d hne,
          fun t tg h => ⟨tg.vals, h, fun _ _ => rfl, fun q v0 h => ⟨v0, h⟩⟩⟩
      · cases hs : syncAll c (s, i) (List.map (fun x => x.fst) (List.filter (fun x => x.snd.contains i) (w.watch[s]?.getD [])))
            { w with src := w.src.set s (row.set i v) } with
        | mk r1 q1 =>
          obtain ⟨w2, l⟩ := q1
          have post := syncAll_spec _ (w := { w with src := w.src.set s (row.set i v) }) hnd hs
          rw [hs] at h
          have hw : w' = w2 := by
            cases r1 <;> simp at h <;> exact h.2.1.symm
          subst hw
          refine ⟨post.watch, post.stack, post.len, ?_, ?_⟩
          · intro d hne
            rw [readSrc_congr post.src]; exact readSrc_set hrow d hne
          · intro t tg htg
            obtain ⟨vals', h1, h2, h3, _, _⟩ := post.tg t tg htg
            exact ⟨vals', h1, h2, h3⟩
    · simp at h; exact same h.2.1.symm

theorem ldeps_eq {c : Cfg} {t p : Nat} {r : Rhs} {d : PDecl} (hd : c.decl t p = some d) :
    ldeps c t (p, r) = depsOf r d.nestedRefs := by
  simp [ldeps, hd]

/-- a source update and the stale set.  Whatever the outcome, links that do not depend on the updated
source parameter resolve to what they resolved to before and keep their value; when the update does
not raise and changes the value, every dependent link is re-resolved and written (it is watched), so
the parameter stops being stale; when it raises it becomes stale; structure (watchers, links) never
moves.  `st'` is any stale set that keeps the other stale entries, contains (s, i) after a raise, and
keeps everything when the value did not change (then nothing was synced). -/
theorem srcSet_inv {c : Cfg} {s i : Nat} {v : Int} {w w' : World} {res : Res} {log : List Entry} {st' : List SrcP}
    (hi : Inv c st w) (h : srcSet c s i v w = (res, w', log))
    (h1 : ∀ d ∈ st, d ≠ (s, i) → d ∈ st')
    (h2 : res ≠ .ok → (s, i) ∈ st')
    (h3 : readSrc w (s, i) = some v → ∀ d ∈ st, d ∈ st') : Inv c st' w' := by
  have hfr := srcSet_frame hi.nodup h
  obtain ⟨hwatch, _, hlen, hread, htgs⟩ := hfr
  -- the target a post-state target comes from
  have back : ∀ (t : Nat) (tg' : Target), w'.tgts[t]? = some tg' → ∃ tg vals', w.tgts[t]? = some tg ∧
      tg' = { tg with vals := vals' } ∧
      (∀ (q : Nat), ¬ dependent c t (s, i) tg.refs q → vals'[q]? = tg.vals[q]?) ∧
      (∀ (q : Nat) (v0 : Val), tg.vals[q]? = some (some v0) → ∃ v1, vals'[q]? = some (some v1)) := by
    intro t tg' ht
    have hlt : t < w.tgts.length := by
      by_cases hlt : t < w'.tgts.length
      · omega
      · exfalso; have : w'.tgts[t]? = none := by simp; omega
        rw [this] at ht; cases ht
    obtain ⟨vals', h1, h2, h3⟩ := htgs t w.tgts[t] (by simp [hlt])
    rw [ht] at h1; cases h1
    exact ⟨w.tgts[t], vals', by simp [hlt], rfl, h2, h3⟩
  refine ⟨?_, ?_, ?_, ?_, ?_, ?_⟩
  · -- tracks
    intro t tg' p r dcl v0 ht hm hd hres hsk hvalid hst
    obtain ⟨tg, vals', htg, e, hnondep, _⟩ := back t tg' ht
    subst e
    simp only at hm ⊢
    by_cases hdep : (s, i) ∈ ldeps c t (p, r)
    · -- the link depends on the changed source: it was re-resolved and written
      cases res with
      | raised e => exact absurd (h2 (by simp)) (hst _ hdep)
      | ok =>
      unfold srcSet at h
      split at h
      · simp at h
      · rename_i hguard
        simp only [Bool.or_eq_true, decide_eq_true_eq, not_or, Nat.not_le] at hguard
        split at h
        · rename_i old row hold hrow
          simp only at h
          split at h
          · -- same value: nothing moved, the sources are literally the same
            rename_i heq
            simp at heq; subst heq
            simp at h
            have hrow' : row.set i old = row := by
              have : row[i]? = some old := by simpa [readSrc, hrow] using hold
              apply List.ext_getElem?; intro j; rw [List.getElem?_set]; grind
            have hsrc : w.src.set s row = w.src := by
              apply List.ext_getElem?; intro j; rw [List.getElem?_set]; grind
            obtain ⟨hw, _⟩ := h
            have hsrc' : w'.src = w.src := by rw [← hw]; simp [hrow', hsrc]
            have : w'.tgts = w.tgts := by rw [← hw]
            rw [this, htg] at ht
            have hv : tg.vals = vals' := congrArg Target.vals (Option.some.inj ht)
            rw [← hv]
            exact hi.tracks _ _ _ _ _ _ htg hm hd (by rw [← hres]; exact (resolveRhs_congr hsrc' r _).symm)
              (by rw [← hsk]; exact (skipsRhs_congr hsrc' r _).symm) hvalid
              (fun x hx hxs => hst x hx (h3 hold x hxs))
          · cases hs : syncAll c (s, i) (List.map (fun x => x.fst) (List.filter (fun x => x.snd.contains i) (w.watch[s]?.getD [])))
                { w with src := w.src.set s (row.set i v) } with
            | mk r1 q1 =>
              obtain ⟨w2, l⟩ := q1
              have post := syncAll_spec _ (w := { w with src := w.src.set s (row.set i v) }) hi.nodup hs
              rw [hs] at h
              cases r1 with
              | raised e => simp at h
              | ok =>
                simp at h
                obtain ⟨hw, _⟩ := h; subst hw
                obtain ⟨ws0, names, hws0, hmem, hin⟩ := hi.watched _ _ _ _ _ _ htg hm hdep hguard.1 hguard.2
                have hin_ws : t ∈ List.map (fun x => x.fst) (List.filter (fun x => x.snd.contains i) (w.watch[s]?.getD [])) := by
                  rw [hws0]; simp only [Option.getD_some, List.mem_map, List.mem_filter]
                  exact ⟨(t, names), ⟨hmem, by simpa using hin⟩, rfl⟩
                obtain ⟨vals2, h1, _, _, _, hpost⟩ := post.tg t tg htg
                rw [ht] at h1; cases h1
                obtain ⟨dcl', v', hd', hres', _, hval'⟩ := hpost rfl hin_ws p r hm hdep
                  (fun dcl' hd' => by rw [hd] at hd'; cases hd'; rw [← hsk]; exact (skipsRhs_congr post.src r _).symm)
                rw [hd] at hd'; cases hd'
                rw [resolveRhs_congr post.src] at hres
                rw [hres'] at hres; cases hres
                exact hval'
        · simp at h
    · -- the link does not depend on it: same resolved value, same stored value
      have hnd : ¬ dependent c t (s, i) tg.refs p := by
        rintro ⟨r', hm', hdep'⟩
        rw [keysNodup_unique (hi.nodup _ _ htg) hm' hm] at hdep'
        exact hdep hdep'
      rw [hnondep p hnd]
      have hagree : ∀ d ∈ depsOf r dcl.nestedRefs, readSrc w' d = readSrc w d := by
        intro d hdm
        apply hread
        intro e; subst e
        rw [ldeps_eq hd] at hdep
        exact hdep hdm
      refine hi.tracks _ _ _ _ _ _ htg hm hd ?_ ?_ hvalid
        (fun x hx hxs => hst x hx (h1 x hxs (fun e => hdep (e ▸ hx))))
      · rw [← hres]; exact (resolveRhs_frame r _ hagree).symm
      · rw [← hsk]; exact (skipsRhs_frame r _ hagree).symm
  · intro t tg' p r s' i' ht hm hdep hi' hs'
    obtain ⟨tg, vals', htg, e, _, _⟩ := back t tg' ht
    subst e
    rw [hwatch] at hs' ⊢
    exact hi.watched _ _ _ _ _ _ htg hm hdep hi' hs'
  · intro t tg' ht
    obtain ⟨tg, vals', htg, e, _, _⟩ := back t tg' ht
    subst e; exact hi.nodup _ tg htg
  · intro t tg' p r d ht hm hd
    obtain ⟨tg, vals', htg, e, _, _⟩ := back t tg' ht
    subst e; exact hi.allow _ _ _ _ _ htg hm hd
  · intro t tg' p d ht hd hc
    obtain ⟨tg, vals', htg, e, _, hsome⟩ := back t tg' ht
    subst e
    obtain ⟨v0, hv0⟩ := hi.consts _ _ _ _ htg hd hc
    exact hsome p v0 hv0
  · intro t s' ws names i' hws hm hin
    rw [hwatch] at hws
    obtain ⟨tg, q, r, h1, h2, h3⟩ := hi.exact t s' ws names i' hws hm hin
    obtain ⟨vals', h4, _, _⟩ := htgs t tg h1
    exact ⟨_, q, r, h4, h2, h3⟩

/-! ### every operation keeps the invariant -/


/-- the stale set after an operation: a source update that raises makes its parameter stale, one that
succeeds with a new value makes it fresh again, everything else leaves the set alone -/
def staleAfter (c : Cfg) (op : Op) (w : World) (st : List SrcP) : List SrcP :=
  match op with
  | .srcSet s i v =>
    match (step c op w).1 with
    | .ok => if readSrc w (s, i) = some v then st else st.filter (· != (s, i))
    | .raised _ => (s, i) :: st
  | _ => st

/-- every operation keeps the invariant, whatever its outcome, with the stale set updated as above -/
theorem step_inv {c : Cfg} {op : Op} {w w' : World} {res : Res} {log : List Entry}
    (hi : Inv c st w) (h : step c op w = (res, w', log)) : Inv c (staleAfter c op w st) w' := by
  have hres : (step c op w).1 = res := by rw [h]
  unfold step at h
  split at h
  · simp at h; rw [← h.2.1]
    cases op <;> first | exact hi | skip
    rename_i hns; simp [Op.supported] at hns
  · cases op with
    | set t p rhs =>
      simp only at h
      split at h
      · simp at h; rw [← h.2.1]; exact hi
      · cases hs : setInst c t p rhs w with
        | mk r q =>
          obtain ⟨w1, evs⟩ := q
          rw [hs] at h; simp at h
          rw [← h.2.1]; exact setInst_inv hi hs
    | setCls t p rhs => exact setCls_inv hi h
    | update t kvs =>
      simp only at h
      split at h
      · exact update_inv hi h
      · simp at h; rw [← h.2.1]; exact hi
    | ctxEnter t kvs =>
      simp only at h
      split at h
      · exact ctxEnter_inv hi h
      · simp at h; rw [← h.2.1]; exact hi
    | ctxExit => exact ctxExit_inv hi h
    | srcSet s i v =>
      simp only at h
      simp only [staleAfter, hres]
      cases res with
      | ok =>
        simp only
        by_cases hsame : readSrc w (s, i) = some v
        · rw [if_pos hsame]
          exact srcSet_inv hi h (fun d hd _ => hd) (fun hne => absurd rfl hne) (fun _ d hd => hd)
        · rw [if_neg hsame]
          exact srcSet_inv hi h (fun d hd hne => List.mem_filter.2 ⟨hd, by simpa using hne⟩)
            (fun hne => absurd rfl hne) (fun e => absurd e hsame)
      | raised e =>
        simp only
        refine srcSet_inv hi h (fun d hd _ => List.mem_cons_of_mem _ hd) (fun _ => List.mem_cons_self ..) ?_
        intro _ d hd; exact List.mem_cons_of_mem _ hd


/-! ### frames -/


theorem decls_of_decl {c : Cfg} {t p : Nat} {d : PDecl} (hd : c.decl t p = some d) : ∃ ds, c.decls[t]? = some ds := by
  unfold Cfg.decl at hd
  cases h : c.decls[t]? with
  | none => simp [h] at hd
  | some ds => exact ⟨ds, rfl⟩

/-- the world after `applyRelink` on a world whose target t has just been stored into -/
theorem applyRelink_form {c : Cfg} {t p : Nat} {d : PDecl} {rl : Relink} {w : World} {tg : Target} {vals' : List (Option Val)}
    (htg : w.tgts[t]? = some tg) (hd : c.decl t p = some d) :
    ∃ refs' watch', applyRelink c t p rl { w with tgts := w.tgts.set t { tg with vals := vals' } } =
        { w with watch := watch', tgts := w.tgts.set t { tg with vals := vals', refs := refs' } } ∧
      (match rl with
        | .keep => refs' = tg.refs ∧ watch' = w.watch
        | .drop => refs' = dictDel tg.refs p ∧
            ∃ ds, c.decls[t]? = some ds ∧ watch' = setupRefs c t (allDeps ds refs') (unwatchAll t w.watch)
        | .link r => refs' = dictSet tg.refs p r ∧
            ∃ ds, c.decls[t]? = some ds ∧ watch' = setupRefs c t (allDeps ds refs') (unwatchAll t w.watch)) := by
  have hget := fun t' x => tgts_set_get w.tgts t t' x tg htg
  cases rl with
  | keep => exact ⟨tg.refs, w.watch, by simp [applyRelink], rfl, rfl⟩
  | drop =>
    obtain ⟨ds, hds⟩ := decls_of_decl hd
    exact ⟨dictDel tg.refs p, _, by simp [applyRelink, updateRef, hget, hds, List.set_set], rfl, ds, hds, rfl⟩
  | link r =>
    obtain ⟨ds, hds⟩ := decls_of_decl hd
    exact ⟨dictSet tg.refs p r, _, by simp [applyRelink, updateRef, hget, hds, List.set_set], rfl, ds, hds, rfl⟩

/-- `t.p = rhs`, whatever the outcome: sources and open contexts untouched, other targets untouched,
and in target t every parameter other than p keeps its value and its link -/
theorem setInst_frame {c : Cfg} {t p : Nat} {rhs : Rhs} {w w' : World} {res : Res} {evs : List (Nat × Val)}
    {tg : Target} (htg : w.tgts[t]? = some tg) (h : setInst c t p rhs w = (res, w', evs)) :
    w'.src = w.src ∧ w'.stack = w.stack ∧ (∀ t', t' ≠ t → w'.tgts[t']? = w.tgts[t']?) ∧
    ∃ tg', w'.tgts[t]? = some tg' ∧ tg'.dflt = tg.dflt ∧
      ∀ q, q ≠ p → dictGet tg'.refs q = dictGet tg.refs q ∧ tg'.vals[q]? = tg.vals[q]? := by
  have same : w' = w → w'.src = w.src ∧ w'.stack = w.stack ∧ (∀ t', t' ≠ t → w'.tgts[t']? = w.tgts[t']?) ∧
      ∃ tg', w'.tgts[t]? = some tg' ∧ tg'.dflt = tg.dflt ∧
        ∀ q, q ≠ p → dictGet tg'.refs q = dictGet tg.refs q ∧ tg'.vals[q]? = tg.vals[q]? := by
    intro e; subst e; exact ⟨rfl, rfl, fun _ _ => rfl, tg, htg, rfl, fun _ _ => ⟨rfl, rfl⟩⟩
  cases res with
  | raised e => exact same (setInst_raised h).1
  | ok =>
    unfold setInst at h
    simp only [htg] at h
    split at h
    · rename_i tg0 d heq hd
      simp at heq; subst heq
      split at h
      · rename_i old v rl hold hres
        -- the values after the store (none when the reference had no value to offer)
        have hstore : ∃ vals', (∀ q, q ≠ p → vals'[q]? = tg.vals[q]?) ∧
            w' = applyRelink c t p rl { w with tgts := w.tgts.set t { tg with vals := vals' } } := by
          split at h
          · simp at h
            exact ⟨tg.vals, fun _ _ => rfl, by rw [world_set_self w t tg htg]; exact h.1.symm⟩
          · obtain ⟨v0, vals', _, _, _, hvals, hw⟩ := setCore_ok_form htg h
            refine ⟨vals', ?_, hw⟩
            intro q hq
            rcases hvals with e | ⟨e, _⟩
            · subst e; simp [List.getElem?_set_ne (fun e => hq e.symm)]
            · subst e; rfl
        obtain ⟨vals', hvals, hw⟩ := hstore
        obtain ⟨refs', watch', hform, hrl⟩ := applyRelink_form (rl := rl) (vals' := vals') htg hd
        rw [hform] at hw; subst hw
        have hget := fun t' x => tgts_set_get w.tgts t t' x tg htg
        refine ⟨rfl, rfl, fun t' hne => ?_, { tg with vals := vals', refs := refs' }, ?_, rfl, ?_⟩
        · simp only [hget]; rw [if_neg (fun e => hne e.symm)]
        · simp only [hget]; simp
        intro q hq
        constructor
        · cases rl with
          | keep => simp only at hrl; rw [hrl.1]
          | drop => simp only at hrl; rw [hrl.1]; exact dictGet_dictDel_ne _ _ _ hq
          | link r => simp only at hrl; rw [hrl.1]; exact dictGet_dictSet_ne _ _ _ _ hq
        · exact hvals q hq
      · simp at h
    · simp at h

/-! ### construction -/


theorem dedupKeys_keys_sub : ∀ (l : List (Nat × Rhs)) (k : Nat), k ∈ (dedupKeys l).map (·.1) → k ∈ l.map (·.1) := by
  intro l
  induction l with
  | nil => intro k h; simp [dedupKeys] at h
  | cons a l ih =>
    intro k h
    obtain ⟨k0, v0⟩ := a
    simp only [dedupKeys] at h
    split at h
    · simp only [List.map_cons, List.mem_cons] at h ⊢
      rcases h with e | h
      · exact Or.inl e
      · right; apply ih
        simp only [List.mem_map] at h ⊢
        obtain ⟨x, hx, rfl⟩ := h
        exact ⟨x, (List.mem_filter.1 hx).1, rfl⟩
    · simp only [List.map_cons, List.mem_cons] at h ⊢
      rcases h with e | h
      · exact Or.inl e
      · exact Or.inr (ih k h)

theorem dedupKeys_nodup : ∀ (l : List (Nat × Rhs)), ((dedupKeys l).map (·.1)).Nodup := by
  intro l
  induction l with
  | nil => simp [dedupKeys]
  | cons a l ih =>
    obtain ⟨k0, v0⟩ := a
    simp only [dedupKeys]
    split
    · simp only [List.map_cons, List.nodup_cons]
      refine ⟨?_, List.Nodup.sublist (List.Sublist.map _ List.filter_sublist) ih⟩
      simp [List.mem_map, List.mem_filter]
    · rename_i hnone
      simp only [List.map_cons, List.nodup_cons]
      refine ⟨?_, ih⟩
      simp only [List.find?_eq_none] at hnone
      intro hm
      simp only [List.mem_map] at hm
      obtain ⟨x, hx, e⟩ := hm
      exact hnone x hx (by simp [e])

/-- what the keyword loop of the constructor maintains about the instance under construction -/
structure CtorOK (c : Cfg) (ds : List PDecl) (w : World) (vals0 : List (Option Val)) (tg : Target) : Prop where
  links : ∀ (p : Nat) (r : Rhs), (p, r) ∈ tg.refs → ∃ d, ds[p]? = some d ∧ d.allowRefs = true ∧
    ∀ v, resolveRhs c w r d.nestedRefs = some v → skipsRhs c w r d.nestedRefs = false → tg.vals[p]? = some (some v)
  nodup : keysNodup tg.refs
  somes : ∀ (q : Nat) (v : Val), vals0[q]? = some (some v) → ∃ v', tg.vals[q]? = some (some v')
  len : tg.vals.length = vals0.length

/-- what `resolveForSet` returns, by shape -/
theorem resolveForSet_shape {c : Cfg} {d : PDecl} {linked : Bool} {rhs : Rhs} {w : World} {v : Option Val} {rl : Relink}
    (hres : resolveForSet c d linked rhs w = some (v, rl)) :
    (∀ r, rl = .link r → r = rhs ∧ d.allowRefs = true ∧ resolveRhs c w rhs d.nestedRefs = v) ∧
    (skipsForSet c d rhs w = true → rl = .link rhs) ∧ (linked = false → rl ≠ .drop) := by
  unfold resolveForSet at hres
  unfold skipsForSet
  split at hres
  · simp at hres
  · split at hres
    · split at hres
      · simp at hres; obtain ⟨_, e⟩ := hres; subst e
        exact ⟨(fun r h => by cases h), (by simp_all), (fun _ h => by cases h)⟩
      · simp at hres
    · split at hres
      · simp at hres; obtain ⟨_, e⟩ := hres
        refine ⟨?_, by simp_all, ?_⟩
        · intro r h; subst h; split at e <;> cases e
        · intro hl h; subst h; subst hl; simp at e
      · split at hres
        · simp at hres; obtain ⟨e1, e2⟩ := hres; subst e1 e2
          refine ⟨?_, (fun _ => rfl), (fun _ h => by cases h)⟩
          intro r h; cases h
          exact ⟨rfl, by simp_all, by assumption⟩
        · simp at hres

/-- the refs dict of the object under construction after a keyword with link change `rl` -/
def nextRefs (tg : Target) (k : Nat) (rl : Relink) : List (Nat × Rhs) :=
  match rl with
  | .link r => tg.refs ++ [(k, r)]
  | _ => tg.refs

/-- the state of the object under construction after one more keyword -/
theorem ctorOK_next {c : Cfg} {ds : List PDecl} {w : World} {vals0 : List (Option Val)} {tg : Target} {k : Nat} {d : PDecl}
    {rhs : Rhs} {rl : Relink} {vals1 : List (Option Val)}
    (hok : CtorOK c ds w vals0 tg) (hd : ds[k]? = some d) (hfreshk : ∀ r, (k, r) ∉ tg.refs)
    (hlen : vals1.length = tg.vals.length) (hother : ∀ q, q ≠ k → vals1[q]? = tg.vals[q]?)
    (hsome : ∀ v0, tg.vals[k]? = some (some v0) → ∃ v', vals1[k]? = some (some v'))
    (hlink : ∀ r, rl = .link r → r = rhs ∧ d.allowRefs = true ∧
      ∀ v, resolveRhs c w rhs d.nestedRefs = some v → skipsRhs c w rhs d.nestedRefs = false → vals1[k]? = some (some v)) :
    CtorOK c ds w vals0 { vals := vals1, dflt := tg.dflt, refs := nextRefs tg k rl } := by
  have hold : ∀ p r, (p, r) ∈ tg.refs → ∃ d, ds[p]? = some d ∧ d.allowRefs = true ∧
      ∀ v, resolveRhs c w r d.nestedRefs = some v → skipsRhs c w r d.nestedRefs = false → vals1[p]? = some (some v) := by
    intro p r hm
    obtain ⟨d', h1, h2, h3⟩ := hok.links p r hm
    have hne : p ≠ k := fun e => hfreshk r (by rw [← e]; exact hm)
    exact ⟨d', h1, h2, fun v hv hs => by rw [hother p hne]; exact h3 v hv hs⟩
  have hsomes : ∀ (q : Nat) (v0 : Val), vals0[q]? = some (some v0) → ∃ v', vals1[q]? = some (some v') := by
    intro q v0 hv0
    obtain ⟨v', hv'⟩ := hok.somes q v0 hv0
    by_cases e : q = k
    · subst e; exact hsome v' hv'
    · exact ⟨v', by rw [hother q e]; exact hv'⟩
  unfold nextRefs
  cases rl with
  | keep => exact ⟨hold, hok.nodup, hsomes, by simp [hlen, hok.len]⟩
  | drop => exact ⟨hold, hok.nodup, hsomes, by simp [hlen, hok.len]⟩
  | link r =>
    obtain ⟨e, hallow, hnew⟩ := hlink r rfl
    subst e
    refine ⟨?_, ?_, hsomes, by simp [hlen, hok.len]⟩
    · intro p r' hm
      simp only [List.mem_append, List.mem_singleton] at hm
      rcases hm with hm | e
      · exact hold p r' hm
      · have e1 := (Prod.mk.inj e).1; have e2 := (Prod.mk.inj e).2; subst e1 e2
        exact ⟨d, hd, hallow, hnew⟩
    · have := hok.nodup
      unfold keysNodup at this ⊢
      rw [List.map_append, List.nodup_append]
      refine ⟨this, by simp, ?_⟩
      intro a ha b hb
      simp at hb; subst hb
      intro e; subst e
      simp only [List.mem_map] at ha
      obtain ⟨x, hx, e⟩ := ha
      exact hfreshk x.2 (by rw [← e]; exact hx)

theorem relink_keys {tg : Target} {k : Nat} {rl : Relink} {p : Nat} {r : Rhs}
    (hm : (p, r) ∈ nextRefs tg k rl) : (p, r) ∈ tg.refs ∨ p = k := by
  unfold nextRefs at hm
  cases rl with
  | keep => exact Or.inl hm
  | drop => exact Or.inl hm
  | link r0 =>
    simp only [List.mem_append, List.mem_singleton] at hm
    rcases hm with hm | e
    · exact Or.inl hm
    · exact Or.inr (Prod.mk.inj e).1

theorem ctorKeys_ok {c : Cfg} {ds : List PDecl} {w : World} {vals0 : List (Option Val)} :
    ∀ (kws : List (Nat × Rhs)) {tg tg' : Target}, (kws.map (·.1)).Nodup →
    (∀ p r, (p, r) ∈ tg.refs → p ∉ kws.map (·.1)) → ds.length ≤ vals0.length →
    CtorOK c ds w vals0 tg → ctorKeys c ds w kws tg = (.ok, tg') → CtorOK c ds w vals0 tg' ∧ tg'.dflt = tg.dflt := by
  intro kws
  induction kws with
  | nil => intro tg tg' _ _ _ hok h; simp [ctorKeys] at h; subst h; exact ⟨hok, rfl⟩
  | cons kv rest ih =>
    intro tg tg' hnd hfresh hlen hok h
    obtain ⟨k, rhs⟩ := kv
    simp only [List.map_cons, List.nodup_cons] at hnd
    simp only [ctorKeys] at h
    split at h
    · simp at h
    · rename_i d hd
      have hfreshk : ∀ r, (k, r) ∉ tg.refs := fun r hm => hfresh k r hm (by simp)
      have hfresh0 : ∀ p r, (p, r) ∈ tg.refs → p ∉ rest.map (·.1) :=
        fun p r hp hin => hfresh p r hp (by simp [hin])
      have hfresh1 : ∀ (rl : Relink) p r, (p, r) ∈ nextRefs tg k rl → p ∉ rest.map (·.1) := by
        intro rl p r hm
        rcases relink_keys hm with hp | e
        · exact hfresh0 p r hp
        · subst e; exact hnd.1
      split at h
      · simp at h
      · simp at h
      · rename_i v rl hres
        obtain ⟨hshape, hskip, _⟩ := resolveForSet_shape hres
        split at h
        · -- the reference has no value to offer yet: the link is recorded, nothing is set
          rename_i hsk
          have hskips : skipsRhs c w rhs d.nestedRefs = true := by
            unfold skipsForSet at hsk; simp at hsk; exact hsk.2
          have hstep := ctorOK_next (rl := rl) (rhs := rhs) (vals1 := tg.vals) hok hd hfreshk rfl (fun _ _ => rfl)
            (fun v0 h0 => ⟨v0, h0⟩)
            (fun r hr => by
              obtain ⟨e, ha, _⟩ := hshape r hr
              exact ⟨e, ha, fun v _ hns => by rw [hskips] at hns; cases hns⟩)
          exact ih (tg := { vals := tg.vals, dflt := tg.dflt, refs := nextRefs tg k rl }) hnd.2 (hfresh1 rl) hlen hstep h
        · split at h
          · simp at h
          · split at h
            · simp at h
            · have hk : k < tg.vals.length := by
                rw [hok.len]
                have : k < ds.length := by
                  by_cases hlt : k < ds.length
                  · exact hlt
                  · exfalso; have : ds[k]? = none := by simp; omega
                    rw [this] at hd; cases hd
                omega
              have hstep := ctorOK_next (rl := rl) (rhs := rhs) (vals1 := tg.vals.set k (some v)) hok hd hfreshk (by simp)
                (fun q hq => by rw [List.getElem?_set_ne (fun e => hq e.symm)])
                (fun v0 _ => ⟨v, by simp [hk]⟩)
                (fun r hr => by
                  obtain ⟨e, ha, hv⟩ := hshape r hr
                  exact ⟨e, ha, fun v' hv' _ => by rw [hv'] at hv; cases hv; simp [hk]⟩)
              exact ih (tg := { vals := tg.vals.set k (some v), dflt := tg.dflt, refs := nextRefs tg k rl }) hnd.2 (hfresh1 rl)
                hlen hstep h

/-- constructing the next target — with any keyword arguments: plain values and references of
every kind — keeps the invariant: links made by the constructor are tracked and watched -/
theorem construct_inv {c : Cfg} {dflt : List Val} {kws : List (Nat × Rhs)} {w w' : World}
    (hi : Inv c st w) (hlen : ∀ ds, c.decls[w.tgts.length]? = some ds → ds.length ≤ dflt.length)
    (h : construct c dflt kws w = (.ok, w')) : Inv c st w' := by
  unfold construct at h
  simp only at h
  split at h
  · simp at h
  · rename_i ds hds
    split at h
    · simp at h
    · split at h
      · rename_i tg hck
        simp at h; subst h
        have hl := hlen ds hds
        have hvals0 : ds.length ≤ ((ds.zip dflt).map fun (d, v) => if d.constant || d.readonly then some v else none).length := by
          simp; omega
        have hinit : CtorOK c ds w ((ds.zip dflt).map fun (d, v) => if d.constant || d.readonly then some v else none)
            { vals := (ds.zip dflt).map fun (d, v) => if d.constant || d.readonly then some v else none, dflt := dflt, refs := [] } :=
          ⟨(by intro p r hm; cases hm), (by simp [keysNodup]), (fun q v hv => ⟨v, hv⟩), rfl⟩
        obtain ⟨hok, _⟩ := ctorKeys_ok (dedupKeys kws) (dedupKeys_nodup kws) (by intro p r hm; cases hm) hvals0 hinit hck
        have hold : ∀ t', t' < w.tgts.length → (w.tgts ++ [tg])[t']? = w.tgts[t']? :=
          fun t' hlt => List.getElem?_append_left hlt
        have hnew : (w.tgts ++ [tg])[w.tgts.length]? = some tg := by simp
        have classify : ∀ (t' : Nat) (tg' : Target), (w.tgts ++ [tg])[t']? = some tg' →
            (t' < w.tgts.length ∧ w.tgts[t']? = some tg') ∨ (t' = w.tgts.length ∧ tg' = tg) := by
          intro t' tg' ht
          by_cases hlt : t' < w.tgts.length
          · left; exact ⟨hlt, by rw [← hold t' hlt]; exact ht⟩
          · right
            by_cases e : t' = w.tgts.length
            · subst e; rw [hnew] at ht; exact ⟨rfl, (Option.some.inj ht).symm⟩
            · exfalso
              have : (w.tgts ++ [tg])[t']? = none := by simp; omega
              rw [this] at ht; cases ht
        have hdecl := fun p => decl_of_decls hds p
        refine ⟨?_, ?_, ?_, ?_, ?_, ?_⟩
        · intro t' tg' p r d v ht hm hd hres hsk hvalid hst
          have hres' : resolveRhs c w r d.nestedRefs = some v := by
            rw [← hres]; exact (resolveRhs_congr rfl r _).symm
          have hsk' : skipsRhs c w r d.nestedRefs = false := by
            rw [← hsk]; exact (skipsRhs_congr rfl r _).symm
          rcases classify t' tg' ht with ⟨_, ht'⟩ | ⟨e1, e2⟩
          · exact hi.tracks _ _ _ _ _ _ ht' hm hd hres' hsk' hvalid hst
          · subst e1 e2
            obtain ⟨d', h1, _, h3⟩ := hok.links p r hm
            rw [hdecl p, h1] at hd; cases hd
            exact h3 v hres' hsk'
        · intro t' tg' p r s i ht hm hdep hi' hs
          simp only [setupRefs_length] at hs
          rw [setupRefs_get]
          obtain ⟨ws, hws⟩ : ∃ ws, w.watch[s]? = some ws := ⟨w.watch[s], by simp [hs]⟩
          rcases classify t' tg' ht with ⟨_, ht'⟩ | ⟨e1, e2⟩
          · obtain ⟨ws0, names, h1, h2, h3⟩ := hi.watched _ _ _ _ _ _ ht' hm hdep hi' hs
            rw [h1]; simp only [Option.map_some]
            refine ⟨_, names, rfl, ?_, h3⟩
            split
            · exact h2
            · exact List.mem_append_left _ h2
          · subst e1 e2
            have hall : (s, i) ∈ allDeps ds tg'.refs := (allDeps_mem hds).2 ⟨_, hm, hdep⟩
            have hin : i ∈ (List.range c.nsp).filter (fun i => (allDeps ds tg'.refs).contains (s, i)) := by
              simp [List.mem_filter, hi', hall]
            have hne : ((List.range c.nsp).filter (fun i => (allDeps ds tg'.refs).contains (s, i))).isEmpty = false := by
              cases hx : (List.range c.nsp).filter (fun i => (allDeps ds tg'.refs).contains (s, i)) with
              | nil => rw [hx] at hin; cases hin
              | cons _ _ => rfl
            refine ⟨_, _, by simp only [hws, Option.map_some, hne]; rfl, ?_, hin⟩
            simp
        · intro t' tg' ht
          rcases classify t' tg' ht with ⟨_, ht'⟩ | ⟨e1, e2⟩
          · exact hi.nodup _ _ ht'
          · subst e1 e2; exact hok.nodup
        · intro t' tg' p r d ht hm hd
          rcases classify t' tg' ht with ⟨_, ht'⟩ | ⟨e1, e2⟩
          · exact hi.allow _ _ _ _ _ ht' hm hd
          · subst e1 e2
            obtain ⟨d', h1, h2, _⟩ := hok.links p r hm
            rw [hdecl p, h1] at hd; cases hd; exact h2
        · intro t' tg' p d ht hd hc
          rcases classify t' tg' ht with ⟨_, ht'⟩ | ⟨e1, e2⟩
          · exact hi.consts _ _ _ _ ht' hd hc
          · subst e1 e2
            rw [hdecl p] at hd
            have hp : p < ds.length := by
              by_cases hlt : p < ds.length
              · exact hlt
              · exfalso; have : ds[p]? = none := by simp; omega
                rw [this] at hd; cases hd
            have hd' : ds[p] = d := by simpa [hp] using hd
            have hpd : p < dflt.length := by omega
            apply hok.somes p dflt[p]
            have hz : p < (ds.zip dflt).length := by simp; omega
            simp only [List.getElem?_map, List.getElem?_eq_getElem hz, List.getElem_zip, hd', Option.map_some, hc,
              Bool.true_or, if_true]
        · intro t0 s ws names i hws hm hin
          simp only at hws
          rw [setupRefs_get] at hws
          cases hws0 : w.watch[s]? with
          | none => simp [hws0] at hws
          | some ws0 =>
            simp only [hws0, Option.map_some, Option.some.injEq] at hws
            have hcases : (t0, names) ∈ ws0 ∨
                (t0, names) = (w.tgts.length, (List.range c.nsp).filter (fun i => (allDeps ds tg.refs).contains (s, i))) := by
              split at hws
              · subst hws; exact Or.inl hm
              · subst hws
                simp only [List.mem_append, List.mem_singleton] at hm
                exact hm
            rcases hcases with h0 | e
            · obtain ⟨tg0, q, r, h1, h2, h3⟩ := hi.exact t0 s ws0 names i hws0 h0 hin
              have hlt : t0 < w.tgts.length := by
                by_cases hlt : t0 < w.tgts.length
                · exact hlt
                · exfalso; have : w.tgts[t0]? = none := by simp; omega
                  rw [this] at h1; cases h1
              exact ⟨tg0, q, r, by rw [hold t0 hlt]; exact h1, h2, h3⟩
            · have e1 := (Prod.mk.inj e).1; have e2 := (Prod.mk.inj e).2; subst e1
              rw [e2] at hin
              simp only [List.mem_filter, List.contains_iff_mem] at hin
              obtain ⟨kv, hkv, hdep⟩ := (allDeps_mem hds).1 hin.2
              exact ⟨tg, kv.1, kv.2, hnew, hkv, hdep⟩
      · rename_i hne _
        simp at h; exact absurd h.1 hne

/-! ### a constructor keyword is a later assignment -/


theorem append_set_last {α : Type} (l : List α) (a b : α) : (l ++ [a]).set l.length b = l ++ [b] := by
  induction l with
  | nil => rfl
  | cons x l ih => simp [ih]

theorem unwatchAll_setupRefs_fresh {c : Cfg} {t : Nat} {deps : List SrcP} {watch : List (List (Nat × List Nat))}
    (hfresh : ∀ (s : Nat) (ws : List (Nat × List Nat)) (names : List Nat), watch[s]? = some ws → (t, names) ∉ ws) :
    unwatchAll t (setupRefs c t deps watch) = watch := by
  apply List.ext_getElem?
  intro s
  rw [unwatchAll_get, setupRefs_get]
  cases hws : watch[s]? with
  | none => rfl
  | some ws =>
    simp only [Option.map_some, Option.some.injEq]
    have hfil : ws.filter (fun x => x.1 != t) = ws := by
      apply List.filter_eq_self.2
      intro x hx
      simp only [bne_iff_ne, ne_eq]
      intro e
      exact hfresh s ws x.2 hws (by rw [← e]; exact hx)
    split
    · exact hfil
    · simp [List.filter_append, hfil]

theorem dedupKeys_of_nodup : ∀ (l : List (Nat × Rhs)), (l.map (·.1)).Nodup → dedupKeys l = l := by
  intro l
  induction l with
  | nil => intro _; rfl
  | cons a l ih =>
    intro h
    obtain ⟨k, v⟩ := a
    simp only [List.map_cons, List.nodup_cons] at h
    simp only [dedupKeys, ih h.2]
    have : l.find? (fun kv => kv.1 == k) = none := by
      simp only [List.find?_eq_none]
      intro x hx e
      exact h.1 (List.mem_map.2 ⟨x, hx, by simpa using e⟩)
    rw [this]

theorem resolveForSet_congr {c : Cfg} {d : PDecl} {linked : Bool} {rhs : Rhs} {w w' : World} (h : w'.src = w.src) :
    resolveForSet c d linked rhs w' = resolveForSet c d linked rhs w := by
  unfold resolveForSet
  rw [resolveRhs_congr h]

theorem setupRefs_nil {c : Cfg} {t : Nat} (watch : List (List (Nat × List Nat))) : setupRefs c t [] watch = watch := by
  apply List.ext_getElem?
  intro s
  rw [setupRefs_get]
  cases watch[s]? <;> simp

/-- the world in which the object under construction `tg` is finished as target t -/
def finish (c : Cfg) (ds : List PDecl) (w : World) (tg : Target) : World :=
  { w with tgts := w.tgts ++ [tg], watch := setupRefs c w.tgts.length (allDeps ds tg.refs) w.watch }

theorem skipsForSet_congr {c : Cfg} {d : PDecl} {rhs : Rhs} {w w' : World} (h : w'.src = w.src) :
    skipsForSet c d rhs w' = skipsForSet c d rhs w := by
  unfold skipsForSet
  rw [skipsRhs_congr h]

set_option linter.unusedSimpArgs false in
/-- the deferred link change of a constructor keyword, carried out on the finished object -/
theorem applyRelink_finish {c : Cfg} {ds : List PDecl} {w : World} {tg : Target} {k : Nat} {rl : Relink}
    (hds : c.decls[w.tgts.length]? = some ds)
    (hfresh : ∀ (s : Nat) (ws : List (Nat × List Nat)) (names : List Nat), w.watch[s]? = some ws → (w.tgts.length, names) ∉ ws)
    (hnew : ∀ r, (k, r) ∉ tg.refs) (hnd : rl ≠ .drop) :
    applyRelink c w.tgts.length k rl (finish c ds w tg) = finish c ds w { tg with refs := nextRefs tg k rl } := by
  cases rl with
  | keep => simp [applyRelink, nextRefs]
  | drop => exact absurd rfl hnd
  | link r =>
    have hset' : dictSet tg.refs k r = tg.refs ++ [(k, r)] := by
      unfold dictSet
      have : tg.refs.any (fun x => x.1 == k) = false := by
        simp only [List.any_eq_false]
        intro x hx e
        exact hnew x.2 (by rw [← (by simpa using e : x.1 = k)]; exact hx)
      simp [this]
    simp only [applyRelink, updateRef, finish, nextRefs, List.getElem?_append_right (Nat.le_refl _), Nat.sub_self,
      List.getElem?_cons_zero, hds, hset', append_set_last, List.length_append, List.length_singleton]
    simp only [List.getElem?_append_right (Nat.le_refl _), Nat.sub_self, List.getElem?_cons_zero,
      unwatchAll_setupRefs_fresh hfresh, append_set_last]

/-- common facts about assigning to parameter k of the finished object -/
theorem late_pre {c : Cfg} {ds : List PDecl} {w : World} {tg : Target} {k : Nat} {rhs : Rhs} {d : PDecl} {v : Val} {rl : Relink}
    (hds : c.decls[w.tgts.length]? = some ds) (hd : ds[k]? = some d) (hk : k < tg.vals.length) (hkd : k < tg.dflt.length)
    (hnew : ∀ r, (k, r) ∉ tg.refs) (hres : resolveForSet c d false rhs w = some (some v, rl))
    (hks : keySupported c w.tgts.length (k, rhs) = true) :
    c.decl w.tgts.length k = some d ∧ Op.supported c (.set w.tgts.length k rhs) = true ∧
    (finish c ds w tg).tgts[w.tgts.length]? = some tg ∧ ¬ k ≥ nparams c w.tgts.length ∧
    (∃ old, tg.read k = some old) ∧
    resolveForSet c d (dictGet tg.refs k).isSome rhs (finish c ds w tg) = some (some v, rl) := by
  have hdecl : c.decl w.tgts.length k = some d := by rw [decl_of_decls hds]; exact hd
  have hkds : k < ds.length := by
    by_cases hlt : k < ds.length
    · exact hlt
    · exfalso; have : ds[k]? = none := by simp; omega
      rw [this] at hd; cases hd
  refine ⟨hdecl, ?_, by simp [finish], by simp [nparams, hds]; exact hkds, ?_, ?_⟩
  · simpa [Op.supported] using hks
  · unfold Target.read
    cases hv : tg.vals[k]? with
    | none => exfalso; simp at hv; omega
    | some x =>
      cases x with
      | some v0 => exact ⟨v0, rfl⟩
      | none => exact ⟨tg.dflt[k], by simp [hkd]⟩
  · rw [dictGet_none_iff.2 hnew, resolveForSet_congr (w := w) (by simp [finish])]; exact hres

set_option linter.unusedSimpArgs false in
/-- one keyword of the constructor = one later assignment on the finished object -/
theorem late_step {c : Cfg} {ds : List PDecl} {w : World} {tg : Target} {k : Nat} {rhs : Rhs} {d : PDecl} {v : Val}
    {rl : Relink}
    (hds : c.decls[w.tgts.length]? = some ds)
    (hfresh : ∀ (s : Nat) (ws : List (Nat × List Nat)) (names : List Nat), w.watch[s]? = some ws → (w.tgts.length, names) ∉ ws)
    (hd : ds[k]? = some d) (hk : k < tg.vals.length) (hkd : k < tg.dflt.length)
    (hnew : ∀ r, (k, r) ∉ tg.refs)
    (hres : resolveForSet c d false rhs w = some (some v, rl)) (hns : skipsForSet c d rhs w = false)
    (hks : keySupported c w.tgts.length (k, rhs) = true)
    (hvalid : d.valid v = true) (hro : d.readonly = false) (hconst : d.constant = false) :
    (step c (.set w.tgts.length k rhs) (finish c ds w tg)).1 = .ok ∧
    (step c (.set w.tgts.length k rhs) (finish c ds w tg)).2.1 =
      finish c ds w { tg with vals := tg.vals.set k (some v), refs := nextRefs tg k rl } := by
  obtain ⟨hdecl, hsup, htg, hnp, ⟨old, hold⟩, hres'⟩ := late_pre (tg := tg) hds hd hk hkd hnew hres hks
  have hns' : skipsForSet c d rhs (finish c ds w tg) = false := by
    rw [skipsForSet_congr (w := w) (by simp [finish])]; exact hns
  have hset : setInst c w.tgts.length k rhs (finish c ds w tg) =
      (.ok, applyRelink c w.tgts.length k rl (store w.tgts.length k v (finish c ds w tg)), [(k, v)]) := by
    unfold setInst
    simp only [htg, hdecl, hold, hres', hns']
    unfold setCore
    simp [hvalid, hro, hconst]
  have hstep : step c (.set w.tgts.length k rhs) (finish c ds w tg) =
      (.ok, applyRelink c w.tgts.length k rl (store w.tgts.length k v (finish c ds w tg)),
        [{ who := .tgt, idx := w.tgts.length, evs := [(k, v)] }]) := by
    unfold step
    simp [hsup, hnp, hset]
  rw [hstep]
  refine ⟨rfl, ?_⟩
  simp only
  have hstore : store w.tgts.length k v (finish c ds w tg) = finish c ds w { tg with vals := tg.vals.set k (some v) } := by
    simp [store, htg, World.setTgt, finish, append_set_last]
  rw [hstore]
  exact applyRelink_finish (tg := { tg with vals := tg.vals.set k (some v) }) hds hfresh hnew
    ((resolveForSet_shape hres).2.2 rfl)

set_option linter.unusedSimpArgs false in
/-- … and a keyword whose reference has no value to offer yet (Skip) = the later assignment of it:
only the link is made -/
theorem late_step_skip {c : Cfg} {ds : List PDecl} {w : World} {tg : Target} {k : Nat} {rhs : Rhs} {d : PDecl} {v : Val}
    {rl : Relink}
    (hds : c.decls[w.tgts.length]? = some ds)
    (hfresh : ∀ (s : Nat) (ws : List (Nat × List Nat)) (names : List Nat), w.watch[s]? = some ws → (w.tgts.length, names) ∉ ws)
    (hd : ds[k]? = some d) (hk : k < tg.vals.length) (hkd : k < tg.dflt.length)
    (hnew : ∀ r, (k, r) ∉ tg.refs)
    (hres : resolveForSet c d false rhs w = some (some v, rl)) (hsk : skipsForSet c d rhs w = true)
    (hks : keySupported c w.tgts.length (k, rhs) = true) :
    (step c (.set w.tgts.length k rhs) (finish c ds w tg)).1 = .ok ∧
    (step c (.set w.tgts.length k rhs) (finish c ds w tg)).2.1 = finish c ds w { tg with refs := nextRefs tg k rl } := by
  obtain ⟨hdecl, hsup, htg, hnp, ⟨old, hold⟩, hres'⟩ := late_pre (tg := tg) hds hd hk hkd hnew hres hks
  have hsk' : skipsForSet c d rhs (finish c ds w tg) = true := by
    rw [skipsForSet_congr (w := w) (by simp [finish])]; exact hsk
  have hset : setInst c w.tgts.length k rhs (finish c ds w tg) =
      (.ok, applyRelink c w.tgts.length k rl (finish c ds w tg), []) := by
    unfold setInst
    simp only [htg, hdecl, hold, hres', hsk', if_true]
  have hstep : step c (.set w.tgts.length k rhs) (finish c ds w tg) =
      (.ok, applyRelink c w.tgts.length k rl (finish c ds w tg), []) := by
    unfold step
    simp [hsup, hnp, hset]
  rw [hstep]
  exact ⟨rfl, applyRelink_finish hds hfresh hnew ((resolveForSet_shape hres).2.2 rfl)⟩

theorem late_loop {c : Cfg} {ds : List PDecl} {w : World}
    (hds : c.decls[w.tgts.length]? = some ds)
    (hfresh : ∀ (s : Nat) (ws : List (Nat × List Nat)) (names : List Nat), w.watch[s]? = some ws → (w.tgts.length, names) ∉ ws) :
    ∀ (kws : List (Nat × Rhs)) (tg tgN : Target), (kws.map (·.1)).Nodup →
    (∀ k r, (k, r) ∈ tg.refs → k ∉ kws.map (·.1)) →
    (∀ kv ∈ kws, ∀ d, ds[kv.1]? = some d → d.constant = false ∧ d.readonly = false) →
    (∀ kv ∈ kws, keySupported c w.tgts.length kv = true) →
    ds.length ≤ tg.vals.length → ds.length ≤ tg.dflt.length →
    ctorKeys c ds w kws tg = (.ok, tgN) →
    runOps c (kws.map fun kv => .set w.tgts.length kv.1 kv.2) (finish c ds w tg) = finish c ds w tgN := by
  intro kws
  induction kws with
  | nil => intro tg tgN _ _ _ _ _ _ h; simp [ctorKeys] at h; subst h; rfl
  | cons kv rest ih =>
    intro tg tgN hnd hfr hfree hsupp hlv hld h
    obtain ⟨k, rhs⟩ := kv
    simp only [List.map_cons, List.nodup_cons] at hnd
    simp only [ctorKeys] at h
    split at h
    · simp at h
    · rename_i d hd
      have hkds : k < ds.length := by
        by_cases hlt : k < ds.length
        · exact hlt
        · exfalso; have : ds[k]? = none := by simp; omega
          rw [this] at hd; cases hd
      have hnew : ∀ r, (k, r) ∉ tg.refs := fun r hm => hfr k r hm (by simp)
      have hfree' : ∀ kv ∈ rest, ∀ d, ds[kv.1]? = some d → d.constant = false ∧ d.readonly = false :=
        fun kv hkv => hfree kv (List.mem_cons_of_mem _ hkv)
      have hsupp' : ∀ kv ∈ rest, keySupported c w.tgts.length kv = true :=
        fun kv hkv => hsupp kv (List.mem_cons_of_mem _ hkv)
      have hks := hsupp (k, rhs) (List.mem_cons_self ..)
      have hfr1 : ∀ (rl : Relink) k' r', (k', r') ∈ nextRefs tg k rl → k' ∉ rest.map (·.1) := by
        intro rl k' r' hm
        rcases relink_keys hm with hp | e
        · intro hin; exact hfr k' r' hp (by simp [hin])
        · subst e; exact hnd.1
      split at h
      · simp at h
      · simp at h
      · rename_i v rl hres
        simp only [List.map_cons, runOps]
        split at h
        · rename_i hsk
          have hstep := late_step_skip (tg := tg) hds hfresh hd (by omega) (by omega) hnew hres hsk hks
          rw [hstep.2]
          exact ih { vals := tg.vals, dflt := tg.dflt, refs := nextRefs tg k rl } tgN hnd.2 (hfr1 rl) hfree' hsupp' hlv hld h
        · rename_i hns
          split at h
          · simp at h
          · split at h
            · simp at h
            · rename_i hvalid hro
              obtain ⟨hc, _⟩ := hfree (k, rhs) (List.mem_cons_self ..) d hd
              have hstep := late_step (tg := tg) hds hfresh hd (by omega) (by omega) hnew hres (by simpa using hns) hks
                (by simpa using hvalid) (by simpa using hro) hc
              rw [hstep.2]
              exact ih { vals := tg.vals.set k (some v), dflt := tg.dflt, refs := nextRefs tg k rl } tgN hnd.2 (hfr1 rl) hfree' hsupp'
                (by simpa using hlv) hld h

theorem ctor_late_equiv {c : Cfg} {dflt : List Val} {kws : List (Nat × Rhs)} {w w1 : World}
    (hfresh : ∀ (s : Nat) (ws : List (Nat × List Nat)) (names : List Nat), w.watch[s]? = some ws → (w.tgts.length, names) ∉ ws)
    (hlen : ∀ ds, c.decls[w.tgts.length]? = some ds → ds.length ≤ dflt.length)
    (hkeys : (kws.map (·.1)).Nodup)
    (hfree : ∀ kv ∈ kws, ∀ d, c.decl w.tgts.length kv.1 = some d → d.constant = false ∧ d.readonly = false)
    (hc : construct c dflt kws w = (.ok, w1)) :
    ∃ w0, construct c dflt [] w = (.ok, w0) ∧
      runOps c (kws.map fun kv => .set w.tgts.length kv.1 kv.2) w0 = w1 := by
  unfold construct at hc ⊢
  simp only at hc ⊢
  split at hc
  · simp at hc
  · rename_i ds hds
    have hl := hlen ds hds
    split at hc
    · simp at hc
    · rename_i hall
      have hall' : ∀ kv ∈ kws, keySupported c w.tgts.length kv = true := by
        simpa [List.all_eq_true] using hall
      split at hc
      · rename_i tgN hck
        simp at hc; subst hc
        rw [dedupKeys_of_nodup kws hkeys] at hck
        refine ⟨_, by simp [dedupKeys, ctorKeys]; rfl, ?_⟩
        have := late_loop hds hfresh kws
          { vals := (ds.zip dflt).map fun (d, v) => if d.constant || d.readonly then some v else none, dflt := dflt, refs := [] }
          tgN hkeys (by intro k r hm; cases hm)
          (fun kv hkv d hd => hfree kv hkv d (by rw [decl_of_decls hds]; exact hd))
          (fun kv hkv => hall' kv hkv)
          (by simp; omega) hl hck
        simpa [finish, allDeps] using this
      · rename_i hne _
        simp at hc; exact absurd hc.1 hne

/-! ### the setter as a statement machine -/


/-- the setter of the model *is* the statement machine run in the order of the code -/
theorem setCore_is_code_order (c : Cfg) (t p : Nat) (d : PDecl) (old v : Val) (rl : Relink) (ec : Bool) (w : World) :
    setCore c t p d old (some v) rl ec w =
      setStaged c { t := t, p := p, d := d, old := old, v := v, rl := rl, editConst := ec } codeOrder w := by
  unfold setCore setStaged codeOrder
  simp only [runStages, runStage]
  by_cases hv : d.valid v = true
  · by_cases hr : d.readonly = true
    · simp [hv, hr]
    · by_cases hc : (d.constant && !ec) = true
      · by_cases hi : identical v old = true
        · simp [hv, hr, hc, hi]
        · simp [hv, hr, hc, hi]
      · simp [hv, hr, hc]
  · simp [hv]

theorem runStage_check {c : Cfg} {a : SetArgs} {st : Stage} (hst : st.isCheck = true) (w : World) (b : Bool) :
    (∃ b', runStage c a st (w, b) = .ok (w, b')) ∨ (∃ e, runStage c a st (w, b) = .error (e, w)) := by
  cases st with
  | validate => simp only [runStage]; split <;> simp
  | guard =>
    simp only [runStage]
    split
    · simp
    · split
      · split <;> simp
      · simp
  | store => cases hst
  | relink => cases hst

theorem runStage_effect {c : Cfg} {a : SetArgs} {st : Stage} (hst : st.isCheck = false) (s : World × Bool) :
    ∃ s', runStage c a st s = .ok s' := by
  obtain ⟨w, b⟩ := s
  cases st with
  | validate => cases hst
  | guard => cases hst
  | store => exact ⟨_, rfl⟩
  | relink => exact ⟨_, rfl⟩

theorem runStages_effects_ok {c : Cfg} {a : SetArgs} : ∀ (post : List Stage) (s : World × Bool),
    (∀ st ∈ post, st.isCheck = false) → ∃ s', runStages c a post s = .ok s' := by
  intro post
  induction post with
  | nil => intro s _; exact ⟨s, rfl⟩
  | cons st rest ih =>
    intro s h
    obtain ⟨s', hs'⟩ := runStage_effect (c := c) (a := a) (h st (List.mem_cons_self ..)) s
    simp only [runStages, hs']
    exact ih s' (fun x hx => h x (List.mem_cons_of_mem _ hx))

/-- in any statement order that runs every check before the first effect, an exception finds the
world untouched -/
theorem runStages_checks_first {c : Cfg} {a : SetArgs} : ∀ (pre post : List Stage) (w : World) (b : Bool) (e : Err) (w' : World),
    (∀ st ∈ pre, st.isCheck = true) → (∀ st ∈ post, st.isCheck = false) →
    runStages c a (pre ++ post) (w, b) = .error (e, w') → w' = w := by
  intro pre
  induction pre with
  | nil =>
    intro post w b e w' _ hpost h
    obtain ⟨s', hs'⟩ := runStages_effects_ok (c := c) (a := a) post (w, b) hpost
    simp only [List.nil_append] at h
    rw [hs'] at h; cases h
  | cons st rest ih =>
    intro post w b e w' hpre hpost h
    simp only [List.cons_append, runStages] at h
    rcases runStage_check (c := c) (a := a) (hpre st (List.mem_cons_self ..)) w b with ⟨b', hb⟩ | ⟨e0, he⟩
    · rw [hb] at h
      exact ih post w b' e w' (fun x hx => hpre x (List.mem_cons_of_mem _ hx)) hpost h
    · rw [he] at h
      simp at h; exact h.2.symm

end ParamVerif.Refs
