/-
Specification side of C02 / C08, executable: decidable checks over *observations* (what the
harness reads through `_param__private` and the universal watcher), phrased in the properties'
own terms.  The driver evaluates them on what the real code did (oracle) and on the model's
output.  They restate the conclusions of the theorems in Props/C02.lean and Props/C08.lean.

Nothing here runs the model: the expectation for a linked value is recomputed from the observed
source values and the observed refs table (`expected`), watcher exactness from the observed refs.
-/
import ParamVerif.Refs.Hooks

namespace ParamVerif.Refs

/-- what the harness sees of the objects after a step -/
structure State where
  src : List (List Int)
  tgt : List (List Val)                 -- `getattr(t, p)` for every parameter
  cls : List (List Val)                 -- `getattr(T, p)`
  refs : List (List (Nat × Rhs))        -- `t._param__private.refs`
  watch : List (List (List Nat))        -- per source, per parameter: targets whose `_sync_refs` watches it
  /-- state that never moves between operations (not in the model's world because every code path restores
  it): per target [value of its Event parameter, its mode, the class Event's mode, names in `syncing`…], then
  [value, last generated value] of the witness parameter holding the case's shared number generator -/
  aux : List (List Int) := []
  /-- per target and parameter: does the target's class itself hold the Parameter (1) or inherit it (0) -/
  own : List (List Int) := []
  deriving Repr, DecidableEq

structure StepObs where
  st : State
  err : Option String
  log : List Entry
  deriving Repr, DecidableEq

def stateOf (c : Cfg) (w : World) : State :=
  { src := w.src,
    tgt := w.tgts.map fun tg => (List.range tg.vals.length).filterMap tg.read,
    cls := w.tgts.map (·.dflt),
    refs := w.tgts.map (·.refs),
    watch := w.watch.map fun ws => (List.range c.nsp).map fun i => (ws.filter (·.2.contains i)).map (·.1) }

def errName : Res → Option String
  | .ok => none
  | .raised .value => some "ValueError"
  | .raised .type_ => some "TypeError"
  | .raised .noCtx => some "noctx"
  | .raised .notModelled => some "unsupported"

/-- a world that has the observed source values (all the spec needs to resolve a reference) -/
def srcWorld (src : List (List Int)) : World := { src := src, watch := [], tgts := [], stack := [] }

/-- the current resolved value of a reference, from the observed sources -/
def expected (c : Cfg) (src : List (List Int)) (r : Rhs) (nested : Bool) : Option Val :=
  resolveRhs c (srcWorld src) r nested

def nestedOf (c : Cfg) (t p : Nat) : Bool := ((c.decl t p).map (·.nestedRefs)).getD false

def linkDeps (c : Cfg) (t : Nat) (kv : Nat × Rhs) : List SrcP := depsOf kv.2 (nestedOf c t kv.1)

def tgtVal (s : State) (t p : Nat) : Option Val := (s.tgt[t]?).bind (·[p]?)
def refOf (s : State) (t p : Nat) : Option Rhs := (s.refs[t]?).bind (dictGet · p)
def watchers (s : State) (d : SrcP) : List Nat := ((s.watch[d.1]?).bind (·[d.2]?)).getD []

def ntargets (s : State) : Nat := s.refs.length

def firstSome {α} (l : List α) (f : α → Option String) : Option String := l.findSome? f

/-! ### C08 -/

/-- every live link whose resolved value is valid for the target holds it -/
def checkTracks (c : Cfg) (s : State) (skip : SrcP → Bool) (skipLink : Nat → Nat → Bool := fun _ _ => false) : Option String :=
  firstSome (List.range (ntargets s)) fun t =>
    firstSome ((s.refs[t]?).getD []) fun kv =>
      if (linkDeps c t kv).any skip || skipLink t kv.1 then none else
      -- a reference whose evaluation raises Skip has no value to offer: no obligation
      if skipsRhs c (srcWorld s.src) kv.2 (nestedOf c t kv.1) then none else
      match expected c s.src kv.2 (nestedOf c t kv.1), c.decl t kv.1 with
      | some v, some d =>
        if d.valid v && tgtVal s t kv.1 != some v then
          some s!"T{t}.p{kv.1} is linked, the reference resolves to a valid value, but the parameter does not hold it"
        else none
      | _, _ => some s!"T{t}.p{kv.1}: link to a source that does not exist"

/-- every value a target holds (and every class default) satisfies the parameter's constraints -/
def checkValues (c : Cfg) (s : State) : Option String :=
  firstSome (List.range (ntargets s)) fun t =>
    firstSome (List.range ((s.tgt[t]?).getD []).length) fun p =>
      match c.decl t p, tgtVal s t p, (s.cls[t]?).bind (·[p]?) with
      | some d, some v, some dv =>
        if !d.valid v then some s!"T{t}.p{p} holds a value that violates its constraints"
        else if !d.valid dv then some s!"the class default of T{t}.p{p} violates its constraints"
        else none
      | _, _, _ => some s!"T{t}.p{p}: value missing"

/-- every dependency of every live link is watched; no watcher twice -/
def checkWatched (c : Cfg) (s : State) : Option String :=
  (firstSome (List.range (ntargets s)) fun t =>
    firstSome ((s.refs[t]?).getD []) fun kv =>
      firstSome (linkDeps c t kv) fun d =>
        if (watchers s d).contains t then none
        else some s!"T{t}.p{kv.1} depends on S{d.1}.v{d.2} but no _sync_refs watcher of T{t} is registered there")
  <|> (firstSome (List.range s.watch.length) fun si =>
        firstSome (List.range ((s.watch[si]?).getD []).length) fun i =>
          if (watchers s (si, i)).Nodup then none
          else some s!"S{si}.v{i} carries the same target's _sync_refs watcher twice")

/-- the first watcher kept on behalf of no live link of target `t` -/
def leftover (c : Cfg) (s : State) (t : Nat) : Option SrcP :=
  (List.range s.watch.length).findSome? fun si =>
    (List.range ((s.watch[si]?).getD []).length).findSome? fun i =>
      if (watchers s (si, i)).contains t &&
         !(((s.refs[t]?).getD []).any fun kv => (linkDeps c t kv).contains (si, i)) then some (si, i) else none

def keysOf (op : Op) : Option (Nat × List (Nat × Rhs)) :=
  match op with
  | .set t p rhs => some (t, [(p, rhs)])
  | .update t kvs | .ctxEnter t kvs => some (t, dedupKeys kvs)
  | _ => none

/-- after an accepted assignment: a plain value leaves no link, a reference is the link -/
def checkAssigned (c : Cfg) (post : State) (t : Nat) (kvs : List (Nat × Rhs)) : Option String :=
  firstSome kvs fun kv =>
    if (linkDeps c t kv).isEmpty then
      if (refOf post t kv.1).isSome then some s!"T{t}.p{kv.1} was given a plain value but is still linked" else none
    else
      if refOf post t kv.1 != some kv.2 then some s!"T{t}.p{kv.1} was given a reference but refs does not hold it" else none

/-- an accepted assignment never rebinds a constant (or readonly) parameter to another value -/
def checkConstants (c : Cfg) (pre post : State) (t : Nat) (kvs : List (Nat × Rhs)) : Option String :=
  firstSome kvs fun kv =>
    match c.decl t kv.1 with
    | some d =>
      if (d.constant || d.readonly) && tgtVal pre t kv.1 != tgtVal post t kv.1 then
        some s!"T{t}.p{kv.1} is constant but an assignment outside edit_constant changed its value"
      else none
    | none => none

/-- parameters that the operation does not assign keep their link and (unless the class default
moved under them) their value -/
def checkOthers (pre post : State) (t : Option Nat) (keys : List Nat) (valuesToo : Bool) : Option String :=
  firstSome (List.range (ntargets pre)) fun t' =>
    firstSome (List.range ((pre.tgt[t']?).getD []).length) fun q =>
      if t == some t' && keys.contains q then none
      else if refOf pre t' q != refOf post t' q then some s!"the link of T{t'}.p{q}, which was not assigned, changed"
      else if (valuesToo || (refOf pre t' q).isSome) && tgtVal pre t' q != tgtVal post t' q then
        some s!"the value of T{t'}.p{q}, which was not assigned, changed"
      else none

/-- a source update reaches exactly the links that depend on it -/
def checkSrcStep (c : Cfg) (pre post : State) (d : SrcP) (log : List Entry) (touched : Nat → List Nat) : Option String :=
  (firstSome (List.range (ntargets pre)) fun t =>
    firstSome (List.range ((pre.tgt[t]?).getD []).length) fun q =>
      let dep := match refOf pre t q with
        | some r => (linkDeps c t (q, r)).contains d
        | none => false
      if (touched t).contains q then none   -- assigned by a user watcher during the dispatch
      else if refOf pre t q != refOf post t q then some s!"a source update changed the link of T{t}.p{q}"
      else if !dep && tgtVal pre t q != tgtVal post t q then
        some s!"S{d.1}.v{d.2} changed T{t}.p{q}, which does not depend on it"
      else if !dep && log.any (fun e => e.who == .tgt && e.idx == t && e.evs.any (·.1 == q)) then
        some s!"S{d.1}.v{d.2} wrote T{t}.p{q}, which does not depend on it"
      else none)
  <|> (if pre.watch != post.watch && (List.range (ntargets pre)).all (fun t => (touched t).isEmpty) then
        some "a source update changed the _sync_refs watchers" else none)

structure Open where      -- an open `update` context as the oracle remembers it
  t : Nat
  keys : List Nat
  links : List (Nat × Option Rhs)       -- the link of each key when the context was entered
  deriving Repr

/-- leaving an `update` context restores the links it replaced -/
def checkRestored (post : State) (o : Open) : Option String :=
  firstSome o.links fun kl =>
    if refOf post o.t kl.1 != kl.2 then some s!"leaving the update context did not restore the link state of T{o.t}.p{kl.1}" else none

/-- a source update may only raise when one of the values it has to write is invalid for its parameter:
`_sync_refs` writes under `edit_constant`, so a constant flag (declared or set on the instance) never
rejects a sync -/
def checkSrcRaise (c : Cfg) (pre post : State) (d : SrcP) (err : Option String) : Option String :=
  match err with
  | some "ValueError" =>
    let someInvalid := (List.range (ntargets pre)).any fun t =>
      ((pre.refs[t]?).getD []).any fun kv =>
        (linkDeps c t kv).contains d && !skipsRhs c (srcWorld post.src) kv.2 (nestedOf c t kv.1) &&
        (match expected c post.src kv.2 (nestedOf c t kv.1), c.decl t kv.1 with
          | some v, some dcl => !dcl.valid v
          | _, _ => false)
    if someInvalid then none
    else some s!"the update of S{d.1}.v{d.2} raised ValueError although every value it had to write into a linked parameter is valid"
  | some "TypeError" =>
    -- (a readonly parameter can only have become linked through a reference that raised Skip when it was
    -- assigned — no validation, no guard then; edit_constant does not lift readonly)
    let readonlyLinked := (List.range (ntargets pre)).any fun t =>
      ((pre.refs[t]?).getD []).any fun kv =>
        (linkDeps c t kv).contains d && ((c.decl t kv.1).map (·.readonly)).getD false
    if readonlyLinked then none
    else some s!"the update of S{d.1}.v{d.2} raised TypeError: a sync writes under edit_constant, a constant flag never rejects it"
  | _ => none

/-- parameters of target t that a user watcher (hook) assigned during the step: those hooks whose watched
parameter was announced to t's watchers -/
def hookTouched (hooks : List Hook) (t : Nat) (log : List Entry) : List Nat :=
  (hooks.filter fun h => h.t == t && log.any fun e => e.who == .tgt && e.idx == t && e.evs.any (·.1 == h.a)).map (·.b)

/-- a plain value assigned by a user watcher ends the link of the parameter it assigns — also when the
watcher runs inside the flush of a sync, unless that very parameter is being written by the same sync -/
def checkHookEndsLink (hooks : List Hook) (post : State) (log : List Entry) : Option String :=
  firstSome hooks fun h =>
    -- the flush entry that delivered p<a> and, after it, the announcement of the hook's own assignment
    let rec scan : List Entry → Option String
      | [] => none
      | e :: rest =>
        if e.who == .tgt && e.idx == h.t && e.evs.any (·.1 == h.a) && !e.evs.any (·.1 == h.b) &&
           rest.any (fun e' => e'.who == .tgt && e'.idx == h.t && e'.evs == [(h.b, .int h.k)]) &&
           (refOf post h.t h.b).isSome then
          some s!"a watcher of T{h.t}.p{h.a} assigned the plain value {h.k} to T{h.t}.p{h.b}, the assignment was accepted, but p{h.b} is still linked"
        else scan rest
    scan log

/-- parameters that a user watcher assigned *while they were being synced themselves* (the flush entry that
delivered the watched parameter also announces the assigned one): `syncing` makes the setter take the plain
value for the link's own write, so the link stays and the value diverges (finding) — until the parameter
is written again.  Returns the updated list of such (target, parameter) pairs after a step. -/
def hookHoles (hooks : List Hook) (old : List (Nat × Nat)) (log : List Entry) : List (Nat × Nat) :=
  let written (t p : Nat) : Bool := log.any fun e => e.who == .tgt && e.idx == t && e.evs.any (·.1 == p)
  let kept := old.filter fun tp => !written tp.1 tp.2
  let rec scan (h : Hook) : List Entry → Bool
    | [] => false
    | e :: rest =>
      (e.who == .tgt && e.idx == h.t && e.evs.any (·.1 == h.a) && e.evs.any (·.1 == h.b) &&
        rest.any (fun e' => e'.who == .tgt && e'.idx == h.t && e'.evs == [(h.b, .int h.k)])) || scan h rest
  kept ++ (hooks.filter fun h => scan h log).map fun h => (h.t, h.b)

inductive Verdict
  | hard (why : String)          -- a violation
  | finding (key why : String)   -- a violation of the full statement that is a known finding of the code
  deriving Repr

/-- C08 on a whole observed run.  Returns the first hard violation, else the first finding. -/
def specC08 (c : Cfg) (hooks : List Hook) (init : State) (steps : List (Op × StepObs)) : Nat × Option Verdict :=
  let rec go (pre : State) (steps : List (Op × StepObs)) (failed : List SrcP) (stack : List Open)
      (holes : List (Nat × Nat)) (n : Nat) (fnd : Option Verdict) : Nat × Option Verdict :=
    match steps with
    | [] => (n, fnd)
    | (op, o) :: rest =>
      let post := o.st
      let ok := o.err.isNone
      let tch := fun t => hookTouched hooks t o.log
      let holes' := hookHoles hooks holes o.log
      let failed' := match op with
        | .srcSet s i _ => if ok then failed else (s, i) :: failed
        | _ => failed
      let hard : Option String :=
        (match o.err with
          | some e => if e.startsWith "other:" then some s!"the operation raised {e.drop 6}" else none
          | none => none)
        <|> (match op with
          | .srcSet s i v =>
            (if ((post.src[s]?).bind (·[i]?)) != some v then some "the source does not hold the assigned value" else none)
            <|> checkSrcRaise c pre post (s, i) o.err
            <|> (if ok then checkSrcStep c pre post (s, i) o.log tch else none)
          | .setCls t p _ =>
            -- (the instance may be reading the class default of p: a link that has not delivered a value yet)
            checkOthers pre post (some t) [p] false
            <|> (if pre.watch != post.watch || pre.src != post.src || pre.refs != post.refs then
                  some "a class-level assignment changed links, watchers or sources" else none)
          | .ctxExit =>
            (match stack with
              | top :: _ =>
                (if ok then checkRestored post { top with links := top.links.filter fun kl => !(tch top.t).contains kl.1 } else none)
                <|> checkOthers pre post (some top.t) (top.keys ++ tch top.t) true
              | [] => none)
            <|> (if pre.src != post.src then some "sources changed" else none)
          | _ =>
            match keysOf op with
            | some (t, kvs) =>
              (if ok then checkAssigned c post t (kvs.filter fun kv => !(tch t).contains kv.1) else none)
              <|> checkConstants c pre post t (kvs.filter fun kv => !(tch t).contains kv.1)
              <|> checkOthers pre post (some t) (kvs.map (·.1) ++ tch t) true
              <|> (if pre.src != post.src then some "an assignment to a target changed a source" else none)
            | none => none)
        <|> (if ok then checkHookEndsLink hooks post o.log else none)
        <|> checkTracks c post (fun d => failed'.contains d) (fun t p => holes'.contains (t, p))
        <|> checkWatched c post
        -- the watchers of every target sit exactly on the dependencies of its live links
        <|> ((List.range (ntargets post)).findSome? fun t => (leftover c post t).map fun d =>
              s!"T{t} keeps a _sync_refs watcher on S{d.1}.v{d.2} although no link of T{t} depends on it")
        <|> checkValues c post
        <|> (if post.aux != init.aux then some "an Event parameter's value or mode (also as read by its later watchers), a `constant` flag, a cached namespace, a `syncing` set or the shared generator's witness value is not what it was" else none)
      match hard with
      | some why => (n, some (.hard s!"step {n}: {why}"))
      | none =>
        let fnd1 : Option Verdict := fnd <|>
          ((checkTracks c post (fun _ => false) (fun t p => holes'.contains (t, p))).map fun why =>
            .finding "failed-sync-leaves-valid-links-stale" s!"step {n}: {why} (a source update raised earlier from inside _sync_refs)")
          <|> ((match keysOf op with
                | some (t, kvs) =>
                  if ok then
                    (kvs.find? fun kv => ((c.decl t kv.1).map (·.readonly)).getD false && (refOf post t kv.1).isSome).map fun kv =>
                      Verdict.finding "readonly-parameter-linked-through-skipping-reference"
                        s!"step {n}: T{t}.p{kv.1} is readonly, yet the assignment of a reference that raised Skip was accepted and made it linked (no validation, no guard on that path)"
                  else none
                | none => none))
          <|> ((checkTracks c post (fun d => failed'.contains d)).map fun why =>
            .finding "watcher-assignment-during-own-sync-keeps-link" s!"step {n}: {why} (a watcher assigned it a plain value while it was being synced: the link was kept)")
        let stack' := match op, ok with
          | .ctxEnter t kvs, true =>
            let ks := (dedupKeys kvs).map (·.1)
            { t := t, keys := ks, links := ks.map fun k => (k, refOf pre t k) } :: stack
          | .ctxExit, _ => stack.drop 1
          | _, _ => stack
        go post rest failed' stack' holes' (n + 1) fnd1
  let initHard : Option String :=
    checkTracks c init (fun _ => false) <|> checkWatched c init <|> checkValues c init
    <|> ((List.range (ntargets init)).findSome? fun t => (leftover c init t).map fun d =>
          s!"after construction T{t} has a _sync_refs watcher on S{d.1}.v{d.2} that no link needs")
  match initHard with
  | some why => (0, some (.hard s!"after construction: {why}"))
  | none => go init steps [] [] [] 0 none

/-! ### C02 -/

def Op.isAssign : Op → Bool
  | .set .. | .setCls .. | .update .. | .ctxEnter .. => true
  | _ => false

def Op.target : Op → Option Nat
  | .set t _ _ | .setCls t _ _ | .update t _ | .ctxEnter t _ => some t
  | _ => none

def rejected (o : StepObs) : Bool := o.err == some "ValueError" || o.err == some "TypeError"

/-- how many leading keys of a (rejected) `update` were applied: a key is applied when the universal
watcher of t was told about it, or when it is a reference whose evaluation raised Skip (the link is
made, nothing is stored and nothing announced) -/
def appliedPrefix (c : Cfg) (pre : State) (t : Nat) (kvs : List (Nat × Rhs)) (log : List Entry) : Nat :=
  -- the flush of the update itself: the first call of t's universal watcher (later ones come from user
  -- watchers that assign)
  let evKeys := ((log.filter (fun e => e.who == .tgt && e.idx == t)).take 1).flatMap (·.evs.map (·.1))
  (kvs.takeWhile fun kv =>
    evKeys.contains kv.1 ||
    (((c.decl t kv.1).map (·.allowRefs)).getD false && !(linkDeps c t kv).isEmpty &&
      skipsRhs c (srcWorld pre.src) kv.2 (nestedOf c t kv.1))).length

/-- the history with every rejected assignment left out: an `update` rejected at its k-th key
becomes the update of the keys before it (those *are* applied — C05), anything else a no-op -/
def twinOps (c : Cfg) : State → List (Op × StepObs) → List Op
  | _, [] => []
  | pre, (op, o) :: rest =>
    (if rejected o && op.isAssign then
      match op with
      | .update t kvs | .ctxEnter t kvs => .update t (kvs.take (appliedPrefix c pre t kvs o.log))
      | .set t _ _ | .setCls t _ _ => .update t []
      | _ => op
    else op) :: twinOps c o.st rest

/-- C02 on an observed run and on the observed run of its twin history -/
def specC02 (c : Cfg) (hooks : List Hook) (init : State) (steps : List (Op × StepObs)) (twin : List StepObs) : Nat × Option String :=
  let rec go (pre : State) (steps : List (Op × StepObs)) (twin : List StepObs) (n k : Nat) : Nat × Option String :=
    match steps, twin with
    | [], _ => (k, none)
    | (op, o) :: rest, tw :: trest =>
      let rej := rejected o && op.isAssign
      let direct : Option String :=
        if !rej then none
        else match op with
          | .set .. | .setCls .. =>
            if { o.st with own := pre.own } != pre then some "a rejected assignment changed values, links or watchers"
            else if !o.log.isEmpty then some "a rejected assignment invoked a watcher"
            else none
          | _ =>
            -- the rejected key and the keys after it: untouched
            match keysOf op with
            | some (t, kvs) =>
              (firstSome (kvs.drop (appliedPrefix c pre t kvs o.log)) fun kv =>
                if (kvs.take (appliedPrefix c pre t kvs o.log)).any (·.1 == kv.1) then none
                else if (hookTouched hooks t o.log).contains kv.1 then none     -- assigned by a user watcher in the flush
                else if refOf pre t kv.1 != refOf o.st t kv.1 then some s!"the rejected update changed the link of its rejected key p{kv.1}"
                else if tgtVal pre t kv.1 != tgtVal o.st t kv.1 then some s!"the rejected update changed the value of its rejected key p{kv.1}"
                else none)
              <|> (if o.st.src != pre.src then some "a rejected update changed a source" else none)
            | none => none
      let vsTwin : Option String :=
        if { o.st with own := tw.st.own } != tw.st then some "the state differs from the history in which the rejected assignment never happened"
        else if o.log != tw.log then some "the watcher log differs from the history in which the rejected assignment never happened"
        else if rej then (if tw.err.isSome then some "twin step raised" else none)
        else if o.err != tw.err then some "outcome differs from the history in which the rejected assignment never happened"
        else none
      -- per-object state outside values / links / watchers must be exactly as before as well: the Event
      -- parameter idle (False, self-resetting), nothing left in `syncing`, the shared generator's witness
      -- value undisturbed — after every operation, so also after a source update whose write into a
      -- linked parameter was rejected
      let idle : Option String :=
        if o.st.aux != init.aux then
          some (if rejected o then "after the rejected operation an Event parameter's value or mode (also as read by its later watchers), a `constant` flag, a cached namespace, a `syncing` set or a generator shared with another parameter is not as before"
                else "an Event parameter's value or mode (also as read by its later watchers), a `constant` flag, a cached namespace, a `syncing` set or the shared generator's witness value was disturbed")
        else match op with
          | .srcSet .. =>
            -- (a user watcher that assigns may run in the flush of the failed sync and change links itself)
            if rejected o && (o.st.refs != pre.refs || o.st.watch != pre.watch) &&
               (List.range (ntargets pre)).all (fun t => (hookTouched hooks t o.log).isEmpty) then
              some "a source update whose write into a linked parameter was rejected changed links or watchers"
            else none
          | _ => none
      -- a class keeps inheriting a Parameter unless a class-level assignment to it was accepted
      let ownExp := match op, o.err with
        | .setCls t p _, none => pre.own.zipIdx.map fun (row, t') => if t' == t then row.set p 1 else row
        | _, _ => pre.own
      let owned : Option String :=
        if o.st.own != ownExp then
          some "a rejected class-level assignment left a copy of the inherited Parameter in the subclass (it no longer follows its ancestor)"
        else none
      let unexpected : Option String :=
        match o.err with
        | some e => if e.startsWith "other:" then some s!"the operation raised {e.drop 6}: only ValueError / TypeError reject an assignment" else none
        | none => none
      match unexpected <|> direct <|> idle <|> vsTwin <|> owned with
      | some why => (k, some s!"step {n}: {why}")
      | none => go o.st rest trest (n + 1) (if rej then k + 1 else k)
    | _ :: _, [] => (k, some "twin run is shorter than the run")
  go init steps twin 0 0

end ParamVerif.Refs
