/-
Without user watchers that assign and without instance-level constant flags, the operation layer of
Refs/Hooks.lean (what the driver executes) is the model of Refs/Model.lean, about which the theorems of
Props/C02.lean and Props/C08.lean are stated.
-/
import ParamVerif.Refs.Hooks
import ParamVerif.Refs.Lemmas

namespace ParamVerif.Refs

def noHooks (h : HCfg) : Prop := h.hooks = []

theorem fireHooks_nil {c : Cfg} {h : HCfg} (hh : noHooks h) (L : List (Nat × Nat)) (t : Nat) (keys inSync : List Nat)
    (ec : Bool) (w : World) : fireHooks c h L t keys inSync ec w = (w, []) := by
  unfold fireHooks
  have : (keys.flatMap fun k => h.hooks.filter fun x => x.t == t && x.a == k) = [] := by
    rw [hh]; simp
  rw [this]; rfl

theorem setInstH_nil (c : Cfg) (t p : Nat) (rhs : Rhs) (w : World) : setInstH c [] t p rhs w = setInst c t p rhs w := by
  simp [setInstH]

theorem updateKeysH_nil (c : Cfg) (t : Nat) : ∀ (kvs : List (Nat × Rhs)) (w : World),
    updateKeysH c [] t kvs w = updateKeys c t kvs w := by
  intro kvs
  induction kvs with
  | nil => intro w; rfl
  | cons kv rest ih =>
    intro w
    obtain ⟨k, r⟩ := kv
    simp only [updateKeysH, updateKeys, setInstH_nil]
    split
    · rfl
    · cases hs : setInst c t k r w with
      | mk r1 q =>
        obtain ⟨w1, e1⟩ := q
        cases r1 with
        | ok => simp only [ih]
        | raised e => rfl

theorem updateH_nil {c : Cfg} {h : HCfg} (hh : noHooks h) (t : Nat) (kvs : List (Nat × Rhs)) (w : World) :
    updateH c h [] t kvs w = update c t kvs w := by
  simp [updateH, update, updateKeysH_nil, fireHooks_nil hh]

theorem syncRefsH_nil {c : Cfg} {h : HCfg} (hh : noHooks h) (t : Nat) (d : SrcP) (w : World) :
    syncRefsH c h [] t d w = syncRefs c t d w := by
  unfold syncRefsH
  simp only [fireHooks_nil hh, List.append_nil]
  rfl

theorem syncAllH_nil {c : Cfg} {h : HCfg} (hh : noHooks h) (d : SrcP) : ∀ (ws : List Nat) (w : World),
    syncAllH c h [] d ws w = syncAll c d ws w := by
  intro ws
  induction ws with
  | nil => intro w; rfl
  | cons t rest ih =>
    intro w
    simp only [syncAllH, syncAll, syncRefsH_nil hh]
    cases hs : syncRefs c t d w with
    | mk r1 q =>
      obtain ⟨w1, l1⟩ := q
      cases r1 with
      | ok => simp only [ih]
      | raised e => rfl

theorem srcSetH_nil {c : Cfg} {h : HCfg} (hh : noHooks h) (s i : Nat) (v : Int) (w : World) :
    srcSetH c h [] s i v w = srcSet c s i v w := by
  unfold srcSetH
  simp only [syncAllH_nil hh]
  rfl

/-- **the driver's semantics is the model.**  With no hooks and nothing locked, an operation of the hook
layer does exactly what the model's `step` does (and locks nothing). -/
theorem stepH_eq_step {c : Cfg} {h : HCfg} (hh : noHooks h) (op : Op) (w : World) :
    stepH c h (.base op) { w := w, locked := [] } =
      ((step c op w).1, { w := (step c op w).2.1, locked := [] }, (step c op w).2.2) := by
  have hsup : OpH.supported c h [] w (.base op) = op.supported c := by
    cases op <;> simp [OpH.supported, lockedOk]
    cases w.stack <;> simp [lockedOk]
  unfold stepH step
  simp only [hsup]
  split
  · rfl
  · cases op with
    | set t p rhs =>
      simp only [setInstH_nil, fireHooks_nil hh]
      split
      · rfl
      · simp [entryOf]
    | setCls t p rhs => rfl
    | update t kvs => simp only [updateH_nil hh]; split <;> rfl
    | ctxEnter t kvs =>
      simp only [ctxEnterH, ctxEnter, updateH_nil hh]
      split
      · cases hu : update c t kvs w with
        | mk r q =>
          obtain ⟨w1, l⟩ := q
          cases r with
          | ok =>
            simp only
            cases hb : (w.tgts[t]?.bind fun x => restorerOf x (dedupKeys kvs)) with
            | none => rfl
            | some back => rfl
          | raised e => rfl
      · rfl
    | ctxExit =>
      simp only [ctxExitH, ctxExit]
      cases w.stack with
      | nil => rfl
      | cons r rest => simp only [updateH_nil hh]
    | srcSet s i v => simp only [srcSetH_nil hh]

end ParamVerif.Refs
