/-
C02 — A rejected assignment has no observable effect.

  "If assigning to a parameter raises, the value of that and every other parameter, the
   references linked to the object and the watchers registered on any object are exactly as
   before the attempt, and no watcher has been invoked. This holds for plain values and equally
   for references (a Parameter, bound function or reactive expression handed to an `allow_refs`
   parameter) whose current value is invalid for the target."

Model: Refs/Model.lean — `Parameter.__set__` as written after fix a2a2c2a (reference resolution,
*deferred* relink, `_validate`, constant/readonly guard, store, `relink()`), `_update`, the class
route.  A `World` holds *everything* the model knows: all source values, all target values and
class defaults, every refs table, every `_sync_refs` watcher of every source, the open `update`
contexts.  The theorems conclude `w' = w` for the whole world and an empty watcher log, for an
arbitrary world `w` — so for every prior history of links, relinks, overrides, source updates and
`update` contexts — and for every right-hand side: plain values, Parameters, bound functions /
rx expressions, nested containers.
-/
import ParamVerif.Refs.Lemmas

namespace ParamVerif.Refs

/-- **C02, instance route.**  `t.p = rhs` raised (ValueError from `_validate` — invalid plain
value, or reference whose *current value* is invalid — or TypeError from the constant/readonly
guard): the world is the world before and the universal watchers logged nothing. -/
theorem rejected_no_effect_instance (c : Cfg) (t p : Nat) (rhs : Rhs) (w w' : World) (e : Err) (log : List Entry)
    (h : step c (.set t p rhs) w = (.raised e, w', log)) : w' = w ∧ log = [] := by
  unfold step at h
  split at h
  · simp at h; exact ⟨h.2.1.symm, h.2.2⟩
  · simp only at h
    split at h
    · simp at h; exact ⟨h.2.1.symm, h.2.2⟩
    · cases hs : setInst c t p rhs w with
      | mk r q =>
        obtain ⟨w1, evs⟩ := q
        rw [hs] at h
        simp at h
        obtain ⟨hr, hw, hl⟩ := h
        subst hr hw
        obtain ⟨hw, he⟩ := setInst_raised hs
        subst hw he
        exact ⟨rfl, by simpa using hl.symm⟩

/-- **C02, class route.**  `T.p = rhs` raised: nothing changed, nothing logged. -/
theorem rejected_no_effect_class (c : Cfg) (t p : Nat) (rhs : Rhs) (w w' : World) (e : Err) (log : List Entry)
    (h : step c (.setCls t p rhs) w = (.raised e, w', log)) : w' = w ∧ log = [] := by
  unfold step at h
  split at h
  · simp at h; exact ⟨h.2.1.symm, h.2.2⟩
  · exact setCls_raised h

/-- **C02, `update` route.**  `t.param.update(kvs)` raised: the keys before the rejected one are
applied (that is C05's business) and the rejected key contributed nothing — the resulting world and
the resulting log are *exactly* those of the successful `update` of the keys before it, and in that
world the rejected key is (still) rejected without effect. -/
theorem rejected_no_effect_update (c : Cfg) (t : Nat) (kvs : List (Nat × Rhs)) (w w' : World) (e : Err)
    (log : List Entry) (h : update c t kvs w = (.raised e, w', log)) :
    ∃ pre k r post, dedupKeys kvs = pre ++ (k, r) :: post ∧
      ∃ evs, updateKeys c t pre w = (.ok, w', evs) ∧ log = flushEntry t (nparams c t) evs ∧
      (k ≥ nparams c t ∨ setInst c t k r w' = (.raised e, w', [])) := by
  unfold update at h
  cases hu : updateKeys c t (dedupKeys kvs) w with
  | mk r q =>
    obtain ⟨w1, evs⟩ := q
    rw [hu] at h
    simp at h
    obtain ⟨hr, hw, hl⟩ := h
    subst hr hw
    obtain ⟨pre, k, r, post, hk, hp, hrej⟩ := updateKeys_raised hu
    exact ⟨pre, k, r, post, hk, evs, hp, hl.symm, hrej⟩

/-- … and a rejected `with t.param.update(...)` opens no context: it *is* the rejected `update`. -/
theorem rejected_no_effect_update_context (c : Cfg) (t : Nat) (kvs : List (Nat × Rhs)) (w w' : World) (e : Err)
    (log : List Entry) (h : ctxEnter c t kvs w = (.raised e, w', log)) (hm : e ≠ .notModelled) :
    update c t kvs w = (.raised e, w', log) := by
  unfold ctxEnter at h
  cases hu : update c t kvs w with
  | mk r q =>
    obtain ⟨w1, l⟩ := q
    rw [hu] at h
    cases r with
    | ok =>
      simp only at h
      split at h
      · simp at h
      · simp at h; exact absurd h.1.symm hm
    | raised e' => simpa using h

/-- **C02, constant / readonly.**  On an initialised instance the guard rejects every value for a
readonly parameter and every non-identical value for a constant one — plain or resolved from a
reference, whatever link change `rl` the assignment would have made — after validation and before
anything is stored or relinked: the outcome is an exception and the world is untouched. -/
theorem constant_readonly_rejected_no_effect (c : Cfg) (t p : Nat) (d : PDecl) (old v : Val) (rl : Relink) (w : World)
    (hg : d.readonly = true ∨ (d.constant = true ∧ identical v old = false)) :
    ∃ e, setCore c t p d old (some v) rl false w = (.raised e, w, []) ∧
      (d.valid v = true → e = .type_) := by
  unfold setCore
  by_cases hv : d.valid v = true
  · rcases hg with hr | ⟨hc, hi⟩
    · exact ⟨.type_, by simp [hv, hr], fun _ => rfl⟩
    · by_cases hr : d.readonly = true
      · exact ⟨.type_, by simp [hv, hr], fun _ => rfl⟩
      · exact ⟨.type_, by simp [hv, hr, hc, hi], fun _ => rfl⟩
  · exact ⟨.value, by simp [hv], fun h => absurd h hv⟩

/-- **C02, no hidden effect.**  Because the *whole* world is unchanged, every later history (the
probe suffix of the harness: update every old and new source, read everything) runs exactly as if
the rejected assignment had never been attempted. -/
theorem rejected_then_any_history (c : Cfg) (op : Op) (w w' : World) (e : Err) (log : List Entry) (later : List Op)
    (hop : (∃ t p rhs, op = .set t p rhs) ∨ (∃ t p rhs, op = .setCls t p rhs))
    (h : step c op w = (.raised e, w', log)) :
    runOps c (op :: later) w = runOps c later w := by
  have hw : w' = w := by
    rcases hop with ⟨t, p, rhs, rfl⟩ | ⟨t, p, rhs, rfl⟩
    · exact (rejected_no_effect_instance c t p rhs w w' e log h).1
    · exact (rejected_no_effect_class c t p rhs w w' e log h).1
  simp [runOps, h, hw]

/-! ### the hypotheses are satisfiable: a linked, bounded parameter and the three kinds of rejection -/

namespace Example

def c : Cfg := { F := fun k xs => k + xs.foldl (· + ·) 0, nsp := 1,
                 decls := [[{ kind := .int, lo := some 0, hi := some 10, constant := false, readonly := false, allowRefs := true, nestedRefs := false },
                            { kind := .int, lo := some 0, hi := some 10, constant := true, readonly := false, allowRefs := true, nestedRefs := false }]] }

/-- sources S0.v0 = 1, S1.v0 = 99; `T0(p0=S0.param.v0)` -/
def w0 : World := (construct c [.int 0, .int 1] [(0, .atom (.par 0 0))]
                    { src := [[1], [99]], watch := [[], []], tgts := [], stack := [] }).2

example : w0.tgts.map (·.refs) = [[(0, .atom (.par 0 0))]] ∧ w0.watch = [[(0, [0])], []] := by decide
/-- invalid-valued reference (the fixed defect a2a2c2a: the link used to switch to S1 here) -/
example : step c (.set 0 0 (.atom (.par 1 0))) w0 = (.raised .value, w0, []) := by decide
/-- invalid plain value on a linked parameter (used to drop the link) -/
example : step c (.set 0 0 (.atom (.lit 50))) w0 = (.raised .value, w0, []) := by decide
/-- constant violation with a valid-valued reference (the guard used to run after the relink) -/
example : step c (.set 0 1 (.atom (.par 0 0))) w0 ≠ (.ok, w0, []) ∧
    (step c (.set 0 1 (.atom (.fn [(0, 0)] 4 false none))) w0).1 = .raised .type_ := by decide
/-- `update`: the first key is applied, the second rejected -/
example : (update c 0 [(0, .atom (.lit 3)), (1, .atom (.lit 7))] w0).1 = .raised .type_ := by decide

end Example

end ParamVerif.Refs
