/-
C02 — A rejected assignment has no observable effect.

  "If assigning to a parameter raises, the value of that and every other parameter, the
   references linked to the object and the watchers registered on any object are exactly as
   before the attempt, and no watcher has been invoked. This holds for plain values and equally
   for references (a Parameter, bound function or reactive expression handed to an `allow_refs`
   parameter) whose current value is invalid for the target."

What the theorems are about.  The setter of the model (`setCore`) is proved equal to a *statement
machine* (`setStaged … codeOrder`, Refs/Model.lean) that executes `validate; guard; store; relink` one
after the other on a world that is NOT rolled back when a statement raises.  C02 for the instance
route is therefore a statement about the ORDER: `checks_before_effects_leave_no_trace` holds for every
order that runs all checks before the first effect, and `relink_before_validate_leaves_a_trace` shows
that the order of the code before fix a2a2c2a (link change first) violates it.  Whether the *code*
has the order of the model is established by correspondence (harness twin runs), not by proof.

The `update` route is weaker than the English sentence: the keys before the rejected one ARE applied
(`C02_full_update_refuted`); the theorem that holds says the rejected key itself contributes nothing.

Not in the model world, oracle only (harness `aux` / `own`): Event parameter modes, the `syncing` set,
`constant` flags, generators shared between parameters, Parameter copies in subclasses, user watchers
other than the universal logging one.

Model: Refs/Model.lean — `Parameter.__set__` as written after fix a2a2c2a (reference resolution,
*deferred* relink, `_validate`, constant/readonly guard, store, `relink()`), `_update`, the class
route.  A `World` holds *everything* the model knows: all source values, all target values and
class defaults, every refs table, every `_sync_refs` watcher of every source, the open `update`
contexts.  The theorems conclude `w' = w` for the whole world and an empty watcher log, for an
arbitrary world `w` — so for every prior history of links, relinks, overrides, source updates and
`update` contexts — and for every right-hand side: plain values, Parameters, bound functions /
rx expressions, nested containers.
-/
import ParamVerif.Refs.Lemmas

namespace ParamVerif.Refs

/-- **C02, instance route.**  `t.p = rhs` raised (ValueError from `_validate` — invalid plain
value, or reference whose *current value* is invalid — or TypeError from the constant/readonly
guard): the world is the world before and the universal watchers logged nothing. -/
theorem rejected_no_effect_instance (c : Cfg) (t p : Nat) (rhs : Rhs) (w w' : World) (e : Err) (log : List Entry)
    (h : step c (.set t p rhs) w = (.raised e, w', log)) : w' = w ∧ log = [] := by
  unfold step at h
  split at h
  · simp at h; exact ⟨h.2.1.symm, h.2.2⟩
  · simp only at h
    split at h
    · simp at h; exact ⟨h.2.1.symm, h.2.2⟩
    · cases hs : setInst c t p rhs w with
      | mk r q =>
        obtain ⟨w1, evs⟩ := q
        rw [hs] at h
        simp at h
        obtain ⟨hr, hw, hl⟩ := h
        subst hr hw
        obtain ⟨hw, he⟩ := setInst_raised hs
        subst hw he
        exact ⟨rfl, by simpa using hl.symm⟩

/-- **C02, class route.**  `T.p = rhs` raised: nothing changed, nothing logged. -/
theorem rejected_no_effect_class (c : Cfg) (t p : Nat) (rhs : Rhs) (w w' : World) (e : Err) (log : List Entry)
    (h : step c (.setCls t p rhs) w = (.raised e, w', log)) : w' = w ∧ log = [] := by
  unfold step at h
  split at h
  · simp at h; exact ⟨h.2.1.symm, h.2.2⟩
  · exact setCls_raised h

/-- **C02, `update` route.**  `t.param.update(kvs)` raised: the keys before the rejected one are
applied (that is C05's business) and the rejected key contributed nothing — the resulting world and
the resulting log are *exactly* those of the successful `update` of the keys before it, and in that
world the rejected key is (still) rejected without effect. -/
theorem rejected_no_effect_update (c : Cfg) (t : Nat) (kvs : List (Nat × Rhs)) (w w' : World) (e : Err)
    (log : List Entry) (h : update c t kvs w = (.raised e, w', log)) :
    ∃ pre k r post, dedupKeys kvs = pre ++ (k, r) :: post ∧
      ∃ evs, updateKeys c t pre w = (.ok, w', evs) ∧ log = flushEntry t (nparams c t) evs ∧
      (k ≥ nparams c t ∨ setInst c t k r w' = (.raised e, w', [])) := by
  unfold update at h
  cases hu : updateKeys c t (dedupKeys kvs) w with
  | mk r q =>
    obtain ⟨w1, evs⟩ := q
    rw [hu] at h
    simp at h
    obtain ⟨hr, hw, hl⟩ := h
    subst hr hw
    obtain ⟨pre, k, r, post, hk, hp, hrej⟩ := updateKeys_raised hu
    exact ⟨pre, k, r, post, hk, evs, hp, hl.symm, hrej⟩

/-- … and a rejected `with t.param.update(...)` opens no context: it *is* the rejected `update`. -/
theorem rejected_no_effect_update_context (c : Cfg) (t : Nat) (kvs : List (Nat × Rhs)) (w w' : World) (e : Err)
    (log : List Entry) (h : ctxEnter c t kvs w = (.raised e, w', log)) (hm : e ≠ .notModelled) :
    update c t kvs w = (.raised e, w', log) := by
  unfold ctxEnter at h
  cases hu : update c t kvs w with
  | mk r q =>
    obtain ⟨w1, l⟩ := q
    rw [hu] at h
    cases r with
    | ok =>
      simp only at h
      split at h
      · simp at h
      · simp at h; exact absurd h.1.symm hm
    | raised e' => simpa using h

/-- **C02, constant / readonly.**  On an initialised instance the guard rejects every value for a
readonly parameter and every non-identical value for a constant one — plain or resolved from a
reference, whatever link change `rl` the assignment would have made — after validation and before
anything is stored or relinked: the outcome is an exception and the world is untouched. -/
theorem constant_readonly_rejected_no_effect (c : Cfg) (t p : Nat) (d : PDecl) (old v : Val) (rl : Relink) (w : World)
    (hg : d.readonly = true ∨ (d.constant = true ∧ identical v old = false)) :
    ∃ e, setCore c t p d old (some v) rl false w = (.raised e, w, []) ∧
      (d.valid v = true → e = .type_) := by
  unfold setCore
  by_cases hv : d.valid v = true
  · rcases hg with hr | ⟨hc, hi⟩
    · exact ⟨.type_, by simp [hv, hr], fun _ => rfl⟩
    · by_cases hr : d.readonly = true
      · exact ⟨.type_, by simp [hv, hr], fun _ => rfl⟩
      · exact ⟨.type_, by simp [hv, hr, hc, hi], fun _ => rfl⟩
  · exact ⟨.value, by simp [hv], fun h => absurd h hv⟩

/-- **C02, no hidden effect.**  Because the *whole* world is unchanged, every later history (the
probe suffix of the harness: update every old and new source, read everything) runs exactly as if
the rejected assignment had never been attempted. -/
theorem rejected_then_any_history (c : Cfg) (op : Op) (w w' : World) (e : Err) (log : List Entry) (later : List Op)
    (hop : (∃ t p rhs, op = .set t p rhs) ∨ (∃ t p rhs, op = .setCls t p rhs))
    (h : step c op w = (.raised e, w', log)) :
    runOps c (op :: later) w = runOps c later w := by
  have hw : w' = w := by
    rcases hop with ⟨t, p, rhs, rfl⟩ | ⟨t, p, rhs, rfl⟩
    · exact (rejected_no_effect_instance c t p rhs w w' e log h).1
    · exact (rejected_no_effect_class c t p rhs w w' e log h).1
  simp [runOps, h, hw]

/-- **C02, it is the order.**  Run the statements of the setter in ANY order in which every check
(`validate`, `guard`) comes before every effect (`store`, `relink`), on a world that is not rolled back:
if a statement raises, the world is the world before the assignment. -/
theorem checks_before_effects_leave_no_trace (c : Cfg) (a : SetArgs) (checks effects : List Stage) (w w' : World)
    (e : Err) (evs : List (Nat × Val))
    (hc : ∀ st ∈ checks, st.isCheck = true) (he : ∀ st ∈ effects, st.isCheck = false)
    (h : setStaged c a (checks ++ effects) w = (.raised e, w', evs)) : w' = w ∧ evs = [] := by
  unfold setStaged at h
  cases hr : runStages c a (checks ++ effects) (w, true) with
  | ok s => rw [hr] at h; simp at h
  | error x =>
    obtain ⟨e0, w0⟩ := x
    rw [hr] at h
    simp at h
    obtain ⟨_, hw, hev⟩ := h
    subst hw
    exact ⟨runStages_checks_first checks effects w true e0 w0 hc he hr, hev⟩

/-- … the model's setter is that machine in the order of the code (`validate; guard; store; relink`),
so a rejected `setCore` leaves no trace *because of that order*. -/
theorem setter_runs_checks_first (c : Cfg) (t p : Nat) (d : PDecl) (old v : Val) (rl : Relink) (ec : Bool) (w w' : World)
    (e : Err) (evs : List (Nat × Val)) (h : setCore c t p d old (some v) rl ec w = (.raised e, w', evs)) :
    w' = w ∧ evs = [] := by
  rw [setCore_is_code_order] at h
  exact checks_before_effects_leave_no_trace c _ [.validate, .guard] [.store, .relink] w w' e evs
    (by decide) (by decide) h

/-- the `update` route read literally ("exactly as before") -/
def C02_full_update : Prop :=
  ∀ (c : Cfg) (t : Nat) (kvs : List (Nat × Rhs)) (w w' : World) (e : Err) (log : List Entry),
    update c t kvs w = (.raised e, w', log) → w' = w ∧ log = []

/-- **C02, rejected `with update(...)` exit.**  When restoring an `update` context is rejected, the
context is closed all the same and the restore behaves like any rejected `update`
(`rejected_no_effect_update` applies to it). -/
theorem rejected_ctx_exit (c : Cfg) (w w' : World) (e : Err) (log : List Entry) (hne : e ≠ .noCtx)
    (h : step c .ctxExit w = (.raised e, w', log)) :
    ∃ r rest, w.stack = r :: rest ∧ update c r.t r.kvs { w with stack := rest } = (.raised e, w', log) := by
  have h' : ctxExit c w = (.raised e, w', log) := by simpa [step, Op.supported] using h
  unfold ctxExit at h'
  split at h'
  · simp at h'; exact absurd h'.1.symm hne
  · rename_i r rest hst
    exact ⟨r, rest, hst, h'⟩

/-- **C02, a source update whose write into a linked parameter is rejected** (the rejected
assignment happens inside `_sync_refs`; the assignment to the source itself succeeded).  Whatever the
outcome: no watcher, no link, no class default and no open context changes; other sources keep their
values; of the target values only those whose link depends on the updated source parameter may
change. -/
theorem failed_source_update_frame (c : Cfg) (s i : Nat) (v : Int) (w w' : World) (res : Res) (log : List Entry)
    (hnd : ∀ (t : Nat) (tg : Target), w.tgts[t]? = some tg → keysNodup tg.refs)
    (h : step c (.srcSet s i v) w = (res, w', log)) :
    w'.watch = w.watch ∧ w'.stack = w.stack ∧ w'.tgts.length = w.tgts.length ∧
    (∀ d, d ≠ (s, i) → readSrc w' d = readSrc w d) ∧
    ∀ (t : Nat) (tg : Target), w.tgts[t]? = some tg →
      ∃ vals', w'.tgts[t]? = some { tg with vals := vals' } ∧
        (∀ (q : Nat), ¬ dependent c t (s, i) tg.refs q → vals'[q]? = tg.vals[q]?) :=
  have h' : srcSet c s i v w = (res, w', log) := by simpa [step, Op.supported] using h
  let ⟨h1, h2, h3, h4, h5⟩ := srcSet_frame hnd h'
  ⟨h1, h2, h3, h4, fun t tg ht => let ⟨vals', a, b, _⟩ := h5 t tg ht; ⟨vals', a, b⟩⟩

/-! ### the hypotheses are satisfiable: a linked, bounded parameter and the three kinds of rejection -/

namespace Example

def c : Cfg := { F := fun k xs => k + xs.foldl (· + ·) 0, nsp := 1,
                 decls := [[{ kind := .int, lo := some 0, hi := some 10, constant := false, readonly := false, allowRefs := true, nestedRefs := false },
                            { kind := .int, lo := some 0, hi := some 10, constant := true, readonly := false, allowRefs := true, nestedRefs := false }]] }

/-- sources S0.v0 = 1, S1.v0 = 99; `T0(p0=S0.param.v0)` -/
def w0 : World := (construct c [.int 0, .int 1] [(0, .atom (.par 0 0))]
                    { src := [[1], [99]], watch := [[], []], tgts := [], stack := [] }).2

example : w0.tgts.map (·.refs) = [[(0, .atom (.par 0 0))]] ∧ w0.watch = [[(0, [0])], []] := by decide
/-- invalid-valued reference (the fixed defect a2a2c2a: the link used to switch to S1 here) -/
example : step c (.set 0 0 (.atom (.par 1 0))) w0 = (.raised .value, w0, []) := by decide
/-- invalid plain value on a linked parameter (used to drop the link) -/
example : step c (.set 0 0 (.atom (.lit 50))) w0 = (.raised .value, w0, []) := by decide
/-- constant violation with a valid-valued reference (the guard used to run after the relink) -/
example : step c (.set 0 1 (.atom (.par 0 0))) w0 ≠ (.ok, w0, []) ∧
    (step c (.set 0 1 (.atom (.fn [(0, 0)] 4 false none))) w0).1 = .raised .type_ := by decide
/-- `update`: the first key is applied, the second rejected -/
example : (update c 0 [(0, .atom (.lit 3)), (1, .atom (.lit 7))] w0).1 = .raised .type_ := by decide

/-- the literal reading of the `update` route is false: the key before the rejected one was applied -/
theorem C02_full_update_refuted : ¬ C02_full_update := by
  intro h
  have := (h c 0 [(0, .atom (.lit 3)), (1, .atom (.lit 7))] w0 _ _ _
    (rfl : update c 0 [(0, .atom (.lit 3)), (1, .atom (.lit 7))] w0 =
      (_, (update c 0 [(0, .atom (.lit 3)), (1, .atom (.lit 7))] w0).2.1, (update c 0 [(0, .atom (.lit 3)), (1, .atom (.lit 7))] w0).2.2)))
  revert this; decide

/-- the order before fix a2a2c2a (link change first) leaves a trace: the rejected reference to S1 has
already replaced the link to S0 when `_validate` raises -/
theorem relink_before_validate_leaves_a_trace :
    ∃ (a : SetArgs) (e : Err) (w' : World), setStaged c a preFixOrder w0 = (.raised e, w', []) ∧ w' ≠ w0 :=
  ⟨{ t := 0, p := 0, d := { kind := .int, lo := some 0, hi := some 10, constant := false, readonly := false, allowRefs := true, nestedRefs := false },
     old := .int 1, v := .int 99, rl := .link (.atom (.par 1 0)), editConst := false }, .value, _, rfl, by decide⟩

end Example

end ParamVerif.Refs
