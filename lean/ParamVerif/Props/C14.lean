/-
C14 — Constant and read-only parameters cannot be rebound after construction.

  "Once an instance is constructed, the object held by a `constant=True` parameter changes
   only inside `edit_constant` (or at class level, which does not affect existing instances),
   and a `readonly=True` parameter cannot be assigned at instance or class level at all; every
   other attempt raises TypeError and leaves the value untouched. `edit_constant` restores
   every constant flag on exit, normal or exceptional, at class and instance level, and the
   `name` parameter is constant."

Model: Store/Const.lean (setter guard with identity comparison, per-instance Parameter copies,
`edit_constant` as written with its `finally` clause, nested statement lists that stop at the first
exception, constructor, `update`, class-level assignment with copy-on-write, flag edits).
Only property theorems and their non-vacuity examples live here; helper lemmas are in
Store/ConstLemmas.lean (`Frame`, `ConstFrame`, `WF` are defined there).

What is FALSE of the code as it is now is refuted below (`C14_full_refuted`): `edit_constant`
flips the flags of *class-level* Parameter objects, so a Parameter copy taken meanwhile — the
per-instance copy of another instance, or the copy-on-write copy a class-level assignment installs
on a subclass — inherits `constant=False` and is never restored.  The histories are replayed on the
implementation by harness/props/c14.py.

NOT covered by the theorems, stated here so that nobody reads more into them:
  * the refuted part above (five recorded findings in KNOWN_FINDINGS.txt);
  * `readonly` is never edited in the model (`Op.flag` edits `constant` only), so "a read-only Parameter
    keeps its flag over any history" is true of the operations modelled, not of `p.readonly = False`;
  * single inheritance (`Hier`) for the "protection survives" theorems; `WF`/`Hier` are hypotheses on
    the start state (preserved by every statement: `wf_step`; witnessed by `witnessState`), there is
    no theorem that `initState` produces them;
  * `update` with a forbidden key: covered for what instances hold
    (`constant_object_changes_only_inside_edit_constant`), no separate theorem for its exception;
  * validation is modelled for the String parameter `name` only (ValueError before the guard); references,
    a running event loop, watchers other than the `failingEntry` probe, `per_instance=False` are outside.
-/
import ParamVerif.Store.ConstLemmas

namespace ParamVerif.Store.Const
open ParamVerif.Store

/-! ## `edit_constant` restores every flag -/

/-- **C14 (restore).**  Whatever the body of an `edit_constant` block does — nested blocks on any
instance, assignments, `update`, copies created early, late or inside, class-level assignments, a
body that raises at any depth — as long as it edits no flag explicitly, when the block is left
(normally or by the exception) every Parameter object that existed at entry, class-level or
instance-level, has the `constant` and `readonly` flags it had at entry. -/
theorem edit_constant_restores_every_flag (s : St) (i : IId) (body : List Op) (hb : noFlagL body = true)
    (p : PId) (q : Param) (hq : s.heap[p]? = some q) :
    ∃ q', (step s (.block i body)).1.heap[p]? = some q' ∧ q'.constant = q.constant ∧ q'.readonly = q.readonly := by
  obtain ⟨q1, h1, c1⟩ := const_step (.block i body) s (by simpa [Op.noFlag] using hb) p q hq
  obtain ⟨q2, h2, r2, _⟩ := (frame_step (.block i body) s).ro p q hq
  rw [h1] at h2; cases h2
  exact ⟨q1, h1, c1, r2⟩

/-- the same for a whole statement list (any number of blocks in sequence, at any depth) -/
theorem statements_restore_every_flag (s : St) (ops : List Op) (hb : noFlagL ops = true)
    (p : PId) (q : Param) (hq : s.heap[p]? = some q) :
    ∃ q', (runBody s ops).1.heap[p]? = some q' ∧ q'.constant = q.constant ∧ q'.readonly = q.readonly := by
  obtain ⟨q1, h1, c1⟩ := const_body ops s hb p q hq
  obtain ⟨q2, h2, r2, _⟩ := (frame_body ops s).ro p q hq
  rw [h1] at h2; cases h2
  exact ⟨q1, h1, c1, r2⟩

/-- the exception of the body leaves the block (after the `finally` clause ran) -/
theorem edit_constant_reraises (s : St) (i : IId) (x : Inst) (body : List Op) (hx : s.insts[i]? = some x) :
    (step s (.block i body)).2 = (runBody (blockEntry s x).1 body).2 ∧
    (step s (.block i body)).1 = blockExit (runBody (blockEntry s x).1 body).1 i (blockEntry s x).2 := by
  simp [step, hx]

/-- a statement list stops at the first exception -/
theorem body_stops_at_exception (s : St) (op : Op) (ops : List Op) (h : (step s op).2.continues = false) :
    runBody s (op :: ops) = step s op := by
  simp only [runBody, h]; rfl

/-- **C14 (restore, the copy created inside).**  If the Parameter object that governs `(obj, n)`
was constant at entry, then on exit the per-instance copy registered for `n` on `obj` — the same
object, or a copy created inside the block while the flag was off — is constant. -/
theorem edit_constant_copy_made_inside_is_constant (s : St) (i : IId) (x : Inst) (body : List Op)
    (hx : s.insts[i]? = some x) (n : Name) (p : PId) (q : Param)
    (hp : pobjOf s x n = some p) (hq : s.heap[p]? = some q) (hc : q.constant = true)
    (x' : Inst) (ip : PId) (q' : Param)
    (hx' : (step s (.block i body)).1.insts[i]? = some x') (hip : aget x'.iparams n = some ip)
    (hq' : (step s (.block i body)).1.heap[ip]? = some q') : q'.constant = true := by
  rw [(edit_constant_reraises s i x body hx).2] at hx' hq'
  -- (n, p) was remembered at entry
  have hmem : (n, p) ∈ (blockEntry s x).2 := by
    unfold blockEntry
    simp only [List.mem_filter, List.mem_filterMap, hq, hc, and_true]
    refine ⟨n, ?_, by rw [hp]; rfl⟩
    rw [List.mem_append]
    by_cases hns : n ∈ nsNames s x.cls
    · exact Or.inl hns
    · right
      rw [List.mem_filter]
      refine ⟨?_, by simpa using hns⟩
      unfold pobjOf at hp
      cases ha : aget x.iparams n with
      | some ip0 => exact (aget_isSome_iff_mem_keys _ _).1 (by rw [ha]; rfl)
      | none =>
        rw [ha] at hp
        simp only at hp
        cases hd : descriptor s x.cls n with
        | none => rw [hd] at hp; cases hp
        | some po => exact absurd (descriptor_mem_nsNames (p := po.1) (o := po.2) hd) hns
  rw [(exit_rest _ i _).1] at hx'
  have e3 := foldConst_cst true
    (touched (iparamsOf (runBody (blockEntry s x).1 body).1 i) (blockEntry s x).2)
    (runBody (blockEntry s x).1 body).1.heap ip
  rw [← exit_heap] at e3
  have hipar : iparamsOf (runBody (blockEntry s x).1 body).1 i = x'.iparams := by unfold iparamsOf; rw [hx']
  rw [hipar] at e3
  have ht : ip ∈ touched x'.iparams (blockEntry s x).2 := by
    unfold touched
    refine List.mem_flatMap.2 ⟨(n, p), hmem, ?_⟩
    simp only [hip]
    by_cases e : ip = p
    · simp [e]
    · simp [e]
  simp only [cst, hq', ht, if_true, Option.map_some] at e3
  cases h2 : (runBody (blockEntry s x).1 body).1.heap[ip]? with
  | none => rw [h2] at e3; simp at e3
  | some q2 => rw [h2] at e3; simpa using e3

/-! ## Outside `edit_constant` a constant parameter keeps its object -/

/-- **C14 (constant).**  No statement other than an `edit_constant` block — instance assignment of a
new or of the identical object or of an asynchronous reference, `update`, a class-level assignment on the declaring class or on a
subclass, a constructor call, a flag edit, `obj.param[n]` — changes the object an existing instance
holds under a parameter whose governing Parameter object is constant.  (The library's own renaming
`_set_name` / `_generate_name`, run under `as_uninitialized`, rewrites `name` and nothing else.) -/
theorem constant_object_changes_only_inside_edit_constant (s : St) (op : Op) (hwf : WF s)
    (hop : op.isBlock = false) (j : IId) (m : Name) (hj : j < s.insts.length)
    (hc : isConst (govFlags s j m) = true)
    (hren : op.renames.isSome = true → m ≠ "name") :
    stored (step s op).1 j m = stored s j m := by
  cases op with
  | newInst c kw =>
    simp only [step]
    split
    · rfl
    · split
      · rfl
      · apply stored_of_insts
        show (s.insts ++ _)[j]? = s.insts[j]?
        exact List.getElem?_append_left hj
  | instSet i n v => simp only [step]; exact (instSetCore_gov hwf i n v).2.2 j m hc
  | instSetAsync i n v =>
    simp only [step]
    split
    · rfl
    · split
      · rfl
      · split
        · rfl
        · split
          · exact (instSetCore_gov hwf i n v).2.2 j m hc
          · rfl
  | instSetSame i n =>
    simp only [step]
    split
    · rfl
    · split
      · rfl
      · exact (instSetCore_gov hwf i n _).2.2 j m hc
  | update i kvs =>
    simp only [step]
    split
    · rfl
    · obtain ⟨w1, g1, t1⟩ := touchKeys_gov i kvs hwf
      rw [(applyKeys_gov i kvs w1).2.2 j m (by rw [g1]; exact hc)]
      exact t1 j m
  | clsSet c n v => exact stored_of_insts (by rw [clsSet_insts]) m
  | flag i n b =>
    simp only [step]
    split
    · rfl
    · rename_i s1 ip hg
      exact (getParamCore_gov hwf hg).2.2.1 j m
  | clsFlag c n b =>
    simp only [step]
    split <;> rfl
  | getParam i n =>
    simp only [step]
    split
    · rfl
    · rename_i s1 ip hg
      exact (getParamCore_gov hwf hg).2.2.1 j m
  | setName i v =>
    simp only [step]
    exact (rename_gov hwf i v (renameCore s i v).1.nextObj).2.2 j m (hren rfl)
  | genName i =>
    obtain ⟨k, hk⟩ := genName_state s i
    rw [hk]; exact (rename_gov hwf i _ k).2.2 j m (hren rfl)
  | failingEntry i n => simp [Op.isBlock] at hop
  | raise => rfl
  | block i body => simp [Op.isBlock] at hop

/-- an instance that holds its own reference is not affected by the class-level default -/
theorem held_of_stored (s : St) (j : IId) (x : Inst) (m : Name) (o : Obj) (po : PId × CId)
    (hx : s.insts[j]? = some x) (hd : descriptor s x.cls m = some po) (hs : stored s j m = some o) :
    held s j m = some o := by
  unfold stored at hs; rw [hx] at hs
  unfold held; simp only [hx, hd, hs]

/-- **C14 (constants are referenced on the instance at construction).**  Every parameter of the
class whose Parameter object is constant when the constructor runs (other than `name`) is stored
on the new instance, so later class-level assignments do not reach it. -/
theorem constructor_references_constants (s : St) (c : CId) (kw : List (Name × Obj))
    (hok : (step s (.newInst c kw)).1.insts.length = s.insts.length + 1)
    (n : Name) (p : PId) (o : CId) (q : Param) (hd : descriptor s c n = some (p, o)) (hq : s.heap[p]? = some q) (hc : q.constant = true)
    (hname : n ≠ "name") : (stored (step s (.newInst c kw)).1 s.insts.length n).isSome = true := by
  cases hk : s.classes[c]? with
  | none => simp [step, hk] at hok
  | some k =>
    simp only [step, hk] at hok ⊢
    split at hok
    · simp at hok
    · rename_i vals hv
      unfold stored
      simp only [List.getElem?_concat_length]
      exact applyKw_keeps _ _ _ _ _ _ hv
        (refConstants_adds s c _ _ (descriptor_mem_nsNames hd) hd hq hc hname)

/-! ## Forbidden attempts -/

/-- **C14 (forbidden attempt).**  After construction, assigning to a parameter whose governing
Parameter object is read-only, or is constant while the object assigned is not the identical
object the guard sees, raises TypeError (for a value the Parameter's validation accepts — validation
comes first, see `invalid_value_raises_ValueError`), and nothing changes: no instance value, no
class dictionary, no existing Parameter object (at most the per-instance copy is created). -/
theorem forbidden_attempt_raises_TypeError_and_keeps_value (s : St) (hwf : WF s) (i : IId) (x : Inst)
    (n : Name) (v : Obj) (p : PId) (o : CId) (gp : PId) (q : Param)
    (hx : s.insts[i]? = some x) (hd : descriptor s x.cls n = some (p, o))
    (hg : governing s i n = some gp) (hq : s.heap[gp]? = some q) (hval : rejects s q v = false)
    (hforbidden : q.readonly = true ∨ (q.constant = true ∧ v ≠ guardOld s x n q)) :
    (step s (.instSet i n v)).2 = .typeError ∧
    (∀ j m, stored (step s (.instSet i n v)).1 j m = stored s j m) ∧
    (step s (.instSet i n v)).1.classes = s.classes ∧
    (∀ (p' : PId) (q' : Param), s.heap[p']? = some q' → (step s (.instSet i n v)).1.heap[p']? = some q') := by
  simp only [step, instSetCore, hx, hd]
  unfold governing pobjOf at hg
  rw [hx] at hg
  cases ha : aget x.iparams n with
  | some ip0 =>
    simp only [ha, Option.some.injEq] at hg
    subst hg
    simp only [instantiated, ha]
    rw [guardedStore_forbidden hq hval hforbidden]
    exact ⟨rfl, fun _ _ => rfl, rfl, fun _ _ h => h⟩
  | none =>
    simp only [ha, hd, Option.map_some, Option.some.injEq] at hg
    subst hg
    simp only [instantiated, ha, hq]
    have hq1 : (setInst { s with heap := s.heap ++ [q] } i
        { x with iparams := aset x.iparams n s.heap.length }).heap[s.heap.length]? = some q :=
      List.getElem?_concat_length
    have hold : guardOld (setInst { s with heap := s.heap ++ [q] } i { x with iparams := aset x.iparams n s.heap.length })
        { x with iparams := aset x.iparams n s.heap.length } n q = guardOld s x n q := by
      unfold guardOld
      simp only [descriptor_of_classes (s := s)
        (s' := setInst { s with heap := s.heap ++ [q] } i { x with iparams := aset x.iparams n s.heap.length }) rfl, hd]
      have : (setInst { s with heap := s.heap ++ [q] } i
          { x with iparams := aset x.iparams n s.heap.length }).heap[p]? = s.heap[p]? :=
        List.getElem?_append_left (hwf.desc hd)
      rw [this]
    rw [guardedStore_forbidden hq1 (by exact hval) (by rw [hold]; exact hforbidden)]
    have hin : instantiated s i x n p = .ok (setInst { s with heap := s.heap ++ [q] } i
        { x with iparams := aset x.iparams n s.heap.length },
        { x with iparams := aset x.iparams n s.heap.length }, s.heap.length) := by
      simp only [instantiated, ha, hq]
    refine ⟨rfl, (instantiated_gov hwf hx hd hin).2.2.1, rfl, fun _ _ h => append_get h⟩

/-- re-assigning the identical object to a constant parameter is accepted and changes nothing -/
theorem identical_object_is_accepted (s : St) (i : IId) (x : Inst) (n : Name) (ip : PId) (q : Param)
    (hq : s.heap[ip]? = some q) (hc : q.constant = true) (hr : q.readonly = false)
    (hval : rejects s q (guardOld s x n q) = false) :
    guardedStore s i x n ip (guardOld s x n q) = (s, .ok) := by
  unfold guardedStore
  simp [hq, hc, hr, hval]

/-- **C14 (validation comes before the guard).**  A value the governing Parameter's validation rejects
(a non-string for `name`) raises ValueError — not TypeError — whatever the flags, and nothing changes;
likewise `obj.param._set_name(v)` with such a value: the object is as before, and still locked. -/
theorem invalid_value_raises_ValueError (s : St) (i : IId) (x : Inst) (n : Name) (ip : PId) (q : Param) (v : Obj)
    (hq : s.heap[ip]? = some q) (hval : rejects s q v = true) :
    guardedStore s i x n ip v = (s, .valueError) := guardedStore_invalid hq hval

theorem invalid_rename_changes_nothing (s : St) (i : IId) (x : Inst) (gp : PId) (q : Param) (v : Obj)
    (hx : s.insts[i]? = some x) (hg : pobjOf s x "name" = some gp) (hq : s.heap[gp]? = some q)
    (hval : rejects s q v = true) : step s (.setName i v) = (s, .valueError) := by
  simp only [step, renameCore, hx, hg, hq, hval, if_true]

/-- what the guard compares with is what the attribute reads (`Parameter._held_value`, e80cc81): after the
class default was re-assigned under an existing per-instance copy, `a.c = a.c` is the accepted
re-assignment and the copy's stale default is refused like any other object -/
theorem guard_compares_with_what_the_attribute_reads (s : St) (i : IId) (x : Inst) (n : Name) (q qc : Param)
    (p : PId) (o : CId) (hx : s.insts[i]? = some x) (hd : descriptor s x.cls n = some (p, o))
    (hq : s.heap[p]? = some qc) : held s i n = some (guardOld s x n q) := by
  unfold held guardOld
  simp only [hx, hd, hq]
  cases aget x.values n <;> rfl

/-! ## Read-only -/

/-- **C14 (read-only).**  `readonly_never_assignable`: at instance level (by
`forbidden_attempt_raises_TypeError_and_keeps_value`), at class level, in the constructor — and,
over *any* history whatsoever (blocks, flag edits, copies, class-level assignments included), a
read-only Parameter object keeps its flag and its default.  (Copies: `per_instance_copy_is_a_copy`
below — a per-instance copy carries the flags and default of the Parameter it was taken from.) -/
theorem readonly_never_assignable (s : St) (ops : List Op) (p : PId) (q : Param)
    (hq : s.heap[p]? = some q) (hr : q.readonly = true) :
    ∃ q', (run s ops).heap[p]? = some q' ∧ q'.readonly = true ∧ q'.default = q.default := by
  obtain ⟨q', h1, h2, h3⟩ := (frame_run ops s).ro p q hq
  exact ⟨q', h1, h2.trans hr, h3 hr⟩

/-- **C14 (read-only, class level).**  A class-level assignment to a parameter whose Parameter object
is read-only raises TypeError — on the declaring class and on a subclass (where the copy-on-write
copy is removed again), or ValueError when the value is invalid as well — and nothing at all changes. -/
theorem readonly_class_assignment (s : St) (c : CId) (n : Name) (v : Obj) (p : PId) (o : CId)
    (q : Param) (k : Cls) (hd : descriptor s c n = some (p, o)) (hq : s.heap[p]? = some q)
    (hk : s.classes[c]? = some k) (hr : q.readonly = true) :
    step s (.clsSet c n v) = (s, .typeError) ∨ step s (.clsSet c n v) = (s, .valueError) := by
  simp only [step, hd, hq, hk, hr, if_true]
  split
  · exact Or.inr rfl
  · exact Or.inl rfl

/-- a constructor keyword naming a read-only parameter is refused: TypeError (ValueError when an earlier
keyword is invalid), no instance is created (plain values: no silent references among the keywords) -/
theorem readonly_keyword_refused (s : St) (hwf : WF s) (c : CId) (kw : List (Name × Obj))
    (h : ∃ nv ∈ kw, ∃ p o q, descriptor s c nv.1 = some (p, o) ∧ s.heap[p]? = some q ∧ q.readonly = true)
    (k : Cls) (hk : s.classes[c]? = some k) (hs : s.silent = []) :
    step s (.newInst c kw) = (s, .typeError) ∨ step s (.newInst c kw) = (s, .valueError) := by
  simp only [step, hk]
  rcases applyKw_readonly hwf c kw _ h hs with e | e <;> rw [e]
  · exact Or.inl rfl
  · exact Or.inr rfl

/-! ## `name` -/

/-- **C14 (`name`).**  Every class created by `declare` carries its own `name` Parameter object, and it
is constant and not read-only. -/
theorem declared_class_name_is_constant (npool : Nat) (s : St) (d : List CId × List (Name × Bool × Bool × Obj × Bool)) :
    ∃ k p, (declare npool s d).classes[s.classes.length]? = some k ∧ aget k.dict "name" = some p ∧
      (declare npool s d).heap[p]? = some { constant := true, readonly := false, default := npool + s.classes.length,
                                            strOnly := true } := by
  unfold declare
  simp only
  refine ⟨_, _, List.getElem?_concat_length, aget_aset_self _ _ _, ?_⟩
  exact List.getElem?_concat_length

/-- **C14 (`name`).**  `name_is_constant`: an instance constructed from a class whose `name` Parameter
is constant is governed by a constant `name`, and holds a name of its own when one was generated
or passed in. -/
theorem name_is_constant (s : St) (c : CId) (kw : List (Name × Obj)) (ro : Bool)
    (hn : clsFlags s c "name" = some (true, ro))
    (hok : (step s (.newInst c kw)).1.insts.length = s.insts.length + 1) :
    govFlags (step s (.newInst c kw)).1 s.insts.length "name" = some (true, ro) := by
  obtain ⟨vals, nxt, hs'⟩ : ∃ vals nxt, (step s (.newInst c kw)).1 =
      { s with insts := s.insts ++ [{ cls := c, values := vals, iparams := [] }], nextObj := nxt } := by
    cases hk : s.classes[c]? with
    | none => simp [step, hk] at hok
    | some k =>
      simp only [step, hk] at hok ⊢
      split at hok
      · simp at hok
      · exact ⟨_, _, rfl⟩
  rw [hs']
  unfold govFlags governing
  simp only [List.getElem?_concat_length, pobjOf, aget]
  unfold clsFlags at hn
  rw [descriptor_of_classes
    (s' := { s with insts := s.insts ++ [{ cls := c, values := vals, iparams := [] }], nextObj := nxt }) (s := s) rfl,
    flagsOf_of_heap (s := s) (by rfl)]
  exact hn

/-- … and therefore cannot be rebound after construction: assigning any other object raises TypeError -/
theorem name_cannot_be_rebound (s : St) (hwf : WF s) (i : IId) (x : Inst) (v : Obj) (p : PId) (o : CId)
    (gp : PId) (q : Param) (hx : s.insts[i]? = some x) (hd : descriptor s x.cls "name" = some (p, o))
    (hg : governing s i "name" = some gp) (hq : s.heap[gp]? = some q) (hc : q.constant = true)
    (hval : rejects s q v = false) (hv : v ≠ guardOld s x "name" q) :
    (step s (.instSet i "name" v)).2 = .typeError :=
  (forbidden_attempt_raises_TypeError_and_keeps_value s hwf i x "name" v p o gp q hx hd hg hq hval
    (Or.inr ⟨hc, hv⟩)).1

/-! ## The full statement about protection, and its refutation -/

/-- "protection survives": in a history that edits no flag explicitly, the flags that govern
every existing (instance, name) are, after the history, what they were before -/
def C14_full : Prop :=
  ∀ (s : St) (ops : List Op), WF s → noFlagL ops = true →
    ∀ (j : IId) (m : Name), j < s.insts.length → govFlags (run s ops) j m = govFlags s j m

/-- class A: c = Parameter(default=o0, constant=True); two instances of A -/
def witnessState : St :=
  { heap := [{ constant := true, readonly := false, default := 0 },
             { constant := true, readonly := false, default := 1 }],
    classes := [{ mro := [0], dict := [("c", 0), ("name", 1)], nameObj := 1 }],
    insts := [{ cls := 0, values := [("name", 2), ("c", 0)], iparams := [] },
              { cls := 0, values := [("name", 3), ("c", 0)], iparams := [] }],
    nextObj := 4 }

/-- `with edit_constant(a0): a1.param['c']` — then `a1.c = new` is accepted outside any block -/
def witnessLeak : List Op := [.block 0 [.getParam 1 "c"]]

theorem witnessState_wf : WF witnessState := by
  constructor
  · intro i x n ip hx ha
    match i, hx with
    | 0, hx => simp [witnessState] at hx; subst hx; simp [aget] at ha
    | 1, hx => simp [witnessState] at hx; subst hx; simp [aget] at ha
    | i + 2, hx => simp [witnessState] at hx
  · intro c n p ha
    match c, ha with
    | 0, ha =>
      simp only [clsDict, witnessState, List.getElem?_cons_zero, aget] at ha
      split at ha
      · cases ha; decide
      · split at ha
        · cases ha; decide
        · cases ha
    | c + 1, ha => simp [clsDict, witnessState, aget] at ha

/-- **C14, "protection survives": refuted.**  A per-instance copy of *another* instance taken
inside an `edit_constant` block stays non-constant for good. -/
theorem C14_full_refuted : ¬ C14_full := by
  intro h
  have := h witnessState witnessLeak witnessState_wf (by decide) 1 "c" (by decide)
  revert this
  decide

/-- the rebinding that the leak permits: accepted outside any block -/
example : (step (run witnessState witnessLeak) (.instSet 1 "c" 7)).2 = .ok ∧
    held (run witnessState (witnessLeak ++ [.instSet 1 "c" 7])) 1 "c" = some 7 := by decide

/-- the second way: a class-level assignment on a subclass inside the block copies the temporarily
editable Parameter (class B(A); `with edit_constant(b): B.c = x`) -/
example :
    let s : St := { witnessState with
      classes := witnessState.classes ++ [{ mro := [1, 0], dict := [("name", 1)], nameObj := 1 }],
      insts := [{ cls := 1, values := [("name", 2), ("c", 0)], iparams := [] }] }
    clsFlags (run s [.block 0 [.clsSet 1 "c" 5]]) 1 "c" = some (false, false) ∧ clsFlags s 1 "c" = some (true, false) := by
  decide

/-- **C14 (protection survives a class-level assignment).**  Under single inheritance, a class-level
assignment on the declaring class or on a subclass — including the copy-on-write copy it installs
on the subclass — leaves the flags that govern every class and every existing instance as they
were: protection survives a preceding class-level set on a subclass. -/
theorem protection_survives_class_assignment (s : St) (hwf : WF s) (hh : Hier s) (c : CId) (n : Name) (v : Obj) :
    (∀ j m, j < s.insts.length → govFlags (step s (.clsSet c n v)).1 j m = govFlags s j m) ∧
    (∀ c' m, clsFlags (step s (.clsSet c n v)).1 c' m = clsFlags s c' m) :=
  ⟨(clsSet_gov hwf hh c n v).1, (clsSet_gov hwf hh c n v).2.1⟩

/-- one statement that is not a block and edits no flag -/
theorem protection_survives_step (s : St) (hwf : WF s) (hh : Hier s) (op : Op)
    (hb : op.isBlock = false) (hf : op.noFlag = true) :
    (∀ j m, j < s.insts.length → govFlags (step s op).1 j m = govFlags s j m) ∧ Hier (step s op).1 := by
  have hcls : (∀ c n v, op ≠ .clsSet c n v) → Hier (step s op).1 :=
    fun h => hier_of_classes (step_classes s op hb h) hh
  cases op with
  | newInst c kw => exact ⟨fun j m hj => newInst_gov s c kw j m hj, hcls (by intro _ _ _ h; cases h)⟩
  | instSet i n v =>
    refine ⟨fun j m _ => ?_, hcls (by intro _ _ _ h; cases h)⟩
    simp only [step]; exact (instSetCore_gov hwf i n v).2.1 j m
  | instSetAsync i n v =>
    refine ⟨fun j m _ => ?_, hcls (by intro _ _ _ h; cases h)⟩
    simp only [step]
    split
    · rfl
    · split
      · rfl
      · split
        · rfl
        · split
          · exact (instSetCore_gov hwf i n v).2.1 j m
          · rfl
  | instSetSame i n =>
    refine ⟨fun j m _ => ?_, hcls (by intro _ _ _ h; cases h)⟩
    simp only [step]
    split
    · rfl
    · split
      · rfl
      · exact (instSetCore_gov hwf i n _).2.1 j m
  | update i kvs =>
    refine ⟨fun j m _ => ?_, hcls (by intro _ _ _ h; cases h)⟩
    simp only [step]
    split
    · rfl
    · obtain ⟨w1, g1, _⟩ := touchKeys_gov i kvs hwf
      exact ((applyKeys_gov i kvs w1).2.1 j m).trans (g1 j m)
  | clsSet c n v => exact ⟨(clsSet_gov hwf hh c n v).1, (clsSet_gov hwf hh c n v).2.2⟩
  | flag i n b => simp [Op.noFlag] at hf
  | clsFlag c n b => simp [Op.noFlag] at hf
  | getParam i n =>
    refine ⟨fun j m _ => ?_, hcls (by intro _ _ _ h; cases h)⟩
    simp only [step]
    split
    · rfl
    · rename_i s1 ip hg
      exact (getParamCore_gov hwf hg).2.1 j m
  | setName i v =>
    refine ⟨fun j m _ => ?_, hcls (by intro _ _ _ h; cases h)⟩
    simp only [step]
    exact (rename_gov hwf i v (renameCore s i v).1.nextObj).2.1 j m
  | genName i =>
    refine ⟨fun j m _ => ?_, hcls (by intro _ _ _ h; cases h)⟩
    obtain ⟨k, hk⟩ := genName_state s i
    rw [hk]; exact (rename_gov hwf i _ k).2.1 j m
  | failingEntry i n => simp [Op.isBlock] at hb
  | raise => exact ⟨fun _ _ _ => rfl, hh⟩
  | block i body => simp [Op.isBlock] at hb

/-- **C14, "protection survives", partial.**  Under single inheritance, after any history that
contains no `edit_constant` block and no explicit flag edit — constructor calls, instance
assignments of new and identical objects, `update`, class-level assignments on declaring classes
and subclasses, `obj.param[n]` — every existing (instance, name) is governed by the flags it was
governed by at the start.  (With `forbidden_attempt_raises_TypeError_and_keeps_value` and
`constant_object_changes_only_inside_edit_constant`: what was protected stays protected.) -/
theorem protection_survives_partial (ops : List Op) (s : St) (hwf : WF s) (hh : Hier s)
    (hb : ops.all (fun op => !op.isBlock) = true) (hf : noFlagL ops = true)
    (j : IId) (m : Name) (hj : j < s.insts.length) : govFlags (run s ops) j m = govFlags s j m := by
  induction ops generalizing s with
  | nil => rfl
  | cons op ops ih =>
    simp only [List.all_cons, Bool.and_eq_true, Bool.not_eq_true'] at hb
    simp only [noFlagL, Bool.and_eq_true] at hf
    simp only [run, List.foldl_cons]
    obtain ⟨g, hh'⟩ := protection_survives_step s hwf hh op hb.1 hf.1
    have hj' : j < (step s op).1.insts.length := by
      obtain ⟨x, hx⟩ : ∃ x, s.insts[j]? = some x := ⟨_, List.getElem?_eq_getElem hj⟩
      obtain ⟨x', hx', _⟩ := (frame_step op s).insts j x hx
      exact (List.getElem?_eq_some_iff.1 hx').1
    have := ih (step s op).1 (wf_step op s hwf) hh' hb.2 hf.2 hj'
    simp only [run] at this
    rw [this]
    exact g j m hj

/-- **C14 (constant, over histories).**  Under single inheritance, through any history without
`edit_constant` blocks and explicit flag edits (and without the library renaming the object, when
the parameter is `name`), an instance governed by a constant Parameter keeps the very object it has
stored, and stays governed by a constant Parameter — so every attempt along the way to assign
another object is refused (`forbidden_attempt_raises_TypeError_and_keeps_value` applies in every
intermediate state). -/
theorem constant_stored_over_history (ops : List Op) (s : St) (hwf : WF s) (hh : Hier s)
    (hb : ops.all (fun op => !op.isBlock) = true) (hf : noFlagL ops = true)
    (j : IId) (m : Name) (hj : j < s.insts.length) (hc : isConst (govFlags s j m) = true)
    (hren : ops.all (fun op => !op.renames.isSome) = true ∨ m ≠ "name") :
    stored (run s ops) j m = stored s j m ∧ govFlags (run s ops) j m = govFlags s j m := by
  induction ops generalizing s with
  | nil => exact ⟨rfl, rfl⟩
  | cons op ops ih =>
    simp only [List.all_cons, Bool.and_eq_true, Bool.not_eq_true'] at hb
    simp only [noFlagL, Bool.and_eq_true] at hf
    simp only [run, List.foldl_cons]
    obtain ⟨g, hh'⟩ := protection_survives_step s hwf hh op hb.1 hf.1
    have hst := constant_object_changes_only_inside_edit_constant s op hwf hb.1 j m hj hc (by
      intro hr
      rcases hren with h | h
      · simp only [List.all_cons, Bool.and_eq_true, Bool.not_eq_true'] at h
        rw [h.1] at hr; cases hr
      · exact h)
    have hj' : j < (step s op).1.insts.length := by
      obtain ⟨x, hx⟩ : ∃ x, s.insts[j]? = some x := ⟨_, List.getElem?_eq_getElem hj⟩
      obtain ⟨x', hx', _⟩ := (frame_step op s).insts j x hx
      exact (List.getElem?_eq_some_iff.1 hx').1
    have hren' : ops.all (fun op => !op.renames.isSome) = true ∨ m ≠ "name" := by
      rcases hren with h | h
      · simp only [List.all_cons, Bool.and_eq_true] at h; exact Or.inl h.2
      · exact Or.inr h
    have := ih (step s op).1 (wf_step op s hwf) hh' hb.2 hf.2 hj' (by rw [g j m hj]; exact hc) hren'
    simp only [run] at this
    exact ⟨this.1.trans hst, this.2.trans (g j m hj)⟩

/-- … and therefore `getattr` keeps returning that object: class-level assignments made meanwhile,
on the declaring class or on subclasses, do not reach the instance -/
theorem constant_held_over_history (ops : List Op) (s : St) (hwf : WF s) (hh : Hier s)
    (hb : ops.all (fun op => !op.isBlock) = true) (hf : noFlagL ops = true)
    (j : IId) (m : Name) (o : Obj) (hj : j < s.insts.length) (hc : isConst (govFlags s j m) = true)
    (hren : ops.all (fun op => !op.renames.isSome) = true ∨ m ≠ "name")
    (hs : stored s j m = some o)
    (x' : Inst) (po : PId × CId) (hx' : (run s ops).insts[j]? = some x')
    (hd : descriptor (run s ops) x'.cls m = some po) :
    held (run s ops) j m = some o :=
  held_of_stored _ j x' m o po hx' hd
    ((constant_stored_over_history ops s hwf hh hb hf j m hj hc hren).1.trans hs)

/-- **C14 (copies).**  A per-instance Parameter copy is an exact copy of the Parameter it was taken
from — `constant`, `readonly`, default and all: protection (and its absence) is inherited. -/
theorem per_instance_copy_is_a_copy {s s1 : St} {i : IId} {x x1 : Inst} {n : Name} {p ip : PId}
    (h : instantiated s i x n p = .ok (s1, x1, ip)) (hnew : aget x.iparams n = none) :
    ip = s.heap.length ∧ s1.heap[ip]? = s.heap[p]? := by
  rcases instantiated_spec h with ⟨_, _, h0⟩ | ⟨q, _, hq, rfl, rfl, rfl⟩
  · rw [hnew] at h0; cases h0
  · refine ⟨rfl, ?_⟩
    rw [hq]
    exact List.getElem?_concat_length

/-! ### Non-vacuity: concrete states and histories that meet the hypotheses -/

example : WF witnessState := witnessState_wf
example : Hier witnessState := by
  constructor
  · intro c k hk
    match c, hk with
    | 0, hk => simp [witnessState] at hk; subst hk; exact ⟨[], rfl⟩
    | c + 1, hk => simp [witnessState] at hk
  · intro c' c pre post hp
    match c', hp with
    | 0, hp =>
      simp only [mroOf, witnessState, List.getElem?_cons_zero] at hp
      match pre, hp with
      | [], hp => simp at hp; obtain ⟨rfl, rfl⟩ := hp; rfl
      | _ :: pre, hp => simp at hp
    | c' + 1, hp => simp [mroOf, witnessState] at hp
example : isConst (govFlags witnessState 0 "c") = true := by decide
/-- a failing nested block: flags restored, exception propagated -/
example : (step witnessState (.block 0 [.instSet 0 "c" 5, .block 0 [.instSet 0 "c" 6, .raise], .instSet 0 "c" 7])).2
    = .runtimeError := by decide
example : held (step witnessState (.block 0 [.instSet 0 "c" 5, .block 0 [.instSet 0 "c" 6, .raise]])).1 0 "c"
    = some 6 := by decide
example : (step (step witnessState (.block 0 [.instSet 0 "c" 5, .raise])).1 (.instSet 0 "c" 9)).2 = .typeError := by
  decide
example : noFlagL [.block 0 [.instSet 0 "c" 5, .block 0 [.instSet 0 "c" 6, .raise], .instSet 0 "c" 7]] = true := by
  decide
/-- an asynchronous reference assigned to a constant `allow_refs` parameter is refused like any
other assignment (and accepted inside `edit_constant`) -/
example :
    let s : St := { witnessState with heap := [{ constant := true, readonly := false, default := 0, allowRefs := true },
                                               { constant := true, readonly := false, default := 1 }] }
    (step s (.instSetAsync 0 "c" 5)).2 = .typeError ∧ held (step s (.instSetAsync 0 "c" 5)).1 0 "c" = some 0 ∧
    held (step s (.block 0 [.instSetAsync 0 "c" 5])).1 0 "c" = some 5 := by decide
/-- the library's renaming of a constructed object leaves it locked -/
example : (step (step witnessState (.genName 0)).1 (.instSet 0 "c" 5)).2 = .typeError ∧
    held (step witnessState (.genName 0)).1 0 "name" = some 4 ∧
    (step (step witnessState (.setName 0 9)).1 (.instSet 0 "name" 5)).2 = .typeError := by decide
/-- a rejected renaming (a value `name` refuses) leaves the object as it was, and locked; an
`edit_constant` whose entry is interrupted by a raising watcher restores what it had cleared -/
example :
    let s : St := { heap := [{ constant := true, readonly := false, default := 0 },
                             { constant := true, readonly := false, default := 1, strOnly := true }],
                    classes := witnessState.classes, insts := witnessState.insts, nextObj := 4, nonStr := [8] }
    step s (.setName 0 8) = (s, .valueError) ∧ (step s (.instSet 0 "name" 8)).2 = .valueError ∧
    (step (step s (.setName 0 8)).1 (.instSet 0 "c" 5)).2 = .typeError ∧
    (step s (.failingEntry 0 "c")).2 = .runtimeError ∧
    (step (step s (.failingEntry 0 "c")).1 (.instSet 1 "name" 5)).2 = .typeError := by decide
/-- a constructor keyword that is a reference with nothing to deliver yet stores nothing: the constant
is referenced on the new instance all the same, so a later class-level assignment does not reach it -/
example :
    let s : St := { heap := [{ constant := true, readonly := false, default := 0, allowRefs := true },
                             { constant := true, readonly := false, default := 1, strOnly := true }],
                    classes := witnessState.classes, insts := [], nextObj := 4, silent := [7] }
    stored (step s (.newInst 0 [("c", 7)])).1 0 "c" = some 0 ∧
    held (run s [.newInst 0 [("c", 7)], .clsSet 0 "c" 5]) 0 "c" = some 0 := by decide
/-- the initial state built by `declare` -/
example : clsFlags (initState 4 [([0], [("c", true, false, 0, false), ("r", false, true, 2, false)]), ([1, 0], [])]) 1 "r"
    = some (true, true) := by decide
example : clsFlags (initState 4 [([0], [("c", true, false, 0, false)]), ([1, 0], [])]) 1 "name" = some (true, false) := by
  decide

end ParamVerif.Store.Const
