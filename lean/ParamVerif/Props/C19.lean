/-
C19 — Time-dependent dynamic values are a pure function of time.

  "With time-dependent dynamic parameters, reading a parameter repeatedly at the
   same time returns the same value, inspecting the value never advances it, and
   a time-dependent number generator with a given name and seed returns at time
   t the same value whatever order the times were visited in and on every
   instance. Entering and leaving a time context restores the time exactly, and
   state push/pop restores the cached values."
   (all sequences of time jumps (forward, backward, repeated), reads,
    inspections, nested time contexts and state push/pop over several
    generators, seeds and instances)

Model: TimeDyn/Model.lean (`runOp`/`runOps` = one statement / a block of the
history; a history is an arbitrary `List Op`, contexts nest, `raise` may occur
anywhere).  `env.hash`, `env.reseed`, `env.next`, `env.init` (md5 hashing, seeding and drawing from a
random stream whose state every generator carries) are uninterpreted.
What is derived and what is definitional here: that a time-dependent generator's value does not
depend on the state of its random stream is derived from the model of the call (re-seed from
`hash name seed t`, then draw; the stream state `g.rng` is carried and ignored), and that the
Dynamic cache never serves a value of another time is the invariant `Inv`, preserved by every
history.  `inspect_never_advances` for a single inspection is immediate from the model (`_inspect`
only reads); the statement with content is `inspections_are_transparent` over histories.
`state_pop_restores_cache` covers one push … pop pair around an arbitrary block without further
push/pop/assign/instantiate; nested and interleaved push/pop pairs are executed on the real code and
checked by the oracle (Spec.checkPushPop) but not proved.  Fraction/float times are not modelled.
Only property theorems and non-vacuity examples live here.
-/
import ParamVerif.TimeDyn.Lemmas

namespace ParamVerif.TimeDyn
variable {H S V : Type}

/-- "with time-dependent dynamic parameters" (`Dynamic.time_dependent = True`) and every cached
pair of a time-dependent generator is the placeholder `(None, _NO_TIME)` or `(gen name seed t, t)`.
Holds for every freshly built world (`inv_fresh`) and is preserved by every history. -/
def Inv (env : Env H S V) (w : World S V) : Prop := w.dynTD = true ∧ HeapOK env w.gens

/-- any world whose generators have just been created is coherent -/
theorem inv_fresh (env : Env H S V) (w : World S V) (hd : w.dynTD = true)
    (h : ∀ g ∈ w.gens, ∃ k f tf, g = Gen.fresh k f tf) : Inv env w := by
  refine ⟨hd, ?_⟩
  intro g hg
  obtain ⟨k, f, tf, rfl⟩ := h g hg
  exact GenOK_fresh env k f tf

/-- **every history preserves coherence** (all op sequences, nested contexts, exceptions) -/
theorem history_preserves_inv (env : Env H S V) (ops : List Op) (w : World S V) (h : Inv env w) :
    Inv env (runOps env ops w).2 :=
  ⟨(runOps_pushed env ops w).2.trans h.1, runOps_heapOK env ops w h.1 h.2⟩

/-! ## Reading -/

/-- One read of a generator that computes a function `f` of time (`GenKind.timeFn`: a
time-dependent random distribution, or a `TimeSampledFn` over one) returns `f t` at time `t`
(provided the generator returns at all: see `failed_read_keeps_cache`): a cache hit can only be a
value produced at this very time, because the marker `_NO_TIME` of a fresh generator is unequal
to every time (−1 included), and because a generation that raised left value and time stamp
untouched.  The state of the generator's random stream (`g.rng`) does not enter: a
time-dependent generator re-seeds it from `(name, seed, t)` before every draw. -/
theorem read_value_fn (env : Env H S V) (w : World S V) (tg : Target) (p gi : Nat) (g : Gen S V)
    (f : TimeV → V) (pt : PType) (hinv : Inv env w)
    (hr : resolve w tg p = some (.gen gi)) (hg : w.gens[gi]? = some g) (hk : g.kind.timeFn env = some f)
    (hp : w.ptypes[p]? = some pt) (hnf : g.failsNow = none) (hfz : g.frozen = none) :
    (runOp env (.read tg p) w).1 = .ok (.val (some (f w.clock.time))) := by
  simp only [runOp, readSlot, hr, hp, hg, hinv.1]
  rw [readGen_nofail env _ _ _ g false (by simp [hnf])]
  simp only [produceValue]
  have hok := (HeapOK_get env _ _ g hinv.2 hg).resolve_left (fun h => h hfz)
  unfold GenOK' at hok
  simp only [hk] at hok
  by_cases ht : some w.clock.time = g.lastTime
  · -- cache hit: the cached value was produced at this very time
    simp only [Bool.not_true, Bool.false_eq_true, if_false, Bool.false_or, ht, bne_self_eq_false]
    rcases hok.1 with ⟨t, h1, h2⟩ | ⟨_, h2⟩
    · simp only at h1 h2
      rw [h1] at ht
      simp only [Option.some.injEq] at ht
      rw [h2, ← ht]
      cases pt <;> rfl
    · simp only at h2
      rw [h2] at ht
      simp at ht
  · have : (some w.clock.time != g.lastTime) = true := by simpa using ht
    simp only [Bool.not_true, Bool.false_eq_true, if_false, Bool.false_or, this, if_true,
      produce_val env g _ f hk hfz]
    cases pt <;> rfl

/-- the case of a time-dependent random distribution `(name, seed)`: the value is
`(next (reseed (hash name seed t))).1` -/
theorem read_value (env : Env H S V) (w : World S V) (tg : Target) (p gi : Nat) (g : Gen S V)
    (n : String) (s : Int) (pt : PType) (hinv : Inv env w)
    (hr : resolve w tg p = some (.gen gi)) (hg : w.gens[gi]? = some g) (hk : g.kind = .td n s)
    (hp : w.ptypes[p]? = some pt) (hnf : g.failsNow = none) (hfz : g.frozen = none) :
    (runOp env (.read tg p) w).1 = .ok (.val (some (env.tdVal n s w.clock.time))) :=
  read_value_fn env w tg p gi g _ pt hinv hr hg (by rw [hk]; rfl) hp hnf hfz

/-- **Reading never moves the clock** (a `TimeSampledFn` visits its sample time inside a time
context and comes back): time, timestep, until and the context stack after a read, a forced
generation or an inspection are what they were before. -/
theorem read_keeps_clock (env : Env H S V) (w : World S V) (tg : Target) (p : Nat) (f : Bool) :
    (readSlot env w tg p f).2.clock.time = w.clock.time ∧
    (readSlot env w tg p f).2.clock.timestep = w.clock.timestep ∧
    (readSlot env w tg p f).2.clock.untl = w.clock.untl ∧
    (readSlot env w tg p f).2.clock.pushed = w.clock.pushed :=
  readSlot_clock env w tg p f

/-- The full statement: after *any* history, from any coherent world, a read of a time-dependent
generator with name `n` and seed `s` returns `gen n s t` for the current time `t` — for generators
that follow the global clock (`g.frozen = none`: every generator except a per-instance deep copy of
one that was constructed with an explicit `time_fn=`; see `C19_every_instance_refuted`). -/
def C19_full : Prop :=
  ∀ (H S V : Type) (env : Env H S V) (w0 : World S V), Inv env w0 →
  ∀ (ops : List Op) (tg : Target) (p gi : Nat) (g : Gen S V) (n : String) (s : Int) (pt : PType),
    resolve (runOps env ops w0).2 tg p = some (.gen gi) →
    (runOps env ops w0).2.gens[gi]? = some g → g.kind = .td n s →
    (runOps env ops w0).2.ptypes[p]? = some pt → g.failsNow = none → g.frozen = none →
    (runOp env (.read tg p) (runOps env ops w0).2).1
      = .ok (.val (some (env.tdVal n s (runOps env ops w0).2.clock.time)))

/-- **C19 (reads).**  After any history a read of a time-dependent generator returns a value that
depends on `(name, seed, current time)` only — not on the order in which times were visited, not
on the instance, not on what was read, inspected, forced, pushed or popped before. -/
theorem read_is_function_of_time (env : Env H S V) (w0 : World S V) (h0 : Inv env w0)
    (ops : List Op) (tg : Target) (p gi : Nat) (g : Gen S V) (n : String) (s : Int) (pt : PType)
    (hr : resolve (runOps env ops w0).2 tg p = some (.gen gi))
    (hg : (runOps env ops w0).2.gens[gi]? = some g) (hk : g.kind = .td n s)
    (hp : (runOps env ops w0).2.ptypes[p]? = some pt) (hnf : g.failsNow = none) (hfz : g.frozen = none) :
    (runOp env (.read tg p) (runOps env ops w0).2).1
      = .ok (.val (some (env.tdVal n s (runOps env ops w0).2.clock.time))) :=
  read_value env _ tg p gi g n s pt (history_preserves_inv env ops w0 h0) hr hg hk hp hnf hfz

theorem C19_full_holds : C19_full :=
  fun _ _ _ env w0 h0 ops tg p gi g n s pt hr hg hk hp hnf hfz =>
    read_is_function_of_time env w0 h0 ops tg p gi g n s pt hr hg hk hp hnf hfz

/-- "…and on every instance", without the exception for generators given an explicit `time_fn`. -/
def C19_every_instance : Prop :=
  ∀ (H S V : Type) (env : Env H S V) (w0 : World S V), Inv env w0 →
  ∀ (ops : List Op) (tg : Target) (p gi : Nat) (g : Gen S V) (n : String) (s : Int) (pt : PType),
    resolve (runOps env ops w0).2 tg p = some (.gen gi) →
    (runOps env ops w0).2.gens[gi]? = some g → g.kind = .td n s →
    (runOps env ops w0).2.ptypes[p]? = some pt → g.failsNow = none →
    (runOp env (.read tg p) (runOps env ops w0).2).1
      = .ok (.val (some (env.tdVal n s (runOps env ops w0).2.clock.time)))

/-- witness: `x = Dynamic(default=UniformRandom(name='g', seed=0, time_dependent=True, time_fn=T))` with `T`
the global Time object; `a = A(); T(1); a.x` is the value of time 0 (the instance's generator owns a deep
copy of `T`, made at time 0) -/
def frozenWorld : World Nat Nat :=
  { dynTD := true, clock := Clock.init, gens := [Gen.fresh (.td "g" 0) none true], ptypes := [.dynamic],
    defaults := [.gen 0], insts := [] }
def frozenEnv : Env Int Nat Nat :=
  { hash := fun _ s t => s + t.num, reseed := fun h => h.toNat, next := fun st => (st, st + 1), init := fun k => k }

/-- **"On every instance" is false of the code for a generator constructed with an explicit `time_fn`**
(recorded finding `explicit-time-fn-deepcopied-per-instance`). -/
theorem C19_every_instance_refuted : ¬ C19_every_instance := by
  intro h
  have h0 : Inv frozenEnv frozenWorld :=
    inv_fresh _ _ rfl (by intro g hg; simp [frozenWorld] at hg; exact ⟨_, _, _, hg⟩)
  have := h Int Nat Nat frozenEnv frozenWorld h0 [.newInst, .setTime 1] (.inst 0) 0 1
    ((Gen.fresh (.td "g" 0) none true : Gen Nat Nat).copyAt 0) "g" 0 .dynamic rfl rfl rfl rfl rfl
  revert this
  decide +kernel

/-- regression witness of the repaired defect (`_Dynamic_time` used to start at −1): class `A`
with `x = Dynamic(default=UniformRandom(name='g', seed=0, time_dependent=True))`;
`time_fn(-1); A.x` is the generated value, not the placeholder -/
def witnessWorld : World Nat Nat :=
  { dynTD := true, clock := Clock.init, gens := [Gen.fresh (.td "g" 0)], ptypes := [.dynamic],
    defaults := [.gen 0], insts := [] }
def witnessEnv : Env Int Nat Nat :=
  { hash := fun _ s t => s + t.num + t.den, reseed := fun h => h.toNat + 7, next := fun st => (2 * st + 1, st + 1), init := fun k => k }

example : (runOp witnessEnv (.read .cls 0) (runOps witnessEnv [.setTime (-1)] witnessWorld).2).1
    = .ok (.val (some (witnessEnv.tdVal "g" 0 (-1)))) := by
  decide +kernel

/-- **Order and instance independence.**  Two arbitrary histories from two arbitrary coherent
worlds, two parameters (any instances) whose generators have the same name and seed, read at the
same time: the same value. -/
theorem read_same_any_order_any_instance (env : Env H S V) (w w' : World S V) (h : Inv env w) (h' : Inv env w')
    (ops ops' : List Op) (tg tg' : Target) (p p' gi gi' : Nat) (g g' : Gen S V) (n : String) (s : Int)
    (pt pt' : PType)
    (hr : resolve (runOps env ops w).2 tg p = some (.gen gi))
    (hg : (runOps env ops w).2.gens[gi]? = some g) (hk : g.kind = .td n s)
    (hp : (runOps env ops w).2.ptypes[p]? = some pt)
    (hr' : resolve (runOps env ops' w').2 tg' p' = some (.gen gi'))
    (hg' : (runOps env ops' w').2.gens[gi']? = some g') (hk' : g'.kind = .td n s)
    (hp' : (runOps env ops' w').2.ptypes[p']? = some pt')
    (ht : (runOps env ops w).2.clock.time = (runOps env ops' w').2.clock.time)
    (hnf : g.failsNow = none) (hnf' : g'.failsNow = none) (hfz : g.frozen = none) (hfz' : g'.frozen = none) :
    (runOp env (.read tg p) (runOps env ops w).2).1 = (runOp env (.read tg' p') (runOps env ops' w').2).1 := by
  rw [read_is_function_of_time env w h ops tg p gi g n s pt hr hg hk hp hnf hfz,
      read_is_function_of_time env w' h' ops' tg' p' gi' g' n s pt' hr' hg' hk' hp' hnf' hfz', ht]

/-- **Repeated reads.**  Reading any dynamic parameter (any generator, time-dependent or not)
twice at the same time returns the same result, and the second read changes nothing. -/
theorem repeated_read_same (env : Env H S V) (w : World S V) (tg : Target) (p : Nat) (hd : w.dynTD = true)
    (hnf : ∀ gi g, resolve w tg p = some (.gen gi) → w.gens[gi]? = some g → g.failsNow = none) :
    runOp env (.read tg p) (runOp env (.read tg p) w).2 = runOp env (.read tg p) w := by
  simp only [runOp]
  cases hr : resolve w tg p with
  | none => simp only [readSlot, hr]
  | some sl =>
    cases hp : w.ptypes[p]? with
    | none => cases sl <;> simp only [readSlot, hr, hp]
    | some pt =>
      cases sl with
      | const v => simp only [readSlot, hr, hp]
      | inherit => simp only [readSlot, hr, hp]
      | gen gi =>
        cases hg : w.gens[gi]? with
        | none => simp only [readSlot, hr, hp, hg]
        | some g =>
          have hlt : gi < w.gens.length := by
            rcases Nat.lt_or_ge gi w.gens.length with h | h
            · exact h
            · simp [List.getElem?_eq_none h] at hg
          have hr' : ∀ (d : Bool) (c : Clock) (hp' : List (Gen S V)),
              resolve { w with gens := hp', dynTD := d, clock := c } tg p = some (.gen gi) := by
            intro d c hp'; simpa [resolve] using hr
          have hn := hnf gi g hr hg
          have hc1 : (if entersCtx true w.clock.time g false = true then w.clock.touch else w.clock).time
              = w.clock.time := by split <;> rfl
          -- the generator after the first read has `lastTime = now`: the second read is a cache hit
          have key : produceValue env true w.clock.time (produceValue env true w.clock.time g false).2 false
              = ((produceValue env true w.clock.time g false).1, (produceValue env true w.clock.time g false).2) := by
            unfold produceValue
            simp only [Bool.not_true, Bool.false_eq_true, if_false, Bool.false_or]
            by_cases ht : some w.clock.time = g.lastTime
            · simp [ht]
            · have : (some w.clock.time != g.lastTime) = true := by simpa using ht
              simp [this]
          have hcall : willCall true w.clock.time (produceValue env true w.clock.time g false).2 false = false := by
            unfold willCall produceValue
            simp only [Bool.not_true, Bool.false_eq_true, if_false, Bool.false_or]
            by_cases ht : some w.clock.time = g.lastTime
            · simp [ht]
            · have : (some w.clock.time != g.lastTime) = true := by simpa using ht
              simp [this]
          have hg1 : (readGen env true w.clock.time pt g false).2 = (produceValue env true w.clock.time g false).2 := by
            rw [readGen_nofail env _ _ _ g false (by simp [hn])]
          have key2 : readGen env true w.clock.time pt (readGen env true w.clock.time pt g false).2 false
              = readGen env true w.clock.time pt g false := by
            rw [readGen_nofail env _ _ _ g false (by simp [hn])]
            simp only
            rw [readGen_nofail env _ _ _ _ false (by simp [hcall]), key]
          have hent : entersCtx true w.clock.time (readGen env true w.clock.time pt g false).2 false = false := by
            unfold entersCtx
            rw [hg1, hcall]; rfl
          simp only [readSlot, hr, hr', hp, hg, hd, List.getElem?_set_self hlt, hc1, key2, hent, List.set_set,
            Bool.false_eq_true, if_false]

/-- **A generation that raises leaves the cache alone.**  If the generator raises while a value
is being produced (the caller may catch the exception and go on), neither the cached value nor
its time stamp nor the saved stack of any generator changes: later reads at that time generate
afresh instead of returning the value of an earlier time. -/
theorem failed_read_keeps_cache (env : Env H S V) (w : World S V) (tg : Target) (p gi : Nat) (g : Gen S V)
    (pt : PType) (e : Exc) (f : Bool)
    (hr : resolve w tg p = some (.gen gi)) (hg : w.gens[gi]? = some g) (hp : w.ptypes[p]? = some pt)
    (hfail : g.failsNow = some e) (hcall : willCall w.dynTD w.clock.time g f = true) :
    (readSlot env w tg p f).1 = .raised e ∧ cachesOf (readSlot env w tg p f).2 = cachesOf w := by
  have h := readGen_raised env w.dynTD w.clock.time pt g f e hfail hcall
  simp only [readSlot, hr, hp, hg]
  refine ⟨h.1, ?_⟩
  unfold cachesOf
  simp only [List.map_set, h.2.1, h.2.2.1, h.2.2.2]
  apply set_self_of_getElem?
  simp [hg]

/-! ## Inspecting -/

/-- **Inspection never advances.**  `inspect_value` changes nothing at all, and returns the
cached value of the generator. -/
theorem inspect_never_advances (env : Env H S V) (w : World S V) (tg : Target) (p : Nat) :
    (runOp env (.inspect tg p) w).2 = w ∧
    ∀ gi g, resolve w tg p = some (.gen gi) → w.gens[gi]? = some g →
      (runOp env (.inspect tg p) w).1 = .ok (.val g.last) := by
  refine ⟨rfl, ?_⟩
  intro gi g hr hg
  simp [runOp, inspectSlot, hr, hg]

/-- **Inspections are transparent in every history**: deleting all inspections (at any nesting
depth) from a history changes neither its outcome nor the final state. -/
theorem inspections_are_transparent (env : Env H S V) (ops : List Op) (w : World S V)
    (h : (runOps env ops w).1 ≠ .raised .malformed) :
    runOps env (stripOps ops) w = runOps env ops w :=
  strip_ops env ops w h

/-! ## Time contexts -/

def exWorldT : World Nat Nat :=
  { dynTD := true, clock := Clock.init, gens := [], ptypes := [], defaults := [], insts := [] }
def exEnvT : Env Nat Nat Nat := { hash := fun _ _ _ => 0, reseed := id, next := fun st => (st, st), init := id }

/-- **The context stack is balanced over every history** (nested contexts, exceptions anywhere). -/
theorem clock_stack_balanced (env : Env H S V) (ops : List Op) (w : World S V) :
    (runOps env ops w).2.clock.pushed = w.clock.pushed :=
  (runOps_pushed env ops w).1

/-- **Entering and leaving a time context restores the time exactly** — time, timestep, until and
the stack of saved states — for every body (nested contexts, time jumps, reads, push/pop, a switch
of the time type…) and every way of leaving it: normally, by `StopIteration` (swallowed), or by any
other exception (propagated after the restore).  The saved time comes back as it was saved, not
converted by whatever `time_type` is in force at the exit; `time_type` itself is not part of the
saved state and stays as the block left it. -/
theorem time_context_restores_exactly (env : Env H S V) (body : List Op) (w : World S V) :
    (runOp env (.ctx body) w).2.clock.time = w.clock.time ∧
    (runOp env (.ctx body) w).2.clock.timestep = w.clock.timestep ∧
    (runOp env (.ctx body) w).2.clock.untl = w.clock.untl ∧
    (runOp env (.ctx body) w).2.clock.pushed = w.clock.pushed ∧
    (runOp env (.ctx body) w).2.clock.timeType = (runOps env body { w with clock := w.clock.enter }).2.clock.timeType ∧
    (runOp env (.ctx body) w).1 =
      (match (runOps env body { w with clock := w.clock.enter }).1 with
       | .raised .stopIteration => .ok .unit
       | .raised e => .raised e
       | .ok _ => .ok .unit) := by
  have hp : (runOps env body { w with clock := w.clock.enter }).2.clock.pushed
      = (w.clock.time, w.clock.timestep, w.clock.untl) :: w.clock.pushed := by
    rw [(runOps_pushed env body _).1]; rfl
  have hc := exitCtx_clock _ _ _ _ _ hp
  simp only [runOp]
  rw [hc.1, hc.2]
  exact ⟨rfl, rfl, rfl, rfl, rfl, rfl⟩

/-- rational time 5/2; inside the context the time type is switched to `int` (time 7), then advanced:
after the context the time is 5/2 again (and the time type is `int`) -/
example :
    let w : World Nat Nat := { exWorldT with clock := { Clock.init with time := mkRat 5 2, timeType := .frac } }
    (runOp exEnvT (.ctx [.setTimeType 7 .int, .advance (mkRat 7 2)]) w).2.clock.time = mkRat 5 2 ∧
    (runOp exEnvT (.ctx [.setTimeType 7 .int, .advance (mkRat 7 2)]) w).2.clock.timeType = .int ∧
    (runOps exEnvT [.setTimeType 7 .int, .advance (mkRat 7 2)] w).2.clock.time = 10 := by
  decide +kernel

/-! ## State push / pop -/

/-- **State pop restores the cached values.**  `_state_push()` on instance `i`, then any block
that reads, forces, inspects, jumps in time, enters contexts or raises (but does not assign
generators, create instances or push/pop again), then `_state_pop()` — executed whatever the
outcome of the block, as in `try/finally`: the pop succeeds and every generator of the instance
has exactly the cached value, cached time and saved stack it had before the push.  (Generators
shared between several parameters of the instance are pushed and popped once per parameter.) -/
theorem state_pop_restores_cache (env : Env H S V) (w : World S V) (i : Nat) (body : List Op) (gs : List Nat)
    (hgs : instGens w i = some gs) (hb : neutralOps body = true) :
    (runOp env (.pop i) (runOps env body (runOp env (.push i) w).2).2).1 = .ok .unit ∧
    ∀ x ∈ gs, ∀ y0, w.gens[x]? = some y0 →
      ∃ y3, (runOp env (.pop i) (runOps env body (runOp env (.push i) w).2).2).2.gens[x]? = some y3 ∧
        y3.last = y0.last ∧ y3.lastTime = y0.lastTime ∧ y3.saved = y0.saved := by
  have hw1 : (runOp env (.push i) w).2 = { w with gens := pushGens gs w.gens } := by
    simp [runOp, hgs]
  rw [hw1]
  have hsh := runOps_shape env body { w with gens := pushGens gs w.gens } hb
  generalize (runOps env body { w with gens := pushGens gs w.gens }).2 = w2 at hsh
  have hgs2 : instGens w2 i = some gs := by
    rw [instGens_shape hsh]
    simpa [instGens, resolve] using hgs
  let c : Nat → Option V × Option TimeV := fun x => match w.gens[x]? with
    | some y => (y.last, y.lastTime) | none => (none, none)
  let s : Nat → List (Option V × Option TimeV) := fun x => match w.gens[x]? with
    | some y => y.saved | none => []
  have hsaved : ∀ x y, w2.gens[x]? = some y → ∃ y0, w.gens[x]? = some y0 ∧
      y.saved = List.replicate (gs.count x) (y0.last, y0.lastTime) ++ y0.saved := by
    intro x y hy
    have := hsh.2.2 x
    simp only [hy, Option.map_some, pushGens_get] at this
    cases h0 : w.gens[x]? with
    | none => simp [h0] at this
    | some y0 =>
      refine ⟨y0, rfl, ?_⟩
      simpa [h0, Gen.pushN] using this
  have hpop := popGens_get c s gs w2.gens (by
    intro x _ y hy
    obtain ⟨y0, h0, hs⟩ := hsaved x y hy
    simp only [c, s, h0]
    exact hs)
  simp only [runOp, hgs2]
  refine ⟨hpop.1, ?_⟩
  intro x hx y0 h0
  have h2 := hsh.2.2 x
  simp only [pushGens_get, h0, Option.map_some] at h2
  cases hy : w2.gens[x]? with
  | none => simp [hy] at h2
  | some y2 =>
    refine ⟨Gen.restore (c x) (s x) y2, ?_, ?_, ?_, ?_⟩
    · rw [hpop.2 x]; simp [hx, hy]
    · simp [Gen.restore, c, h0]
    · simp [Gen.restore, c, h0]
    · simp [Gen.restore, s, h0]

/-! ## Non-vacuity -/

/-- a world with two instances sharing nothing, one time-dependent and one counter-like generator -/
def exWorld : World Nat Nat :=
  { dynTD := true, clock := Clock.init,
    gens := [Gen.fresh (.td "g" 3), Gen.fresh (.stream 0)], ptypes := [.number, .dynamic],
    defaults := [.gen 0, .gen 1], insts := [] }
def exEnv : Env Nat Nat Nat :=
  { hash := fun _ s t => (s + t.num).toNat + t.den, reseed := fun h => 2 * h + 1, next := fun st => (3 * st, st + 1), init := fun k => k }

example : Inv exEnv exWorld :=
  inv_fresh _ _ rfl (by intro g hg; simp [exWorld] at hg; rcases hg with h | h <;> exact ⟨_, _, _, h⟩)

/-- a history with jumps back and forth, a nested context left by an exception, push/pop: the
reads of the time-dependent generator at time 5 agree, and the hypotheses of the theorems hold -/
example :
    let hist : List Op := [.newInst, .newInst, .setTime 5, .read (.inst 0) 0, .setTime 2,
      .ctx [.setTime 9, .ctx [.advance (-20), .read (.inst 1) 0, .raise .stopIteration]],
      .push 0, .force (.inst 0) 1, .pop 0, .setTime 5]
    (runOps exEnv hist exWorld).1 = .ok .unit ∧
    (runOps exEnv hist exWorld).2.clock.time = 5 ∧
    (runOp exEnv (.read (.inst 0) 0) (runOps exEnv hist exWorld).2).1 = .ok (.val (some (exEnv.tdVal "g" 3 5))) ∧
    (runOp exEnv (.read (.inst 1) 0) (runOps exEnv hist exWorld).2).1 = .ok (.val (some (exEnv.tdVal "g" 3 5))) := by
  decide +kernel

example : instGens (runOps exEnv [.newInst] exWorld).2 0 = some [2, 3] ∧
    neutralOps [.setTime 5, .read (.inst 0) 0, .ctx [.force (.inst 0) 1, .raise .userError]] = true := by
  decide

end ParamVerif.TimeDyn
