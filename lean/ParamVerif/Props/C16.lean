/-
C16 — Serialized state always validates against the generated JSON schema.

  "For parameter types with JSON-schema support, `param.schema()` is a well-formed
   JSON Schema and the `serialize_parameters()` output of every valid state
   validates against it, for every combination of bounds, inclusivity, length,
   item type, allowed objects and allow_None; conversely a serialized number
   outside the declared hard bounds of a Number/Integer is rejected by the schema."

The specification side is `validate` / `wellFormed` of Json/Validator.lean.

The statement at full strength (`C16_full`) is false of the code: `C16_full_refuted`
(an Integer holding `True` serialises to `true`, which is not a JSON-Schema integer).
Proved: the `_partial` theorems with the remaining side conditions `SchemaOK` /
`ValueOK` spelled out; `schema_total` / `state_validates_total` (the schema and the
serialized state exist — the `… = .ok …` hypotheses of the other theorems are met);
`safe_schema_agrees` / `safe_schema_total` / `class_safe_schema_agrees` (`safe=True` refuses or
returns the same schema); `out_of_bounds_rejected` and `number_schema_agrees` / `integer_schema_agrees` for every
finite JSON number and every declaration whose bounds can be met at all (`Bounds.sane`).

Not covered by any theorem (harness only): the difference between class-level and
instance-level schemas / per-instance Parameter edits (the theorems quantify over
declarations; the harness feeds the edited declaration).  The element constraints that
`numerictuple_schema` / `range_schema` put under `additionalItems` constrain nothing in
JSON Schema without array-form `items`: for the Tuple family the schema checks length only.

Only property theorems, their hypotheses' definitions and non-vacuity examples live
here; helper lemmas are in Json/Lemmas.lean (`ClassSpec.exact`, `Bounds.sane`,
`ClassSpec.nonEmpty` are defined there next to the lemmas that use them).
-/
import ParamVerif.Json.Lemmas

namespace ParamVerif.Json


/-- Configuration side conditions under which the generated schema is well formed: Selector
objects are finite numbers/strings/None, class tuples are non-empty; Color, DateRange,
CalendarDateRange have no JSON-schema support (`{'type': 'color'}` …).  Numeric bounds need no
condition: non-finite bounds are not written. -/
def SchemaOK (p : Param) : Bool :=
  match p.cfg with
  | .selector objs => PyVal.finiteL objs
  | .listSelector objs => PyVal.finiteL objs
  | .list (some s) _ _ => s.nonEmpty
  | .classSelector s => s.nonEmpty
  | .color => false
  | .dateRange => false
  | .calendarDateRange => false
  | _ => true

/-- lemma: the schema before the nullable wrapper -/
theorem baseSchema_well_formed (p : Param) (h : SchemaOK p = true) (s : Json) (hs : p.baseSchema = .ok s) :
    wellFormed s = true := by
  obtain ⟨name, cfg, an, dflt, doc, label⟩ := p
  cases cfg <;> simp only [Param.baseSchema, SchemaOK] at hs h
  case integer b => simp at hs; subst hs; exact wellFormed_numberSchema _ _ (by decide)
  case number b => simp at hs; subst hs; exact wellFormed_numberSchema _ _ (by decide)
  case string => simp at hs; subst hs; decide
  case boolean => simp at hs; subst hs; decide
  case tuple n =>
    split at hs
    · simp at hs
    · simp at hs; subst hs; simp [wellFormed, wellFormedKws, tupleSchemaFields, jstr, knownType]
  case numericTuple n =>
    split at hs
    · simp at hs
    · simp at hs; subst hs
      simp [wellFormed, wellFormedKws, tupleSchemaFields, jstr, knownType, wellFormed_typeObj]
  case xy =>
    split at hs
    · simp at hs
    · simp at hs; subst hs
      simp [wellFormed, wellFormedKws, tupleSchemaFields, jstr, knownType, wellFormed_typeObj]
  case range b =>
    split at hs
    · simp at hs
    · simp at hs; subst hs
      simp [wellFormed, wellFormedKws, tupleSchemaFields, jstr, knownType,
        wellFormed_numberSchema "number" b (by decide)]
  case date => simp at hs; subst hs; decide
  case calendarDate => simp at hs; subst hs; decide
  case list it lo hi =>
    cases it with
    | none => simp at hs; subst hs; decide
    | some sp =>
      simp at hs; subst hs
      simp [wellFormed, wellFormedKws, jstr, knownType, wellFormed_spec h]
  case dict => simp at hs; subst hs; decide
  case selector objs =>
    simp only [selectorSchema] at hs
    split at hs
    · simp at hs; subst hs; rfl
    · simp at hs; subst hs; rfl
    · rename_i ts hne hts
      split at hs
      · simp at hs
      · rename_i enum henum
        simp at hs; subst hs
        have h1 := wellFormedAll_typeObjs (literalTypes_known hts)
        have h2 := enum_members_ok hts henum h
        cases ts with
        | nil => exact absurd rfl hne
        | cons t ts' =>
          simp only [wellFormed, wellFormedKws, List.map_cons, Bool.and_true, Bool.and_eq_true]
          exact ⟨by simpa using h1, h2⟩
  case listSelector objs =>
    simp only [listSelectorSchema] at hs
    split at hs
    · simp at hs
    · rename_i ts hts
      split at hs
      · simp at hs
      · rename_i enum henum
        simp at hs; subst hs
        have h2 := enum_members_ok hts henum h
        simp only [wellFormed, wellFormedKws, jstr, Bool.and_true, Bool.and_eq_true]
        exact ⟨by decide, h2⟩
  case classSelector sp => simp at hs; subst hs; exact wellFormed_spec h
  all_goals simp at h

/-! ## Validation, per parameter -/


/-- Value side conditions under which the serialized value validates (the complement is the
two recorded findings): `None` where the schema is nullable (`allow_None` or a `None` default) or
listed; no `bool` held by Integer / Number; items of a typed List and the value of a ClassSelector
are *exact* instances (`ClassSpec.exact`: an `int` item is not a `bool`, and the classes `bool` and
`list`, which the schema declares as `object`, do not occur); a Selector / ListSelector value is
JSON-equal to one of the objects (`sameJson`: the object itself, or a non-bool number of equal
value such as `1.0` for `1` — but not `True` for `1`, see `C16_selector_bool_refuted`); a Selector
without objects takes anything (its schema is `{}`). -/
def ValueOK (p : Param) (v : PyVal) : Prop :=
  (v = .none ∧ p.schemaNullable = true) ∨
  match p.cfg, v with
  | .integer _, .bool _ => False
  | .number _, .bool _ => False
  | .list (some s) _ _, .list l => l.all s.exact = true
  | .classSelector s, v => s.exact v = true
  | .selector objs, v => objs = [] ∨ ∃ o ∈ objs, sameJson v o = true
  | .listSelector objs, .list l => ∀ e ∈ l, ∃ o ∈ objs, sameJson e o = true
  | _, .none => False
  | _, _ => True

/-- lemma: a reachable state is an accepted value or the `None` default, under which the schema is nullable -/
theorem stateOK_cases {p : Param} {v : PyVal} (h : p.stateOK v = true) :
    p.validB v = true ∨ (v = .none ∧ p.schemaNullable = true) := by
  unfold Param.stateOK at h
  simp only [Bool.or_eq_true] at h
  rcases h with h | h
  · exact Or.inl h
  · right
    split at h
    · rename_i hd; exact ⟨rfl, by simp [Param.schemaNullable, hd]⟩
    · simp at h

/-- lemma: `None` under a nullable schema -/
theorem validates_none {p : Param} {s j : Json} (han : p.schemaNullable = true)
    (hs : p.schema = .ok s) (hj : serializeValue p .none = .ok j) : validate s j = true := by
  simp [serializeValue, serialize_none, dumps] at hj; subst hj
  unfold Param.schema at hs
  split at hs
  · simp at hs
  · simp [han] at hs; subst hs
    simp [validate_nullable, hasType]

/-- **C16 (per parameter), provable part.**  For every in-scope parameter type and configuration
(bounds, inclusivity, length, item type, objects, allow_None) the serialized form of a valid,
finite state (an accepted value, or the unvalidated `None` default) that satisfies `ValueOK`
validates against the parameter's schema. -/
theorem serialized_validates_partial (p : Param) (v : PyVal) (hsc : inScope16 p.cfg = true)
    (hst : p.stateOK v = true) (hf : v.finite = true)
    (hok : ValueOK p v) (s j : Json) (hs : p.schema = .ok s) (hj : serializeValue p v = .ok j) :
    validate s j = true := by
  rcases stateOK_cases hst with hv | ⟨rfl, han⟩
  case inr => exact validates_none han hs hj
  rcases hok with ⟨rfl, han⟩ | hok
  · exact validates_none han hs hj
  unfold Param.schema at hs
  split at hs
  · simp at hs
  rename_i s0 hs0
  simp only [Except.ok.injEq] at hs; subst hs
  apply validate_lift
  obtain ⟨name, cfg, an, dflt, doc, label⟩ := p
  cases cfg with
  | integer b =>
    cases v <;> simp [Param.validB, PCfg.accepts] at hv <;> simp at hok
    rename_i n
    simp [serializeValue, PCfg.serialize, dumps] at hj; subst hj
    simp [Param.baseSchema] at hs0; subst hs0
    exact validate_numberSchema_of_contains _ _ _ (Fl.ofInt n) rfl (by simp [hasType]) hv
  | number b =>
    cases v <;> simp [Param.validB, PCfg.accepts] at hv <;> simp at hok
    · rename_i n
      simp [serializeValue, PCfg.serialize, dumps] at hj; subst hj
      simp [Param.baseSchema] at hs0; subst hs0
      exact validate_numberSchema_of_contains _ _ _ (Fl.ofInt n) rfl (by simp [hasType]) hv
    · rename_i x
      simp [serializeValue, PCfg.serialize, dumps] at hj; subst hj
      simp [Param.baseSchema] at hs0; subst hs0
      exact validate_numberSchema_of_contains _ _ _ x rfl (by simp [hasType]) hv
  | string =>
    cases v <;> simp [Param.validB, PCfg.accepts] at hv <;> simp at hok
    simp [serializeValue, PCfg.serialize, dumps] at hj; subst hj
    simp [Param.baseSchema] at hs0; subst hs0
    simp [validate_typeObj, hasType]
  | boolean =>
    cases v <;> simp [Param.validB, PCfg.accepts] at hv <;> simp at hok
    simp [serializeValue, PCfg.serialize, dumps] at hj; subst hj
    simp [Param.baseSchema] at hs0; subst hs0
    simp [validate_typeObj, hasType]
  | color => simp [inScope16] at hsc
  | dateRange => simp [inScope16] at hsc
  | calendarDateRange => simp [inScope16] at hsc
  | date =>
    cases v <;> simp [Param.validB, PCfg.accepts] at hv <;> simp at hok
    all_goals
      simp [serializeValue, PCfg.serialize, dumps, strftimeDateTime] at hj; subst hj
      simp [Param.baseSchema] at hs0; subst hs0
      simp [validate, validateKws, jstr, hasType]
  | calendarDate =>
    cases v <;> simp [Param.validB, PCfg.accepts] at hv <;> simp at hok
    simp [serializeValue, PCfg.serialize, dumps, strftimeDate] at hj; subst hj
    simp [Param.baseSchema] at hs0; subst hs0
    simp [validate, validateKws, jstr, hasType]
  | dict =>
    cases v <;> simp [Param.validB, PCfg.accepts] at hv <;> simp at hok
    simp [serializeValue, PCfg.serialize, dumps] at hj
    split at hj
    · simp at hj; subst hj
      simp [Param.baseSchema] at hs0; subst hs0
      simp [validate_typeObj, hasType]
    · simp at hj
  | tuple n =>
    cases v <;> simp [Param.validB, PCfg.accepts] at hv <;> simp at hok
    rename_i l
    simp only [Param.baseSchema] at hs0
    split at hs0
    · simp at hs0
    · rename_i len hlen
      simp only [Except.ok.injEq] at hs0; subst hs0
      simp only [hlen] at hv
      simp only [serializeValue, PCfg.serialize, asList, dumps] at hj
      split at hj
      · rename_i js hjs
        simp only [Except.ok.injEq] at hj; subst hj
        simpa using validate_tupleSchema len [] js (by rw [dumpsL_length _ _ hjs]; exact hv) (by simp [validateKws])
      · simp at hj
  | numericTuple n =>
    cases v <;> simp [Param.validB, PCfg.accepts] at hv <;> simp at hok
    rename_i l
    simp only [Param.baseSchema] at hs0
    split at hs0
    · simp at hs0
    · rename_i len hlen
      simp only [Except.ok.injEq] at hs0; subst hs0
      simp only [hlen] at hv
      simp only [serializeValue, PCfg.serialize, asList, dumps] at hj
      split at hj
      · rename_i js hjs
        simp only [Except.ok.injEq] at hj; subst hj
        exact validate_tupleSchema len [("additionalItems", typeObj "number")] js (by rw [dumpsL_length _ _ hjs]; exact hv.2) (by simp [validateKws])
      · simp at hj
  | xy =>
    cases v <;> simp [Param.validB, PCfg.accepts] at hv <;> simp at hok
    rename_i l
    simp only [Param.baseSchema] at hs0
    split at hs0
    · simp at hs0
    · rename_i len hlen
      simp only [Except.ok.injEq] at hs0; subst hs0
      simp only [hlen] at hv
      simp only [serializeValue, PCfg.serialize, asList, dumps] at hj
      split at hj
      · rename_i js hjs
        simp only [Except.ok.injEq] at hj; subst hj
        exact validate_tupleSchema len [("additionalItems", typeObj "number")] js (by rw [dumpsL_length _ _ hjs]; exact hv.2) (by simp [validateKws])
      · simp at hj
  | range b =>
    cases v with
    | tuple l =>
      rcases l with _ | ⟨x, _ | ⟨y, _ | ⟨z, r⟩⟩⟩ <;> simp [Param.validB, PCfg.accepts] at hv
      simp only [Param.baseSchema] at hs0
      split at hs0
      · simp at hs0
      · rename_i len hlen
        simp only [Except.ok.injEq] at hs0; subst hs0
        simp only [hlen] at hv
        simp only [serializeValue, PCfg.serialize, asList, dumps] at hj
        split at hj
        · rename_i js hjs
          simp only [Except.ok.injEq] at hj; subst hj
          exact validate_tupleSchema len _ js (by rw [dumpsL_length _ _ hjs]; simp [hv.1.1.1]) (by simp [validateKws])
        · simp at hj
    | none => simp at hok
    | _ => simp [Param.validB, PCfg.accepts] at hv
  | list it lo hi =>
    cases v <;> simp [Param.validB, PCfg.accepts] at hv
    · simp at hok
    rename_i l
    simp only [serializeValue, PCfg.serialize, dumps] at hj
    split at hj
    · rename_i js hjs
      simp only [Except.ok.injEq] at hj; subst hj
      cases it with
      | none =>
        simp [Param.baseSchema] at hs0; subst hs0
        simp [validate_typeObj, hasType]
      | some sp =>
        simp [Param.baseSchema] at hs0; subst hs0
        simp only [List.all_eq_true] at hok
        simp only [validate, validateKws, jstr, hasType, Bool.true_and, Bool.and_true]
        exact dumpsL_all l js hjs (fun e he j hd => validate_spec (hok e he) hd)
    · simp at hj
  | selector objs =>
    simp only [serializeValue, PCfg.serialize] at hj
    simp only [Param.baseSchema, selectorSchema] at hs0
    have hmem : objs = [] ∨ ∃ o ∈ objs, sameJson v o = true := by simpa using hok
    split at hs0
    · simp at hs0; subst hs0; simp [validate, validateKws]
    · simp at hs0; subst hs0; simp [validate, validateKws]
    · rename_i ts hne hts
      split at hs0
      · simp at hs0
      · rename_i enum henum
        simp only [Except.ok.injEq] at hs0; subst hs0
        rcases hmem with rfl | ⟨o, ho, hso⟩
        · simp [literalTypes] at hts; exact absurd hts hne
        · exact validate_selector' hts henum ho hso hf hj
  | listSelector objs =>
    cases v <;> simp [Param.validB, PCfg.accepts] at hv
    · simp at hok
    rename_i l
    simp only [serializeValue, PCfg.serialize, dumps] at hj
    split at hj
    · rename_i js hjs
      simp only [Except.ok.injEq] at hj; subst hj
      simp only [Param.baseSchema, listSelectorSchema] at hs0
      split at hs0
      · simp at hs0
      · rename_i ts hts
        split at hs0
        · simp at hs0
        · rename_i enum henum
          simp only [Except.ok.injEq] at hs0; subst hs0
          have hmem : ∀ e ∈ l, ∃ o ∈ objs, sameJson e o = true := by simpa using hok
          simp only [validate, validateKws, jstr, hasType, Bool.true_and, Bool.and_true]
          exact dumpsL_all l js hjs (fun e he j hd => by
            obtain ⟨o, ho, hso⟩ := hmem e he
            simpa [validate, validateKws] using
              validate_enum' hts henum ho hso (finiteL_mem (by simpa [PyVal.finite] using hf) he) hd)
    · simp at hj
  | classSelector sp =>
    simp only [serializeValue, PCfg.serialize] at hj
    simp [Param.baseSchema] at hs0; subst hs0
    exact validate_spec (by simpa using hok) hj

/-! ## Well-formedness -/

/-- **C16: the schema of a parameter is a well-formed JSON Schema** (with the nullable wrapper),
for every configuration satisfying `SchemaOK`. -/
theorem schema_well_formed_partial (p : Param) (h : SchemaOK p = true) (s : Json) (hs : p.schema = .ok s) :
    wellFormed s = true := by
  unfold Param.schema at hs
  split at hs
  · simp at hs
  · rename_i s0 hs0
    simp only [Except.ok.injEq] at hs; subst hs
    have := baseSchema_well_formed p h s0 hs0
    cases p.schemaNullable <;> simp [wellFormed_nullable, this]

/-- **C16: `Cls.param.schema()` is well formed**: every entry (with `description` / `title`) of a
class all of whose parameters satisfy `SchemaOK`. -/
theorem class_schema_well_formed (ps : List Param) (h : ∀ p ∈ ps, SchemaOK p = true)
    (entries : List (String × Json)) (he : schemaEntries none ps = .ok entries) :
    wellFormed (objectSchema entries) = true ∧ ∀ n s, (n, s) ∈ entries → wellFormed s = true := by
  have hall : ∀ n s, (n, s) ∈ entries → wellFormed s = true := by
    intro n s hm
    obtain ⟨p, hp, _, hs⟩ := schemaEntries_mem none ps entries he n s hm
    obtain ⟨s0, hs0, heq⟩ := wellFormed_schemaEntry hs
    rw [heq]; exact schema_well_formed_partial p (h p hp) s0 hs0
  refine ⟨?_, hall⟩
  have : ∀ (l : List (String × Json)), (∀ n s, (n, s) ∈ l → wellFormed s = true) → wellFormedProps l = true := by
    intro l
    induction l with
    | nil => intro _; rfl
    | cons a as ih =>
      intro hl
      obtain ⟨n, s⟩ := a
      simp [wellFormedProps, hl n s List.mem_cons_self, ih (fun n' s' hm => hl n' s' (List.mem_cons_of_mem _ hm))]
  simp [objectSchema, wellFormed, wellFormedKws, jstr, knownType, this entries hall]

/-! ## Validation of the state -/

/-- **C16 (object level).**  For a class with distinct parameter names and a state all of whose
entries are in scope, reachable (`stateOK`), finite and `ValueOK`, the output of `serialize_parameters()` validates
against `{"type": "object", "properties": Cls.param.schema()}`. -/
theorem state_validates_partial (st : List (Param × PyVal))
    (hnd : ((st.map (·.1)).map (·.name)).Nodup)
    (h : ∀ pv ∈ st, inScope16 pv.1.cfg = true ∧ pv.1.stateOK pv.2 = true ∧ pv.2.finite = true ∧ ValueOK pv.1 pv.2)
    (entries fields : List (String × Json))
    (he : schemaEntries none (st.map (·.1)) = .ok entries)
    (hf : serializeParameters st none = .ok fields) :
    validate (objectSchema entries) (.obj fields) = true := by
  simp only [objectSchema, validate, validateKws, jstr, hasType, Bool.true_and, Bool.and_true]
  apply validateProps_of
  intro n s hm j hl
  obtain ⟨p, hp, hpn, hs⟩ := schemaEntries_mem none _ entries he n s hm
  obtain ⟨pv, hpv, hpvn, hj⟩ := serializeParameters_lookup none st fields hf n j hl
  have hpe : p = pv.1 :=
    eq_of_name_eq hnd hp (List.mem_map.2 ⟨pv, hpv, rfl⟩) (hpn.trans hpvn.symm)
  subst hpe
  obtain ⟨s0, hs0, heq⟩ := validate_schemaEntry hs
  obtain ⟨h1, h2, h3, h4⟩ := h pv hpv
  rw [heq]
  exact serialized_validates_partial pv.1 pv.2 h1 h2 h3 h4 s0 j hs0 hj

/-! ## Out-of-bounds numbers are rejected -/

/-- **C16, converse direction.**  For every Integer / Number declaration — any inclusivity, nullable
or not, bounds finite or the neutral infinities (`Bounds.sane`: a lower bound `+inf`/`nan` or an
upper bound `-inf`/`nan` admits no number, has no JSON-Schema operand and is not written) — a
(finite, i.e. JSON) number outside the declared hard bounds does not validate against the
parameter's schema. -/
theorem out_of_bounds_rejected (p : Param) (b : Bounds) (hc : p.cfg = .integer b ∨ p.cfg = .number b)
    (x : Json) (f : Fl) (hx : x.num? = some f) (hfin : f.isFinite = true) (hsane : b.sane = true)
    (hout : b.contains f = false)
    (s : Json) (hs : p.schema = .ok s) : validate s x = false := by
  have hnull : hasType "null" x = false := by
    cases x <;> simp [Json.num?] at hx <;> simp [hasType]
  unfold Param.schema at hs
  split at hs
  · simp at hs
  · rename_i s0 hs0
    simp only [Except.ok.injEq] at hs; subst hs
    have h0 : validate s0 x = false := by
      rcases hc with hc | hc <;> simp only [Param.baseSchema, hc, Except.ok.injEq] at hs0 <;> subst hs0 <;>
        rw [validate_numberSchema _ _ _ f hx hfin hsane] <;> simp [hout]
    cases p.schemaNullable <;> simp [validate_nullable, h0, hnull]

/-! ## Totality: the hypotheses `… = .ok …` above are not vacuous -/

/-- **C16: `schema()` returns.**  For every declaration whose constructor succeeds in the model
(`Declarable`: the Tuple family has its `length`; a ListSelector's objects are literal-typed, else
`listselector_schema` refuses with UnserializableException) the parameter has a schema entry. -/
theorem schema_total (p : Param) (h : Declarable p = true) : ∃ s, p.schemaEntry = .ok s :=
  schemaEntry_total p h

/-- **C16 (object level, total form).**  For a class with distinct parameter names, declarable
parameters and a reachable finite state satisfying `ValueOK` whose untyped containers hold
JSON-native elements (`nativeElems`: otherwise `json.dumps` may raise), `Cls.param.schema()` and
`serialize_parameters()` both *return*, and the returned state validates against the returned schema. -/
theorem state_validates_total (st : List (Param × PyVal))
    (hnd : ((st.map (·.1)).map (·.name)).Nodup)
    (h : ∀ pv ∈ st, inScope16 pv.1.cfg = true ∧ pv.1.stateOK pv.2 = true ∧ pv.2.finite = true ∧ ValueOK pv.1 pv.2)
    (hd : ∀ pv ∈ st, Declarable pv.1 = true ∧ nativeElems pv.1.cfg pv.2 = true) :
    ∃ entries fields, schemaEntries none (st.map (·.1)) = .ok entries ∧
      serializeParameters st none = .ok fields ∧
      validate (objectSchema entries) (.obj fields) = true := by
  obtain ⟨entries, he⟩ := schemaEntries_total none (st.map (·.1)) (by
    intro p hp
    obtain ⟨pv, hpv, rfl⟩ := List.mem_map.1 hp
    exact (hd pv hpv).1)
  obtain ⟨fields, hf⟩ := serializeParameters_total none st (fun pv hpv =>
    serializeValue_total pv.1 pv.2 (h pv hpv).1 (h pv hpv).2.1 (hd pv hpv).2)
  exact ⟨entries, fields, he, hf, state_validates_partial st hnd h entries fields he hf⟩

/-! ## Schema and validator agree on numbers -/

/-- **C16: the schema of a Number and its validator agree** for every bound / inclusivity /
nullable combination with satisfiable bounds: a finite JSON number validates against the schema
exactly when it is inside the declared hard bounds. -/
theorem number_schema_agrees (p : Param) (b : Bounds) (hc : p.cfg = .number b) (hsane : b.sane = true)
    (x : Json) (f : Fl) (hx : x.num? = some f) (hfin : f.isFinite = true)
    (s : Json) (hs : p.schema = .ok s) : validate s x = b.contains f := by
  have hnum : hasType "number" x = true := by
    cases x <;> simp [Json.num?] at hx <;> simp [hasType]
  have hnull : hasType "null" x = false := by
    cases x <;> simp [Json.num?] at hx <;> simp [hasType]
  unfold Param.schema at hs
  split at hs
  · simp at hs
  · rename_i s0 hs0
    simp only [Except.ok.injEq] at hs; subst hs
    simp only [Param.baseSchema, hc, Except.ok.injEq] at hs0; subst hs0
    cases p.schemaNullable <;>
      simp [validate_nullable, validate_numberSchema _ _ _ f hx hfin hsane, hnum, hnull]

/-- the same for an Integer and a JSON integer -/
theorem integer_schema_agrees (p : Param) (b : Bounds) (hc : p.cfg = .integer b) (hsane : b.sane = true)
    (n : Int) (s : Json) (hs : p.schema = .ok s) : validate s (.int n) = b.contains (Fl.ofInt n) := by
  unfold Param.schema at hs
  split at hs
  · simp at hs
  · rename_i s0 hs0
    simp only [Except.ok.injEq] at hs; subst hs
    simp only [Param.baseSchema, hc, Except.ok.injEq] at hs0; subst hs0
    have hv := validate_numberSchema "integer" b (.int n) (Fl.ofInt n) rfl rfl hsane
    cases p.schemaNullable <;> simp [validate_nullable, hv, hasType]

/-! ## `schema(safe=True)` -/

/-- **`schema(safe=True)` may refuse, never answer differently**: when it returns for a parameter,
it returns the entry `schema()` returns (so every theorem above applies to it), and the type is not
one of the refused ones (Dict, List without item type, Selector with an object whose type has no
JSON literal type). -/
theorem safe_schema_agrees (p : Param) (s : Json) (h : p.schemaEntrySafe = .ok s) :
    p.schemaEntry = .ok s ∧ p.cfg.safeRefuses = false := by
  unfold Param.schemaEntrySafe at h
  split at h
  · simp at h
  · rename_i hr; exact ⟨h, by simpa using hr⟩

/-- and it does return for every declarable parameter of a type that is not refused -/
theorem safe_schema_total (p : Param) (hd : Declarable p = true) (hs : p.cfg.safeRefuses = false) :
    ∃ s, p.schemaEntrySafe = .ok s := by
  obtain ⟨s, h⟩ := schemaEntry_total p hd
  exact ⟨s, by simp [Param.schemaEntrySafe, hs, h]⟩

/-- object level: `Cls.param.schema(safe=True)`, when it returns, is `Cls.param.schema()` -/
theorem class_safe_schema_agrees (subset : Option (List String)) : ∀ (ps : List Param) (entries : List (String × Json)),
    schemaEntriesSafe subset ps = .ok entries → schemaEntries subset ps = .ok entries
  | [], entries, h => by simpa [schemaEntriesSafe, schemaEntries] using h
  | p :: ps, entries, h => by
    simp only [schemaEntriesSafe] at h
    simp only [schemaEntries]
    split at h
    · rename_i hsub
      simp only [hsub, if_true]
      exact class_safe_schema_agrees subset ps entries h
    · rename_i hsub
      simp only [hsub]
      split at h
      · simp at h
      · rename_i s hs
        split at h
        · simp at h
        · rename_i r hr
          simp only [Except.ok.injEq] at h; subst h
          simp [(safe_schema_agrees p s hs).1, class_safe_schema_agrees subset ps r hr]

/-- non-vacuity: a Dict is refused, an Integer is answered -/
example : (⟨"d", .dict, .undef, some (.dict []), none, "D"⟩ : Param).schemaEntrySafe = .error .unsafeSer := rfl
example : (⟨"i", .integer ⟨none, true, true⟩, .undef, some (.int 0), none, "I"⟩ : Param).schemaEntrySafe =
    .ok (.obj [("type", jstr "integer"), ("title", jstr "I")]) := rfl

/-! ## The full statement and its refutation -/

/-- The property as stated (per parameter): for every in-scope declaration and every reachable
finite state, the schema entry is well formed and the serialized value validates. -/
def C16_full : Prop :=
  ∀ (p : Param) (v : PyVal), inScope16 p.cfg = true → p.stateOK v = true → v.finite = true →
    ∀ s, p.schemaEntry = .ok s →
      wellFormed s = true ∧ ∀ j, serializeValue p v = .ok j → validate s j = true

def witnessInteger : Param :=
  { name := "i", cfg := .integer ⟨none, true, true⟩, allowNone := .undef, default := some (.int 0),
    doc := none, label := "I" }

/-- **C16 is false of the code as stated**: `Integer` accepts `True`, `serialize_parameters` emits
`true`, and `{"type": "integer"}` rejects a boolean. -/
theorem C16_full_refuted : ¬ C16_full := by
  intro h
  have := (h witnessInteger (.bool true) (by decide) (by decide) (by decide)
    (.obj [("type", jstr "integer"), ("title", jstr "I")]) rfl).2 (.bool true) rfl
  simp [validate, validateKws, jstr, hasType] at this

def witnessSel : Param :=
  { name := "s", cfg := .selector [.int 1, .int 2], allowNone := .undef, default := none, doc := none, label := "S" }

/-- the same defect through a Selector (excluded from `ValueOK` by `sameJson`): `Selector(objects=[1, 2])`
accepts `True` (`True == 1`), serialises `true`, and neither `{"type": "integer"}` nor `enum [1, 2]`
admits a boolean -/
theorem C16_selector_bool_refuted :
    witnessSel.validB (.bool true) = true ∧
    ∃ s, witnessSel.schemaEntry = .ok s ∧ validate s (.bool true) = false := by
  refine ⟨by decide, .obj [("anyOf", .arr [typeObj "integer", typeObj "integer"]), ("enum", .arr [.int 1, .int 2]),
    ("title", jstr "S")], rfl, ?_⟩
  simp [validate, validateKws, validateAny, typeObj, jstr, hasType, Json.scalarEq]

def witnessBound : Param :=
  { name := "n", cfg := .number ⟨some (some (.float .posInf), none), true, true⟩, allowNone := .undef,
    default := some .none, doc := none, label := "N" }

/-- fixed in the code: a non-finite bound on either side is no longer written —
`Number(None, bounds=(inf, None))` gives `{"anyOf": [{"type": "number"}, {"type": "null"}]}` -/
example : witnessBound.schemaEntry =
    .ok (.obj [("anyOf", .arr [.obj [("type", jstr "number")], typeObj "null"]), ("title", jstr "N")]) := rfl

/-- fixed in the code, kept as regression examples: `Selector(objects=[])` and a `-inf` lower bound
now give well-formed schemas, and the `None` default of a ListSelector validates -/
example : ∀ s, (⟨"s", .selector [], .undef, none, none, "S"⟩ : Param).schemaEntry = .ok s → wellFormed s = true := by
  intro s h
  have : s = .obj [("anyOf", .arr [.obj [], typeObj "null"]), ("title", jstr "S")] := by
    have h' : (⟨"s", .selector [], .undef, none, none, "S"⟩ : Param).schemaEntry =
        .ok (.obj [("anyOf", .arr [.obj [], typeObj "null"]), ("title", jstr "S")]) := rfl
    rw [h'] at h; exact (Except.ok.inj h).symm
  subst this; decide

example : validate (.obj [("anyOf", .arr [.obj [("type", jstr "array"), ("items", .obj [("enum", .arr [.int 1, .int 2])])],
    typeObj "null"])]) .null = true := by
  simp [validate, validateKws, validateAny, typeObj, jstr, hasType]

/-! ### Non-vacuity -/

def exNumber : Param :=
  { name := "n", cfg := .number ⟨some (some (.int 0), some (.float (.fin 5.5))), true, false⟩,
    allowNone := .yes, default := some (.float (.fin 1.5)), doc := some "a number", label := "N" }
def exSel : Param :=
  { name := "s", cfg := .selector [.int 1, .str (.plain "a"), .none], allowNone := .undef,
    default := none, doc := none, label := "S" }
def exList : Param :=
  { name := "l", cfg := .list (some (.many [.int, .str])) (some 0) none, allowNone := .undef,
    default := some (.list []), doc := none, label := "L" }
def exState16 : List (Param × PyVal) :=
  [(exNumber, .float (.fin 2.25)), (exSel, .str (.plain "a")), (exList, .list [.int 3, .str (.plain "x")])]

example : ∀ p ∈ exState16.map (·.1), SchemaOK p = true := by decide

/-- lemma (non-vacuity): the example state satisfies every hypothesis of `state_validates_total` -/
theorem exState16_hyps : ∀ pv ∈ exState16,
    (inScope16 pv.1.cfg = true ∧ pv.1.stateOK pv.2 = true ∧ pv.2.finite = true ∧ ValueOK pv.1 pv.2) ∧
    (Declarable pv.1 = true ∧ nativeElems pv.1.cfg pv.2 = true) := by
  intro pv h
  simp only [exState16, List.mem_cons, List.not_mem_nil, or_false] at h
  rcases h with h | h | h <;> subst h
  · exact ⟨⟨by decide, by decide +kernel, by decide, Or.inr (by simp [exNumber])⟩, by decide, by decide⟩
  · exact ⟨⟨by decide, by decide, by decide, Or.inr (by
      show ([PyVal.int 1, .str (.plain "a"), .none] = [] ∨
        ∃ o ∈ [PyVal.int 1, .str (.plain "a"), .none], sameJson (.str (.plain "a")) o = true)
      exact Or.inr ⟨.str (.plain "a"), by simp, by decide⟩)⟩, by decide, by decide⟩
  · exact ⟨⟨by decide, by decide, by decide, Or.inr (by simp [exList, ClassSpec.exact, ClassAtom.exact])⟩,
      by decide, by decide⟩

/-- the theorem applied: schema and serialized state of the example exist and the state validates -/
example : ∃ entries fields, schemaEntries none (exState16.map (·.1)) = .ok entries ∧
    serializeParameters exState16 none = .ok fields ∧ validate (objectSchema entries) (.obj fields) = true :=
  state_validates_total exState16 (by decide) (fun pv h => (exState16_hyps pv h).1) (fun pv h => (exState16_hyps pv h).2)

/-- and evaluated: what the model's `serialize_parameters()` returns for it -/
example : serializeParameters exState16 none =
    .ok [("n", .float (.fin 2.25)), ("s", .str (.plain "a")), ("l", .arr [.int 3, .str (.plain "x")])] := rfl

/-- `1.0` held by a Selector over `[1, 2]` is inside `ValueOK` (and validates); `True` is not -/
example : ValueOK witnessSel (.float (.fin 1)) := Or.inr (by
  show ([PyVal.int 1, .int 2] = [] ∨ ∃ o ∈ [PyVal.int 1, .int 2], sameJson (.float (.fin 1)) o = true)
  exact Or.inr ⟨.int 1, by simp, by decide⟩)

/-- an out-of-bounds probe for `exNumber`: 5.5 is excluded by the exclusive upper bound -/
example : (⟨some (some (.int 0), some (.float (.fin 5.5))), true, false⟩ : Bounds).contains (.fin 5.5) = false := by
  decide +kernel

end ParamVerif.Json
