/-
C17 — Copies and pickles are faithful and independent.

  "`copy.deepcopy` and a pickle round-trip of any Parameterized instance succeed and yield an object
   with equal parameter values, equal per-instance Parameter attributes and equal ordinary attributes
   that shares no mutable state with the original: later assignments, in-place mutations and
   Parameter-attribute changes on either side are invisible to the other. Dependencies declared with
   `depends(watch=True)`, including those on parameters of attached sub-objects, keep working on the
   copy and act on the copy only."
   (all object states reachable by histories of sets, in-place mutations, per-instance Parameter edits
    and sub-object attachment x both copy mechanisms and pickle protocols x all histories applied
    afterwards to original and copy)

Model: Store/Copy.lean.  `copyGraph pol w root` is the copy (deepcopy and every pickle protocol are the
same graph copy in the model — the traversal is trusted CPython behaviour); `pol` is the shape of the
method-caller line of `Parameterized.__setstate__`: `.unbound` is the CURRENT source (repair 04a1761:
the copied caller is kept), `.always` the source before it (every caller re-created with
`getattr(self, name)`).  The harness reads the shape off the source, so a tree with the old line is
checked against `.always` — where `copy_succeeds` is false (`copy_fails_with_old_setstate`).

What the theorems are worth (read this before quoting them):
  * `copy_succeeds` / `copy_succeeds_partial`: the only failure the MODEL has is the method-caller line of
    `__setstate__`; with the current source (`.unbound`) that line never re-creates a caller, so `copy_succeeds` says
    "the model of the current code has no failure left" — it is the regression statement for 04a1761
    (`copy_fails_with_old_setstate` is its other half), not a statement about picklability of callables,
    `__reduce_ex__` or slots (fix 49 was such a failure; only the harness sees those).
  * `copy_isomorphic` / `copy_disjoint`: the copy is DEFINED as the offset renaming of the heap followed by
    `__setstate__` on the watcher tables.  For values, Parameter copies, attributes and lists the two theorems restate
    that definition (the traversal is trusted); their content is the watcher tables: `__setstate__` leaves every
    instance, caller and callback inside the copy (`Rebound`).  `copy_isomorphic_exact` adds that the current
    `__setstate__` changes nothing at all.
  * Reachable worlds: `reachable_invariant` proves that every history whose operations name existing objects keeps
    `WF` and `OwnWatchers` (Store/CopyInv.lean), so the side hypotheses of `copy_disjoint`, `copy_isomorphic_exact`,
    `dependencies_act_on_original_only` hold for "all object states reachable by histories" (`C17_full_holds`).
  * Later histories: `interleaved_histories_keep_the_sides_apart` covers operations on original and copy alternating
    at will (`dependencies_act_on_copy_only` / `_original_only` are its one-sided special cases, kept because they need
    no invariant).
  * NOT proved: that the copy's dependencies *do the same thing* as the original's would (equivariance of `runOps` under
    the renaming).  "Keep working on the copy" is covered by `copy_isomorphic_exact` (the wiring is identical), the `rfl`
    examples below and, on the implementation, the twin-replay oracle of Store/CopySpec.lean — not by a theorem about
    all later histories.
  * Not modelled in `__setstate__`: class-level watchers (`watcher.inst is None`), one Watcher object shared by several
    parameter lists being rebuilt once (df4891c is represented by `Watcher.wid` and an example only), the final `setattr`
    loop, the `initialized=False` window, `Parameter.__getstate__/__setstate__`.

Only property theorems and their non-vacuity examples live here; lemmas are in Store/CopyLemmas.lean and
Store/CopyInv.lean.
-/
import ParamVerif.Store.CopyInv

namespace ParamVerif.Copy

/-- the excluded class, made explicit: on every object reachable from the root, every method caller
(`depends(watch=True)` watcher) names an attribute of the class of the object it is *registered on* —
i.e. there is no watcher installed by a parent object's method on a sub-object -/
def NoForeignCaller (w : World) (root : Nat) : Prop :=
  ∀ i ∈ reach w root, ∀ ob, w.objs[i]? = some ob → ∃ c, w.classes[ob.cls]? = some c ∧
    ∀ kv ∈ ob.watchers, ∀ wt ∈ kv.2, wt.fn.kind = .mcaller → c.hasAttr wt.fn.method = true

/-- references stay inside the world: objects `< |objs|`, lists `< |cells|` -/
def WF (w : World) : Prop := Closed w (fun o => o < w.objs.length) (fun c => c < w.cells.length)

/-! ## copy_succeeds -/

/-- **C17 (copy_succeeds).**  With the current `__setstate__` every existing object of every world can be
deep-copied / pickled — objects with live dependencies on attached sub-objects included.  (The model of the current
code has no failure mode left; see the header.) -/
theorem copy_succeeds (w : World) (root : Nat) (hroot : root < w.objs.length) :
    ∃ r, copyGraph .unbound w root = .ok r := copyGraph_unbound_ok w root hroot

/-- **C17 (copy_succeeds, any shape of `__setstate__`).**  The copy of `root` succeeds whenever no object
reachable from it carries a method caller of another object's method (`NoForeignCaller`). -/
theorem copy_succeeds_partial (pol : Policy) (w : World) (root : Nat) (hroot : root < w.objs.length)
    (h : NoForeignCaller w root) : ∃ r, copyGraph pol w root = .ok r := by
  refine copyGraph_ok hroot ?_
  intro i hi ob hob
  obtain ⟨c, hc, hm⟩ := h i hi ob hob
  exact ⟨c, hc, fun kv hkv wt hwt hk _ => hm kv hkv wt hwt hk⟩

def c17Sub : ClassDef :=
  { name := "Sub", params := [⟨"x", .int 0, false, none, .notSel⟩, ⟨"y", .int 0, false, none, .notSel⟩],
    methods := [⟨"s", [.own "x"]⟩], plain := ["cb"] }
def c17Top : ClassDef :=
  { name := "Top", params := [⟨"a", .none, true, none, .notSel⟩, ⟨"b", .none, true, none, .notSel⟩,
      ⟨"n", .int 1, false, some (0, 100), .notSel⟩, ⟨"choice", .none, false, none, .choice⟩],
    methods := [⟨"m", [.path ["a", "x"]]⟩, ⟨"k", [.own "n"]⟩, ⟨"mb", [.path ["a", "y"], .path ["b", "y"]]⟩], plain := ["cb"] }
/-- no object yet; the class-level `_objects` / `names` of `Top.choice` (a `Selector()`) are lists 0 and 1 -/
def c17Empty : World := { classes := [c17Sub, c17Top], objs := [], cells := [[], []], nextPid := 1, log := [],
                          clsSlots := [(1, "choice", 0, 1)] }
/-- the witness: `s = Sub(x=1); t = Top(a=s)` -/
def c17Ops : List Op := [.new 0 [("x", .int 1)], .new 1 [("a", .obj 0)]]

/-- the world of the witness -/
def c17W : World := match runOps c17Empty c17Ops with | .ok w => w | .error _ => c17Empty

/-- the defect repaired by 04a1761, kept as a regression statement: with the OLD `__setstate__`
(`.always`) `copy.deepcopy(t)` / `pickle.loads(pickle.dumps(t))` raise `AttributeError` —
`Sub.__setstate__` calls `_m_caller(sub, 'm')` for the watcher that `t.m` installed on the sub-object. -/
theorem copy_fails_with_old_setstate :
    runOps c17Empty c17Ops = .ok c17W ∧ copyGraph .always c17W 1 = .error .attributeError := ⟨by rfl, by rfl⟩

/-! ## copy_isomorphic, copy_disjoint -/

/-- **C17 (copy_isomorphic).**  After a successful copy the object at `N + i` is the image of object
`i` under the renaming `o ↦ N + o`, `c ↦ M + c`: same class, parameter values, per-instance Parameter
copies (bounds, constant; the `_objects` / `names` containers of Selector copies and the watchers of Parameter
attributes renamed like everything else), ordinary attributes and recorded dynamic watchers — equal up to the id bijection — and list `M + c` has the contents of list `c`.  (The `watchers` table is what
`__setstate__` rewrites; see `Rebound` in Store/CopyLemmas.lean.) -/
theorem copy_isomorphic (pol : Policy) (w w' : World) (root r' : Nat)
    (h : copyGraph pol w root = .ok (w', r')) :
    r' = w.objs.length + root ∧
    (∀ (i : Nat) (ob : Obj), w.objs[i]? = some ob →
      ∃ ob', w'.objs[w.objs.length + i]? = some ob' ∧ ob'.cls = ob.cls ∧
        ob'.pcopies = ob.pcopies.map (fun kv => (kv.1, renPCopy w.objs.length w.cells.length w.nextPid kv.2)) ∧
        ob'.values = ob.values.map (fun kv => (kv.1, renVal w.objs.length w.cells.length kv.2)) ∧
        ob'.attrs = ob.attrs.map (fun kv => (kv.1, renVal w.objs.length w.cells.length kv.2)) ∧
        ob'.dyn = ob.dyn.map (fun kv => (kv.1, kv.2.map (renWatcher w.objs.length w.nextPid)))) ∧
    (∀ c : Nat, c < w.cells.length → w'.cells[w.cells.length + c]? = w.cells[c]?) := by
  obtain ⟨hr, _, hcells, _, copies, ho, hl, hp⟩ := copyGraph_spec h
  refine ⟨hr, ?_, ?_⟩
  · intro i ob hob
    have hi : i < copies.length := by
      rw [hl]
      rcases Nat.lt_or_ge i w.objs.length with h1 | h1
      · exact h1
      · rw [List.getElem?_eq_none h1] at hob; simp at hob
    have hget : (w.objs ++ copies)[w.objs.length + i]? = copies[i]? := by
      rw [List.getElem?_append_right (by omega)]; simp
    obtain ⟨ob0, h0, hreb⟩ := hp i copies[i] (by simp [hi])
    rw [hob] at h0; cases h0
    refine ⟨copies[i], by rw [ho, hget]; simp [hi], ?_⟩
    rcases hreb with e | ⟨t, e, _⟩ <;> rw [e] <;> simp [renObj]
  · intro c hc
    rw [hcells, List.getElem?_append_right (by omega)]; simp

/-- **C17 (copy_isomorphic, exact).**  With the current `__setstate__`, in a world where every watcher is
registered on its own instance, the copy is *exactly* the image of the old world under the renaming:
watcher tables, `changed=` filters and the identity of the callers recorded in `dynamic_watchers`
included — so the copy's dependencies are wired exactly like the original's. -/
theorem copy_isomorphic_exact (w : World) (root : Nat) (hroot : root < w.objs.length) (hown : OwnWatchers w) :
    copyGraph .unbound w root =
      .ok ({ w with objs := w.objs ++ w.objs.map (renObj w.objs.length w.cells.length w.nextPid),
                    cells := w.cells ++ w.cells, nextPid := w.nextPid + w.nextPid }, w.objs.length + root) :=
  copyGraph_unbound_eq hroot hown

/-- **C17 (copy_disjoint).**  After a successful copy in a well-formed world: the original objects and
lists are exactly as before; every original object refers only to original objects and lists; every
new object — values, attributes, watcher tables (instances and method owners of the callers),
recorded dynamic watchers — refers only to new objects and new lists.  No list, object or caller is
shared. -/
theorem copy_disjoint (pol : Policy) (w w' : World) (root r' : Nat) (hw : WF w)
    (h : copyGraph pol w root = .ok (w', r')) :
    (∀ i : Nat, i < w.objs.length → w'.objs[i]? = w.objs[i]?) ∧
    (∀ c : Nat, c < w.cells.length → w'.cells[c]? = w.cells[c]?) ∧
    Closed w' (fun o => o < w.objs.length) (fun c => c < w.cells.length) ∧
    Closed w' (fun o => w.objs.length ≤ o) (fun c => w.cells.length ≤ c) := by
  obtain ⟨_, _, hcells, _, copies, ho, _, _⟩ := copyGraph_spec h
  refine ⟨fun i hi => by rw [ho, List.getElem?_append_left hi],
          fun c hc => by rw [hcells, List.getElem?_append_left hc], copy_closed_low h hw, copy_closed_high h⟩

/-! ## dependencies_act_on_copy_only -/

/-- every operation of the history involves only objects of `S` and lists of `C` (and constructs no object) -/
def opsIn (S C : Nat → Prop) : World → List Op → Prop
  | _, [] => True
  | w, op :: rest => op.inSets w S C ∧ match step w op with
    | .ok w1 => opsIn S C w1 rest
    | .error _ => True

theorem run_good {S C : Nat → Prop} : ∀ (ops : List Op) (w w' : World), Closed w S C → Fresh w C → opsIn S C w ops →
    runOps w ops = .ok w' → Good w w' S C
  | [], w, w', hc, _, _, h => by simp [runOps] at h; subst h; exact Good.refl hc
  | op :: rest, w, w', hc, hf, hin, h => by
    simp only [runOps] at h
    simp only [opsIn] at hin
    cases hs : step w op with
    | error e => simp [hs] at h
    | ok w1 =>
      simp only [hs] at h hin
      have g1 := step_good hc hf hin.1 hs
      exact g1.trans (run_good rest w1 w' g1.closed (g1.fresh hf) hin.2 h)

/-- **C17 (dependencies_act_on_copy_only).**  After a successful copy, any later history of
assignments (ints, `None`, new lists, objects of the copy), in-place mutations, Parameter-attribute
edits, ordinary-attribute changes and explicit watchers applied to objects of the copy — including
attached sub-objects and re-attachment — invokes only methods of objects of the copy, leaves every
original object and every original list exactly as it was, and keeps the copy closed. -/
theorem dependencies_act_on_copy_only (pol : Policy) (w w' w'' : World) (root r' : Nat)
    (h : copyGraph pol w root = .ok (w', r')) (ops : List Op)
    (hops : opsIn (fun o => w.objs.length ≤ o) (fun c => w.cells.length ≤ c) w' ops)
    (hrun : runOps w' ops = .ok w'') :
    (∃ added, w''.log = w'.log ++ added ∧ ∀ e ∈ added, w.objs.length ≤ e.1) ∧
    (∀ i : Nat, i < w.objs.length → w''.objs[i]? = w.objs[i]?) ∧
    (∀ c : Nat, c < w.cells.length → w''.cells[c]? = w.cells[c]?) := by
  obtain ⟨_, _, hcells, _, copies, ho, _, _⟩ := copyGraph_spec h
  have g := run_good ops w' w'' (copy_closed_high h) (by intro n hn; rw [hcells] at hn; simp at hn; omega) hops hrun
  refine ⟨g.loc.logPrefix, ?_, ?_⟩
  · intro i hi
    rw [g.loc.objsFrame i (by simp; exact hi), ho, List.getElem?_append_left hi]
  · intro c hc
    rw [g.loc.cellsFrame c (by simp; exact hc), hcells, List.getElem?_append_left hc]

/-- … and symmetrically: a later history applied to objects of the original (which may create new lists and
new per-instance Parameter copies: they land beyond both halves) invokes only methods of original objects
and leaves every object and list of the copy as it was. -/
theorem dependencies_act_on_original_only (pol : Policy) (w w' w'' : World) (root r' : Nat) (hw : WF w)
    (h : copyGraph pol w root = .ok (w', r')) (ops : List Op)
    (hops : opsIn (fun o => o < w.objs.length) (fun c => c < w.cells.length ∨ w'.cells.length ≤ c) w' ops)
    (hrun : runOps w' ops = .ok w'') :
    (∃ added, w''.log = w'.log ++ added ∧ ∀ e ∈ added, e.1 < w.objs.length) ∧
    (∀ i : Nat, w.objs.length ≤ i → w''.objs[i]? = w'.objs[i]?) ∧
    (∀ c : Nat, w.cells.length ≤ c → c < w'.cells.length → w''.cells[c]? = w'.cells[c]?) := by
  have hlow := copy_closed_low h hw
  have hc : Closed w' (fun o => o < w.objs.length) (fun c => c < w.cells.length ∨ w'.cells.length ≤ c) := by
    intro i ob hi hob
    have r := hlow i ob hi hob
    refine ⟨fun kv hkv => ?_, fun kv hkv => ?_, r.watchers, r.dyn, fun kv hkv => ⟨fun s hs => ?_, (r.pcopies kv hkv).2⟩⟩
    · have := r.values kv hkv
      cases hv : kv.2 <;> simp_all [Val.inSets]
    · have := r.attrs kv hkv
      cases hv : kv.2 <;> simp_all [Val.inSets]
    · exact ⟨Or.inl ((r.pcopies kv hkv).1 s hs).1, Or.inl ((r.pcopies kv hkv).1 s hs).2⟩
  have g := run_good ops w' w'' hc (fun n hn => Or.inr hn) hops hrun
  exact ⟨g.loc.logPrefix, fun i hi => g.loc.objsFrame i (by simp; exact hi),
         fun c hc1 hc2 => g.loc.cellsFrame c (by simp; omega)⟩

/-! ## Reachable worlds, interleaved histories, the statement as a whole -/

/-- **C17 (reachable_invariant).**  Start from any world without objects (any classes); run any history whose
operations name objects that exist when their turn comes (`opsInWorld`: no dangling `obj` argument — the model
would store one).  The world reached is well-formed and every watcher sits in the table of its own instance: the side
hypotheses of the copy theorems hold for every reachable object state. -/
theorem reachable_invariant (w0 : World) (ops : List Op) (w : World) (h0 : w0.objs = [])
    (hops : opsInWorld w0 ops) (hrun : runOps w0 ops = .ok w) : WF w ∧ OwnWatchers w :=
  have hi := run_inv ops w0 w (WInv.empty h0) hops hrun
  ⟨hi.wf, hi.own⟩

/-- one step on the original's side after the copy, at any point of any interleaving (`Sep` is kept by
`interleaved_histories_keep_the_sides_apart`): the copy's objects and lists are as before, only methods of original
objects run -/
theorem step_on_original_invisible_to_copy {N : Nat} {w w1 : World} {Hi : Nat → Prop} {op : Op} (s : Sep N w Hi)
    (hop : op.inSets w (fun o => o < N) (fun c => ¬ Hi c)) (h : step w op = .ok w1) :
    (∀ i : Nat, N ≤ i → w1.objs[i]? = w.objs[i]?) ∧ (∀ c : Nat, Hi c → w1.cells[c]? = w.cells[c]?) ∧
    ∃ added, w1.log = w.log ++ added ∧ ∀ e ∈ added, e.1 < N :=
  (s.step_orig hop h).2

/-- one step on the copy's side: the original objects and every existing list that is not the copy's are as before, only
methods of the copy's objects run -/
theorem step_on_copy_invisible_to_original {N : Nat} {w w1 : World} {Hi : Nat → Prop} {op : Op} (s : Sep N w Hi)
    (hop : op.inSets w (fun o => N ≤ o ∧ o < w.objs.length) (fun c => Hi c ∨ w.cells.length ≤ c))
    (h : step w op = .ok w1) :
    (∀ i : Nat, i < N → w1.objs[i]? = w.objs[i]?) ∧
    (∀ c : Nat, c < w.cells.length → ¬ Hi c → w1.cells[c]? = w.cells[c]?) ∧
    ∃ added, w1.log = w.log ++ added ∧ ∀ e ∈ added, N ≤ e.1 :=
  (s.step_copy hop h).2

/-- **C17 (interleaved histories).**  Copy a world satisfying the invariant with the current `__setstate__`; then apply
ANY history in which operations on original objects and on objects of the copy alternate at will (each with arguments
of its own side; lists an operation creates belong to its side from then on).  The two sides stay separated throughout
— so each single step is invisible to the other side (the two theorems above) —, every method invoked by an operation on
the original belongs to an original object and every method invoked by an operation on the copy to an object of the
copy, and a side none of whose operations occurs keeps all its objects. -/
theorem interleaved_histories_keep_the_sides_apart (w : World) (hi : WInv w) (tops : List (Bool × Op)) (w2 : World)
    (Hi2 : Nat → Prop)
    (h : Interleaved w.objs.length (copyWorld w) (fun c => w.cells.length ≤ c ∧ c < w.cells.length + w.cells.length)
      tops w2 Hi2) :
    Sep w.objs.length w2 Hi2 ∧
    ∃ added : List (Bool × (Nat × String)), w2.log = (copyWorld w).log ++ added.map (·.2) ∧
      (∀ e ∈ added, if e.1 then w.objs.length ≤ e.2.1 else e.2.1 < w.objs.length) ∧
      ((∀ t ∈ tops, t.1 = true) → ∀ i : Nat, i < w.objs.length → w2.objs[i]? = (copyWorld w).objs[i]?) ∧
      ((∀ t ∈ tops, t.1 = false) → ∀ i : Nat, w.objs.length ≤ i → w2.objs[i]? = (copyWorld w).objs[i]?) :=
  ⟨(copyWorld_sep hi).interleaved h, (copyWorld_sep hi).interleaved_log h⟩

/-- the statement as a whole, for every object state reachable by a history: the copy succeeds and is exactly the
image of the world under the renaming (values, Parameter copies, attributes, watcher tables, dynamic watchers); it
shares nothing with the original (`Sep`: each half refers to its own objects and lists only); and every later
interleaving of operations on the two keeps them apart, with dependencies acting on their own side only.
What it does NOT contain: that the copy's dependencies compute what the original's would (see the header). -/
def C17_full : Prop :=
  ∀ (w0 : World) (ops : List Op) (w : World) (root : Nat), w0.objs = [] → opsInWorld w0 ops → runOps w0 ops = .ok w →
    root < w.objs.length →
    copyGraph .unbound w root = .ok (copyWorld w, w.objs.length + root) ∧
    Sep w.objs.length (copyWorld w) (fun c => w.cells.length ≤ c ∧ c < w.cells.length + w.cells.length) ∧
    ∀ (tops : List (Bool × Op)) (w2 : World) (Hi2 : Nat → Prop),
      Interleaved w.objs.length (copyWorld w) (fun c => w.cells.length ≤ c ∧ c < w.cells.length + w.cells.length)
        tops w2 Hi2 →
      Sep w.objs.length w2 Hi2 ∧
      ∃ added : List (Bool × (Nat × String)), w2.log = (copyWorld w).log ++ added.map (·.2) ∧
        ∀ e ∈ added, if e.1 then w.objs.length ≤ e.2.1 else e.2.1 < w.objs.length

theorem C17_full_holds : C17_full := by
  intro w0 ops w root h0 hops hrun hroot
  have hi := run_inv ops w0 w (WInv.empty h0) hops hrun
  refine ⟨copyGraph_unbound_eq hroot hi.own, copyWorld_sep hi, ?_⟩
  intro tops w2 Hi2 h
  obtain ⟨s, added, h1, h2, _, _⟩ := interleaved_histories_keep_the_sides_apart w hi tops w2 Hi2 h
  exact ⟨s, added, h1, h2⟩

/-! ## Non-vacuity -/

def c17Ops2 : List Op := [.new 0 [("x", .int 1)], .new 1 [], .set 1 "n" (.int 5), .pedit 1 "n" (.bounds (some (0, 60)))]
def c17W2 : World := match runOps c17Empty c17Ops2 with | .ok w => w | .error _ => c17Empty
def getW (r : Except Err (World × Nat)) : World := match r with | .ok (w, _) => w | .error _ => c17Empty

example : runOps c17Empty c17Ops2 = .ok c17W2 := by rfl
example : reach c17W2 1 = [1] ∧ 1 < c17W2.objs.length := by decide
-- the worlds are well-formed (the driver evaluates `wfB` and `ownWatchersB` on every world it copies)
example : WF c17W2 := wfB_sound (by decide)
example : WF c17W := wfB_sound (by decide)
example : OwnWatchers c17W := ownWatchersB_sound (by decide)
-- NoForeignCaller holds in c17W2, and the old `__setstate__` copies it too (new root = 2 + 1)
example : NoForeignCaller c17W2 1 := by
  intro i hi ob hob
  have : reach c17W2 1 = [1] := by decide
  rw [this] at hi; simp at hi; subst hi
  have : c17W2.objs[1]? = some (c17W2.objs[1]'(by decide)) := by simp
  rw [this] at hob; cases hob
  exact ⟨c17Top, by rfl, by decide⟩
example : copyGraph .always c17W2 1 = .ok (getW (copyGraph .always c17W2 1), 3) := by rfl
-- the witness of the old defect is copied (new root 3, its sub-object 2); the copy's sub-object watcher calls the
-- copy's method, the original's the original's
example : copyGraph .unbound c17W 1 = .ok (getW (copyGraph .unbound c17W 1), 3) := by rfl
example : (match runOps (getW (copyGraph .unbound c17W 1)) [.set 2 "x" (.int 7)] with
    | .ok w => w.log | .error _ => []) = [(2, "s"), (3, "m")] := by rfl
example : (match runOps (getW (copyGraph .unbound c17W 1)) [.set 0 "x" (.int 7)] with
    | .ok w => w.log | .error _ => []) = [(0, "s"), (1, "m")] := by rfl
-- `copy.choice = 5` after the copy: appended to the copy's own new list, the class list and the original are untouched
example : (match runOps (getW (copyGraph .unbound c17W 1)) [.set 3 "choice" (.int 5)] with
    | .ok w => (w.cells[0]?, (snapshot w 3).head?.map (·.sel), (snapshot w 1).head?.map (·.sel))
    | .error _ => (none, none, none)) =
    (some [], some [("choice", true, [5], [])], some [("choice", false, [], [])]) := by rfl
-- a method depending on two parameters runs ONCE per batched update, on the copy as on the original (df4891c)
def c17Pair : ClassDef :=
  { name := "Pair", params := [⟨"x", .int 0, false, none, .notSel⟩, ⟨"y", .int 0, false, none, .notSel⟩],
    methods := [⟨"sxy", [.own "x", .own "y"]⟩], plain := ["cb"] }
def c17PairW : World :=
  match runOps { classes := [c17Pair], objs := [], cells := [], nextPid := 1, log := [] }
      [.new 0 [], .watch 0 ["x", "y"] 0 "cb"] with
  | .ok w => w | .error _ => c17Empty
example : (match runOps (getW (copyGraph .unbound c17PairW 0)) [.update 1 [("x", .int 2), ("y", .int 3)], .update 0 [("x", .int 4), ("y", .int 5)]] with
    | .ok w => w.log | .error _ => []) = [(1, "sxy"), (1, "cb"), (0, "sxy"), (0, "cb")] := by rfl
-- a dependency path through two sub-objects ('mid.leaf.x'): after the copy, replacing the leaf on the copy rebinds the
-- copy's method to the new leaf — the original's is not touched (a036968)
def c17Leaf : ClassDef := { name := "Leaf", params := [⟨"x", .int 0, false, none, .notSel⟩], methods := [], plain := [] }
def c17Mid : ClassDef := { name := "Mid", params := [⟨"leaf", .none, true, none, .notSel⟩], methods := [], plain := [] }
def c17Root : ClassDef :=
  { name := "Root3", params := [⟨"mid", .none, true, none, .notSel⟩], methods := [⟨"m", [.path ["mid", "leaf", "x"]]⟩], plain := [] }
def c17DeepW : World :=
  match runOps { classes := [c17Leaf, c17Mid, c17Root], objs := [], cells := [], nextPid := 1, log := [] }
      [.new 0 [("x", .int 1)], .new 1 [("leaf", .obj 0)], .new 2 [("mid", .obj 1)], .new 0 [("x", .int 5)]] with
  | .ok w => w | .error _ => c17Empty
-- objects 0,1,2 = leaf, mid, root; 3 = a spare leaf; the copy of the root is 4+2 = 6, of the mid 5, of the spare leaf 7
example : (match runOps (getW (copyGraph .unbound c17DeepW 2)) [.set 5 "leaf" (.obj 7), .set 7 "x" (.int 9), .set 0 "x" (.int 8), .set 4 "x" (.int 3)] with
    | .ok w => w.log | .error _ => []) = [(6, "m"), (6, "m"), (2, "m")] := by rfl
-- a copy-side history satisfying `opsIn`
example : opsIn (fun o => c17W.objs.length ≤ o) (fun c => c17W.cells.length ≤ c)
    (getW (copyGraph .unbound c17W 1)) [.set 2 "x" (.int 9), .set 3 "a" .none] := by
  simp only [opsIn, Op.inSets, Arg.inSets]
  refine ⟨⟨by decide, trivial⟩, ?_⟩
  have : ∃ w1, step (getW (copyGraph .unbound c17W 1)) (.set 2 "x" (.int 9)) = .ok w1 :=
    ⟨match step (getW (copyGraph .unbound c17W 1)) (.set 2 "x" (.int 9)) with | .ok w => w | .error _ => c17Empty, by rfl⟩
  obtain ⟨w1, h1⟩ := this
  rw [h1]
  refine ⟨⟨by decide, trivial⟩, ?_⟩
  split <;> trivial

-- the witness history names existing objects only, so its world satisfies the invariant …
example : opsInWorld c17Empty c17Ops := by
  simp only [opsInWorld, c17Ops]
  refine ⟨by intro kv hkv o ho; simp at hkv; subst hkv; simp at ho, ?_⟩
  have h1 : step c17Empty (.new 0 [("x", .int 1)]) = .ok (match step c17Empty (.new 0 [("x", .int 1)]) with | .ok w => w | .error _ => c17Empty) := by rfl
  rw [h1]
  refine ⟨by intro kv hkv o ho; simp at hkv; subst hkv; simp at ho; subst ho; decide, ?_⟩
  split <;> trivial
example : WInv c17W := WInv.of_wf (wfB_sound (by decide)) (ownWatchersB_sound (by decide))
-- … and after its copy (objects 0,1 original, 2,3 copy; lists 0,1 the class's, 2,3 their images) an ALTERNATING history:
-- copy.sub.x, orig.sub.x, copy.choice (creates lists 4,5 for the copy), orig.choice (creates 6,7 for the original)
def nxt (w : World) (op : Op) : World := match step w op with | .ok w1 => w1 | .error _ => w
def c17Alt : List (Bool × Op) :=
  [(true, .set 2 "x" (.int 9)), (false, .set 0 "x" (.int 7)), (true, .set 3 "choice" (.int 5)), (false, .set 1 "choice" (.int 6))]
example : ∃ w2 Hi2, Interleaved c17W.objs.length (copyWorld c17W)
    (fun c => c17W.cells.length ≤ c ∧ c < c17W.cells.length + c17W.cells.length) c17Alt w2 Hi2 ∧
    w2.log = [(2, "s"), (3, "m"), (0, "s"), (1, "m")] ∧ w2.cells = [[], [], [], [], [5], [], [6], []] := by
  refine ⟨_, _, Interleaved.copy (w1 := nxt (copyWorld c17W) (.set 2 "x" (.int 9))) ⟨by decide, trivial⟩ (by rfl)
    (Interleaved.orig (w1 := nxt (nxt (copyWorld c17W) (.set 2 "x" (.int 9))) (.set 0 "x" (.int 7))) ⟨by decide, trivial⟩ (by rfl)
    (Interleaved.copy (w1 := nxt (nxt (nxt (copyWorld c17W) (.set 2 "x" (.int 9))) (.set 0 "x" (.int 7))) (.set 3 "choice" (.int 5)))
      ⟨by decide, trivial⟩ (by rfl)
    (Interleaved.orig (w1 := nxt (nxt (nxt (nxt (copyWorld c17W) (.set 2 "x" (.int 9))) (.set 0 "x" (.int 7))) (.set 3 "choice" (.int 5))) (.set 1 "choice" (.int 6)))
      ⟨by decide, trivial⟩ (by rfl) (Interleaved.done _ _)))), by rfl, by rfl⟩

end ParamVerif.Copy
