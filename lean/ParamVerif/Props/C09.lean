/-
C09 — Reactive expressions evaluate to the plain-Python result on current inputs.

  "For any expression built from `rx` roots, Parameters and `bind` functions using
   operators, indexing, attribute/method calls and the stateless `.rx` helpers
   (pipe, where, and_, or_, not_, bool, len, in_, is_, is_not, map), reading
   `.rx.value` after any sequence of input updates returns exactly what the same
   expression computes in plain Python from the inputs' current values, or raises
   the same exception and recovers once the inputs are valid again. Every
   operator form Python can dispatch to the expression, including all reflected
   operators, is supported, and a callback registered with `.rx.watch` is called
   with the fresh value whenever that value changes."
   (all expression DAGs × all histories of updates interleaved with reads)

The unrestricted statement (`C09_full`) is FALSE of the code as modelled; three
independent witnesses are replayed on the real implementation by the check
(KNOWN_FINDINGS.txt).  What is proved (`C09_partial` and the theorems it is made of)
carries the three hypotheses explicitly:

  (H1) `Admissible`: no where-rooted expression is used as an operand, as a bind
       argument, as condition / branch of another `where`, or watched
       (the `_params` filter hides the `where`'s Trigger from those consumers);
  (H2) `EqOK`: every update that `Comparator.is_equal` takes for "unchanged" really stores the
       same value.  A hypothesis on the *history*, so it is satisfiable for Python's actual
       Comparator (which identifies `True` and `1`): it fails only at an update like 1 → True,
       where the invalidation watchers (`onlychanged`) are not called.  (Weakening it further to an
       observational equality is not free: after 1 → True a read of the root returns the old
       object, so the conclusion would have to become "equal up to that equivalence".)
  (H3) `Benign`: no exception escapes an input update (a where-condition or a watched
       expression that raises aborts the dispatch of the remaining triggers / callbacks).

The plain `in` operator (`x in expr`) cannot be an expression (Python coerces `__contains__`'s result
to bool); since /repo c09ac3d `rx.__contains__` refuses it with TypeError (`Stmt.isin`; before that
fix the check found it answering `len(value) > 0`).  The oracle accepts the plain result or a refusal.

Only property theorems and their non-vacuity examples live here; the proof is in
Rx/*Lemmas.lean (umbrella: Rx/Lemmas.lean).
-/
import ParamVerif.Rx.Lemmas
import ParamVerif.Generated.RxOps

namespace ParamVerif.Rx

section
variable {Val Err Op : Type}

/-! ## Property theorems -/

/-- **Key lemma (internalParams ⊇ support).**  In every reachable world, a node whose pipeline does
not start at a `where` lists among its `_params` — hence among its `_internal_params`, on which its
invalidation watchers are installed — every input its expression mentions. -/
theorem internal_params_cover_support {S : Sem Val Err Op}
    {fuel : Nat} {w : World Val Err Op} (hr : Reach S fuel w) {n : NId} {nd : Node Val Err Op}
    (hn : w.nodes[n]? = some nd) (hclean : nd.toNStat.isW = false) :
    ∀ q ∈ supp nd.expr, q ∈ nd.params ∧ q ∈ nd.iparams := by
  intro q hq
  have nd' := hr.good.dep.node n nd.toNStat (stat_node hn)
  have := params_supset_support nd' hclean q hq
  exact ⟨this, nd'.sub q this⟩

/-- **Cache coherence.**  In every reachable world and for every node: a clean cache holds the value of
the expression on the current inputs, a cached exception is the exception the expression raises on the
current inputs, and a clean shared root object is the value of the root function. -/
theorem cache_coherent {S : Sem Val Err Op}
    {fuel : Nat} {w : World Val Err Op} (hr : Reach S fuel w) {n : NId} {nd : Node Val Err Op}
    (hn : w.nodes[n]? = some nd) :
    (nd.error = none → nd.dirty = false → eval S w.vals nd.expr = .ok nd.current) ∧
    (∀ e, nd.error = some e → eval S w.vals nd.expr = .error e) ∧
    (nd.prev = none → nd.dirtyObj = false → ∀ v, w.cells[nd.cell]? = some (some v) →
      eval S w.vals nd.expr = .ok v) :=
  let c := hr.good.coh n nd trivial hn
  ⟨c.val, c.err, c.cell⟩

/-- **C09, reads.**  In every reachable world, `_resolve` of any node returns what the direct
evaluation of its expression returns on the current inputs — the same value or the same exception —
and leaves a reachable world (reads populate caches; the statement holds again after them). -/
theorem read_equals_eval {S : Sem Val Err Op}
    {fuel : Nat} {w w' : World Val Err Op} (hr : Reach S fuel w) {n : NId} {nd : Node Val Err Op}
    (hn : w.nodes[n]? = some nd) {o : Outcome Val Err}
    (h : step S fuel w (.read n) = (o, w')) (hf : o ≠ .fuel) :
    o = expectedRead S w.vals nd.expr ∧ Reach S fuel w' := by
  have g := hr.good
  have hstep := h
  simp only [step] at h
  cases h1 : run S fuel (.resolve n) w with
  | mk r w1 =>
    simp only [h1] at h
    have hrf : r ≠ .error .fuel := by
      intro hh; subst hh
      simp only [Prod.mk.injEq] at h; exact hf h.1.symm
    obtain ⟨_, post⟩ := good_run g (call := .resolve n) ⟨trivial, nd, hn⟩ h1 hrf
    obtain ⟨e, he, hv⟩ := post.val
    simp only [callExpr, hn, Option.map_some, Option.some.injEq] at he
    subst he
    have ho : o = expectedRead S w.vals nd.expr := by
      cases r with
      | ok v =>
        simp only [Prod.mk.injEq] at h
        rw [← h.1, expectedRead, liftPy_ok_inv hv]
      | error x =>
        obtain ⟨e', rfl, hl⟩ := liftPy_err_inv hv
        simp only [Prod.mk.injEq] at h
        rw [← h.1, expectedRead, hl]
    refine ⟨ho, Reach.step hr (show Admissible w (.read n) from trivial) (show EqOK S w (.read n) from trivial) hstep ⟨hf, ?_, ?_⟩⟩
    · rw [ho, expectedRead]; split <;> simp
    · intro calls e; rw [ho, expectedRead]; split <;> simp

/-- **C09, errors and recovery.**  A cached exception is always the exception of the expression on the
*current* inputs (so re-raising it is right), and as soon as the inputs are valid again — the
expression evaluates to `v` — no exception is cached and the read returns `v`. -/
theorem error_then_recovers {S : Sem Val Err Op}
    {fuel : Nat} {w : World Val Err Op} (hr : Reach S fuel w) {n : NId} {nd : Node Val Err Op}
    (hn : w.nodes[n]? = some nd) :
    (∀ e, nd.error = some e → eval S w.vals nd.expr = .error e) ∧
    (∀ v, eval S w.vals nd.expr = .ok v → nd.error = none ∧
      ((step S fuel w (.read n)).1 = .read v ∨ (step S fuel w (.read n)).1 = .fuel)) := by
  have c := cache_coherent hr hn
  refine ⟨c.2.1, fun v hv => ⟨?_, ?_⟩⟩
  · cases he : nd.error with
    | none => rfl
    | some e => rw [c.2.1 e he] at hv; cases hv
  · by_cases hf : (step S fuel w (.read n)).1 = .fuel
    · exact Or.inr hf
    · have := (read_equals_eval hr hn (o := (step S fuel w (.read n)).1) (w' := (step S fuel w (.read n)).2) rfl hf).1
      rw [expectedRead, hv] at this
      exact Or.inl this

/-- **C09, watch.**  For an input update on a reachable world from which no exception escapes:
every `.rx.watch` callback that runs receives the fresh value of its expression, and every watched
expression whose value changed gets its callback, with the new value. -/
theorem watch_called_on_change {S : Sem Val Err Op}
    {fuel : Nat} {w w' : World Val Err Op} (hr : Reach S fuel w) {p : PId} {v : Val}
    {calls : List (Nat × Val)} (heq : EqOK S w (.set p v)) (h : step S fuel w (.set p v) = (.set calls none, w')) :
    (∀ kv ∈ calls, ∃ n deps nd, Consumer.watch kv.1 n deps ∈ w.consumers ∧ w.nodes[n]? = some nd ∧
        eval S w'.vals nd.expr = .ok kv.2) ∧
    (∀ k n deps nd, Consumer.watch k n deps ∈ w.consumers → w.nodes[n]? = some nd →
        eval S w.vals nd.expr ≠ eval S w'.vals nd.expr →
        ∃ v', eval S w'.vals nd.expr = .ok v' ∧ (k, v') ∈ calls) := by
  have g := hr.good
  obtain ⟨_, _, a, b⟩ := set_step g.wf g.dep g.coh heq h
  exact ⟨a, b⟩

/-- **C09 (partial).**  For every program (expression DAG and history of updates interleaved with
reads, creations and watches) that satisfies (H1) and (H3), under (H2): after the program, reading any
node yields the plain evaluation of its expression on the current inputs. -/
theorem C09_partial (S : Sem Val Err Op) (fuel : Nat)
    (prog : List (Stmt Val Op)) (hadm : AdmProg S fuel (World.empty S) prog)
    (n : NId) (nd : Node Val Err Op) (hn : (exec S fuel (World.empty S) prog).nodes[n]? = some nd) :
    (step S fuel (exec S fuel (World.empty S) prog) (.read n)).1 = .fuel ∨
    (step S fuel (exec S fuel (World.empty S) prog) (.read n)).1 =
      expectedRead S (exec S fuel (World.empty S) prog).vals nd.expr := by
  have hr := reach_exec prog Reach.init hadm
  by_cases hf : (step S fuel (exec S fuel (World.empty S) prog) (.read n)).1 = .fuel
  · exact Or.inl hf
  · exact Or.inr (read_equals_eval hr hn rfl hf).1

end

/-! ## The unrestricted statement and its refutation -/

/-- The property at full strength: all semantics of the opaque parts, all programs. -/
def C09_full : Prop :=
  ∀ (Val Err Op : Type) (S : Sem Val Err Op) (fuel : Nat) (prog : List (Stmt Val Op)),
    NoInfra S fuel (World.empty S) prog = true →
    ∀ (n : NId) (nd : Node Val Err Op), (exec S fuel (World.empty S) prog).nodes[n]? = some nd →
      (step S fuel (exec S fuel (World.empty S) prog) (.read n)).1 = .fuel ∨
      (step S fuel (exec S fuel (World.empty S) prog) (.read n)).1 =
        expectedRead S (exec S fuel (World.empty S) prog).vals nd.expr

/-- a tiny concrete semantics: values `None` / integers; operator 0 = `+`, operator 1 = `10 // x` -/
def tinySem : Sem (Option Int) Unit Nat :=
  { apply := fun o vs =>
      match o, vs with
      | 0, [some a, some b] => .ok (some (a + b))
      | 1, [some a] => if a = 0 then .error () else .ok (some (10 / a))
      | _, _ => .error ()
    truthy := fun v => match v with | some i => i != 0 | none => false
    isEqual := fun a b => a == b
    none := none
    isNone := Option.isNone
    hasAttr := fun _ _ => true
    attrErr := ()
    iterLen := fun _ => none
    typeErr := ()
    ofBool := fun b => some (if b then 1 else 0) }

/-- Witness 1 (violates H1 only): `c = rx(1); x = rx(1); y = rx(2); w = rx(c.rx.where(x, y));
e = rx(100) + w; e.rx.value; x.rx.value = 10; e.rx.value` — the second read returns 101, not 110. -/
def witnessWhereOperand : List (Stmt (Option Int) Nat) :=
  [.lit (some 1), .lit (some 1), .lit (some 2), .where_ (.node 0) (.node 1) (.node 2), .lit (some 100),
   .op 4 0 false [.node 3], .read 6, .set 1 (some 10)]

theorem witnessWhereOperand_stale :
    (step tinySem 50 (exec tinySem 50 (World.empty tinySem) witnessWhereOperand) (.read 6)).1 = .read (some 101) ∧
    (match (exec tinySem 50 (World.empty tinySem) witnessWhereOperand).nodes[6]? with
     | some nd => expectedRead tinySem (exec tinySem 50 (World.empty tinySem) witnessWhereOperand).vals nd.expr
     | none => .bad) = .read (some 110) := by
  decide

theorem C09_full_refuted : ¬ C09_full := by
  intro h
  have h1 := h (Option Int) Unit Nat tinySem 50 witnessWhereOperand (by decide) 6
  cases hn : (exec tinySem 50 (World.empty tinySem) witnessWhereOperand).nodes[6]? with
  | none => revert hn; decide
  | some nd =>
    have h2 := h1 nd hn
    have h3 := witnessWhereOperand_stale
    simp only [hn] at h3
    rcases h2 with h2 | h2
    · rw [h3.1] at h2; cases h2
    · rw [h3.1, h3.2] at h2; cases h2

/-- Witness 2 (violates H2 only): with an equality that identifies different values — as
`Comparator.is_equal(True, 1)` does — `a = rx(1); a.rx.value; a.rx.value = 2'; a.rx.value` reads the
old object. -/
def coarseSem : Sem (Option Int) Unit Nat := { tinySem with isEqual := fun _ _ => true }

def witnessEqualUpdate : List (Stmt (Option Int) Nat) := [.lit (some 1), .read 0, .set 0 (some 2)]

theorem witnessEqualUpdate_stale :
    (step coarseSem 50 (exec coarseSem 50 (World.empty coarseSem) witnessEqualUpdate) (.read 0)).1 = .read (some 1) ∧
    (exec coarseSem 50 (World.empty coarseSem) witnessEqualUpdate).vals 0 = some 2 := by
  decide

/-- Witness 3 (violates H3 only): `a = rx(1); x = rx(1); w1 = rx((10 // a).rx.where(x, 5));
w2 = rx(rx(1).rx.where(x, 6)); w2.rx.value; a.rx.value = 0; x.rx.value = 2` — the last assignment
raises (the condition of `w1` fails inside its trigger), `w2`'s trigger is skipped and `w2` stays 1. -/
def witnessRaisingUpdate : List (Stmt (Option Int) Nat) :=
  [.lit (some 1), .lit (some 1), .op 0 1 false [], .where_ (.node 3) (.node 1) (.lit (some 5)), .lit (some 1),
   .where_ (.node 5) (.node 1) (.lit (some 6)), .read 6, .set 0 (some 0), .set 1 (some 2)]

theorem witnessRaisingUpdate_stale :
    (step tinySem 50 (exec tinySem 50 (World.empty tinySem) (witnessRaisingUpdate.take 8)) (.set 1 (some 2))).1
      = .set [] (some ()) ∧
    (step tinySem 50 (exec tinySem 50 (World.empty tinySem) witnessRaisingUpdate) (.read 6)).1 = .read (some 1) ∧
    (match (exec tinySem 50 (World.empty tinySem) witnessRaisingUpdate).nodes[6]? with
     | some nd => expectedRead tinySem (exec tinySem 50 (World.empty tinySem) witnessRaisingUpdate).vals nd.expr
     | none => .bad) = .read (some 2) := by
  decide

/-! ## Non-vacuity: the hypotheses are satisfiable by non-trivial programs -/

/-- a `where` in pipeline position, derived from, with both branch inputs and the condition updated,
a watched plain expression, an error and its recovery -/
def sampleProg : List (Stmt (Option Int) Nat) :=
  [.lit (some 1), .lit (some 1), .lit (some 2), .where_ (.node 0) (.node 1) (.node 2),   -- node 3
   .op 3 0 false [.lit (some 100)],                                                       -- nodes 4, 5
   .op 1 1 false [],                                                                      -- nodes 6, 7: 10 // x
   .watch 7, .read 5, .read 7,
   .set 1 (some 5), .read 5, .read 7, .set 0 (some 0), .read 5, .set 2 (some 7), .read 5,
   .bind 0 [.node 7, .param 2], .read 8, .set 1 (some 2), .read 8]

/-- witness 2 satisfies (H1) and (H3) at every step; (H2) fails at its update and only there -/
example : admProgB13 coarseSem 50 (World.empty coarseSem) witnessEqualUpdate = true ∧
    admProgB coarseSem 50 (World.empty coarseSem) (witnessEqualUpdate.take 2) = true ∧
    ¬ EqOK coarseSem (exec coarseSem 50 (World.empty coarseSem) (witnessEqualUpdate.take 2)) (.set 0 (some 2)) := by
  refine ⟨by decide, by decide, ?_⟩
  intro h
  have := h (by decide)
  revert this; decide

/-- witness 3 satisfies (H1): every statement is admissible; only (H3) fails (at its last update) -/
example : admProgB tinySem 50 (World.empty tinySem) (witnessRaisingUpdate.take 8) = true ∧
    admB (exec tinySem 50 (World.empty tinySem) (witnessRaisingUpdate.take 8)) (.set 1 (some 2)) = true ∧
    eqOKB tinySem (exec tinySem 50 (World.empty tinySem) (witnessRaisingUpdate.take 8)) (.set 1 (some 2)) = true := by
  decide

/-- the hypotheses of `C09_partial` hold for `sampleProg` (and `tinySem` satisfies H2) … -/
example : AdmProg tinySem 50 (World.empty tinySem) sampleProg :=
  admProgB_sound tinySem 50 sampleProg _ (by decide)

/-- … the program is not trivial: 9 nodes, the final read of `bind(+, 10 // x, y)` returns 5 + 7 = 12,
the watch callback ran with the fresh value, and an earlier read raised before it recovered. -/
example :
    (exec tinySem 50 (World.empty tinySem) sampleProg).nodes.length = 9 ∧
    (step tinySem 50 (exec tinySem 50 (World.empty tinySem) sampleProg) (.read 8)).1 = .read (some 12) ∧
    (step tinySem 50 (exec tinySem 50 (World.empty tinySem) (sampleProg.take 9)) (.set 1 (some 5))).1
      = .set [(0, some 2)] none ∧
    (step tinySem 50 (exec tinySem 50 (World.empty tinySem) (sampleProg.take 13)) (.read 5)).1 = .read (some 102) := by
  decide

/-- hypotheses of `watch_called_on_change` / `read_equals_eval`: a reachable world exists beyond the empty one -/
example : Reach tinySem 50 (exec tinySem 50 (World.empty tinySem) sampleProg) :=
  reach_exec sampleProg Reach.init (admProgB_sound tinySem 50 sampleProg _ (by decide))

/-! ## The operator table (generated from `class rx` on every run) -/

open ParamVerif.Generated in
/-- what Python can dispatch to an object standing on either side of an operator, and the function each
dunder has to apply: (dunder, acceptable function names, reverse flag, unary?) -/
def dispatchable : List (String × List String × Bool × Bool) :=
  let binary : List (String × List String) :=
    [("add", ["operator.add"]), ("sub", ["operator.sub"]), ("mul", ["operator.mul"]),
     ("matmul", ["operator.matmul"]), ("truediv", ["operator.truediv"]), ("floordiv", ["operator.floordiv"]),
     ("mod", ["operator.mod"]), ("divmod", ["divmod"]), ("pow", ["operator.pow", "pow"]),
     ("lshift", ["operator.lshift"]), ("rshift", ["operator.rshift"]), ("and", ["operator.and_"]),
     ("xor", ["operator.xor"]), ("or", ["operator.or_"])]
  let cmp : List (String × List String) :=
    [("lt", ["operator.lt"]), ("le", ["operator.le"]), ("eq", ["operator.eq"]), ("ne", ["operator.ne"]),
     ("gt", ["operator.gt"]), ("ge", ["operator.ge"])]
  let unary : List (String × List String) :=
    [("neg", ["operator.neg"]), ("pos", ["operator.pos"]), ("abs", ["abs", "operator.abs"]),
     ("invert", ["operator.inv", "operator.invert"])]
  [("__getitem__", ["operator.getitem"], false, false),
   ("__floor__", ["math.floor"], false, true), ("__ceil__", ["math.ceil"], false, true),
   ("__trunc__", ["math.trunc"], false, true)] ++
  binary.map (fun (n, f) => ("__" ++ n ++ "__", f, false, false)) ++
  binary.map (fun (n, f) => ("__r" ++ n ++ "__", f, true, false)) ++
  cmp.map (fun (n, f) => ("__" ++ n ++ "__", f, false, false)) ++
  unary.map (fun (n, f) => ("__" ++ n ++ "__", f, false, true))

def entryOK (d : String × List String × Bool × Bool) : Bool :=
  match Generated.RxOps.table.find? (·.dunder == d.1) with
  | some e => e.recognised && e.resolves && d.2.1.contains e.fn && e.reverse == d.2.2.1 && e.unary == d.2.2.2
  | none => false

/-- **C09, operator forms.**  Every binary operator dunder Python can dispatch — forward and reflected —
every comparison, every unary operator, indexing and `math.floor/ceil/trunc` has a method on `class rx`
of the recognised shape, the function it applies exists, the reflected form applies the *same* function
as the forward form with `reverse=True`, and the forward form with `reverse=False`.
Not required here, on purpose: `__round__` (present, but its body builds the operand tuple first — not
of the certified shape); `__contains__` (refuses with TypeError, like `__len__`: `x in expr` cannot be an
expression; `Stmt.isin`); `__iter__`,
`__bool__`, `__len__` (deliberately not expressions); `__call__` (method calls, `Stmt.meth` / `meth2`). -/
theorem operator_table_complete :
    Generated.RxOps.classFound = true ∧ ∀ d ∈ dispatchable, entryOK d = true := by
  decide

/-- the stateless `.rx` helpers named by the property and the function each has to apply
(`lambda:` = source of the lambda, `param:` = the caller's function, `local:` = what the nested
function returns): (helper, function, reverse flag) -/
def requiredHelpers : List (String × String × Bool) :=
  [("pipe", "param:func", false),
   ("and_", "lambda:lambda obj, other: obj and other", false),
   ("or_", "lambda:lambda obj, other: obj or other", false),
   ("not_", "operator.not_", false), ("bool", "bool", false), ("len", "len", false),
   ("in_", "operator.contains", true),          -- `obj in other` = contains(other, obj)
   ("is_", "operator.is_", false), ("is_not", "operator.is_not", false),
   ("map", "local:[func(v, *args, **kwargs) for v in vs]", false)]

def helperOK (h : String × String × Bool) : Bool :=
  match Generated.RxOps.helpers.find? (·.name == h.1) with
  | some e => e.recognised && e.fn == h.2.1 && e.reverse == h.2.2
  | none => false

/-- **C09, helpers.**  Each stateless helper the property names (`where` is `Expr.ite` in the model) is a
method of `reactive_ops` whose result is `self._as_rx()._apply_operator(F, …)` with exactly this `F` and
this `reverse` flag — the table the driver's `formOp` and the harness's `_apply_form` use. -/
theorem helpers_table_complete : ∀ h ∈ requiredHelpers, helperOK h = true := by
  decide

end ParamVerif.Rx
