/-
C10 — The latest assignment wins under every asynchronous completion order.

  "When a parameter is driven by asynchronous references (coroutine functions, async generators)
   or a reactive expression pipes through coroutines, then for every order in which the pending
   awaitables complete, once all have completed the parameter or expression holds the result
   belonging to the most recent assignment. A result from a superseded reference is never applied
   after a newer assignment, and assigning a plain value while a result is pending cancels that
   reference permanently."

Model: Async/Model.lean (parameters; `Cfg.current` = the code in /repo as it is, `Cfg.fixed` = the
proposed patch) and Async/Rx.lean (expression pipelines).  A schedule is any list of events
`assign p (coro | agen n | plain v)`, `tick`, `complete t k v`; the theorems quantify over all of
them.  Ghost field `St.last p` = the most recent assignment to `p` (`last_eq_lastOf`: it is what the
schedule says).  "All awaitables of the assignment have completed" = `Settled` (none of its futures
is pending) in a state with an empty ready queue.

The full statement is FALSE of the code as it is: `C10_full_refuted` (four witness schedules, each
replayed on the real code by the harness).  What holds of it is `…_partial`: every schedule that
avoids three explicit situations (`hazA`, `hazB`, `hazD` in Async/Spec.lean).  For the patch the
hazards are vacuous and the same theorems hold for all schedules (`…_fixed`).
-/
import ParamVerif.Async.LemmasGhost
import ParamVerif.Async.RxLemmas

namespace ParamVerif.Async

/-! ### statements -/

/-- once the loop is idle and every awaitable of the most recent assignment has completed
(`settled`), the parameter holds its (last) result -/
def LatestWins (c : Cfg) (P : List Event → Prop) : Prop :=
  ∀ evs p t x, P evs → (run c evs).ready = [] → (run c evs).last p = .task t → (run c evs).tasks t = some x →
    settled (run c evs) t x.kind = true → 0 < x.kind.nFuts →
    (run c evs).futs (t, x.kind.nFuts - 1) = .done ((run c evs).vals p)

/-- every value stored in a parameter during an event comes from that parameter's most recent
assignment (`fromLatest`): the plain value just assigned, or a completed result of the latest
asynchronous one — never a result of a superseded reference -/
def SupersededNeverApplied (c : Cfg) (P : List Event → Prop) : Prop :=
  ∀ evs ev p v, P (evs ++ [ev]) →
    (p, v) ∈ (run c (evs ++ [ev])).log.drop (run c evs).log.length →
    fromLatest (run c (evs ++ [ev])) ev p v = true

/-- as long as the most recent assignment is the plain value `v`, the parameter holds `v`, is not
linked and no task owns it — whatever completes, in whatever order, afterwards -/
def PlainCancelsForGood (c : Cfg) (P : List Event → Prop) : Prop :=
  ∀ evs p v, P evs → (run c evs).last p = .plain v →
    (run c evs).vals p = v ∧ (run c evs).refs p = none ∧ (run c evs).asyncRefs p = none

/-- idle loop, no awaitable pending: `syncing` and `async_refs` are empty -/
def SyncingEmptyWhenQuiescent (c : Cfg) (P : List Event → Prop) : Prop :=
  ∀ evs, P evs → (run c evs).ready = [] → allSettled (run c evs) = true →
    (run c evs).syncing = [] ∧ ∀ p, (run c evs).asyncRefs p = none

def C10 (c : Cfg) (P : List Event → Prop) : Prop :=
  LatestWins c P ∧ SupersededNeverApplied c P ∧ PlainCancelsForGood c P ∧ SyncingEmptyWhenQuiescent c P

/-- the property as stated, of the code as it is in /repo: every schedule -/
def C10_full : Prop := C10 Cfg.current (fun _ => True)

/-! ### the code as it is: refutation (each witness is replayed on the real code by the harness) -/

/-- (a) a plain value assigned while the coroutine is suspended inside `with _syncing` -/
def witnessA : List Event := [.assign 0 .coro, .tick, .assign 0 (.plain 100), .complete 0 0 10, .tick]
/-- (b) two coroutine tasks overlap and restore `syncing` in start order -/
def witnessB : List Event :=
  [.assign 0 .coro, .assign 1 .coro, .tick, .complete 0 0 10, .tick, .complete 1 0 20, .tick]
/-- (c) the second of two back-to-back asynchronous assignments never registers its task -/
def witnessC : List Event :=
  [.assign 0 (.agen 1), .assign 0 (.agen 1), .tick, .assign 0 (.agen 1), .tick, .complete 2 0 30, .tick,
   .complete 1 0 20, .complete 0 0 10, .tick]
/-- (d) a plain value assigned before the scheduled task has started -/
def witnessD : List Event := [.assign 0 (.agen 1), .assign 0 (.plain 100), .tick, .complete 0 0 10, .tick]
/-- (c') a superseded result that is already complete is applied when the stale task starts -/
def witnessC' : List Event := [.assign 0 (.agen 1), .assign 0 (.agen 1), .complete 0 0 10]

theorem plain_assignment_cancels_for_good_refuted : ¬ PlainCancelsForGood Cfg.current (fun _ => True) := by
  intro h
  have := (h witnessA 0 100 trivial (by decide)).1
  revert this
  decide

/-- … also without any `_syncing` scope involved (generators only) -/
theorem plain_assignment_cancels_for_good_refuted_before_start :
    ¬ PlainCancelsForGood Cfg.current (fun _ => True) := by
  intro h
  have := (h witnessD 0 100 trivial (by decide)).1
  revert this
  decide

theorem syncing_empty_when_quiescent_refuted : ¬ SyncingEmptyWhenQuiescent Cfg.current (fun _ => True) := by
  intro h
  have := (h witnessB trivial (by decide) (by decide)).1
  revert this
  decide

theorem latest_wins_refuted : ¬ LatestWins Cfg.current (fun _ => True) := by
  intro h
  have := h witnessC 0 2 ⟨0, .agen 1, .finished, false⟩ trivial (by decide) (by decide) (by decide) (by decide) (by decide)
  revert this
  decide

theorem superseded_never_applied_after_newer_refuted : ¬ SupersededNeverApplied Cfg.current (fun _ => True) := by
  intro h
  have := h witnessC' .tick 0 10 trivial (by decide)
  revert this
  decide

theorem C10_full_refuted : ¬ C10_full := fun h => plain_assignment_cancels_for_good_refuted h.2.2.1

/-- the witnesses are exactly the schedules the `_partial` theorems exclude … -/
example : ¬ HazardFree Cfg.current witnessA ∧ ¬ HazardFree Cfg.current witnessB ∧ ¬ HazardFree Cfg.current witnessC ∧
    ¬ HazardFree Cfg.current witnessD ∧ ¬ HazardFree Cfg.current witnessC' := by
  unfold HazardFree; decide
/-- … and the patched variant handles every one of them -/
example : (run Cfg.fixed witnessA).vals 0 = 100 ∧ (run Cfg.fixed witnessB).syncing = [] ∧
    (run Cfg.fixed witnessC).vals 0 = 30 ∧ (run Cfg.fixed witnessD).vals 0 = 100 ∧
    (run Cfg.fixed (witnessC' ++ [.tick])).log = [] := by decide


/-! ### what holds: every schedule that meets no hazard — for the patch, every schedule

`HazardFree c evs` (Async/Spec.lean) excludes, for the code as it is (`Cfg.current`), exactly:
  (a) `hazA`: a plain value assigned to `p` while `p ∈ syncing` (a coroutine is suspended inside its scope);
  (b) `hazB`: a coroutine assigned while another coroutine task is unfinished (overlapping scopes);
  (c, d) `hazD`: an assignment to `p` while a task of `p` has been scheduled but has not started.
Each flag of the patch switches one of them off (`hazard_fixed`). -/

theorem latest_wins (c : Cfg) : LatestWins c (HazardFree c) := by
  intro evs p t x hz hq hl ht hs hn
  exact inv_latest_wins c _ (inv_run c evs hz) hq p t x hl ht hs hn

theorem plain_assignment_cancels_for_good (c : Cfg) : PlainCancelsForGood c (HazardFree c) := by
  intro evs p v hz hl
  exact inv_plain c _ (inv_run c evs hz) p v hl

theorem superseded_never_applied_after_newer (c : Cfg) : SupersededNeverApplied c (HazardFree c) := by
  intro evs ev p v hz hm
  rw [run_append] at hm ⊢
  exact writes_applyEvent c _ ev (inv_run c evs (hazardFreeFrom_append c evs _ ev hz)) p v hm

theorem syncing_empty_when_quiescent (c : Cfg) : SyncingEmptyWhenQuiescent c (HazardFree c) := by
  intro evs hz hq ha
  exact inv_quiescent c _ (inv_run c evs hz) hq ha

/-- the code as it is in /repo, minus the three situations above -/
theorem latest_wins_partial : LatestWins Cfg.current (HazardFree Cfg.current) := latest_wins _
theorem superseded_never_applied_after_newer_partial :
    SupersededNeverApplied Cfg.current (HazardFree Cfg.current) := superseded_never_applied_after_newer _
theorem plain_assignment_cancels_for_good_partial : PlainCancelsForGood Cfg.current (HazardFree Cfg.current) :=
  plain_assignment_cancels_for_good _
theorem syncing_empty_when_quiescent_partial : SyncingEmptyWhenQuiescent Cfg.current (HazardFree Cfg.current) :=
  syncing_empty_when_quiescent _

/-- the proposed patch: every schedule -/
theorem latest_wins_fixed : LatestWins Cfg.fixed (fun _ => True) :=
  fun evs p t x _ => latest_wins Cfg.fixed evs p t x (hazardFree_fixed evs)
theorem superseded_never_applied_after_newer_fixed : SupersededNeverApplied Cfg.fixed (fun _ => True) :=
  fun evs ev p v _ => superseded_never_applied_after_newer Cfg.fixed evs ev p v (hazardFree_fixed _)
theorem plain_assignment_cancels_for_good_fixed : PlainCancelsForGood Cfg.fixed (fun _ => True) :=
  fun evs p v _ => plain_assignment_cancels_for_good Cfg.fixed evs p v (hazardFree_fixed evs)
theorem syncing_empty_when_quiescent_fixed : SyncingEmptyWhenQuiescent Cfg.fixed (fun _ => True) :=
  fun evs _ => syncing_empty_when_quiescent Cfg.fixed evs (hazardFree_fixed evs)

/-- the ghost field used in the statements is the schedule's most recent assignment to `p`, tasks
numbered in the order of the asynchronous assignments (`lastOf`, Async/Spec.lean — the function the
oracle uses) -/
theorem last_is_most_recent_assignment (c : Cfg) (p : Nat) (evs : List Event) :
    (run c evs).last p = lastOf p evs := last_eq_lastOf c p evs

/-- all four, for the code as it is on hazard-free schedules and for the patch on every schedule -/
theorem C10_partial : C10 Cfg.current (HazardFree Cfg.current) :=
  ⟨latest_wins _, superseded_never_applied_after_newer _, plain_assignment_cancels_for_good _, syncing_empty_when_quiescent _⟩
theorem C10_fixed : C10 Cfg.fixed (fun _ => True) :=
  ⟨latest_wins_fixed, superseded_never_applied_after_newer_fixed, plain_assignment_cancels_for_good_fixed,
   syncing_empty_when_quiescent_fixed⟩

/-! ### expression pipelines (`r.rx.pipe(coroutine function)`, Async/Rx.lean) — no defect here -/

/-- **Latest wins for an expression that pipes through a coroutine**: for every schedule of input
changes, ticks and completions — in every order —, once the loop is idle and every evaluation
requested so far has completed, the expression holds the result of the most recent evaluation
(number `nTasks - 1`: evaluations are numbered in the order they were requested). -/
theorem rx_latest_wins (evs : List Rx.Event) (hq : (Rx.run evs).ready = [])
    (hd : Rx.allDone (Rx.run evs) = true) :
    ∃ v, (Rx.run evs).futs ((Rx.run evs).nTasks - 1) = .done v ∧ (Rx.run evs).cur = some v := by
  obtain ⟨m, h⟩ := Rx.rinv_run evs
  have := Rx.rinv_latest_wins _ m h hq hd
  cases hc : (Rx.run evs).cur with
  | none => exact absurd hc this.2
  | some v => exact ⟨v, by simpa [hc] using this.1, rfl⟩

/-- the older evaluation completes last: its result is dropped -/
example : (Rx.run [.set 20, .tick, .complete 1 20, .tick, .complete 0 10, .tick]).cur = some 20 ∧
    (Rx.run [.set 20, .tick, .complete 1 20, .tick, .complete 0 10, .tick]).ready = [] ∧
    Rx.allDone (Rx.run [.set 20, .tick, .complete 1 20, .tick, .complete 0 10, .tick]) = true := by decide

/-! ### non-vacuity: hazard-free schedules of the code as it is that do exercise supersession -/

/-- a generator superseded by a generator, completions out of order, then overridden by a plain value -/
def calmSchedule : List Event :=
  [.assign 0 (.agen 2), .tick, .complete 0 0 11, .tick, .assign 0 (.agen 1), .tick, .complete 0 1 12, .complete 1 0 20,
   .tick, .assign 1 .coro, .tick, .assign 0 (.plain 100), .complete 2 0 30, .tick]

example : HazardFree Cfg.current calmSchedule := by unfold HazardFree; decide
example : (run Cfg.current calmSchedule).ready = [] ∧ (run Cfg.current calmSchedule).last 1 = .task 2 ∧
    (run Cfg.current calmSchedule).last 0 = .plain 100 ∧ allSettled (run Cfg.current calmSchedule) = true ∧
    (run Cfg.current calmSchedule).vals 1 = 30 ∧ (run Cfg.current calmSchedule).vals 0 = 100 ∧
    (run Cfg.current calmSchedule).log = [(0, 11), (0, 20), (0, 100), (1, 30)] := by decide

end ParamVerif.Async
