/-
C10 — The latest assignment wins under every asynchronous completion order.

  "When a parameter is driven by asynchronous references (coroutine functions, async generators)
   or a reactive expression pipes through coroutines, then for every order in which the pending
   awaitables complete, once all have completed the parameter or expression holds the result
   belonging to the most recent assignment. A result from a superseded reference is never applied
   after a newer assignment, and assigning a plain value while a result is pending cancels that
   reference permanently."

Model: Async/Model.lean (parameters; `Cfg.repo` = the code in /repo, i.e. since commits 08165dc and
0c5ea5c; `Cfg.preFix` = the code before them) and Async/Rx.lean (expression pipelines).  A schedule
is any list of events `assign p (coro | agen n | plain v)`, `tick`, `complete t k v`; the theorems
quantify over all of them.  Ghost field `St.last p` = the most recent assignment to `p`
(`last_is_most_recent_assignment`: it is what the schedule says).  "All awaitables of the
assignment have completed" = `settled` (none of its futures is pending) in a state with an empty
ready queue.

The statement holds of the code in /repo for EVERY schedule: `C10_full_holds`.  It was false of the
code before the two fixes; the refutations (`old_code_…_refuted`, four witness schedules) and what
did hold then (`old_code_partial`: every schedule avoiding three explicit situations `hazA`, `hazB`,
`hazD` of Async/Spec.lean) are kept at the end as regression theorems about the PRE-FIX
configuration `Cfg.preFix` — they say nothing about the current code.  The harness reads the
configuration from the source of `_async_ref` on every run and replays the witness schedules
(corpus/C10) on the real code, where they now have to satisfy the oracle.

Scope of the theorems: schedules of assignments, ticks and completions (`tick_drains`: the
`ready = []` hypothesis of the quiescence theorems is what every `tick` produces).  The driver
replays a larger model (Async/ModelExt.lean); on schedules without its extensions it is the model
of the theorems, state by state (`driver_model_is_core_model`).  Of the extensions,
  * the WATCHER HOOK (a watcher on `a` assigning a plain value to `b ≠ a`, also from inside a task's
    result write) is covered by `hook_plain_assignment_cancels_for_good`, `hook_latest_wins` and
    `hook_syncing_empty_when_quiescent` (Async/HookLemmas.lean); the per-write statement
    ("superseded never applied") is NOT lifted for it;
  * references WITH A DEPENDENCY re-evaluated through `_sync_refs` when their source changes, and
    results the parameter's validation REJECTS (the write raises inside the task), are tied to the
    code by the correspondence run and judged by the oracle (Async/SpecExt.lean) only — no theorem.

Not modelled at all (fidelity limits, also in the harness ASSUMPTIONS):
  * reference identity: in the model of the theorems every assignment installs a FRESH reference
    (named by the id of its first task); assigning the SAME function object again (Python's
    still-current check is `refs.get(pname) is not ref`) exists in Async/ModelExt.lean only
    (`again`), like `obj.param.trigger` (`trigC`, `trigP`) and a synchronous reference on the same
    object (`assignSync`) — correspondence and oracle, no theorem;
  * constructor-time references (`initialized=False`: `_async_ref` re-scheduling itself,
    `_resolve_ref` not installing the link): the object is initialised before the first event;
  * awaitables that raise (`Skip` included), `set_exception` / cancellation of the hand-made future
    by the user; `_update_ref`'s re-installation of the ref watchers (only its effect on `refs` /
    `async_refs` is modelled); sync generator functions (thread pool); other event loops;
  * rx: one `.rx.pipe(coroutine function | async generator function)` node with a `.rx.watch`
    callback (every input change is evaluated at once); sync generator functions are not modelled.
-/
import ParamVerif.Async.LemmasGhost
import ParamVerif.Async.RxLemmas
import ParamVerif.Async.ExtLemmas
import ParamVerif.Async.HookLemmas

namespace ParamVerif.Async

/-! ### statements -/

/-- once the loop is idle and every awaitable of the most recent assignment has completed
(`settled`), the parameter holds its (last) result -/
def LatestWins (c : Cfg) (P : List Event → Prop) : Prop :=
  ∀ evs p t x, P evs → (run c evs).ready = [] → (run c evs).last p = .task t → (run c evs).tasks t = some x →
    settled (run c evs) t x.kind = true → 0 < x.kind.nFuts →
    (run c evs).futs (t, x.kind.nFuts - 1) = .done ((run c evs).vals p)

/-- every value stored in a parameter during an event comes from that parameter's most recent
assignment (`fromLatest`): the plain value just assigned, or a completed result of the latest
asynchronous one — never a result of a superseded reference -/
def SupersededNeverApplied (c : Cfg) (P : List Event → Prop) : Prop :=
  ∀ evs ev p v, P (evs ++ [ev]) →
    (p, v) ∈ (run c (evs ++ [ev])).log.drop (run c evs).log.length →
    fromLatest (run c (evs ++ [ev])) ev p v = true

/-- as long as the most recent assignment is the plain value `v`, the parameter holds `v`, is not
linked and no task owns it — whatever completes, in whatever order, afterwards -/
def PlainCancelsForGood (c : Cfg) (P : List Event → Prop) : Prop :=
  ∀ evs p v, P evs → (run c evs).last p = .plain v →
    (run c evs).vals p = v ∧ (run c evs).refs p = none ∧ (run c evs).asyncRefs p = none

/-- idle loop, no awaitable pending: `syncing` and `async_refs` are empty -/
def SyncingEmptyWhenQuiescent (c : Cfg) (P : List Event → Prop) : Prop :=
  ∀ evs, P evs → (run c evs).ready = [] → allSettled (run c evs) = true →
    (run c evs).syncing = [] ∧ ∀ p, (run c evs).asyncRefs p = none

def C10 (c : Cfg) (P : List Event → Prop) : Prop :=
  LatestWins c P ∧ SupersededNeverApplied c P ∧ PlainCancelsForGood c P ∧ SyncingEmptyWhenQuiescent c P

/-- the property as stated, of the code in /repo: every schedule, no side condition -/
def C10_full : Prop := C10 Cfg.repo (fun _ => True)

/-! ### from the invariant: any configuration, schedules that meet no hazard

`HazardFree c evs` (Async/Spec.lean) is vacuous for `Cfg.repo` (`hazardFree_repo`); for `Cfg.preFix`
it excludes exactly:
  (a) `hazA`: a plain value assigned to `p` while `p ∈ syncing` (a coroutine suspended inside its scope);
  (b) `hazB`: a coroutine assigned while another coroutine task is unfinished (overlapping scopes);
  (c, d) `hazD`: an assignment to `p` while a task of `p` has been scheduled but has not started. -/

theorem latest_wins_hazard_free (c : Cfg) : LatestWins c (HazardFree c) := by
  intro evs p t x hz hq hl ht hs hn
  exact inv_latest_wins c _ (inv_run c evs hz) hq p t x hl ht hs hn

theorem plain_assignment_cancels_for_good_hazard_free (c : Cfg) : PlainCancelsForGood c (HazardFree c) := by
  intro evs p v hz hl
  exact inv_plain c _ (inv_run c evs hz) p v hl

theorem superseded_never_applied_after_newer_hazard_free (c : Cfg) : SupersededNeverApplied c (HazardFree c) := by
  intro evs ev p v hz hm
  rw [run_append] at hm ⊢
  exact writes_applyEvent c _ ev (inv_run c evs (hazardFreeFrom_append c evs _ ev hz)) p v hm

theorem syncing_empty_when_quiescent_hazard_free (c : Cfg) : SyncingEmptyWhenQuiescent c (HazardFree c) := by
  intro evs hz hq ha
  exact inv_quiescent c _ (inv_run c evs hz) hq ha

/-! ### THE CODE IN /repo: every schedule -/

/-- **C10 (latest wins).**  For every schedule — every mix of coroutine / async-generator / plain
assignments on any parameters, every completion order, ticks anywhere —: once the loop is idle and
every awaitable of the most recent assignment to `p` has completed, `p` holds its (last) result. -/
theorem latest_wins : LatestWins Cfg.repo (fun _ => True) :=
  fun evs p t x _ => latest_wins_hazard_free Cfg.repo evs p t x (hazardFree_repo evs)

/-- **C10 (a superseded result is never applied after a newer assignment).**  Every value stored in
a parameter during any event of any schedule is the plain value just assigned or a completed result
of that parameter's most recent asynchronous assignment. -/
theorem superseded_never_applied_after_newer : SupersededNeverApplied Cfg.repo (fun _ => True) :=
  fun evs ev p v _ => superseded_never_applied_after_newer_hazard_free Cfg.repo evs ev p v (hazardFree_repo _)

/-- **C10 (a plain assignment cancels the reference for good).**  In every schedule, as long as the
most recent assignment to `p` is the plain value `v`, `p` holds `v`, is not linked and is owned by
no task — whatever completes afterwards, in whatever order. -/
theorem plain_assignment_cancels_for_good : PlainCancelsForGood Cfg.repo (fun _ => True) :=
  fun evs p v _ => plain_assignment_cancels_for_good_hazard_free Cfg.repo evs p v (hazardFree_repo evs)

/-- **C10 (`syncing` empty when quiescent).** -/
theorem syncing_empty_when_quiescent : SyncingEmptyWhenQuiescent Cfg.repo (fun _ => True) :=
  fun evs _ => syncing_empty_when_quiescent_hazard_free Cfg.repo evs (hazardFree_repo evs)

/-- **The `ready = []` hypothesis of the two quiescence theorems is what a `tick` produces**: the fuel
of `drain` (`tickFuel` = queue length + number of tasks + 1) always suffices, because under the
invariant a step removes the head of the queue and appends nothing.  So after every `tick` of every
schedule the queue is empty — the theorems are not vacuous after ticks. -/
theorem tick_drains (evs : List Event) : (run Cfg.repo (evs ++ [.tick])).ready = [] := by
  rw [run_append]
  exact tick_empties _ _ (inv_run _ evs (hazardFree_repo evs))

/-- … in any configuration, on schedules that meet no hazard -/
theorem tick_drains_hazard_free (c : Cfg) (evs : List Event) (hz : HazardFree c evs) :
    (run c (evs ++ [.tick])).ready = [] := by
  rw [run_append]
  exact tick_empties _ _ (inv_run _ evs hz)

theorem C10_full_holds : C10_full :=
  ⟨latest_wins, superseded_never_applied_after_newer, plain_assignment_cancels_for_good, syncing_empty_when_quiescent⟩

/-- the ghost field used in the statements is the schedule's most recent assignment to `p`, tasks
numbered in the order of the asynchronous assignments (`lastOf`, Async/Spec.lean — the function the
oracle uses) -/
theorem last_is_most_recent_assignment (c : Cfg) (p : Nat) (evs : List Event) :
    (run c evs).last p = lastOf p evs := last_eq_lastOf c p evs

/-- what the driver replays for a case without a hook, without rejected results and without source changes is the model of
the theorems above -/
theorem driver_model_is_core_model (c : Cfg) (evs : List Event) :
    (runH c Env.plain (evs.map Event.lift)).core = run c evs := runH_eq_run c evs

/-! ### a plain assignment made by a watcher WHILE a result is being written

`runH Cfg.repo (Env.hooked a b w)`: a watcher on `a` assigns the plain value `w` to `b ≠ a` on every
write of `a` — by the driver, or by a task's `self_.update({a: result})` while the `_syncing((a,))`
scope is open (the interleaving point no driver-level assignment can reach).  Every schedule of
assignments, ticks and completions. -/

/-- the hook's assignment (ghost: `last b = plain w` from the moment it fires) and every other plain
assignment cancel the overridden reference for good -/
theorem hook_plain_assignment_cancels_for_good (a b : Nat) (w : Int) (hab : a ≠ b) (evs : List Event) (p : Nat) (v : Int)
    (hl : (runH Cfg.repo (Env.hooked a b w) (evs.map Event.lift)).core.last p = .plain v) :
    (runH Cfg.repo (Env.hooked a b w) (evs.map Event.lift)).core.vals p = v ∧
    (runH Cfg.repo (Env.hooked a b w) (evs.map Event.lift)).core.refs p = none ∧
    (runH Cfg.repo (Env.hooked a b w) (evs.map Event.lift)).core.asyncRefs p = none :=
  inv_plain Cfg.repo _ (inv_runH Cfg.repo rfl rfl a b w hab evs) p v hl

theorem hook_latest_wins (a b : Nat) (w : Int) (hab : a ≠ b) (evs : List Event) (p t : Nat) (x : Task)
    (hq : (runH Cfg.repo (Env.hooked a b w) (evs.map Event.lift)).core.ready = [])
    (hl : (runH Cfg.repo (Env.hooked a b w) (evs.map Event.lift)).core.last p = .task t)
    (ht : (runH Cfg.repo (Env.hooked a b w) (evs.map Event.lift)).core.tasks t = some x)
    (hs : settled (runH Cfg.repo (Env.hooked a b w) (evs.map Event.lift)).core t x.kind = true) (hn : 0 < x.kind.nFuts) :
    (runH Cfg.repo (Env.hooked a b w) (evs.map Event.lift)).core.futs (t, x.kind.nFuts - 1) =
      .done ((runH Cfg.repo (Env.hooked a b w) (evs.map Event.lift)).core.vals p) :=
  inv_latest_wins Cfg.repo _ (inv_runH Cfg.repo rfl rfl a b w hab evs) hq p t x hl ht hs hn

theorem hook_syncing_empty_when_quiescent (a b : Nat) (w : Int) (hab : a ≠ b) (evs : List Event)
    (hq : (runH Cfg.repo (Env.hooked a b w) (evs.map Event.lift)).core.ready = [])
    (ha : allSettled (runH Cfg.repo (Env.hooked a b w) (evs.map Event.lift)).core = true) :
    (runH Cfg.repo (Env.hooked a b w) (evs.map Event.lift)).core.syncing = [] ∧
    ∀ p, (runH Cfg.repo (Env.hooked a b w) (evs.map Event.lift)).core.asyncRefs p = none :=
  inv_quiescent Cfg.repo _ (inv_runH Cfg.repo rfl rfl a b w hab evs) hq ha

/-- the hook fires inside task 0's write of parameter 0 and cancels the pending task of parameter 1:
its later result 20 is never applied -/
example :
    (runH Cfg.repo (Env.hooked 0 1 500) ([.assign 0 .coro, .assign 1 .coro, .tick, .complete 0 0 10, .tick,
        .complete 1 0 20, .tick].map Event.lift)).core.last 1 = .plain 500 ∧
    (runH Cfg.repo (Env.hooked 0 1 500) ([.assign 0 .coro, .assign 1 .coro, .tick, .complete 0 0 10, .tick,
        .complete 1 0 20, .tick].map Event.lift)).core.log = [(0, 10), (1, 500)] ∧
    (runH Cfg.repo (Env.hooked 0 1 500) ([.assign 0 .coro, .assign 1 .coro, .tick, .complete 0 0 10, .tick,
        .complete 1 0 20, .tick].map Event.lift)).core.vals 1 = 500 := by decide

/-! ### expression pipelines (`r.rx.pipe(coroutine function)`, Async/Rx.lean) -/

/-- **C10 (latest wins for an expression that pipes through a coroutine or an async generator)**:
`nf` = awaitables per evaluation (1: coroutine function; n: async generator function with n yields).
For every schedule of input changes, ticks and completions — in every order —, once the loop is
idle and every awaitable of the MOST RECENT evaluation (number `nTasks - 1`: evaluations are numbered
in the order they were requested) has completed, the expression holds that evaluation's last result
— whether or not older evaluations are still pending or yield again later. -/
theorem rx_latest_wins (nf : Nat) (hn : 0 < nf) (evs : List Rx.Event) (hq : (Rx.run nf evs).ready = [])
    (hd : ∀ k, k < nf → ∃ v, (Rx.run nf evs).futs ((Rx.run nf evs).nTasks - 1, k) = .done v) :
    ∃ v, (Rx.run nf evs).futs ((Rx.run nf evs).nTasks - 1, nf - 1) = .done v ∧ (Rx.run nf evs).cur = some v := by
  obtain ⟨m, h⟩ := Rx.rinv_run nf evs
  exact (Rx.rinv_latest_wins nf _ m h hq hn hd).2

/-- what the expression holds is the completed result of the awaitable `holder` (ghost: set where
`_resolve_async` stores, never read) … -/
theorem rx_holds_result_of_holder (nf : Nat) (evs : List Rx.Event) :
    (∀ t k, (Rx.run nf evs).holder = some (t, k) →
      ∃ v, (Rx.run nf evs).futs (t, k) = .done v ∧ (Rx.run nf evs).cur = some v) ∧
    ((Rx.run nf evs).holder = none → (Rx.run nf evs).cur = none) := by
  obtain ⟨m, h⟩ := Rx.rinv_run nf evs
  exact ⟨fun t k ht => (h.held t k ht).2, h.unheld⟩

/-- … and **a superseded result is never applied after a newer one**: over any event of any
schedule the awaitable whose result is held never goes back — neither to an older evaluation (a
superseded generator that yields again) nor to an earlier yield of the same one (`Rx.fle`). -/
theorem rx_superseded_never_applied_after_newer (nf : Nat) (evs : List Rx.Event) (ev : Rx.Event) :
    Rx.HLe (Rx.run nf evs).holder (Rx.run nf (evs ++ [ev])).holder := by
  obtain ⟨m, h⟩ := Rx.rinv_run nf evs
  have : Rx.run nf (evs ++ [ev]) = Rx.applyEvent nf (Rx.run nf evs) ev := by simp [Rx.run, List.foldl_append]
  rw [this]
  exact Rx.holder_applyEvent nf _ m ev h

/-! ### non-vacuity: the hypotheses are met by the hard schedules, and the conclusions are not trivial -/

/-- (a) a plain value assigned while the coroutine is suspended -/
def witnessA : List Event := [.assign 0 .coro, .tick, .assign 0 (.plain 100), .complete 0 0 10, .tick]
/-- (b) two coroutine tasks overlap and complete in start order -/
def witnessB : List Event :=
  [.assign 0 .coro, .assign 1 .coro, .tick, .complete 0 0 10, .tick, .complete 1 0 20, .tick]
/-- (c) three asynchronous assignments, the first two back to back; the superseded ones complete last -/
def witnessC : List Event :=
  [.assign 0 (.agen 1), .assign 0 (.agen 1), .tick, .assign 0 (.agen 1), .tick, .complete 2 0 30, .tick,
   .complete 1 0 20, .complete 0 0 10, .tick]
/-- (d) a plain value assigned before the scheduled task has started -/
def witnessD : List Event := [.assign 0 (.agen 1), .assign 0 (.plain 100), .tick, .complete 0 0 10, .tick]
/-- (c') a superseded result that is already complete when its stale task starts -/
def witnessC' : List Event := [.assign 0 (.agen 1), .assign 0 (.agen 1), .complete 0 0 10]
/-- a generator with two awaits superseded by a generator, completions out of order, a coroutine on
the other parameter, then a plain override -/
def calmSchedule : List Event :=
  [.assign 0 (.agen 2), .tick, .complete 0 0 11, .tick, .assign 0 (.agen 1), .tick, .complete 0 1 12, .complete 1 0 20,
   .tick, .assign 1 .coro, .tick, .assign 0 (.plain 100), .complete 2 0 30, .tick]

-- hypotheses of `latest_wins` on (c): idle, latest = task 2, settled; conclusion: p0 holds 30, not the later 20 / 10
example : (run Cfg.repo witnessC).ready = [] ∧ (run Cfg.repo witnessC).last 0 = .task 2 ∧
    (run Cfg.repo witnessC).tasks 2 = some ⟨0, .agen 1, .finished, false⟩ ∧
    settled (run Cfg.repo witnessC) 2 (.agen 1) = true ∧ (run Cfg.repo witnessC).vals 0 = 30 ∧
    (run Cfg.repo witnessC).log = [(0, 30)] := by decide
-- `plain_assignment_cancels_for_good` on (a) and (d); `syncing_empty_when_quiescent` on (b)
example : (run Cfg.repo witnessA).last 0 = .plain 100 ∧ (run Cfg.repo witnessA).vals 0 = 100 ∧
    (run Cfg.repo witnessD).last 0 = .plain 100 ∧ (run Cfg.repo witnessD).vals 0 = 100 ∧
    (run Cfg.repo witnessB).ready = [] ∧ allSettled (run Cfg.repo witnessB) = true ∧
    (run Cfg.repo witnessB).syncing = [] ∧ (run Cfg.repo witnessB).vals 0 = 10 ∧ (run Cfg.repo witnessB).vals 1 = 20 ∧
    (run Cfg.repo (witnessC' ++ [.tick])).log = [] := by decide
example : (run Cfg.repo calmSchedule).ready = [] ∧ (run Cfg.repo calmSchedule).last 1 = .task 2 ∧
    (run Cfg.repo calmSchedule).last 0 = .plain 100 ∧ allSettled (run Cfg.repo calmSchedule) = true ∧
    (run Cfg.repo calmSchedule).vals 1 = 30 ∧ (run Cfg.repo calmSchedule).vals 0 = 100 ∧
    (run Cfg.repo calmSchedule).log = [(0, 11), (0, 20), (0, 100), (1, 30)] := by decide
/-- rx, coroutine: the older evaluation completes last, its result is dropped -/
example : (Rx.run 1 [.set, .tick, .complete 1 0 20, .tick, .complete 0 0 10, .tick]).cur = some 20 ∧
    (Rx.run 1 [.set, .tick, .complete 1 0 20, .tick, .complete 0 0 10, .tick]).ready = [] ∧
    (Rx.run 1 [.set, .tick, .complete 1 0 20, .tick]).futs (0, 0) = .pending (some 0) ∧
    (Rx.run 1 [.set, .tick, .complete 1 0 20, .tick]).cur = some 20 ∧
    (Rx.run 1 [.set, .tick, .complete 1 0 20, .tick, .complete 0 0 10, .tick]).holder = some (1, 0) := by decide
/-- rx, async generator with two yields: the superseded generator, suspended between its yields when
the input changed, yields again after the newer one has delivered its last value — not applied -/
example :
    (Rx.run 2 [.tick, .complete 0 0 10, .tick, .set, .tick, .complete 1 0 20, .complete 1 1 21, .tick,
               .complete 0 1 11, .tick]).cur = some 21 ∧
    (Rx.run 2 [.tick, .complete 0 0 10, .tick]).cur = some 10 ∧
    (Rx.run 2 [.tick, .complete 0 0 10, .tick, .set, .tick, .complete 1 0 20, .complete 1 1 21, .tick,
               .complete 0 1 11, .tick]).ready = [] ∧
    (Rx.run 2 [.tick, .complete 0 0 10, .tick, .set, .tick, .complete 1 0 20, .complete 1 1 21, .tick,
               .complete 0 1 11, .tick]).log = [some 10, some 10, some 20, some 21] := by decide

/-! ### REGRESSION: the configuration before commits 08165dc / 0c5ea5c (`Cfg.preFix`)

Nothing below is about the code in /repo.  These theorems record why the two fixes were needed (the
property was false: four witness schedules) and what the old code did guarantee; they keep the
pre-fix branches of the model exercised by a kernel-checked evaluation. -/

theorem old_code_plain_assignment_cancels_for_good_refuted : ¬ PlainCancelsForGood Cfg.preFix (fun _ => True) := by
  intro h
  have := (h witnessA 0 100 trivial (by decide)).1
  revert this
  decide

/-- … also without any `_syncing` scope involved (generators only) -/
theorem old_code_plain_assignment_before_task_start_refuted :
    ¬ PlainCancelsForGood Cfg.preFix (fun _ => True) := by
  intro h
  have := (h witnessD 0 100 trivial (by decide)).1
  revert this
  decide

theorem old_code_syncing_empty_when_quiescent_refuted : ¬ SyncingEmptyWhenQuiescent Cfg.preFix (fun _ => True) := by
  intro h
  have := (h witnessB trivial (by decide) (by decide)).1
  revert this
  decide

theorem old_code_latest_wins_refuted : ¬ LatestWins Cfg.preFix (fun _ => True) := by
  intro h
  have := h witnessC 0 2 ⟨0, .agen 1, .finished, false⟩ trivial (by decide) (by decide) (by decide) (by decide) (by decide)
  revert this
  decide

theorem old_code_superseded_never_applied_after_newer_refuted :
    ¬ SupersededNeverApplied Cfg.preFix (fun _ => True) := by
  intro h
  have := h witnessC' .tick 0 10 trivial (by decide)
  revert this
  decide

/-- the property was false of the pre-fix code -/
theorem old_code_refuted : ¬ C10 Cfg.preFix (fun _ => True) :=
  fun h => old_code_plain_assignment_cancels_for_good_refuted h.2.2.1

/-- what the pre-fix code did guarantee: every schedule meeting none of the three situations -/
theorem old_code_partial : C10 Cfg.preFix (HazardFree Cfg.preFix) :=
  ⟨latest_wins_hazard_free _, superseded_never_applied_after_newer_hazard_free _,
   plain_assignment_cancels_for_good_hazard_free _, syncing_empty_when_quiescent_hazard_free _⟩

/-- the witnesses are schedules `old_code_partial` excludes; `calmSchedule` is one it covers -/
example : ¬ HazardFree Cfg.preFix witnessA ∧ ¬ HazardFree Cfg.preFix witnessB ∧ ¬ HazardFree Cfg.preFix witnessC ∧
    ¬ HazardFree Cfg.preFix witnessD ∧ ¬ HazardFree Cfg.preFix witnessC' ∧ HazardFree Cfg.preFix calmSchedule := by
  unfold HazardFree; decide

end ParamVerif.Async
