/-
C04 — Batched dispatch defers, coalesces and delivers once on outermost exit.

  "While `batch_call_watchers`, `param.update` or `discard_events` is open on an object no watcher
   of that object runs; when the outermost such context exits, each watcher with at least one
   qualifying event runs exactly once, receiving one event per watched parameter that had a
   qualifying event, carrying the final value, in precedence order, and nested contexts flush
   only at the outermost exit. `discard_events` drops exactly the events raised inside it and
   nothing queued before it, `param.trigger` invokes watchers (bypassing changes-only filtering,
   type 'triggered') without altering any value other than the transient True of Event
   parameters, and `param.update(...)` used as a context manager restores the previous values and
   links on exit."

Model: Dispatch/Model.lean.  Helper lemmas: Dispatch/Lemmas.lean, Dispatch/QueueLemmas.lean.
Event parameters are modelled (`Cfg.events`).  Not modelled: links (C08); "on an object": see
`other_object_is_independent`.
How the pieces compose into the English sentence: `batch_statement_is_body_then_flush` (a batch is its
body — during which nothing runs, `batch_body_invokes_nothing` — followed by the flush of what the body
queued, whatever the body's outcome); `batched_assignment_queues_exactly_the_passing_watchers` (what each
assignment in the body adds to the queues, exactly) and `deferred_stays_deferred` (C05: it stays there
through every later statement); `queue_never_holds_a_watcher_twice`; `flush_first_round` (the flush
invokes every queued watcher once, in precedence order, with one last event per parameter).
-/
import ParamVerif.Dispatch.Lemmas
import ParamVerif.Dispatch.QueueLemmas

namespace ParamVerif.Dispatch

/-- **C04 (no watcher runs while a context is open).**  With the batching flag set, no statement —
assignment, `update`, `trigger`, nested `batch`/`discard`/`update` context, at any depth — invokes
a callback. -/
theorem no_watcher_runs_while_open (c : Cfg) (f : Nat) (l : List Stmt) (w : World)
    (hb : w.batch = true) (h : (run c f (.stmts l) w).1 ≠ .oof) :
    (run c f (.stmts l) w).2.1.ncalls = w.ncalls :=
  silent_in_batch c f (.stmts l) w h hb rfl

/-- the body of `with batch_call_watchers(obj):` runs with the flag set, so invokes nothing -/
theorem batch_body_invokes_nothing (c : Cfg) (f : Nat) (body : List Stmt) (w : World)
    (h : (run c f (.stmts body) { w with batch := true }).1 ≠ .oof) :
    (run c f (.stmts body) { w with batch := true }).2.1.ncalls = w.ncalls :=
  silent_in_batch c f (.stmts body) { w with batch := true } h rfl rfl

/-- **C04 (nested contexts flush only at the outermost exit).**  A `batch`, `update`, `trigger` or
`discard` executed while a batch is already open invokes nothing, not even on its own exit. -/
theorem nested_context_does_not_flush (c : Cfg) (f : Nat) (s : Stmt) (w : World)
    (hb : w.batch = true) (h : (run c f (.stmt s) w).1 ≠ .oof) :
    (run c f (.stmt s) w).2.1.ncalls = w.ncalls ∧ (run c f (.stmt s) w).2.1.batch = true :=
  ⟨silent_in_batch c f (.stmt s) w h hb rfl, (flags c f (.stmt s) w h).1.trans hb⟩

/-- **C04 (delivers once on the outermost exit, in precedence order).**  A flush with pending
events first takes both queues and runs one round: when that round returns normally it has invoked
every queued watcher exactly once, in stable precedence order, each with `evsFor` — one event per
watched parameter that has a queued event (theorem `one_event_per_parameter_with_last_value`). -/
theorem flush_first_round (c : Cfg) (f : Nat) (w : World) (he : w.events ≠ [])
    (hok : (run c f (.flushRound (sortByPrec w.queued) w.events) { w with events := [], queued := [] }).1 = .ok) :
    ∃ tail, callSigs (run c (f + 1) .flush w).2.2 =
      (sortByPrec w.queued).map (fun wt => (wt.cb, shown wt (evsFor w.trigger wt w.events), true)) ++ tail := by
  have hne : w.events.isEmpty = false := by
    cases hh : w.events with
    | nil => exact absurd hh he
    | cons _ _ => rfl
  have hsh := flushRound_shape c w.events (sortByPrec w.queued) f { w with events := [], queued := [] } hok
  simp only [run, hne, Bool.false_eq_true, if_false]
  generalize run c f (.flushRound (sortByPrec w.queued) w.events) { w with events := [], queued := [] } = d at hok hsh
  obtain ⟨r1, w1, o1⟩ := d
  simp only at hok hsh
  subst hok
  exact ⟨callSigs (run c f .flush w1).2.2, by simp [hsh]⟩

/-- **C04 (each queued watcher once).**  From an empty queue, whatever happens, no watcher is
ever queued twice — so a round invokes each watcher at most once. -/
theorem queue_never_holds_a_watcher_twice (c : Cfg) (f : Nat) (call : Call) (w : World)
    (hq : (w.queued.map (·.uid)).Nodup) (h : (run c f call w).1 ≠ .oof) :
    ((run c f call w).2.1.queued.map (·.uid)).Nodup := nodupQ c f call w h hq

theorem round_order_has_no_duplicates (l : List Watcher) (h : (l.map (·.uid)).Nodup) :
    ((sortByPrec l).map (·.uid)).Nodup := ((sortByPrec_perm l).map _).nodup_iff.2 h

/-- the round order is ascending precedence, registration (queueing) order among equals -/
theorem round_in_precedence_order (l : List Watcher) :
    (sortByPrec l).Pairwise (fun a b => a.precedence ≤ b.precedence) ∧
    (∀ k, (sortByPrec l).filter (fun x => x.precedence = k) = l.filter (fun x => x.precedence = k)) :=
  ⟨sortByPrec_sorted l, fun k => sortByPrec_stable k l⟩

/-- **C03/C04 (a watcher is told about what it watches).**  Every event a watcher receives at a flush is of
the watcher's own kind (the value, or the Parameter attribute it was registered for), names one of its own
parameters, and carries old and new of an event of that kind that was queued for that parameter — a `bounds`
event queued in the same batch never reaches a watcher of the value (seeded C04-r6t1: batch table keyed by
the name alone).  The oracle applies the same clause to every flush of the implementation. -/
theorem flush_events_are_of_the_watchers_kind (tr : Bool) (wt : Watcher) (dict : List Ev) :
    ∀ te ∈ evsFor tr wt dict, te.what = wt.what ∧ te.name ∈ wt.params ∧
      ∃ e ∈ dict, e.name = te.name ∧ e.what = wt.what ∧ te.new = e.new ∧ te.old = e.old := by
  intro te hte
  obtain ⟨e, hl, ht⟩ := evsFor_mem hte
  obtain ⟨⟨hn, hk⟩, pre, post, hd, _⟩ := lastFor_some hl
  have hmem : te.name ∈ wt.params := by
    have := evsFor_names tr wt dict
    have h2 : te.name ∈ (evsFor tr wt dict).map (·.name) := List.mem_map.2 ⟨te, hte, rfl⟩
    rw [this] at h2
    exact (List.mem_filter.1 h2).1
  refine ⟨by rw [ht]; simp [typed, hk], hmem, e, by rw [hd]; simp, hn, hk, by rw [ht]; simp [typed], by rw [ht]; simp [typed]⟩

/-- non-vacuity: a value event and a `bounds` event of the same parameter in one batch -/
example : (evsFor false { id := 0, cb := 0, params := [1], what := 0, onlychanged := false, queued := false, precedence := 0, body := 0 }
    [{ name := 1, old := 0, new := 5, what := 1 }, { name := 1, old := 0, new := 7, what := 0 }]).map (·.new) = [7] := by decide

/-- **C04 (coalesces: one event per watched parameter, the last one).**  At a flush a watcher
receives, in the order of its own parameter list, exactly one event for each of its parameters
that has a queued event, and that event is the *last* one queued for the parameter (the one
raised by the most recent qualifying assignment, so it carries the final value), typed for this
watcher. -/
theorem one_event_per_parameter_with_last_value (tr : Bool) (wt : Watcher) (dict : List Ev) :
    (evsFor tr wt dict).map (·.name) =
      wt.params.filter (fun n => dict.any (fun e => e.name = n && e.what = wt.what)) ∧
    (∀ te ∈ evsFor tr wt dict, ∃ e pre post, dict = pre ++ e :: post ∧
        (∀ e' ∈ post, ¬(e'.name = te.name ∧ e'.what = wt.what)) ∧ te = typed tr wt e) := by
  refine ⟨evsFor_names tr wt dict, ?_⟩
  intro te hte
  obtain ⟨e, hl, ht⟩ := evsFor_mem hte
  obtain ⟨_, pre, post, hd, hpost⟩ := lastFor_some hl
  exact ⟨e, pre, post, hd, hpost, ht⟩

/-- an assignment made while the flag is set queues its event with the value just installed -/
theorem batched_assignment_queues_final_value (c : Cfg) (f : Nat) (w : World) (wt : Watcher) (ev : Ev)
    (hb : w.batch = true) (hp : passes w.trigger wt ev = true) :
    (run c (f + 1) (.callWatcher wt ev) w).2.1.events = w.events ++ [ev] := by
  simp [run, hp, hb]

/-- **C04 (what a batched assignment queues, exactly).**  While a context is open, a valid assignment
`p := v` runs nothing and leaves in the queues exactly this: one copy of the event `(p, old, v)` per
watcher of `p` that passes the changes-only filter, and those watchers — each object once, in dispatch
order — appended to the queued watchers.  Nobody else is queued, nothing already queued is lost. -/
theorem batched_assignment_queues_exactly_the_passing_watchers (c : Cfg) (f : Nat) (w : World) (p : Nat) (v : Int)
    (hb : w.batch = true) (hv : c.valid p v = true) (h : (run c f (.setPlain p v) w).1 ≠ .oof) :
    run c f (.setPlain p v) w =
      (.ok, { w with vals := w.vals.set p v, owned := p :: w.owned,
                     events := w.events ++ (passing w p v).map (fun _ => { name := p, old := getVal w p, new := v }),
                     queued := enqueue w.queued (passing w p v) }, []) :=
  setPlain_in_batch_exact c f w p v hb hv h

/-- … in particular every passing watcher is then in the queue, and only watchers that were queued before
or pass now are -/
theorem batched_assignment_queue_membership (c : Cfg) (f : Nat) (w : World) (p : Nat) (v : Int)
    (hb : w.batch = true) (hv : c.valid p v = true) (h : (run c f (.setPlain p v) w).1 ≠ .oof) :
    (∀ wt ∈ passing w p v, wt.uid ∈ (run c f (.setPlain p v) w).2.1.queued.map (·.uid)) ∧
    (∀ wt ∈ (run c f (.setPlain p v) w).2.1.queued, wt ∈ w.queued ∨ wt ∈ passing w p v) := by
  rw [setPlain_in_batch_exact c f w p v hb hv h]
  exact ⟨fun wt hwt => uid_mem_enqueue _ _ wt hwt, fun wt hwt => mem_enqueue _ _ wt hwt⟩

/-- **C04 (`param.update`, end to end).**  An unbatched `update` of ordinary parameters with valid values
produces no log of its own: its whole log is the flush — with the flag cleared — of the world in which the
keys have been applied one after the other, each having queued its event for, and, each of its passing
watchers (`applyKeys`).  With `flush_first_round` and `queue_never_holds_a_watcher_twice`: each watcher
with a qualifying event runs once, in precedence order, with one last event per parameter. -/
theorem update_delivers_what_its_keys_queued (c : Cfg) (f : Nat) (kvs : List (Nat × Int)) (w : World)
    (hb : w.batch = false)
    (hval : ∀ kv ∈ kvs, c.valid kv.1 kv.2 = true ∧ kv.1 < c.nparams ∧ c.isEvent kv.1 = false)
    (h : (run c (f + 1) (.update kvs) w).1 ≠ .oof) :
    (run c (f + 1) (.update kvs) w).2.2 =
      (run c f .flush { applyKeys { w with batch := true } kvs with batch := false }).2.2 := by
  have hne : (kvs.map (·.1)).filter c.isEvent = [] := by
    apply List.filter_eq_nil_iff.2
    intro k hk
    obtain ⟨kv, hkv, rfl⟩ := List.mem_map.1 hk
    simp [(hval kv hkv).2.2]
  obtain ⟨hlog, _, hne1⟩ := update_is_keys_then_flush c f kvs w hb h
  simp only [hne, List.nil_append] at hlog hne1
  have hw : ({ w with batch := true, setMode := w.setMode } : World) = { w with batch := true } := rfl
  rw [hw] at hlog hne1
  rw [hlog, updateKeys_in_batch_exact c kvs f { w with batch := true } rfl hval hne1]
  simp

/-- while `trigger` is in progress every watcher passes the filter -/
theorem passing_when_triggering (w : World) (p : Nat) (v : Int) (ht : w.trigger = true) :
    passing w p v = sortByPrec (regsFor w p) := by
  simp [passing, passes, ht]

/-- the keys of `dict(pairs)` are keys of the pairs -/
theorem dedupKeys_key_mem : ∀ (l : List (Nat × Int)) (kv : Nat × Int), kv ∈ dedupKeys l → kv.1 ∈ l.map (·.1) := by
  intro l
  induction l with
  | nil => intro kv h; simp [dedupKeys] at h
  | cons x rest ih =>
    obtain ⟨k, v⟩ := x
    intro kv h
    simp only [dedupKeys] at h
    split at h
    · rcases List.mem_cons.1 h with e | e
      · subst e; simp
      · have := ih kv (List.mem_filter.1 e).1
        simp only [List.map_cons, List.mem_cons]; exact Or.inr this
    · rcases List.mem_cons.1 h with e | e
      · subst e; simp
      · have := ih kv e
        simp only [List.map_cons, List.mem_cons]; exact Or.inr this

/-- the log and the outcome of `trigger` of known names are those of the `update` it runs with the
trigger flag set and the queues parked -/
theorem trigger_log (c : Cfg) (f : Nat) (ps : List Nat) (w : World)
    (hknown : ps.any (fun p => decide (p ≥ c.nparams)) = false) :
    (run c (f + 1) (.trigger ps) w).2.2 =
      (run c f (.update (triggerKvs c w ps)) { w with events := [], queued := [], trigger := true }).2.2 ∧
    (run c (f + 1) (.trigger ps) w).1 =
      (run c f (.update (triggerKvs c w ps)) { w with events := [], queued := [], trigger := true }).1 := by
  simp [run, hknown]

/-- **C04 (`param.trigger`, end to end).**  An unbatched `trigger` of known ordinary parameters whose held
values are valid produces exactly the log of this flush: the world in which — with the trigger flag set and
the queues parked — every named parameter has been "assigned" its own value, which queues *every* watcher
registered for it (`passing_when_triggering`: the changes-only filter is bypassed) with an event whose old
and new are that value; `flush_first_round` then invokes each of them once, in precedence order, typed
`triggered`. -/
theorem trigger_delivers_to_every_watcher (c : Cfg) (f : Nat) (ps : List Nat) (w : World)
    (hb : w.batch = false)
    (hps : ∀ p ∈ ps, p < c.nparams ∧ c.isEvent p = false ∧ c.valid p (getVal w p) = true)
    (h : (run c (f + 2) (.trigger ps) w).1 ≠ .oof) :
    (run c (f + 2) (.trigger ps) w).2.2 =
      (run c f .flush { applyKeys { w with events := [], queued := [], trigger := true, batch := true }
                          (triggerKvs c w ps) with batch := false }).2.2 := by
  have hknown : ps.any (fun p => decide (p ≥ c.nparams)) = false := by
    apply List.any_eq_false.2
    intro p hp
    have := (hps p hp).1
    simp; omega
  have hkv : ∀ kv ∈ triggerKvs c w ps,
      c.valid kv.1 kv.2 = true ∧ kv.1 < c.nparams ∧ c.isEvent kv.1 = false := by
    intro kv hkv
    have hmem := dedupKeys_key_mem _ kv hkv
    simp only [List.map_map, List.mem_map, Function.comp] at hmem
    obtain ⟨p, hp, hpk⟩ := hmem
    have hval := dedupKeys_values (fun q => if c.isEvent q then 1 else getVal w q)
      (ps.map (fun p => (p, if c.isEvent p then 1 else getVal w p))) (by
        intro kv' hkv'
        obtain ⟨q, _, rfl⟩ := List.mem_map.1 hkv'
        rfl) kv hkv
    have hp' : kv.1 ∈ ps := by simpa using hpk ▸ hp
    obtain ⟨h1, h2, h3⟩ := hps kv.1 hp'
    have hval' : kv.2 = getVal w kv.1 := by simpa [h2] using hval
    rw [hval']
    exact ⟨h3, h1, h2⟩
  obtain ⟨hlog, hres⟩ := trigger_log c (f + 1) ps w hknown
  rw [hlog]
  rw [hres] at h
  exact update_delivers_what_its_keys_queued c f (triggerKvs c w ps)
    { w with events := [], queued := [], trigger := true } hb hkv h

/-- **C04 (the outermost exit flushes what the body queued).**  `with batch_call_watchers(obj): body`
with no batch open around it is: the body with the flag set, then — whether the body returned or raised —
the flush, with the flag cleared, of the queues the body left. -/
theorem batch_statement_is_body_then_flush (c : Cfg) (f : Nat) (body : List Stmt) (w : World) (hb : w.batch = false)
    (h : (run c (f + 1) (.stmt (.batch body)) w).1 ≠ .oof) :
    ∃ r, (run c (f + 1) (.stmt (.batch body)) w).2.2 =
      [.stmt "batch" 0 0 0 false w.trigger []
        ((run c f (.stmts body) { w with batch := true }).2.2 ++
         (run c f .flush { (run c f (.stmts body) { w with batch := true }).2.1 with batch := false }).2.2) r] :=
  batch_is_body_then_flush c f body w hb h

/-- The statement's "qualifying" read per watcher — a changes-only watcher receives only events of
parameters that changed — is **false** of the code (and of the model): the queue does not record
on whose behalf an event was queued, so a changes-only watcher of `[a, b]` is also handed the
unchanged event of `b` queued for another watcher.  Recorded as finding
`flush-foreign-same-value-event`; the witness below is replayed on the implementation by the
check (corpus/dispatch/foreign-event.json). -/
def C04_per_watcher_full : Prop :=
  ∀ (tr : Bool) (wt : Watcher) (dict : List Ev), ∀ te ∈ evsFor tr wt dict,
    passes tr wt { name := te.name, old := te.old, new := te.new } = true

theorem C04_per_watcher_full_refuted : ¬ C04_per_watcher_full := by
  intro h
  have := h false (mkW 0 [0, 1] true false 0 0) [{ name := 0, old := 0, new := 1 }, { name := 1, old := 0, new := 0 }]
    { name := 1, old := 0, new := 0, type := .changed } (by decide)
  revert this
  decide

/-- **C04 (`discard_events` drops exactly the inner events).**  Whatever the body does and however
it ends, afterwards both queues and the flag are exactly what they were before the block (events
raised inside are gone, nothing queued before is lost) and no callback has run inside. -/
theorem discard_drops_exactly_inner_events (c : Cfg) (f : Nat) (body : List Stmt) (w : World)
    (h : (run c (f + 1) (.stmt (.discard body)) w).1 ≠ .oof) :
    (run c (f + 1) (.stmt (.discard body)) w).2.1.events = w.events ∧
    (run c (f + 1) (.stmt (.discard body)) w).2.1.queued = w.queued ∧
    (run c (f + 1) (.stmt (.discard body)) w).2.1.batch = w.batch ∧
    (run c (f + 1) (.stmt (.discard body)) w).2.1.ncalls = w.ncalls := by
  simp only [run] at h ⊢
  refine ⟨trivial, trivial, trivial, ?_⟩
  exact silent_in_batch c f (.stmts body) { w with batch := true } h rfl rfl

/-- **C04 (`trigger` bypasses the changes-only filter, type 'triggered').**  While the trigger flag
is set every watcher passes the filter and its event is typed `triggered`; `trigger` sets the flag
for exactly the duration of its `update`. -/
theorem trigger_bypasses_filter (wt : Watcher) (ev : Ev) :
    passes true wt ev = true ∧ (typed true wt ev).type = .triggered := by
  simp [passes, typed, evType]

theorem trigger_runs_update_with_flag_set (c : Cfg) (f : Nat) (ps : List Nat) (w : World)
    (hk : ∀ p ∈ ps, p < c.nparams) :
    (run c (f + 1) (.trigger ps) w).1 =
      (run c f (.update (triggerKvs c w ps)) { w with events := [], queued := [], trigger := true }).1 ∧
    (∀ kv ∈ triggerKvs c w ps, kv.2 = if c.isEvent kv.1 then 1 else getVal w kv.1) := by
  have hknown : (ps.any (fun p => decide (p ≥ c.nparams))) = false := by
    rw [Bool.eq_false_iff]
    intro h
    obtain ⟨p, hp, hge⟩ := List.any_eq_true.1 h
    have := hk p hp
    simp at hge
    omega
  refine ⟨by simp [run, hknown], ?_⟩
  exact dedupKeys_values (fun p => if c.isEvent p then 1 else getVal w p) _
    (by intro kv hkv; obtain ⟨p, _, rfl⟩ := List.mem_map.1 hkv; rfl)

theorem foldl_set_zero_getD (tps : List Nat) : ∀ (vs : List Int) (q : Nat),
    (tps.foldl (fun vs tp => vs.set tp 0) vs).getD q 0 = if q ∈ tps then 0 else vs.getD q 0 := by
  induction tps with
  | nil => intro vs q; simp
  | cons t rest ih =>
    intro vs q
    simp only [List.foldl_cons, ih, List.mem_cons]
    by_cases hq : q ∈ rest
    · simp [hq]
    · simp only [hq, if_false, or_false]
      by_cases e : q = t
      · subst e
        rw [if_pos rfl]
        by_cases hl : q < vs.length
        · simp [List.getD, List.getElem?_set_self hl]
        · have : (vs.set q 0)[q]? = none := List.getElem?_eq_none (by simpa using Nat.le_of_not_lt hl)
          simp [List.getD, this]
      · rw [if_neg e]
        exact getD_set_ne _ _ _ _ (Ne.symm e)

theorem mem_dedupKeys_keys (q : Nat) : ∀ (l : List (Nat × Int)), q ∈ l.map (·.1) → q ∈ (dedupKeys l).map (·.1) := by
  intro l
  induction l with
  | nil => simp
  | cons x rest ih =>
    obtain ⟨k, v⟩ := x
    intro hm
    simp only [dedupKeys]
    by_cases e : q = k
    · subst e; split <;> simp
    · have hm' : q ∈ rest.map (·.1) := by
        simp only [List.map_cons, List.mem_cons] at hm
        rcases hm with hm | hm
        · exact absurd hm e
        · exact hm
      obtain ⟨kv, hkvm, hkv1⟩ := List.mem_map.1 (ih hm')
      split
      · simp only [List.map_cons, List.mem_cons]
        right
        refine List.mem_map.2 ⟨kv, List.mem_filter.2 ⟨hkvm, ?_⟩, hkv1⟩
        simp only [ne_eq, decide_not, Bool.not_eq_eq_eq_not, Bool.not_true, decide_eq_false_iff_not]
        rw [hkv1]; exact e
      · simp only [List.map_cons, List.mem_cons]
        exact Or.inr (List.mem_map.2 ⟨kv, hkvm, hkv1⟩)

/-- `_update` while a batch is open: nothing runs, a non-Event parameter keeps its value unless a
key assigns it a different one, and every Event parameter among the keys is False afterwards. -/
theorem update_in_batch_values (c : Cfg) (f : Nat) (kvs : List (Nat × Int)) (w : World) (hb : w.batch = true)
    (h : (run c f (.update kvs) w).1 ≠ .oof) (q : Nat) :
    (c.isEvent q = false → (∀ kv ∈ kvs, kv.1 = q → kv.2 = getVal w q) →
        getVal (run c f (.update kvs) w).2.1 q = getVal w q) ∧
    (c.isEvent q = true → q ∈ kvs.map (·.1) → getVal (run c f (.update kvs) w).2.1 q = 0) := by
  cases f with
  | zero => simp [run] at h
  | succ f =>
    simp only [run, hb, if_true] at h ⊢
    have hu := fun (hqe : c.isEvent q = false) =>
      updateKeys_in_batch_getVal c q hqe kvs f
        { w with batch := true, setMode := (kvs.map (·.1)).filter c.isEvent ++ w.setMode } rfl
    generalize run c f (.updateKeys kvs)
      { w with batch := true, setMode := (kvs.map (·.1)).filter c.isEvent ++ w.setMode } = d at h hu ⊢
    obtain ⟨r1, w1, o1⟩ := d
    have hne : r1 ≠ .oof := by intro e; subst e; simp at h
    have hgoal : (c.isEvent q = false → (∀ kv ∈ kvs, kv.1 = q → kv.2 = getVal w q) →
        (List.foldl (fun vs tp => vs.set tp 0) w1.vals ((kvs.map (·.1)).filter c.isEvent)).getD q 0 = getVal w q) ∧
      (c.isEvent q = true → q ∈ kvs.map (·.1) →
        (List.foldl (fun vs tp => vs.set tp 0) w1.vals ((kvs.map (·.1)).filter c.isEvent)).getD q 0 = 0) := by
      simp only [foldl_set_zero_getD]
      refine ⟨fun hqe hsame => ?_, fun hqe hq => ?_⟩
      · have hnot : q ∉ (kvs.map (·.1)).filter c.isEvent := by
          intro hm; have := (List.mem_filter.1 hm).2; rw [hqe] at this; cases this
        simp only [hnot, if_false]
        have := hu hqe (by intro kv hkv e; rw [hsame kv hkv e]; rfl) hne
        simpa [getVal] using this
      · have : q ∈ (kvs.map (·.1)).filter c.isEvent := List.mem_filter.2 ⟨hq, hqe⟩
        simp [this]
    cases r1 with
    | oof => exact absurd rfl hne
    | ok => simpa [getVal] using hgoal
    | raised e => simpa [getVal] using hgoal

/-- **C04 (`trigger` alters no value other than the transient True of Event parameters).**  Inside
an open batch — where no callback can interfere — `trigger` leaves the value of every non-Event
parameter as it was, and every triggered Event parameter is False again when `trigger` returns
(or raises).  (An unknown name makes `trigger` raise KeyError before it touches anything:
`trigger_unknown_name_touches_nothing`.) -/
theorem trigger_changes_no_value (c : Cfg) (f : Nat) (ps : List Nat) (w : World) (hb : w.batch = true)
    (hk : ∀ p ∈ ps, p < c.nparams) (h : (run c f (.trigger ps) w).1 ≠ .oof) (q : Nat) :
    (c.isEvent q = false → getVal (run c f (.trigger ps) w).2.1 q = getVal w q) ∧
    (c.isEvent q = true → q ∈ ps → getVal (run c f (.trigger ps) w).2.1 q = 0) := by
  cases f with
  | zero => simp [run] at h
  | succ f =>
    have hknown : (ps.any (fun p => decide (p ≥ c.nparams))) = false := by
      rw [Bool.eq_false_iff]
      intro h
      obtain ⟨p, hp, hge⟩ := List.any_eq_true.1 h
      have := hk p hp
      simp at hge
      omega
    simp only [run, hknown, Bool.false_eq_true, if_false] at h ⊢
    have hkv := (trigger_runs_update_with_flag_set c 0 ps w hk).2
    have hu := update_in_batch_values c f (triggerKvs c w ps)
      { w with events := [], queued := [], trigger := true } hb h q
    refine ⟨fun hqe => ?_, fun hqe hq => ?_⟩
    · have := hu.1 hqe (by
        intro kv hkv' e
        rw [hkv kv hkv', e, hqe]; rfl)
      simpa [getVal] using this
    · have := hu.2 hqe (mem_dedupKeys_keys q _ (by
        simp only [List.map_map]
        exact List.mem_map.2 ⟨q, hq, rfl⟩))
      simpa [getVal] using this

theorem trigger_unknown_name_touches_nothing (c : Cfg) (f : Nat) (ps : List Nat) (w : World)
    (hu : ∃ p ∈ ps, p ≥ c.nparams) :
    run c (f + 1) (.trigger ps) w = (.raised .key, w, []) := by
  have : (ps.any (fun p => decide (p ≥ c.nparams))) = true := by
    obtain ⟨p, hp, hge⟩ := hu
    exact List.any_eq_true.2 ⟨p, hp, by simpa using hge⟩
  simp [run, this]

theorem dedupKeys_keys_nodup : ∀ (l : List (Nat × Int)), ((dedupKeys l).map (·.1)).Nodup := by
  intro l
  induction l with
  | nil => simp [dedupKeys]
  | cons x rest ih =>
    obtain ⟨k, v⟩ := x
    simp only [dedupKeys]
    split
    · simp only [List.map_cons, List.nodup_cons]
      refine ⟨?_, (List.filter_sublist.map _).nodup ih⟩
      intro hm
      obtain ⟨kv, hkv, e⟩ := List.mem_map.1 hm
      have := (List.mem_filter.1 hkv).2
      simp [e] at this
    · rename_i hnone
      simp only [List.map_cons, List.nodup_cons]
      refine ⟨?_, ih⟩
      intro hm
      obtain ⟨kv, hkv, e⟩ := List.mem_map.1 hm
      have := List.find?_eq_none.1 hnone kv hkv
      simp [e] at this

/-- `_update` of valid, distinct keys while a batch is open succeeds and installs every value
(Event parameters aside, which are False afterwards) -/
theorem update_in_batch_sets (c : Cfg) (f : Nat) (kvs : List (Nat × Int)) (w : World) (hb : w.batch = true)
    (hlen : w.vals.length = c.nparams)
    (hval : ∀ kv ∈ kvs, c.valid kv.1 kv.2 = true ∧ kv.1 < c.nparams) (hnd : (kvs.map (·.1)).Nodup)
    (h : (run c f (.update kvs) w).1 ≠ .oof) :
    (run c f (.update kvs) w).1 = .ok ∧
    ∀ kv ∈ kvs, c.isEvent kv.1 = false → getVal (run c f (.update kvs) w).2.1 kv.1 = kv.2 := by
  cases f with
  | zero => simp [run] at h
  | succ f =>
    simp only [run, hb, if_true] at h ⊢
    have hu := updateKeys_in_batch_sets c kvs f
      { w with batch := true, setMode := (kvs.map (·.1)).filter c.isEvent ++ w.setMode } rfl hlen hval hnd
    generalize run c f (.updateKeys kvs)
      { w with batch := true, setMode := (kvs.map (·.1)).filter c.isEvent ++ w.setMode } = d at h hu ⊢
    obtain ⟨r1, w1, o1⟩ := d
    have hne : r1 ≠ .oof := by intro e; subst e; simp at h
    obtain ⟨hok, hvals⟩ := hu hne
    subst hok
    simp only [Res.andThen]
    refine ⟨trivial, ?_⟩
    intro kv hkv hne'
    have hnot : kv.1 ∉ (kvs.map (·.1)).filter c.isEvent := by
      intro hm; have := (List.mem_filter.1 hm).2; rw [hne'] at this; cases this
    simp only [getVal, foldl_set_zero_getD, hnot, if_false]
    exact hvals kv hkv hne'

/-- **C04 (`update` as a context manager restores the previous values).**  Inside an open batch —
where no callback can interfere — `with obj.param.update(...): body` leaves every (non-Event)
parameter named in the update with the value it had before, whatever the body does to it and
however the body ends.  (Hypotheses: the update itself succeeded, so the block was entered; the
values held before are valid for their parameters, so they can be assigned back.) -/
theorem update_context_restores_values (c : Cfg) (f : Nat) (kvs : List (Nat × Int)) (body : List Stmt)
    (w : World) (hb : w.batch = true) (hlen : w.vals.length = c.nparams)
    (hcur : ∀ k, k < c.nparams → c.valid k (getVal w k) = true)
    (hentered : (run c f (.update (dedupKeys kvs)) w).1 = .ok)
    (h : (run c (f + 1) (.stmt (.updateCtx kvs body)) w).1 ≠ .oof) :
    ∀ k ∈ (dedupKeys kvs).map (·.1), k < c.nparams → c.isEvent k = false →
      getVal (run c (f + 1) (.stmt (.updateCtx kvs body)) w).2.1 k = getVal w k := by
  intro k hk hlt hne
  simp only [run] at h ⊢
  -- the restore dictionary
  generalize hrst : ((dedupKeys kvs).filter (fun kv => decide (kv.1 < c.nparams))).map
      (fun kv => (kv.1, getVal w kv.1)) = restore at h ⊢
  have hrv : ∀ kv ∈ restore, c.valid kv.1 kv.2 = true ∧ kv.1 < c.nparams := by
    intro kv hkv
    rw [← hrst] at hkv
    obtain ⟨kv0, h0, rfl⟩ := List.mem_map.1 hkv
    have := (List.mem_filter.1 h0).2
    simp only [decide_eq_true_eq] at this
    exact ⟨hcur _ this, this⟩
  have hrnd : (restore.map (·.1)).Nodup := by
    rw [← hrst]
    simp only [List.map_map, Function.comp_def]
    exact (List.filter_sublist.map _).nodup (dedupKeys_keys_nodup kvs)
  have hkin : (k, getVal w k) ∈ restore := by
    rw [← hrst]
    obtain ⟨kv0, h0, e⟩ := List.mem_map.1 hk
    exact List.mem_map.2 ⟨kv0, List.mem_filter.2 ⟨h0, by simpa [e] using hlt⟩, by simp [e]⟩
  have hfl1 := flags c f (.update (dedupKeys kvs)) w
  have hvl1 := vals_length c f (.update (dedupKeys kvs)) w
  generalize run c f (.update (dedupKeys kvs)) w = d1 at h hentered hfl1 hvl1 ⊢
  obtain ⟨r1, w1, o1⟩ := d1
  simp only at hentered
  subst hentered
  simp only at h hfl1 hvl1 ⊢
  have hfl2 := flags c f (.stmts body) w1
  have hvl2 := vals_length c f (.stmts body) w1
  generalize run c f (.stmts body) w1 = d2 at h hfl2 hvl2 ⊢
  obtain ⟨r2, w2, o2⟩ := d2
  simp only at h hfl2 hvl2 ⊢
  have hr2 : r2 ≠ .oof := by intro e; subst e; simp at h
  have hb2 : w2.batch = true := by rw [(hfl2 hr2).1, (hfl1 (by simp)).1]; exact hb
  have hlen2 : w2.vals.length = c.nparams := by rw [hvl2 hr2, hvl1 (by simp)]; exact hlen
  have hu := update_in_batch_sets c f restore w2 hb2 hlen2 hrv hrnd
  generalize run c f (.update restore) w2 = d3 at h hu ⊢
  obtain ⟨r3, w3, o3⟩ := d3
  have hr3 : r3 ≠ .oof := by
    intro e; subst e
    cases r2 <;> simp at h
  have := (hu hr3).2 (k, getVal w k) hkin hne
  cases r2 with
  | oof => exact absurd rfl hr2
  | ok => simpa using this
  | raised e => simpa using this

/-- **C04 ("on an object").**  The dispatcher state is per object: statements run on *another* object
(`other k`: a second instance, whose callbacks never reach back) involve nothing of this one — in the model
by construction (the driver replays them on a second, independent world), in the library checked by the
correspondence: the second instance must behave as that independent world says while this object's batch is
open, its callbacks are running, its flush is in progress. -/
theorem other_object_is_independent (c : Cfg) (f : Nat) (k : Nat) (w : World) :
    (run c (f + 1) (.stmt (.other k)) w).1 = .ok ∧ (run c (f + 1) (.stmt (.other k)) w).2.1 = w := by
  simp [run]

/-! ### Non-vacuity -/

def c04Cfg : Cfg := { bounds := [(none, none), (none, none)], bodies := [] }
def c04World : World :=
  { vals := [0, 0], batch := false, trigger := false, events := [], queued := [],
    regs := [mkW 0 [0, 1] true false 1 9, mkW 1 [1] false false 0 9] }

-- batch { a = 1; a = 2; b = 0 }: one flush round, watcher 1 (precedence 0) then watcher 0; watcher 0 gets
-- one event for a carrying 2 — and (the finding) the unchanged event of b
example : (match (run c04Cfg 40 (.stmt (.batch [.set 0 1, .set 0 2, .set 1 0])) c04World).2.2 with
    | [.stmt "batch" _ _ _ _ _ _ ch _] => (callSigs ch).map (fun s => (s.1, s.2.2))
    | _ => []) = [(1, true), (0, true)] := by decide
-- trigger('b') from the idle world: both watchers of b are invoked by the flush, precedence order, typed triggered
example : (run c04Cfg 42 (.trigger [1]) c04World).1 = .ok ∧
    (callSigs (run c04Cfg 42 (.trigger [1]) c04World).2.2).map (fun s => (s.1, s.2.1.map (·.type), s.2.2)) =
      [(1, [.triggered], true), (0, [.triggered], true)] := by decide
-- update(a=1, b=0): watcher 1 (b, not changes-only) and watcher 0 (a changed) are delivered by the flush
example : (callSigs (run c04Cfg 42 (.update [(0, 1), (1, 0)]) c04World).2.2).map (fun s => (s.1, s.2.2)) =
    [(1, true), (0, true)] := by decide
example : passing { c04World with batch := true } 1 5 = [mkW 1 [1] false false 0 9, mkW 0 [0, 1] true false 1 9] := by decide
example : (run c04Cfg 40 (.stmt (.batch [.set 0 1, .set 0 2, .set 1 0])) c04World).2.1.ncalls = 2 := by decide
example : (run c04Cfg 40 (.stmts [.set 0 1, .set 0 2]) { c04World with batch := true }).2.1.events =
    [{ name := 0, old := 0, new := 1 }, { name := 0, old := 1, new := 2 }] := by decide
example : evsFor false (mkW 0 [0, 1] true false 1 9) [{ name := 0, old := 0, new := 1 }, { name := 0, old := 1, new := 2 }, { name := 1, old := 0, new := 0 }] =
    [{ name := 0, old := 1, new := 2, type := .changed }, { name := 1, old := 0, new := 0, type := .changed }] := by decide

-- with obj.param.update(p0=5): p0 = 7   (inside a batch): p0 is 0 again afterwards, the hypotheses hold
example : (run c04Cfg 40 (.stmt (.updateCtx [(0, 5)] [.set 0 7])) { c04World with batch := true }).2.1.vals = [0, 0] ∧
    (run c04Cfg 39 (.update (dedupKeys [(0, 5)])) { c04World with batch := true }).1 = .ok ∧
    c04Cfg.valid 0 (getVal c04World 0) = true := by decide

end ParamVerif.Dispatch
