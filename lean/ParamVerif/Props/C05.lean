/-
C05 — Failures never corrupt the dispatch state.

  "After an operation fails — a rejected value inside `param.update` or a constructor, an
   exception escaping a watcher during an assignment, a batch flush or `param.trigger`, or an
   exception escaping the body of `batch_call_watchers`, `discard_events`, `edit_constant` or an
   `update` context — the object dispatches later assignments exactly as a freshly built object
   with the same values and watchers would: immediately when no batch is open, still deferred
   inside a surrounding batch, with correct event types, changes-only filtering, constant flags
   and self-resetting Event parameters. Changes already applied before a rejected value in
   `param.update` are announced no later than the moment the call raises (or the surrounding
   batch exits), never at some later unrelated assignment."

Model: Dispatch/Model.lean.  A *fault* is a `raise` statement anywhere in any callback body or
context body, or a value outside a parameter's bounds at any key of an `update`; the theorems
quantify over all programs, so over every position and every sequence of faults.  Every theorem
covers the `raised` outcomes — `r ≠ oof` only excludes exhausted fuel.
Event parameters are modelled: `idle` includes "every Event parameter is in its self-resetting mode".
Not modelled (DESIGN.md): constructors, `edit_constant` (C14).
-/
import ParamVerif.Dispatch.Lemmas
import ParamVerif.Dispatch.EventLemmas
import ParamVerif.Dispatch.QueueLemmas

namespace ParamVerif.Dispatch

/-- the dispatcher is idle: no batch open, no trigger in progress, nothing queued -/
def idle (w : World) : Prop :=
  w.batch = false ∧ w.trigger = false ∧ w.events = [] ∧ w.queued = [] ∧ w.setMode = []

instance (w : World) : Decidable (idle w) := by unfold idle; exact inferInstance

/-- a freshly built object with the given values, watchers and Parameter attributes -/
def fresh (vals : List Int) (regs : List Watcher) (slotVals : List ((Nat × Nat) × Int))
    (slotKeys : List (Nat × Nat)) (ncalls : Nat) (nreg : Nat := 0) (owned : List Nat := []) : World :=
  { vals := vals, regs := regs, batch := false, trigger := false, events := [], queued := [], setMode := [],
    slotVals := slotVals, slotKeys := slotKeys, ncalls := ncalls, nreg := nreg, owned := owned }

/-- **C05 (flags).**  Whatever a call does and however it ends — normally, with a rejected value,
with an exception from a callback or a context body at any depth — the batching flag and the
trigger flag are afterwards what they were before. -/
theorem flags_restored_whatever_the_outcome (c : Cfg) (f : Nat) (call : Call) (w : World)
    (h : (run c f call w).1 ≠ .oof) :
    (run c f call w).2.1.batch = w.batch ∧ (run c f call w).2.1.trigger = w.trigger :=
  flags c f call w h

/-- **C05 (idle in, idle out).**  From an idle dispatcher every statement — assignment, `update`,
`trigger`, `batch`/`discard`/`update` context, with arbitrary callbacks and faults — leaves the
dispatcher idle, *also when it raises*: nothing stays queued for "some later unrelated
assignment". -/
theorem idle_in_idle_out (c : Cfg) (f : Nat) (s : Stmt) (w : World) (hi : idle w)
    (h : (run c f (.stmt s) w).1 ≠ .oof) : idle (run c f (.stmt s) w).2.1 := by
  obtain ⟨hb, ht, he, hq, hm⟩ := hi
  have hfl := flags c f (.stmt s) w h
  have hq' := (queues_empty c f (.stmt s) w h hb (fun _ => hq)).2 rfl ⟨he, hq⟩
  have hm' := setMode_subset c f (.stmt s) w h
  exact ⟨hfl.1.trans hb, hfl.2.trans ht, hq'.1, hq'.2,
    List.eq_nil_iff_forall_not_mem.2 (fun p hp => by have := hm' p hp; rw [hm] at this; cases this)⟩

/-- … and so does every program (sequence of statements), e.g. one that stops at a fault. -/
theorem idle_in_idle_out_program (c : Cfg) (f : Nat) (l : List Stmt) (w : World) (hi : idle w)
    (h : (run c f (.stmts l) w).1 ≠ .oof) : idle (run c f (.stmts l) w).2.1 := by
  obtain ⟨hb, ht, he, hq, hm⟩ := hi
  have hfl := flags c f (.stmts l) w h
  have hq' := (queues_empty c f (.stmts l) w h hb (fun _ => hq)).2 rfl ⟨he, hq⟩
  have hm' := setMode_subset c f (.stmts l) w h
  exact ⟨hfl.1.trans hb, hfl.2.trans ht, hq'.1, hq'.2,
    List.eq_nil_iff_forall_not_mem.2 (fun p hp => by have := hm' p hp; rw [hm] at this; cases this)⟩

/-- **C05 (behaves like a fresh twin).**  An idle dispatcher has no hidden state: it *is* the
freshly built object with the same values and watchers, so every later call behaves identically. -/
theorem idle_is_fresh (w : World) (hi : idle w) : w = fresh w.vals w.regs w.slotVals w.slotKeys w.ncalls w.nreg w.owned := by
  obtain ⟨hb, ht, he, hq, hm⟩ := hi
  cases w
  simp_all [fresh]

theorem behaves_like_fresh_twin (c : Cfg) (f g : Nat) (s : Stmt) (next : Call) (w : World) (hi : idle w)
    (h : (run c f (.stmt s) w).1 ≠ .oof) :
    let w' := (run c f (.stmt s) w).2.1
    run c g next w' = run c g next (fresh w'.vals w'.regs w'.slotVals w'.slotKeys w'.ncalls w'.nreg w'.owned) := by
  intro w'
  have := idle_is_fresh w' (idle_in_idle_out c f s w hi h)
  rw [← this]

/-- **C05 (announced by the time `update` raises).**  With no batch open, when `param.update`
returns *or raises* (a rejected k-th value, an unknown key, a callback failure) the queues are
empty: the events of the keys already applied have been dispatched by then. -/
theorem update_announces_before_raising (c : Cfg) (f : Nat) (kvs : List (Nat × Int)) (w : World)
    (hi : idle w) (h : (run c f (.update kvs) w).1 ≠ .oof) :
    (run c f (.update kvs) w).2.1.events = [] ∧ (run c f (.update kvs) w).2.1.queued = [] := by
  obtain ⟨hb, _, he, hq, _⟩ := hi
  exact (queues_empty c f (.update kvs) w h hb (fun _ => hq)).2 rfl ⟨he, hq⟩

/-- **C05 (announced: the applied keys are flushed even when a later key is rejected).**  `param.update`
with no batch open is: the keys, applied with the flag set — during which nothing runs — and then,
*whether or not a key was rejected*, the flush of what the applied keys queued.  (What an applied key
queues: C04 `batched_assignment_queues_exactly_the_passing_watchers`; that it stays queued through the
rejected key: `deferred_stays_deferred`; that the flush invokes every queued watcher once with its last
event: C04 `flush_first_round`.)  An implementation that dropped the events of the applied keys on
failure would not satisfy this. -/
theorem failed_update_still_flushes_applied_keys (c : Cfg) (f : Nat) (kvs : List (Nat × Int)) (w : World)
    (hb : w.batch = false) (h : (run c (f + 1) (.update kvs) w).1 ≠ .oof) :
    let w0 : World := { w with batch := true, setMode := (kvs.map (·.1)).filter c.isEvent ++ w.setMode }
    (run c (f + 1) (.update kvs) w).2.2 =
      (run c f (.updateKeys kvs) w0).2.2 ++
      (run c f .flush { (run c f (.updateKeys kvs) w0).2.1 with batch := false }).2.2 ∧
    (run c f (.updateKeys kvs) w0).2.1.ncalls = w.ncalls ∧
    (run c f (.updateKeys kvs) w0).1 ≠ .oof :=
  update_is_keys_then_flush c f kvs w hb h

/-- … and a key applied before the rejected one has queued its watchers by then: after the assignment of
a valid value inside the `update`, every watcher of that parameter that passes the filter is in the queue,
and (`deferred_stays_deferred`) stays there until the flush above -/
theorem applied_key_queues_its_watchers (c : Cfg) (f : Nat) (w : World) (k : Nat) (v : Int)
    (hb : w.batch = true) (hv : c.valid k v = true) (h : (run c f (.setPlain k v) w).1 ≠ .oof) :
    (run c f (.setPlain k v) w).1 = .ok ∧
    ∀ wt ∈ passing w k v, wt.uid ∈ (run c f (.setPlain k v) w).2.1.queued.map (·.uid) ∧
      ({ name := k, old := getVal w k, new := v } : Ev) ∈ (run c f (.setPlain k v) w).2.1.events := by
  rw [setPlain_in_batch_exact c f w k v hb hv h]
  refine ⟨rfl, fun wt hwt => ⟨uid_mem_enqueue _ _ wt hwt, ?_⟩⟩
  exact List.mem_append_right _ (List.mem_map.2 ⟨wt, hwt, rfl⟩)

/-- **C05 (still deferred inside a surrounding batch).**  Inside an open batch, after any
statement — failing ones included — the batching flag is still set, no callback has run, and
everything that was queued is still queued (to be delivered when the surrounding batch exits). -/
theorem deferred_stays_deferred (c : Cfg) (f : Nat) (s : Stmt) (w : World) (hb : w.batch = true)
    (h : (run c f (.stmt s) w).1 ≠ .oof) :
    (run c f (.stmt s) w).2.1.batch = true ∧
    (run c f (.stmt s) w).2.1.ncalls = w.ncalls ∧
    (∀ e ∈ w.events, e ∈ (run c f (.stmt s) w).2.1.events) ∧
    (∀ x ∈ w.queued, x.uid ∈ (run c f (.stmt s) w).2.1.queued.map (·.uid)) := by
  have h1 := (flags c f (.stmt s) w h).1
  have h2 := silent_in_batch c f (.stmt s) w h hb rfl
  have h3 := deferred_kept c f (.stmt s) w h hb rfl
  exact ⟨h1.trans hb, h2, h3.1, h3.2⟩

/-- **C05 (the flush itself).**  A flush with the batching flag off ends with empty queues even
when a callback raises in the middle of it. -/
theorem flush_leaves_nothing_behind (c : Cfg) (f : Nat) (w : World) (hb : w.batch = false)
    (hinv : w.events = [] → w.queued = []) (h : (run c f .flush w).1 ≠ .oof) :
    (run c f .flush w).2.1.events = [] ∧ (run c f .flush w).2.1.queued = [] :=
  (queues_empty c f .flush w h hb hinv).1 rfl

/-- **C05 (self-resetting Event parameters).**  No call, however it ends, leaves an Event
parameter in the non-resetting mode 'set' unless it already was (so from an idle dispatcher every
Event parameter keeps resetting itself). -/
theorem event_modes_never_stick (c : Cfg) (f : Nat) (call : Call) (w : World)
    (h : (run c f call w).1 ≠ .oof) : ∀ p ∈ (run c f call w).2.1.setMode, p ∈ w.setMode :=
  setMode_subset c f call w h

/-- **C05 (self-resetting Event parameters, the value).**  If every Event parameter that is not in
mode 'set' reads False before a call, the same is true after it — however the call ends: a rejected
key of an `update` that also names an Event, a callback raising while the Event holds its transient
True, a context body that raises.  (`Event.__set__` resets in a `finally`; `_update` resets the Events
it put in mode 'set' in a `finally`.) -/
theorem event_parameters_reset_after_any_call (c : Cfg) (f : Nat) (call : Call) (w : World)
    (hcall : ∀ p v, call ≠ .setPlain p v)
    (hz : ∀ p, c.isEvent p = true → p ∉ w.setMode → getVal w p = 0)
    (h : (run c f call w).1 ≠ .oof) :
    ∀ p, c.isEvent p = true → p ∉ (run c f call w).2.1.setMode → getVal (run c f call w).2.1 p = 0 := by
  have h0 : EvReset c [] w := fun p hp hm _ => hz p hp hm
  have h1 := events_reset c f call w [] h h0
  have hin : call.inflight = [] := by
    cases call <;> first | rfl | exact absurd rfl (hcall _ _)
  rw [hin] at h1
  exact fun p hp hm => h1 p hp hm (by simp)

/-- … so with an idle dispatcher: after any statement every Event parameter reads False again -/
theorem event_parameters_read_false_when_idle (c : Cfg) (f : Nat) (s : Stmt) (w : World) (hi : idle w)
    (hz : ∀ p, c.isEvent p = true → getVal w p = 0) (h : (run c f (.stmt s) w).1 ≠ .oof) :
    ∀ p, c.isEvent p = true → getVal (run c f (.stmt s) w).2.1 p = 0 := by
  intro p hp
  have hidle := idle_in_idle_out c f s w hi h
  exact event_parameters_reset_after_any_call c f (.stmt s) w (by intro p v; simp) (fun q hq _ => hz q hq) h p hp
    (by rw [hidle.2.2.2.2]; simp)

/-! ### Non-vacuity -/

def c05EvCfg : Cfg := { bounds := [(some 0, some 1), (some 0, some 9)], bodies := [[.raise]], events := [0] }
def c05EvWorld : World :=
  { vals := [0, 0], batch := false, trigger := false, events := [], queued := [], regs := [mkW 0 [0] false false 0 0] }
-- `update(e=True, x=12)`: the Event is applied, x is rejected (and the flush of e's watcher raises on top) —
-- the Event reads False again and keeps resetting itself
example : (run c05EvCfg 60 (.stmt (.update [(0, 1), (1, 12)])) c05EvWorld).1 = .raised .boom ∧
          (run c05EvCfg 60 (.stmt (.update [(0, 1), (1, 12)])) c05EvWorld).2.1.vals = [0, 0] ∧
          idle (run c05EvCfg 60 (.stmt (.update [(0, 1), (1, 12)])) c05EvWorld).2.1 := by decide
-- `e = True` whose watcher raises while the Event reads True
example : (run c05EvCfg 60 (.stmt (.set 0 1)) c05EvWorld).1 = .raised .boom ∧
          (run c05EvCfg 60 (.stmt (.set 0 1)) c05EvWorld).2.1.vals = [0, 0] := by decide

-- update(p1=3, p0=12) on a world where a non-queued watcher (body: nothing) watches p1: p1's watcher is called
-- by the flush although p0 is rejected
def c05AnnCfg : Cfg := { bounds := [(some 0, some 9), (some 0, some 9)], bodies := [[]] }
def c05AnnWorld : World :=
  { vals := [0, 0], batch := false, trigger := false, events := [], queued := [], regs := [mkW 7 [1] true false 0 0] }
example : (run c05AnnCfg 60 (.update [(1, 3), (0, 12)]) c05AnnWorld).1 = .raised .value ∧
    (callSigs (run c05AnnCfg 60 (.update [(1, 3), (0, 12)]) c05AnnWorld).2.2).map (fun s => (s.1, s.2.2)) = [(7, true)] := by
  decide

def c05Cfg : Cfg :=
  { bounds := [(some 0, some 9), (some 0, some 9)],
    bodies := [[.set 0 5, .raise], [.raise]] }
def c05World : World :=
  { vals := [0, 0], batch := false, trigger := false, events := [], queued := [],
    regs := [mkW 0 [1] true true 0 0, mkW 1 [0] true false 0 1] }

example : idle c05World := by decide
-- update applies p1 := 3, then p0 := 12 is rejected: raises, yet idle afterwards
example : (run c05Cfg 60 (.stmt (.update [(1, 3), (0, 12)])) c05World).1 = .raised .boom
        ∨ (run c05Cfg 60 (.stmt (.update [(1, 3), (0, 12)])) c05World).1 = .raised .value := by decide
example : idle (run c05Cfg 60 (.stmt (.update [(1, 3), (0, 12)])) c05World).2.1 := by decide
-- a queued callback that assigns and then raises, inside a batch
example : (run c05Cfg 60 (.stmt (.batch [.set 1 4])) c05World).1 = .raised .boom ∧
          idle (run c05Cfg 60 (.stmt (.batch [.set 1 4])) c05World).2.1 := by decide

end ParamVerif.Dispatch
