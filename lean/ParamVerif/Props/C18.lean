/-
C18 — A Selector's objects list, names and range stay consistent under mutation.

  "After any sequence of list-style or dictionary-style mutations of a
   Selector's `objects` (item or key assignment, append, insert, extend, update,
   pop by index or key, remove, clear, wholesale replacement), the list view,
   the name-to-object mapping, `get_range()` and the values the Selector accepts
   all describe the same objects in the same order. `pop` returns the object it
   removed, watchers of `objects` are notified once per mutation, and
   membership of assigned values is always checked against the current
   objects."   (style-consistent operations, unique objects)

Only property theorems and their non-vacuity examples live here; helper lemmas
are in Selector/Lemmas.lean.
-/
import ParamVerif.Selector.Lemmas

namespace ParamVerif.Selector

/- `str` is Python's `str` on objects: a parameter of the model; the theorems assume only that it is
injective on objects (`hstr`).  The driver instantiates it with `pyStr`. -/
variable (str : Obj → Key)

/-- The consistency the property asks for: objects unique; if a name mapping
exists it lists exactly the objects, in the same order, under unique keys. -/
def Inv (s : St) : Prop :=
  s.objs.Nodup ∧ (s.names = [] ∨ (s.names.map (·.2) = s.objs ∧ (s.names.map (·.1)).Nodup))

instance (s : St) : Decidable (Inv s) := by unfold Inv; exact inferInstance

/-- "style-consistent operations, unique objects": list-style mutators on a
Selector without names, dictionary-style mutators on one with names (or an
empty one), objects put in are new and pairwise distinct.  `pop`, `remove`,
`clear`, replacement and value assignment are legal in either style. -/
def Op.ok (s : St) : Op → Prop
  | .setIdx _ o => s.names = [] ∧ o ∉ s.objs
  | .setKey _ o => (s.names ≠ [] ∨ s.objs = []) ∧ o ∉ s.objs
  | .append o => s.names = [] ∧ o ∉ s.objs
  | .insert _ o => s.names = [] ∧ o ∉ s.objs
  | .extend os => s.names = [] ∧ os.Nodup ∧ (∀ o ∈ os, o ∉ s.objs)
  | .update kvs => (s.names ≠ [] ∨ s.objs = []) ∧ (kvs.map (·.2)).Nodup ∧ (∀ kv ∈ kvs, kv.2 ∉ s.objs)
  | .popIdx _ => True
  | .popKey _ => True
  | .popKeyD _ _ => True
  | .remove _ => True
  | .clear => True
  | .replaceList os => os.Nodup
  | .replaceDict kvs => ((Dict.updateAll [] kvs).map (·.2)).Nodup
  | .assign _ => s.checkOnSet = true ∨ s.names = []
  | .inherited => True

instance (s : St) (op : Op) : Decidable (Op.ok s op) := by
  cases op <;> unfold Op.ok <;> exact inferInstance

/-- every operation of the sequence is style-consistent in the state it is applied to -/
def okSeq : St → List Op → Prop
  | _, [] => True
  | s, op :: ops => Op.ok s op ∧ okSeq (step str s op).1 ops

instance okSeqDec : (s : St) → (ops : List Op) → Decidable (okSeq str s ops)
  | _, [] => isTrue trivial
  | s, op :: ops => by unfold okSeq; exact @instDecidableAnd _ _ _ (okSeqDec _ ops)

/-! ### Lemmas about the two compound mutators (kept here because they mention `Inv`) -/

theorem setKeyCore_inv {s s' : St} {k : Key} {o : Obj}
    (hobjs : s.objs.Nodup) (hv : s.names.map (·.2) = s.objs) (hk : (s.names.map (·.1)).Nodup)
    (ho : o ∉ s.objs) (h : setKeyCore s k o = .ok s') :
    s'.objs.Nodup ∧ s'.names.map (·.2) = s'.objs ∧ (s'.names.map (·.1)).Nodup ∧ s'.names ≠ []
      ∧ s'.checkOnSet = s.checkOnSet ∧ (∀ x, x ∈ s'.objs → x = o ∨ x ∈ s.objs) ∧ o ∈ s'.objs := by
  unfold setKeyCore at h
  split at h
  · rename_i old hg
    have hvn : (s.names.map (·.2)).Nodup := hv ▸ hobjs
    obtain ⟨idx, h1, h2, h3⟩ := Dict.set_vals_of_get (o := o) hvn hg
    rw [hv] at h1 h3
    rw [h1] at h
    simp only [Except.ok.injEq] at h
    subst h
    have hlen : idx < s.objs.length := by rw [← hv]; simpa using h2
    refine ⟨nodup_set hobjs ho, h3, Dict.set_keys_nodup hk, Dict.set_ne_nil _ _ _, rfl, ?_, ?_⟩
    · intro x hx
      rcases List.mem_or_eq_of_mem_set hx with h | h
      · exact Or.inr h
      · exact Or.inl h
    · exact List.mem_set hlen o
  · rename_i hg
    simp only [Except.ok.injEq] at h
    subst h
    have hkn := Dict.get?_none_iff.1 hg
    refine ⟨?_, ?_, Dict.set_keys_nodup hk, Dict.set_ne_nil _ _ _, rfl, ?_, by simp⟩
    · rw [List.nodup_append]
      refine ⟨hobjs, by simp, ?_⟩
      intro a ha b hb; simp at hb; subst hb; intro e; subst e; exact ho ha
    · simp [Dict.set_of_not_mem hkn, hv]
    · intro x hx; simp at hx; rcases hx with h | h
      · exact Or.inr h
      · exact Or.inl h

/-- in a dictionary-style (or empty) consistent state `setKeyCore` cannot fail -/
theorem setKeyCore_ok {s : St} {k : Key} {o : Obj}
    (hobjs : s.objs.Nodup) (hv : s.names.map (·.2) = s.objs) :
    ∃ s', setKeyCore s k o = .ok s' := by
  unfold setKeyCore
  split
  · rename_i old hg
    have hvn : (s.names.map (·.2)).Nodup := hv ▸ hobjs
    obtain ⟨idx, h1, _, _⟩ := Dict.set_vals_of_get (o := o) hvn hg
    rw [hv] at h1
    rw [h1]; exact ⟨_, rfl⟩
  · exact ⟨_, rfl⟩

theorem convertNames_dictStyle {s : St} (hobjs : s.objs.Nodup)
    (hinv : s.names = [] ∨ (s.names.map (·.2) = s.objs ∧ (s.names.map (·.1)).Nodup))
    (hstyle : s.names ≠ [] ∨ s.objs = []) :
    (convertNames str s).objs = s.objs ∧ (convertNames str s).checkOnSet = s.checkOnSet ∧
    (convertNames str s).names.map (·.2) = s.objs ∧ ((convertNames str s).names.map (·.1)).Nodup := by
  unfold convertNames
  split
  · rename_i h
    rcases hstyle with h' | h'
    · exact absurd h.2 h'
    · exact absurd h' h.1
  · rename_i h
    rcases hinv with h' | h'
    · rcases hstyle with h'' | h''
      · exact absurd h' h''
      · simp [h', h'']
    · exact ⟨rfl, rfl, h'.1, h'.2⟩

theorem updateCore_inv : ∀ (kvs : List (Key × Obj)) (s s' : St),
    s.objs.Nodup → s.names.map (·.2) = s.objs → (s.names.map (·.1)).Nodup →
    (kvs.map (·.2)).Nodup → (∀ kv ∈ kvs, kv.2 ∉ s.objs) →
    updateCore str s kvs = (s', none) →
    s'.objs.Nodup ∧ s'.names.map (·.2) = s'.objs ∧ (s'.names.map (·.1)).Nodup
      ∧ s'.checkOnSet = s.checkOnSet
  | [], s, s', h1, h2, h3, _, _, h => by
    simp only [updateCore, Prod.mk.injEq, and_true] at h; subst h; exact ⟨h1, h2, h3, rfl⟩
  | (k, o) :: kvs, s, s', h1, h2, h3, hnd, hfresh, h => by
    simp only [updateCore] at h
    have hc := convertNames_dictStyle str h1 (Or.inr ⟨h2, h3⟩)
      (by by_cases hn : s.names = []
          · right; rw [← h2, hn]; rfl
          · left; exact hn)
    obtain ⟨c1, c2, c3, c4⟩ := hc
    split at h
    · rename_i s1 hs1
      have ho : o ∉ (convertNames str s).objs := by rw [c1]; exact hfresh (k, o) (by simp)
      obtain ⟨i1, i2, i3, _, i5, i6, _⟩ :=
        setKeyCore_inv (by rw [c1]; exact h1) (by rw [c1]; exact c3) c4 ho hs1
      simp only [List.map_cons, List.nodup_cons] at hnd
      have := updateCore_inv kvs s1 s' i1 i2 i3 hnd.2 (by
        intro kv hkv hmem
        rcases i6 _ hmem with e | e
        · exact hnd.1 (e ▸ List.mem_map.2 ⟨kv, hkv, rfl⟩)
        · rw [c1] at e; exact hfresh kv (by simp [hkv]) e) h
      exact ⟨this.1, this.2.1, this.2.2.1, by rw [this.2.2.2, i5, c2]⟩
    · simp at h

theorem updateCore_ok : ∀ (kvs : List (Key × Obj)) (s : St),
    s.objs.Nodup → s.names.map (·.2) = s.objs → (s.names.map (·.1)).Nodup →
    (kvs.map (·.2)).Nodup → (∀ kv ∈ kvs, kv.2 ∉ s.objs) →
    ∃ s', updateCore str s kvs = (s', none)
  | [], s, _, _, _, _, _ => ⟨s, rfl⟩
  | (k, o) :: kvs, s, h1, h2, h3, hnd, hfresh => by
    simp only [updateCore]
    have hc := convertNames_dictStyle str h1 (Or.inr ⟨h2, h3⟩)
      (by by_cases hn : s.names = []
          · right; rw [← h2, hn]; rfl
          · left; exact hn)
    obtain ⟨c1, c2, c3, c4⟩ := hc
    obtain ⟨s1, hs1⟩ := setKeyCore_ok (s := convertNames str s) (k := k) (o := o)
      (by rw [c1]; exact h1) (by rw [c1]; exact c3)
    rw [hs1]
    have ho : o ∉ (convertNames str s).objs := by rw [c1]; exact hfresh (k, o) (by simp)
    obtain ⟨i1, i2, i3, _, _, i6, _⟩ :=
      setKeyCore_inv (by rw [c1]; exact h1) (by rw [c1]; exact c3) c4 ho hs1
    simp only [List.map_cons, List.nodup_cons] at hnd
    exact updateCore_ok kvs s1 i1 i2 i3 hnd.2 (by
      intro kv hkv hmem
      rcases i6 _ hmem with e | e
      · exact hnd.1 (e ▸ List.mem_map.2 ⟨kv, hkv, rfl⟩)
      · rw [c1] at e; exact hfresh kv (by simp [hkv]) e)

/-! ## Property theorems -/

/-- **C18 (one step).**  Every style-consistent operation preserves consistency. -/
theorem step_preserves_inv (hstr : ∀ a b, str a = str b → a = b) (s : St) (op : Op) (h : Inv s) (hok : Op.ok s op) :
    Inv (step str s op).1 := by
  obtain ⟨hnd, hn⟩ := h
  cases op with
  | setIdx i o =>
    obtain ⟨h1, h2⟩ := hok
    simp only [step]
    split
    · exact ⟨nodup_set hnd h2, Or.inl h1⟩
    · exact ⟨hnd, hn⟩
  | setKey k o =>
    obtain ⟨h1, h2⟩ := hok
    obtain ⟨c1, c2, c3, c4⟩ := convertNames_dictStyle str hnd hn h1
    simp only [step]
    split
    · rename_i s' hs'
      obtain ⟨i1, i2, i3, _⟩ := setKeyCore_inv (by rw [c1]; exact hnd) (by rw [c1]; exact c3) c4
        (by rw [c1]; exact h2) hs'
      exact ⟨i1, Or.inr ⟨i2, i3⟩⟩
    · exact ⟨by rw [c1]; exact hnd, Or.inr ⟨by rw [c1]; exact c3, c4⟩⟩
  | append o =>
    obtain ⟨h1, h2⟩ := hok
    simp only [step]
    refine ⟨?_, Or.inl h1⟩
    rw [List.nodup_append]
    refine ⟨hnd, by simp, ?_⟩
    intro a ha b hb; simp at hb; subst hb; intro e; subst e; exact h2 ha
  | insert i o =>
    obtain ⟨h1, h2⟩ := hok
    exact ⟨insertAt_nodup hnd h2, Or.inl h1⟩
  | extend os =>
    obtain ⟨h1, h2, h3⟩ := hok
    simp only [step]
    refine ⟨?_, Or.inl h1⟩
    rw [List.nodup_append]
    refine ⟨hnd, h2, ?_⟩
    intro a ha b hb e; subst e; exact h3 _ hb ha
  | update kvs =>
    obtain ⟨h1, h2, h3⟩ := hok
    simp only [step]
    -- the state after the unconditional names conversion
    have key : ∀ s0 : St, s0 = (if s.names = [] then { s with names := namedObjs str s.objs [] } else s) →
        s0.objs = s.objs ∧ s0.names.map (·.2) = s.objs ∧ (s0.names.map (·.1)).Nodup := by
      intro s0 e
      subst e
      split
      · exact ⟨rfl, namedObjs_nil_vals str hstr hnd, namedObjs_nil_keys_nodup str hstr hnd⟩
      · rename_i hne
        rcases hn with h' | h'
        · exact absurd h' hne
        · exact ⟨rfl, h'.1, h'.2⟩
    obtain ⟨k1, k2, k3⟩ := key _ rfl
    obtain ⟨s', hs'⟩ := updateCore_ok str kvs _ (by rw [k1]; exact hnd)
        (by rw [k1]; exact k2) k3 h2 (by rw [k1]; exact h3)
    obtain ⟨i1, i2, i3, _⟩ := updateCore_inv str kvs _ s' (by rw [k1]; exact hnd)
        (by rw [k1]; exact k2) k3 h2 (by rw [k1]; exact h3) hs'
    rw [hs']
    exact ⟨i1, Or.inr ⟨i2, i3⟩⟩
  | popIdx i =>
    simp only [step]
    split
    · rename_i n hn'
      have hlt : n < s.objs.length := normIdx_lt hn'
      refine ⟨(List.eraseIdx_sublist _ _).nodup hnd, ?_⟩
      rcases hn with h' | h'
      · left; simp [h']
      · right
        refine ⟨?_, (map_fst_filter_sublist _ _).nodup h'.2⟩
        rw [map_snd_filter, h'.1, eraseIdx_eq_filter hnd hlt]
    · exact ⟨hnd, hn⟩
  | popKey k =>
    simp only [step]
    split
    · exact ⟨hnd, hn⟩
    · rename_i hstyle
      split
      · exact ⟨hnd, hn⟩
      · rename_i o hg
        rcases hn with h' | h'
        · simp [h', Dict.get?] at hg
        · have hvn : (s.names.map (·.2)).Nodup := h'.1 ▸ hnd
          have hrm := Dict.erase_vals hvn hg
          rw [h'.1] at hrm
          rw [hrm]
          refine ⟨?_, Or.inr ⟨rfl, (Dict.erase_keys_sublist _ _).nodup h'.2⟩⟩
          have : ((Dict.erase s.names k).map (·.2)).Sublist (s.names.map (·.2)) := by
            clear hrm hg hvn h' hstyle hnd
            induction s.names with
            | nil => simp [Dict.erase]
            | cons kv d ih =>
              obtain ⟨k', v'⟩ := kv
              simp only [Dict.erase]
              split
              · simp
              · simpa using ih
          exact this.nodup hvn
  | popKeyD k d =>
    simp only [step]
    split
    · exact ⟨hnd, hn⟩
    · rename_i hstyle
      split
      · exact ⟨hnd, hn⟩
      · rename_i o hg
        rcases hn with h' | h'
        · simp [h', Dict.get?] at hg
        · have hvn : (s.names.map (·.2)).Nodup := h'.1 ▸ hnd
          have hrm := Dict.erase_vals hvn hg
          rw [h'.1] at hrm
          rw [hrm]
          refine ⟨?_, Or.inr ⟨rfl, (Dict.erase_keys_sublist _ _).nodup h'.2⟩⟩
          have : ((Dict.erase s.names k).map (·.2)).Sublist (s.names.map (·.2)) := by
            clear hrm hg hvn h' hstyle hnd
            induction s.names with
            | nil => simp [Dict.erase]
            | cons kv d ih =>
              obtain ⟨k', v'⟩ := kv
              simp only [Dict.erase]
              split
              · simp
              · simpa using ih
          exact this.nodup hvn
  | remove o =>
    simp only [step]
    split
    · rename_i l hl
      have hmem := removeFirst_some_mem hl
      rw [removeFirst_eq_filter hnd hmem] at hl
      simp only [Option.some.injEq] at hl
      subst hl
      refine ⟨(List.filter_sublist).nodup hnd, ?_⟩
      rcases hn with h' | h'
      · left; simp [h']
      · right
        exact ⟨by rw [map_snd_filter, h'.1], (map_fst_filter_sublist _ _).nodup h'.2⟩
    · exact ⟨hnd, hn⟩
  | clear => exact ⟨by simp [step], Or.inl rfl⟩
  | replaceList os => exact ⟨hok, Or.inl rfl⟩
  | replaceDict kvs =>
    refine ⟨hok, Or.inr ⟨rfl, ?_⟩⟩
    simp only [step]
    -- keys of `dict(pairs)` are unique
    have : ∀ (kvs : List (Key × Obj)) (d : Dict), (d.map (·.1)).Nodup →
        ((Dict.updateAll d kvs).map (·.1)).Nodup := by
      intro kvs
      induction kvs with
      | nil => intro d h; simpa [Dict.updateAll] using h
      | cons kv kvs ih =>
        intro d h
        simp only [Dict.updateAll, List.foldl_cons]
        exact ih _ (Dict.set_keys_nodup h)
    exact this kvs [] (by simp)
  | assign v =>
    simp only [step]
    split
    · split <;> exact ⟨hnd, hn⟩
    · rename_i hc
      split
      · exact ⟨hnd, hn⟩
      · rename_i hv
        have hnames : s.names = [] := by
          rcases hok with h | h
          · exact absurd h hc
          · exact h
        refine ⟨?_, Or.inl hnames⟩
        rw [List.nodup_append]
        refine ⟨hnd, by simp, ?_⟩
        intro a ha b hb; simp at hb; subst hb; intro e; subst e; exact hv ha
  | inherited => exact ⟨hnd, hn⟩

/-- **C18 (all histories).**  After *any* sequence of style-consistent
mutations and value assignments the Selector is consistent. -/
theorem run_preserves_inv (hstr : ∀ a b, str a = str b → a = b) (ops : List Op) (s : St) (h : Inv s) (hok : okSeq str s ops) :
    Inv (run str s ops) := by
  induction ops generalizing s with
  | nil => simpa [run] using h
  | cons op ops ih =>
    obtain ⟨h1, h2⟩ := hok
    simp only [run, List.foldl_cons]
    exact ih _ (step_preserves_inv str hstr s op h h1) h2

/-- A freshly declared Selector (list or dict of unique objects) is consistent. -/
theorem declared_list_inv (os : List Obj) (c : Bool) (h : os.Nodup) :
    Inv { objs := os, names := [], checkOnSet := c } := ⟨h, Or.inl rfl⟩

/-- **C18 (views agree).**  In a consistent state the list view, `items()`,
`get_range()` and the accepted values describe the same objects in the same
order; and with a name mapping, `items()` and `get_range()` *are* that mapping. -/
theorem views_agree (hstr : ∀ a b, str a = str b → a = b) (s : St) (h : Inv s) :
    (itemsView str s).map (·.2) = listView s ∧
    (rangeView str s).map (·.2) = listView s ∧
    (∀ v, accepts s v = true ↔ v ∈ listView s) ∧
    (s.names ≠ [] → itemsView str s = s.names ∧ rangeView str s = s.names) := by
  obtain ⟨hnd, hn⟩ := h
  -- get_range with a consistent names dictionary returns that dictionary
  have range_names : ∀ (d : Dict), (d.map (·.1)).Nodup → (d.map (·.2)).Nodup →
      namedObjs str (d.map (·.2)) d = d := by
    intro d hk hv
    unfold namedObjs
    -- generalise: fold over a suffix with the prefix accumulated
    have aux : ∀ (suf pre : Dict), d = pre ++ suf →
        (suf.map (·.2)).foldl (fun acc o => Dict.set acc (nameOf str d o) o) pre = d := by
      intro suf
      induction suf with
      | nil => intro pre e; simpa using e.symm
      | cons kv suf ih =>
        intro pre e
        obtain ⟨k, v⟩ := kv
        simp only [List.map_cons, List.foldl_cons]
        have hname : nameOf str d v = k := by
          unfold nameOf
          have hfind : d.reverse.find? (fun kv => kv.2 = v) = some (k, v) := by
            have hmem : (k, v) ∈ d.reverse := by rw [e]; simp
            rcases hf : d.reverse.find? (fun kv => decide (kv.2 = v)) with _ | ⟨k', v'⟩
            · have := List.find?_eq_none.1 hf (k, v) hmem
              simp at this
            · have h1 := List.find?_some hf
              have h2 := List.mem_of_find?_eq_some hf
              simp only [decide_eq_true_eq] at h1
              subst h1
              -- same value, values unique ⇒ same pair
              have hm1 : (k', v') ∈ d := by simpa using h2
              have hm2 : (k, v') ∈ d := by simpa using hmem
              have : k' = k := key_unique_of_vals_nodup hv hm1 hm2
              subst this
              exact hf
          simp only [hfind]
        rw [hname]
        have hknot : k ∉ pre.map (·.1) := by
          intro hmem
          rw [e] at hk
          simp only [List.map_append, List.map_cons] at hk
          have := (List.nodup_append.1 hk).2.2 k hmem k (by simp)
          exact this rfl
        rw [Dict.set_of_not_mem hknot]
        exact ih (pre ++ [(k, v)]) (by simp [e])
    exact aux d [] (by simp)
  refine ⟨?_, ?_, ?_, ?_⟩
  · unfold itemsView listView
    split
    · rename_i hne
      rcases hn with h' | h'
      · exact absurd h' hne
      · exact h'.1
    · exact namedObjs_nil_vals str hstr hnd
  · unfold rangeView listView
    rcases hn with h' | h'
    · rw [h']; exact namedObjs_nil_vals str hstr hnd
    · have hvn : (s.names.map (·.2)).Nodup := h'.1 ▸ hnd
      have := range_names s.names h'.2 hvn
      rw [h'.1] at this
      rw [this]; exact h'.1
  · intro v; simp [accepts, listView]
  · intro hne
    rcases hn with h' | h'
    · exact absurd h' hne
    · have hvn : (s.names.map (·.2)).Nodup := h'.1 ▸ hnd
      have := range_names s.names h'.2 hvn
      rw [h'.1] at this
      exact ⟨by simp [itemsView, hne], this⟩

/-- **C18 (`pop` returns what it removed).**  A successful `pop(i)` returns the
object that was at position `i`, that object is gone from every view, and all
other objects keep their order. -/
theorem popIdx_returns_removed (s : St) (i : Int) (n : Nat) (h : Inv s)
    (hn : normIdx s.objs.length i = some n) :
    (step str s (.popIdx i)).2.ret = s.objs[n]? ∧
    (step str s (.popIdx i)).2.err = none ∧
    (step str s (.popIdx i)).1.objs = s.objs.eraseIdx n ∧
    (∀ o, (step str s (.popIdx i)).2.ret = some o → o ∉ (step str s (.popIdx i)).1.objs) := by
  have hlt : n < s.objs.length := normIdx_lt hn
  simp only [step, hn]
  refine ⟨by simp [List.getD, List.getElem?_eq_getElem hlt], by simp, by simp, ?_⟩
  intro o ho
  simp only [Option.some.injEq] at ho
  subst ho
  rw [eraseIdx_eq_filter h.1 hlt]
  simp

/-- `pop(key)` returns the object stored under the key and removes it. -/
theorem popKey_returns_removed (s : St) (k : Key) (o : Obj) (h : Inv s)
    (hne : s.names ≠ []) (hg : Dict.get? s.names k = some o) :
    (step str s (.popKey k)).2.ret = some o ∧ (step str s (.popKey k)).2.err = none ∧
    o ∉ (step str s (.popKey k)).1.objs ∧ Dict.get? (step str s (.popKey k)).1.names k = none := by
  obtain ⟨hnd, hn⟩ := h
  rcases hn with h' | h'
  · exact absurd h' hne
  · have hvn : (s.names.map (·.2)).Nodup := h'.1 ▸ hnd
    have hrm := Dict.erase_vals hvn hg
    rw [h'.1] at hrm
    have hstyle : ¬(s.objs ≠ [] ∧ s.names = []) := fun hh => hne hh.2
    simp only [step, hstyle, if_false, hg, hrm]
    refine ⟨by simp, by simp, ?_, ?_⟩
    · have hmem : o ∈ s.objs := by rw [← h'.1]; exact List.mem_map.2 ⟨(k, o), Dict.get?_mem hg, rfl⟩
      have := removeFirst_eq_filter hnd hmem
      rw [hrm] at this
      simp only [Option.some.injEq] at this
      rw [this]; simp
    · rw [Dict.get?_none_iff]
      intro hmem
      -- k is no longer a key
      have : ∀ (d : Dict), (d.map (·.1)).Nodup → k ∉ (Dict.erase d k).map (·.1) := by
        intro d
        induction d with
        | nil => intro _; simp [Dict.erase]
        | cons kv d ih =>
          obtain ⟨k', v'⟩ := kv
          intro hk
          simp only [List.map_cons, List.nodup_cons] at hk
          simp only [Dict.erase]
          split
          · rename_i e; subst e; exact hk.1
          · rename_i e
            simp only [List.map_cons, List.mem_cons, not_or]
            exact ⟨fun e' => e e'.symm, ih hk.2⟩
      exact this _ h'.2 hmem

/-! ### Frame: a mutator touches only the entry it is about -/

theorem Dict.get?_set (d : Dict) (k k' : Key) (v : Obj) :
    Dict.get? (Dict.set d k v) k' = if k' = k then some v else Dict.get? d k' := by
  induction d with
  | nil =>
    by_cases h : k' = k
    · subst h; simp [Dict.set, Dict.get?]
    · have h2 : ¬ k = k' := fun e => h e.symm
      simp [Dict.set, Dict.get?, h, h2]
  | cons kv d ih =>
    obtain ⟨k0, v0⟩ := kv
    simp only [Dict.set]
    by_cases h0 : k0 = k
    · subst h0
      by_cases h : k' = k0
      · subst h; simp [Dict.get?]
      · have h2 : ¬ k0 = k' := fun e => h e.symm
        simp [Dict.get?, h, h2]
    · simp only [h0, if_false, Dict.get?, ih]
      by_cases h : k0 = k'
      · subst h; simp [h0]
      · simp [h]

theorem Dict.get?_erase_ne (d : Dict) (k k' : Key) (h : k' ≠ k) :
    Dict.get? (Dict.erase d k) k' = Dict.get? d k' := by
  induction d with
  | nil => rfl
  | cons kv d ih =>
    obtain ⟨k0, v0⟩ := kv
    simp only [Dict.erase]
    by_cases h0 : k0 = k
    · subst h0
      have h2 : ¬ k0 = k' := fun e => h e.symm
      simp [Dict.get?, h2]
    · simp only [h0, if_false, Dict.get?, ih]

/-- **C18 (key assignment touches only its key).**  On a Selector with names, `objects[k] = o` maps `k`
to `o` and leaves every other key with the object it had — no name is lost or re-pointed. -/
theorem setKey_frame (s : St) (k : Key) (o : Obj) (hne : s.names ≠ [])
    (hok : (step str s (.setKey k o)).2.err = none) :
    Dict.get? (step str s (.setKey k o)).1.names k = some o ∧
    ∀ k', k' ≠ k → Dict.get? (step str s (.setKey k o)).1.names k' = Dict.get? s.names k' := by
  have hc : convertNames str s = s := by simp [convertNames, hne]
  have key : ∀ s' : St, s'.names = Dict.set s.names k o →
      Dict.get? s'.names k = some o ∧ ∀ k', k' ≠ k → Dict.get? s'.names k' = Dict.get? s.names k' := by
    intro s' hs'
    rw [hs']
    exact ⟨by simp [Dict.get?_set], fun k' h' => by simp [Dict.get?_set, h']⟩
  simp only [step, hc, setKeyCore] at hok ⊢
  cases hg : Dict.get? s.names k with
  | none => exact key { s with objs := s.objs ++ [o], names := Dict.set s.names k o } rfl
  | some old =>
    cases hi : indexOf? s.objs old with
    | none => simp [hg, hi] at hok
    | some idx =>
      simp only [hi]
      exact key { s with objs := s.objs.set idx o, names := Dict.set s.names k o } rfl

/-- **C18 (`pop(key)` touches only its key).**  Every other key keeps its object. -/
theorem popKey_frame (s : St) (k : Key) (hok : (step str s (.popKey k)).2.err = none) :
    ∀ k', k' ≠ k → Dict.get? (step str s (.popKey k)).1.names k' = Dict.get? s.names k' := by
  intro k' h'
  simp only [step] at hok ⊢
  by_cases hst : s.objs ≠ [] ∧ s.names = []
  · simp [hst] at hok
  · simp only [hst, if_false] at hok ⊢
    cases hg : Dict.get? s.names k with
    | none => simp [hg] at hok
    | some o =>
      simp only [hg] at hok ⊢
      cases hr : removeFirst s.objs o with
      | none => simp [hr] at hok
      | some l => simp [Dict.get?_erase_ne _ _ _ h']

/-- **C18 (`pop(index)` / `remove` drop only the names of the removed object).**  Every (key, object)
pair whose object is not the removed one is still there, in the same order. -/
theorem popIdx_frame (s : St) (i : Int) (n : Nat) (hn : normIdx s.objs.length i = some n) :
    (step str s (.popIdx i)).1.names = s.names.filter (fun kv => kv.2 ≠ s.objs.getD n 0) := by
  simp [step, hn]

theorem remove_frame (s : St) (o : Obj) (hok : (step str s (.remove o)).2.err = none) :
    (step str s (.remove o)).1.names = s.names.filter (fun kv => kv.2 ≠ o) := by
  simp only [step] at hok ⊢
  split
  · rfl
  · rename_i hr; simp [hr] at hok

/-- a Selector declared with a dictionary of unique objects under unique keys is consistent -/
theorem declared_dict_inv (d : Dict) (c : Bool) (hk : (d.map (·.1)).Nodup) (hv : (d.map (·.2)).Nodup) :
    Inv { objs := d.map (·.2), names := d, checkOnSet := c } := ⟨hv, Or.inr ⟨rfl, hk⟩⟩

/-- **C18 (one notification per mutation).**  Every successful mutator call
raises exactly one `objects` notification, a failing one none, and a value
assignment none. -/
theorem one_notification_per_mutation (s : St) (op : Op) :
    ((step str s op).2.err = none → (∀ v, op ≠ .assign v) → op ≠ .inherited →
      (∀ k d, op = .popKeyD k d → Dict.get? s.names k ≠ none) → (step str s op).2.notifs.length = 1) ∧
    ((step str s op).2.err ≠ none → (step str s op).2.notifs = []) ∧
    (∀ v, op = .assign v → (step str s op).2.notifs = []) := by
  cases op <;> simp only [step] <;> (repeat' split) <;> simp_all

/-- `pop(key, default)` of a missing key is `dict.pop`: the default comes back, nothing changes,
nobody is notified (before fix 703bb42 the *default* was removed from the objects, or ValueError) -/
theorem popKeyD_missing_returns_default (s : St) (k : Key) (d : Obj) (hs : s.names ≠ [] ∨ s.objs = [])
    (hk : Dict.get? s.names k = none) :
    step str s (.popKeyD k d) = (s, { ret := some d }) := by
  simp only [step]
  split
  · rename_i h; rcases hs with h' | h'
    · exact absurd h.2 h'
    · exact absurd h' h.1
  · simp [hk]

/-- … and of an existing key it is `pop(key)` -/
theorem popKeyD_present_is_popKey (s : St) (k : Key) (d o : Obj) (hk : Dict.get? s.names k = some o) :
    step str s (.popKeyD k d) = step str s (.popKey k) := by
  simp only [step, hk]

/-- the notification carries the view before and after the call -/
theorem notification_payload (s : St) (op : Op) (old new : Payload)
    (h : (old, new) ∈ (step str s op).2.notifs) (hl : ∀ os, op ≠ .replaceList os)
    (hd : ∀ kvs, op ≠ .replaceDict kvs) (hsk : ∀ k o, op ≠ .setKey k o) (hu : ∀ kvs, op ≠ .update kvs) :
    old = payloadOld s ∧ new = payloadNew (step str s op).1 := by
  cases op <;> simp only [step] at h ⊢ <;> (repeat' split) <;> simp_all

/-- **C18 (membership uses the current objects).**  With `check_on_set` a value
assignment succeeds iff the value is among the *current* objects, and never
changes them. -/
theorem assign_checks_current (s : St) (v : Obj) (hc : s.checkOnSet = true) :
    ((step str s (.assign v)).2.err = none ↔ v ∈ listView s) ∧ (step str s (.assign v)).1 = s := by
  simp only [step, hc, if_true, listView]
  split <;> simp_all

/-- after any history, acceptance is membership in the objects the history produced -/
theorem assign_after_history (s : St) (ops : List Op) (v : Obj) (hc : (run str s ops).checkOnSet = true) :
    (step str (run str s ops) (.assign v)).2.err = none ↔ v ∈ listView (run str s ops) :=
  (assign_checks_current str _ v hc).1

/-! ### The full statement, refuted: value assignment on a non-checking, dict-declared Selector

`Op.ok` lets a value assignment through only when the Selector checks membership or has no names.
The property itself makes no such exception ("… interleaved with value assignments"), so here is the
statement without it — and the witness that it is false of the model (and, replayed by the harness,
of the library: KNOWN_FINDINGS `nonchecking-assign-leaves-object-unnamed`).  `run_preserves_inv`
above is the part that holds. -/

/-- The `list` mutators `ListProxy` inherits without overriding (`reverse`, `sort`, `del objects[i]`,
`objects += [..]`, `objects *= n`) are not among the mutations the property lists.  Called on `p.objects`
they act on the throw-away proxy (`objects` builds a fresh `ListProxy(self._objects, self)` on every read),
so the Parameter keeps its objects, its names, and nobody is notified: the four views cannot drift apart
through them.  (A change that made one of them write through to `_objects` alone would break the
correspondence at the first such call on a dict-declared Selector.) -/
theorem inherited_list_methods_do_not_write_through (s : St) :
    step str s .inherited = (s, {}) ∧
    listView (step str s .inherited).1 = listView s ∧
    itemsView str (step str s .inherited).1 = itemsView str s ∧
    rangeView str (step str s .inherited).1 = rangeView str s ∧
    (∀ v, accepts (step str s .inherited).1 v = accepts s v) := by
  simp [step]

/-- … for every history: the calls of inherited `list` mutators can be struck out of any operation sequence
without changing the state the Selector ends in (so every consistency theorem above holds with them interleaved
anywhere, and they never repair or hide a divergence either). -/
theorem inherited_calls_are_invisible (s : St) (ops : List Op) :
    run str s (ops.filter (· ≠ .inherited)) = run str s ops := by
  induction ops generalizing s with
  | nil => rfl
  | cons op ops ih =>
    by_cases h : op = .inherited
    · subst h
      simpa [run, step] using ih s
    · have := ih (step str s op).1
      simp [run, List.filter_cons, h] at this ⊢
      exact this

/-- non-vacuity: a dict-declared Selector keeps both stores through an inherited mutator between two
write-through ones -/
example : (run pyStr { objs := [1, 2], names := [("a", 1), ("b", 2)] } [.popKey "a", .inherited, .setKey "c" 3]).names
    = [("b", 2), ("c", 3)] := by decide +kernel

/-- style-consistency as the property words it: every value assignment is allowed -/
def Op.okFull (s : St) : Op → Prop
  | .assign _ => True
  | op => Op.ok s op

def okSeqFull : St → List Op → Prop
  | _, [] => True
  | s, op :: ops => Op.okFull s op ∧ okSeqFull (step str s op).1 ops

/-- C18 at full strength -/
def C18_full : Prop := ∀ (s : St) (ops : List Op), Inv s → okSeqFull str s ops → Inv (run str s ops)

/-- **C18 (full statement): refuted.**  `Selector(objects={'a': 1}, check_on_set=False)`; `obj.p = 7`:
`_ensure_value_is_in_objects` appends 7 to the objects list but gives it no name, so the list view
has two objects and the name mapping one. -/
theorem C18_full_refuted : ¬ C18_full str := by
  intro h
  have := h { objs := [1], names := [("a", 1)], checkOnSet := false } [.assign 7]
    (by simp [Inv]) (by simp [okSeqFull, Op.okFull])
  simp [run, step, Inv] at this

/-- … and that is the only way: a history whose value assignments on a dict-declared Selector all
go through the membership check (or hit a known object) is covered by `run_preserves_inv`. -/
theorem okFull_of_ok (s : St) (op : Op) (h : Op.ok s op) : Op.okFull s op := by
  cases op <;> simp_all [Op.okFull]

/-! ### The hypothesis `hstr`, needed: two unique objects with the same name

Names of a list-declared Selector are computed from the objects (`obj.name`, `obj.__name__`, else
`str(obj)`), and two different objects can have the same one (`1000` and `'1000'`).  Then `items()` and
`get_range()` — dictionaries keyed by name — hold one object fewer than the list view.  The objects are
unique and every operation is style-consistent, so this is a violation of the property as worded
(KNOWN_FINDINGS `str-collision-drops-object`); the theorems above carry `hstr` and do not cover it. -/

/-- **C18 without `hstr`: refuted.**  For a `str` that sends two objects to the same name the views of a
freshly declared, consistent Selector disagree. -/
theorem C18_str_collision_refuted :
    ∃ (str : Obj → Key) (s : St), Inv s ∧ (rangeView str s).map (·.2) ≠ listView s := by
  refine ⟨fun _ => "x", { objs := [1, 2], names := [] }, by simp [Inv], ?_⟩
  simp [rangeView, listView, namedObjs, nameOf, Dict.set]

/-- the driver's `pyStr` is such a `str` -/
example : pyStr 7 = pyStr (-7) ∧ (7 : Obj) ≠ -7 := by decide

/-! ### Non-vacuity: concrete states and histories that meet the hypotheses -/

example : Inv { objs := [1, 2, 3], names := [("a", 1), ("b", 2), ("c", 3)] } := by decide
example : okSeq pyStr { objs := [1, 2, 3], names := [("a", 1), ("b", 2), ("c", 3)] }
    [.popIdx 0, .setKey "z" 9, .update [("b", 20), ("y", 8)], .popKey "c", .remove 9, .assign 20] := by
  decide
example : okSeq pyStr { objs := [1, 2, 3], names := [] }
    [.append 4, .insert 0 7, .setIdx (-1) 9, .extend [10, 11], .popIdx (-1), .remove 2, .clear,
     .replaceList [5, 6]] := by
  decide
example : (step pyStr { objs := [1, 2, 3], names := [("a", 1), ("b", 2), ("c", 3)] } (.popIdx 0)).2.ret = some 1 := by
  decide

end ParamVerif.Selector
