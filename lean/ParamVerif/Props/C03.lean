/-
C03 — Each change reaches each watcher exactly once with true old/new values.

  "Outside any batching context, every successful assignment to a watched parameter value …
   invokes each watcher registered for it exactly once before the assignment returns — value
   watchers in ascending precedence and then registration order — with an event whose old/new
   are the objects actually replaced/installed, whose type says set, changed or triggered, and
   at a moment when the object already shows the new value; a changes-only watcher is skipped
   only when new equals old (and always for equal numbers, strings, None, dates and containers
   of these), so a genuine change is never suppressed. Assignments made inside a non-queued
   callback are dispatched depth-first before the remaining watchers of the outer event, a
   queued callback's own assignments are not dispatched while it is running, and a watcher
   removed before an assignment is not called for it."

Model: Dispatch/Model.lean (`run`), equality: Dispatch/Equal.lean.  Helper lemmas in
Dispatch/Lemmas.lean.  The theorems quantify over every configuration `c` (bounds, callback
programs of any shape and nesting), every world `w` (values, registered watchers, flags, queues)
and every amount of fuel; `r ≠ oof` / `r = ok` is the partial-correctness side condition.
Event parameters are modelled (`Cfg.events`).  Class-level assignment runs the same code on the class
object (the harness runs the programs at both levels).  Not modelled here (see DESIGN.md):
async callbacks, `Skip`.  kwargs mode (`watch_values`, `shown`) and Parameter-attribute (slot) watchers are modelled (`Stmt.setSlot`).
-/
import ParamVerif.Dispatch.Lemmas
import ParamVerif.Dispatch.RegLemmas
import ParamVerif.Dispatch.EqualLemmas

namespace ParamVerif.Dispatch

/-- the watchers an assignment `p := v` (old value `old`) must invoke, in order: those registered
for `p`, stably sorted by precedence, minus the changes-only ones when nothing changed -/
def expectedFor (w : World) (p : Nat) (old v : Int) : List Watcher :=
  (sortByPrec (regsFor w p)).filter (fun wt => passes w.trigger wt { name := p, old := old, new := v })

/-- **C03 (exactly once, in order, true old/new, typed).**  A non-batched assignment of a valid
value that returns normally has invoked — directly, before returning — exactly the expected
watchers, once each, in precedence-then-registration order, each with the single event
`(p, value before, v)` typed from the trigger flag and the watcher. Whatever else is in the log
at that level was delivered by the flush that ends the assignment. -/
theorem assignment_reaches_each_watcher_once (c : Cfg) (f : Nat) (w : World) (p : Nat) (v : Int)
    (hb : w.batch = false) (hok : (run c f (.setPlain p v) w).1 = .ok) :
    (callSigs (run c f (.setPlain p v) w).2.2).filter (fun s => !s.2.2) =
      (expectedFor w p (getVal w p) v).map
        (fun wt => (wt.cb, shown wt [typed w.trigger wt { name := p, old := getVal w p, new := v }], false)) := by
  cases f with
  | zero => simp [run] at hok
  | succ f =>
    -- facts about the two sub-calls: the dispatch loop (in the world where the value is stored) and the flush
    have hfl := flags c f (.dispatch (sortByPrec (regsFor w p)) { name := p, old := getVal w p, new := v }) { w with vals := w.vals.set p v, owned := p :: w.owned }
    have hsh := dispatch_shape c { name := p, old := getVal w p, new := v } (sortByPrec (regsFor w p)) f { w with vals := w.vals.set p v, owned := p :: w.owned } hb
    have hff := fun w2 => flush_sigs_not_direct (flush_only_flush_calls c f .flush w2 (Or.inl rfl))
    have hexp : expectedFor w p (getVal w p) v =
        (sortByPrec (regsFor w p)).filter (fun wt => passes w.trigger wt { name := p, old := getVal w p, new := v }) := rfl
    generalize hrun : run c (f+1) (.setPlain p v) w = out at hok ⊢
    simp only [run] at hrun
    split at hrun
    · subst hrun; simp at hok
    · split at hrun
      · rename_i hempty
        subst hrun
        have : regsFor w p = [] := List.isEmpty_iff.1 hempty
        simp [expectedFor, this, sortByPrec]
      · generalize hd : run c f (.dispatch (sortByPrec (regsFor w p)) { name := p, old := getVal w p, new := v })
            { w with vals := w.vals.set p v, owned := p :: w.owned } = d at hrun hfl hsh
        obtain ⟨r1, w2, o1⟩ := d
        simp only at hrun hfl hsh
        cases r1 with
        | oof => subst hrun; simp at hok
        | raised e =>
          have hb2 : w2.batch = false := by rw [(hfl (by simp)).1]; exact hb
          simp only [hb2, Bool.false_eq_true, if_false] at hrun
          subst hrun
          generalize run c f .flush w2 = fl at hok
          obtain ⟨r3, w3, o3⟩ := fl
          cases r3 <;> simp [Res.andThen] at hok
        | ok =>
          have hb2 : w2.batch = false := by rw [(hfl (by simp)).1]; exact hb
          simp only [hb2, Bool.false_eq_true, if_false] at hrun
          subst hrun
          simp only [callSigs_append, List.filter_append, hff w2, List.append_nil, hsh rfl, hexp]
          simp [List.filter_map, Function.comp_def]

/-- **C03 (Parameter attributes).**  A non-batched assignment to a watched Parameter attribute
(`obj.param.p.<slot> = v`) that returns normally has invoked — directly, before returning — every
watcher registered for that attribute of that parameter that passes the changes-only filter, once
each, in *registration* order, each with the single event carrying the attribute's old and new
value.  (`hnoreg`: a registered watcher has its (parameter, attribute) key recorded — an invariant of
every world built by `watch`, see `slotKeys_cover_registrations`.) -/
theorem slot_assignment_reaches_each_watcher_once (c : Cfg) (f : Nat) (w : World) (p k : Nat) (v : Int)
    (hb : w.batch = false) (hok : (run c f (.setSlot p k v) w).1 = .ok)
    (hnoreg : (p, k) ∉ w.slotKeys → regsForSlot w p k = []) :
    (callSigs (run c f (.setSlot p k v) w).2.2).filter (fun s => !s.2.2) =
      ((regsForSlot w p k).filter (fun wt => passes w.trigger wt { name := p, old := getSlot w p k, new := v, what := k })).map
        (fun wt => (wt.cb, shown wt [typed w.trigger wt { name := p, old := getSlot w p k, new := v, what := k }], false)) := by
  cases f with
  | zero => simp [run] at hok
  | succ f =>
    have hfl := flags c f (.dispatch (regsForSlot w p k) { name := p, old := getSlot w p k, new := v, what := k })
      { w with slotVals := setSlotVal w.slotVals p k v }
    have hsh := dispatch_shape c { name := p, old := getSlot w p k, new := v, what := k } (regsForSlot w p k) f
      { w with slotVals := setSlotVal w.slotVals p k v } hb
    have hff := fun w2 => flush_sigs_not_direct (flush_only_flush_calls c f .flush w2 (Or.inl rfl))
    generalize hrun : run c (f+1) (.setSlot p k v) w = out at hok ⊢
    simp only [run] at hrun
    split at hrun
    · -- no watcher was ever registered for this attribute: nothing is invoked, nothing expected
      rename_i hkey
      subst hrun
      have hreg : regsForSlot w p k = [] := hnoreg (by simpa using hkey)
      simp [hreg]
    · generalize hd : run c f (.dispatch (regsForSlot w p k) { name := p, old := getSlot w p k, new := v, what := k })
          { w with slotVals := setSlotVal w.slotVals p k v } = d at hrun hfl hsh
      obtain ⟨r1, w2, o1⟩ := d
      simp only at hrun hfl hsh
      cases r1 with
      | oof => subst hrun; simp at hok
      | raised e =>
        have hb2 : w2.batch = false := by rw [(hfl (by simp)).1]; exact hb
        simp only [hb2, Bool.false_eq_true, if_false] at hrun
        subst hrun
        generalize run c f .flush w2 = fl at hok
        obtain ⟨r3, w3, o3⟩ := fl
        cases r3 <;> simp [Res.andThen] at hok
      | ok =>
        have hb2 : w2.batch = false := by rw [(hfl (by simp)).1]; exact hb
        simp only [hb2, Bool.false_eq_true, if_false] at hrun
        subst hrun
        simp only [callSigs_append, List.filter_append, hff w2, List.append_nil, hsh rfl]
        simp [List.filter_map, Function.comp_def]

/-- registering a watcher records its (parameter, attribute) keys -/
theorem slotKeys_cover_registrations (c : Cfg) (f : Nat) (w : World) (wt : Watcher)
    (hinv : ∀ x ∈ w.regs, x.what ≠ 0 → ∀ q ∈ x.params, (q, x.what) ∈ w.slotKeys) :
    ∀ x ∈ (run c (f + 1) (.stmt (.watch wt)) w).2.1.regs, x.what ≠ 0 →
      ∀ q ∈ x.params, (q, x.what) ∈ (run c (f + 1) (.stmt (.watch wt)) w).2.1.slotKeys := by
  simp only [run]
  split
  · intro x hx hne q hq
    simp only [List.mem_append, List.mem_singleton] at hx
    rcases hx with hx | hx
    · have := hinv x hx hne q hq
      simp only
      split
      · exact this
      · exact List.mem_append_left _ this
    · subst hx
      simp only [hne, if_false]
      exact List.mem_append_right _ (List.mem_map.2 ⟨q, hq, rfl⟩)
  · exact hinv

/-- `obj.p = v` runs the ordinary setter `setPlain` for every parameter type; an Event parameter
additionally resets itself afterwards, which adds nothing to the log.  So the theorem above speaks
about every assignment. -/
theorem assignment_log_is_the_setter's (c : Cfg) (f : Nat) (w : World) (p : Nat) (v : Int)
    (h : (run c f (.setPlain p v) w).1 ≠ .oof) :
    (run c (f + 1) (.setAttr p v) w).2.2 = (run c f (.setPlain p v) w).2.2 ∧
    (run c (f + 1) (.setAttr p v) w).1 = (run c f (.setPlain p v) w).1 := by
  simp only [run]
  split
  · by_cases hv0 : c.valid p v = false
    · -- a rejected value: the Event setter rejects it up front, exactly as the ordinary setter would
      cases f with
      | zero => simp [run] at h
      | succ f => simp [run, hv0]
    · have hv : c.valid p v = true := by simpa using hv0
      simp only [hv, Bool.not_true, Bool.false_eq_true, if_false]
      generalize run c f (.setPlain p v) w = d
      obtain ⟨r1, w1, o1⟩ := d
      cases r1 <;> simp <;> split <;> simp
  · exact ⟨rfl, rfl⟩

/-- **C03 (the object already shows the new value), on the log.**  When the first watcher of the
dispatch order passes the filter, the first thing a non-batched assignment does is to invoke it, and the
values that callback sees (`snap`, what the harness's callbacks read from the object) are the values
before the assignment with `p` already holding `v`. -/
theorem first_watcher_sees_the_new_value (c : Cfg) (f : Nat) (w : World) (p : Nat) (v : Int)
    (wt : Watcher) (rest : List Watcher)
    (hv : c.valid p v = true) (hb : w.batch = false)
    (hws : sortByPrec (regsFor w p) = wt :: rest)
    (hp : passes w.trigger wt { name := p, old := getVal w p, new := v } = true)
    (h : (run c f (.setPlain p v) w).1 ≠ .oof) :
    ∃ evs ch r tail, (run c f (.setPlain p v) w).2.2 = .call wt.cb evs false (w.vals.set p v) ch r :: tail := by
  have hne : (regsFor w p).isEmpty = false := by
    cases hr : regsFor w p with
    | nil => rw [hr] at hws; simp [sortByPrec] at hws
    | cons a l => rfl
  cases f with
  | zero => simp [run] at h
  | succ f =>
    -- the dispatch loop starts in the world where the value is stored, and its log starts with the first callback
    have hd := dispatch_head_item c f { w with vals := w.vals.set p v, owned := p :: w.owned } wt rest { name := p, old := getVal w p, new := v } hb hp
    simp only [run, hv, Bool.not_true, Bool.false_eq_true, if_false, hne, hws] at h ⊢
    generalize run c f (.dispatch (wt :: rest) { name := p, old := getVal w p, new := v }) { w with vals := w.vals.set p v, owned := p :: w.owned } = d at h hd ⊢
    obtain ⟨r1, w2, o1⟩ := d
    cases r1 with
    | oof => simp at h
    | ok =>
      obtain ⟨evs, ch, r, tail, ho⟩ := hd (by simp)
      simp only at ho h ⊢
      subst ho
      split
      · exact ⟨evs, ch, r, tail, rfl⟩
      · exact ⟨evs, ch, r, _, List.cons_append⟩
    | raised e =>
      obtain ⟨evs, ch, r, tail, ho⟩ := hd (by simp)
      simp only at ho h ⊢
      subst ho
      split
      · exact ⟨evs, ch, r, tail, rfl⟩
      · exact ⟨evs, ch, r, _, List.cons_append⟩

/-- **C03 (the object already shows the new value).**  The value is installed before the first
watcher is considered: the dispatch loop of `p := v` starts in a world where `p` holds `v`. -/
theorem value_installed_before_dispatch (w : World) (p : Nat) (v : Int) (hp : p < w.vals.length) :
    getVal { w with vals := w.vals.set p v, owned := p :: w.owned } p = v := by
  simp [getVal, List.getD, hp]

/-- **C03 (skipped only when equal).**  Outside `trigger`, a watcher registered for `p` is left
out exactly when it is changes-only and the new value equals the old one - and is a value that
has an equality at all (numbers; a callable held by a Dynamic parameter never compares equal,
`opaqueBase`). -/
theorem skipped_iff_changes_only_and_equal (w : World) (p : Nat) (old v : Int) (wt : Watcher)
    (hreg : wt ∈ regsFor w p) (ht : w.trigger = false) :
    wt ∉ expectedFor w p old v ↔ (wt.onlychanged = true ∧ old = v ∧ v < opaqueBase) := by
  have hmem : wt ∈ sortByPrec (regsFor w p) := (List.Perm.mem_iff (sortByPrec_perm _)).2 hreg
  simp only [expectedFor, List.mem_filter, hmem, true_and, passes, same, ht, Bool.false_or, Bool.or_eq_true,
    Bool.not_eq_true', not_or, Bool.not_eq_false, Bool.and_eq_true, beq_iff_eq, decide_eq_true_eq]
  constructor
  · rintro ⟨h1, h2, h3⟩; exact ⟨h1, h2, h2 ▸ h3⟩
  · rintro ⟨h1, h2, h3⟩; exact ⟨h1, h2, h2 ▸ h3⟩

/-- **C03 (a genuine change is never suppressed).** -/
theorem genuine_change_reaches_every_watcher (w : World) (p : Nat) (old v : Int) (wt : Watcher)
    (hreg : wt ∈ regsFor w p) (hne : old ≠ v) : wt ∈ expectedFor w p old v := by
  have hmem : wt ∈ sortByPrec (regsFor w p) := (List.Perm.mem_iff (sortByPrec_perm _)).2 hreg
  simp [expectedFor, List.mem_filter, hmem, passes, same, hne]

/-- **C03 (objects without an equality are never filtered).**  Installing a callable - even the very
object already held - reaches every watcher, changes-only or not. -/
theorem opaque_value_reaches_every_watcher (w : World) (p : Nat) (old v : Int) (wt : Watcher)
    (hreg : wt ∈ regsFor w p) (hv : opaqueBase ≤ v) : wt ∈ expectedFor w p old v := by
  have hmem : wt ∈ sortByPrec (regsFor w p) := (List.Perm.mem_iff (sortByPrec_perm _)).2 hreg
  by_cases h : old = v
  · subst h
    have : ¬ old < opaqueBase := by omega
    simp [expectedFor, List.mem_filter, hmem, passes, same, this]
  · simp [expectedFor, List.mem_filter, hmem, passes, same, h]

/-- **C03 (order).**  The invocation order is ascending precedence … -/
theorem order_ascending_precedence (w : World) (p : Nat) (old v : Int) :
    (expectedFor w p old v).Pairwise (fun a b => a.precedence ≤ b.precedence) :=
  (sortByPrec_sorted _).sublist List.filter_sublist

/-- … and, among equal precedences, registration order. -/
theorem order_then_registration (w : World) (p : Nat) (old v : Int) (k : Int) :
    (expectedFor w p old v).filter (fun x => x.precedence = k) =
      ((regsFor w p).filter (fun x => x.precedence = k)).filter (fun wt => passes w.trigger wt { name := p, old := old, new := v }) := by
  unfold expectedFor
  rw [List.filter_filter, ← sortByPrec_stable k (regsFor w p), List.filter_filter]
  congr 1
  funext x
  exact Bool.and_comm _ _

/-- **C03 (exactly once).**  No Watcher object occurs twice among the expected invocations: registered
Watcher objects have pairwise distinct identities (`RegsOk`; `uid`, not the id of the registering
statement — a `watch` statement in a callback body registers a new object each time it runs). -/
theorem each_at_most_once (w : World) (p : Nat) (old v : Int) (h : RegsOk w) :
    ((expectedFor w p old v).map (·.uid)).Nodup := by
  have h0 : (w.regs.map (·.uid)).Nodup := h.1
  have h1 : ((regsFor w p).map (·.uid)).Nodup := (List.filter_sublist.map _).nodup h0
  have h2 : ((sortByPrec (regsFor w p)).map (·.uid)).Nodup := ((sortByPrec_perm _).map _).nodup_iff.2 h1
  exact (List.filter_sublist.map _).nodup h2

/-- … and that holds in every world a history can reach: whatever a call does (callbacks registering
and removing watchers at any depth, failing statements), the registered Watcher objects keep pairwise
distinct identities. -/
theorem watcher_identities_stay_distinct (c : Cfg) (f : Nat) (call : Call) (w : World)
    (h : (run c f call w).1 ≠ .oof) (hq : RegsOk w) : RegsOk (run c f call w).2.1 :=
  regsOk_preserved c f call w h hq

/-- the premise of the attribute theorem, for every reachable world: a registered attribute watcher has
its (parameter, attribute) key recorded, whatever happened since (`unwatch` leaves the key behind) -/
theorem attribute_keys_stay_recorded (c : Cfg) (f : Nat) (call : Call) (w : World)
    (h : (run c f call w).1 ≠ .oof) (hq : SlotInv w) : SlotInv (run c f call w).2.1 :=
  slotInv_preserved c f call w h hq

/-- **C03 (Parameter attributes, all histories).**  The attribute theorem with its premise discharged
by the invariant: in any world reachable from one that satisfies `SlotInv` (e.g. one without watchers). -/
theorem slot_assignment_reaches_each_watcher_once_inv (c : Cfg) (f : Nat) (w : World) (p k : Nat) (v : Int)
    (hk : k ≠ 0) (hinv : SlotInv w)
    (hb : w.batch = false) (hok : (run c f (.setSlot p k v) w).1 = .ok) :
    (callSigs (run c f (.setSlot p k v) w).2.2).filter (fun s => !s.2.2) =
      ((regsForSlot w p k).filter (fun wt => passes w.trigger wt { name := p, old := getSlot w p k, new := v, what := k })).map
        (fun wt => (wt.cb, shown wt [typed w.trigger wt { name := p, old := getSlot w p k, new := v, what := k }], false)) := by
  refine slot_assignment_reaches_each_watcher_once c f w p k v hb hok ?_
  intro hnot
  apply List.eq_nil_iff_forall_not_mem.2
  intro x hx
  simp only [regsForSlot, List.mem_filter, Bool.and_eq_true, beq_iff_eq] at hx
  obtain ⟨hxr, hxp, hxk⟩ := hx
  have hp : p ∈ x.params := by simpa using hxp
  exact hnot (hxk ▸ hinv x hxr (by rw [hxk]; exact hk) p hp)

/-- **C03 (no watcher is skipped when a callback raises).**  If the assignment does not return
normally because a callback raised, the watchers invoked directly so far are a *prefix* of the expected
ones: same order, nobody skipped, nobody invoked twice; the rest are not invoked. -/
theorem raised_assignment_invoked_a_prefix (c : Cfg) (ev : Ev) (ws : List Watcher) (f : Nat) (w : World)
    (hb : w.batch = false) (h : (run c f (.dispatch ws ev) w).1 ≠ .oof) :
    ∃ n, callSigs (run c f (.dispatch ws ev) w).2.2 =
      ((ws.filter (fun wt => passes w.trigger wt ev)).map
        (fun wt => (wt.cb, shown wt [typed w.trigger wt ev], false))).take n :=
  dispatch_prefix c ev ws f w hb h

/-- **C03 (a watcher removed before an assignment is not called for it).** -/
theorem unwatched_not_expected (c : Cfg) (f : Nat) (w : World) (wid : Nat) (p : Nat) (old v : Int) :
    ∀ wt ∈ expectedFor (run c (f + 1) (.stmt (.unwatch wid)) w).2.1 p old v, wt.id ≠ wid := by
  intro wt h
  simp only [run, expectedFor, List.mem_filter] at h
  have h1 := (List.Perm.mem_iff (sortByPrec_perm _)).1 h.1
  simp only [regsFor, List.mem_filter] at h1
  simpa using h1.1.2

/-- **C03 (a queued callback's own assignments are not dispatched while it is running).**  Running
a `queued=True` callback invokes exactly one callback — itself. -/
theorem queued_callback_defers_its_assignments (c : Cfg) (f : Nat) (w : World) (wt : Watcher)
    (evs : List TEv) (fl : Bool) (hq : wt.queued = true) (h : (run c f (.exec wt evs fl) w).1 ≠ .oof) :
    (run c f (.exec wt evs fl) w).2.1.ncalls = w.ncalls + 1 :=
  exec_queued_runs_nothing_else c f w wt evs fl hq h

/-- **C03 (depth-first).**  A non-queued callback invoked with the batching flag off runs its body
with the flag off, so every assignment in the body is itself a non-batched assignment to which
`assignment_reaches_each_watcher_once` applies — it is dispatched completely inside the callback,
before the outer loop moves on. -/
theorem nonqueued_callback_runs_body_unbatched (c : Cfg) (f : Nat) (w : World) (wt : Watcher)
    (evs : List TEv) (fl : Bool) (hq : wt.queued = false) (hb : w.batch = false) :
    run c (f + 1) (.exec wt evs fl) w =
      let r := run c f (.stmts (c.body wt.body)) { w with batch := false, ncalls := w.ncalls + 1 }
      (r.1, { r.2.1 with batch := false }, [.call wt.cb (shown wt evs) fl w.vals r.2.2 r.1]) := by
  simp [run, hq, hb]

/-! ### The changes-only test on arbitrary values (`Comparator.is_equal`) -/

/-- **C03 (a genuine change is never suppressed — any values).**  If the Comparator calls two
values equal (so a changes-only watcher is skipped), Python's `==` calls them equal: values that
differ are always reported.  Holds for every value, sets and arbitrary objects included. -/
theorem comparator_never_hides_a_change (a b : PV) (h : pyEq a b = false) : isEqual a b = false := by
  cases hh : isEqual a b with
  | false => rfl
  | true => rw [isEqual_sound a b hh] at h; cases h

/-- **C03 (… and always for equal numbers, strings, None, dates and containers of these).** -/
theorem comparator_recognises_equal_plain_values (a b : PV) (ha : plain a = true) (hb : plain b = true)
    (h : pyEq a b = true) : isEqual a b = true := isEqual_complete a b ha hb h

/-- the restriction to list/tuple/dict containers is needed: equal sets with different iteration
order, and one and the same arbitrary object, are reported as changed (an extra notification) -/
theorem comparator_incomplete_outside_plain :
    (pyEq (.set [.num 0, .num 8]) (.set [.num 8, .num 0]) = true ∧
      isEqual (.set [.num 0, .num 8]) (.set [.num 8, .num 0]) = false) ∧
    (pyEq (.other 1) (.other 1) = true ∧ isEqual (.other 1) (.other 1) = false) := by
  simp [pyEq, pySubset, pyMem, isEqual, isEqualList]

/-! ### Non-vacuity: a concrete world and run meeting the hypotheses -/

def exCfg : Cfg := { bounds := [(some 0, some 9), (none, none)], bodies := [[.set 0 5]] }
def exWorld : World :=
  { vals := [1, 2], batch := false, trigger := false, events := [], queued := [],
    regs := [mkW 0 [1] true false 1 0, mkW 1 [1, 0] false false 0 1, mkW 2 [0] true true 0 1] }

example : exWorld.batch = false ∧ (run exCfg 50 (.setPlain 1 7) exWorld).1 = .ok := by decide
-- watcher 1 (precedence 0) before watcher 0 (precedence 1); watcher 0's body assigns p0, dispatched depth-first
example : (callSigs (run exCfg 50 (.setPlain 1 7) exWorld).2.2).map (·.1) = [1, 0] := by decide
example : (expectedFor exWorld 1 2 2).map (·.id) = [1] := by decide   -- same value: changes-only watcher 0 skipped

-- the registration invariants hold of the example world (and hence, by the two preservation theorems, of
-- every world a history reaches from it)
example : RegsOk { exWorld with nreg := 3 } := by
  refine ⟨by decide, ?_⟩
  intro x hx
  simp [exWorld, mkW] at hx
  rcases hx with rfl | rfl | rfl <;> decide
-- a world with two attribute watchers (what = 1) of p0, the first of which removes itself: both are invoked
def exSlotCfg : Cfg := { bounds := [(none, none)], bodies := [[.unwatch 0], []] }
def exSlotWorld : World :=
  { vals := [0], batch := false, trigger := false, events := [], queued := [], nreg := 2, slotKeys := [(0, 1)],
    regs := [{ mkW 0 [0] false false 0 0 with what := 1 }, { mkW 1 [0] false false 0 1 with what := 1 }] }
example : SlotInv exSlotWorld := by
  intro x hx hne q hq
  simp [exSlotWorld, mkW] at hx
  rcases hx with rfl | rfl <;> simp_all [exSlotWorld]
example : (run exSlotCfg 50 (.setSlot 0 1 5) exSlotWorld).1 = .ok ∧
    (callSigs (run exSlotCfg 50 (.setSlot 0 1 5) exSlotWorld).2.2).map (·.1) = [0, 1] := by decide
-- the first watcher of the dispatch order (watcher 1) sees p1 = 7
example : sortByPrec (regsFor exWorld 1) = [mkW 1 [1, 0] false false 0 1, mkW 0 [1] true false 1 0] := by decide
example : ∃ evs ch r tail, (run exCfg 50 (.setPlain 1 7) exWorld).2.2 = .call 1 evs false [1, 7] ch r :: tail :=
  first_watcher_sees_the_new_value exCfg 50 exWorld 1 7 (mkW 1 [1, 0] false false 0 1) [mkW 0 [1] true false 1 0]
    (by decide) rfl (by decide) (by decide) (by decide)

example : plain (.dict [("k", .list [.num 1, .str "x", .none])]) = true ∧
    pyEq (.tuple [.num 1, .date 3]) (.tuple [.num 1, .date 3]) = true := by
  simp [pyEq, pyEqList, plain, plainList, plainMap]

end ParamVerif.Dispatch
