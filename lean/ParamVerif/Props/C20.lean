/-
C20 — `pprint` / `script_repr` output rebuilds an equal object.

  "For any Parameterized object whose parameter values are literals, containers
   of literals or nested Parameterized objects, evaluating the text produced by
   `.param.pprint()` or `script_repr()` constructs an object of the same class
   whose parameter values equal the original's (auto-generated names aside)."
   (all classes with literal-valued parameters and nested Parameterized values,
    custom constructor signatures with positional and keyword parameters x all
    valid states (strings needing escapes, negative numbers, inf, empty
    containers, explicit names))

Model: Repr/Model.lean — `pp classes q` is `.param.pprint()` (`q = false`) and
`script_repr()` (`q = true`, module-qualified) as token trees; `evalTT` is
Python's reading of such trees, `construct` what the constructor call does.
`ev` is the opaque atom reader with the explicit hypothesis
`∀ atom a of the object, ev (repr tokens of a) = some a`.
`sEqv classes r o`: same class, the name equal unless the original is of the generated form
(class name + at least five digits), every other
parameter value the same literal / Python-equal / `Comparator.is_equal`
(nested objects recursively).  `WF`: Repr/Spec.lean.
What the atom hypothesis carries: "strings needing escapes, negative numbers, inf" are atoms, so
that Python reads `repr(atom)` back as the atom is *assumed* here, and it is false of plain Python
for `inf`/`nan` (`repr(float('inf')) == 'inf'` is a NameError unless the names are bound); the
harness binds `inf`/`nan` in the evaluation namespace and checks the real `eval` on every case.
The reader accepts a class under its bare name and under its module-qualified name.
Only property theorems and non-vacuity examples live here.
-/
import ParamVerif.Repr.Lemmas

namespace ParamVerif.Repr

mutual
/-- **C20, proved part.**  For every well-formed literal-valued object (nested objects, lists,
tuples — singletons included —, sets, dicts, any escapes/negative/non-finite atoms the atom reader
inverts, explicit or auto-generated names, positional arguments, keyword arguments with signature
defaults equal to or different from the Parameter defaults, `**params`, any precedences) both
printers produce a text that Python reads back into an equivalent object. -/
theorem eval_pp_roundtrip_partial (classes : Classes) (ev : List String → Option Atom) :
    ∀ (o : Lit) (q : Bool), WF classes o → (∀ a ∈ atomsOf o, ev a.toks = some a) →
    ∃ tt r, pp classes q o = .ok tt ∧ evalTT classes ev tt = some r ∧ sEqv classes r o = true
  | .atom a, q, hw, he => by
    have hk : (a.kind == AKind.auto) = false := by simpa [WF] using hw
    exact ⟨.atom a.toks, .atom a, by simp [pp, hk, pure, Except.pure],
      by simp [evalTT, he a (by simp [atomsOf])], by simp [sEqv]⟩
  | .list xs, q, hw, he => by
    obtain ⟨tts, rs, h1, h2, h3⟩ := eval_ppL_roundtrip classes ev xs false (by simpa [WF] using hw)
      (by simpa [atomsOf] using he)
    exact ⟨.brack tts, .list rs, by simp [pp, h1, bind, Except.bind, pure, Except.pure],
      by simp [evalTT, h2], by simp [sEqv, h3]⟩
  | .tuple xs, q, hw, he => by
    obtain ⟨tts, rs, h1, h2, h3⟩ := eval_ppL_roundtrip classes ev xs false (by simpa [WF] using hw)
      (by simpa [atomsOf] using he)
    refine ⟨.paren tts (xs.length == 1), .tuple rs, by simp [pp, h1, bind, Except.bind, pure, Except.pure],
      ?_, by simp [sEqv, h3]⟩
    have hl := sEqvL_length classes rs xs h3
    simp only [evalTT, h2]
    match rs, hl with
    | [], _ => rfl
    | [x], hl => simp [← hl]
    | x :: y :: zs, _ => rfl
  | .set xs, q, hw, he => by
    obtain ⟨tt, h1, h2⟩ := rp_exact classes ev (.set xs) rfl hw he
    exact ⟨tt, .set xs, by simpa [pp] using h1, h2, sEqv_refl_noObj classes _ rfl⟩
  | .dict ks vs, q, hw, he => by
    have hn : noObj (.dict ks vs) = true := by
      simp only [WF] at hw
      simpa [noObj] using hw.2.2.2
    obtain ⟨tt, h1, h2⟩ := rp_exact classes ev (.dict ks vs) hn hw he
    exact ⟨tt, .dict ks vs, by simpa [pp] using h1, h2, sEqv_refl_noObj classes _ hn⟩
  | .obj c vals, q, hw, he => by
    simp only [WF] at hw
    obtain ⟨cls, hc, hok, hlen, hname, hwl⟩ := hw
    obtain ⟨tvs, rs, h1, h2, h3⟩ := eval_ppL_roundtrip classes ev vals q hwl (by simpa [atomsOf] using he)
    obtain ⟨tt, r, h4, h5, h6⟩ := obj_roundtrip classes ev q c cls vals tvs rs hc hok hlen hname h2 h3
    exact ⟨tt, r, by simp [pp, h1, bind, Except.bind, h4], h5, h6⟩
theorem eval_ppL_roundtrip (classes : Classes) (ev : List String → Option Atom) :
    ∀ (xs : List Lit) (q : Bool), WFL classes xs → (∀ a ∈ atomsOfL xs, ev a.toks = some a) →
    ∃ tts rs, ppL classes q xs = .ok tts ∧ evalL classes ev tts = some rs ∧ sEqvL classes rs xs = true
  | [], _, _, _ => ⟨[], [], rfl, rfl, rfl⟩
  | x :: xs, q, hw, he => by
    simp only [WFL] at hw
    obtain ⟨t, r, h1, h2, h3⟩ := eval_pp_roundtrip_partial classes ev x q hw.1
      (fun a ha => he a (by simp [atomsOfL, ha]))
    obtain ⟨ts, rs, h4, h5, h6⟩ := eval_ppL_roundtrip classes ev xs q hw.2
      (fun a ha => he a (by simp [atomsOfL, ha]))
    exact ⟨t :: ts, r :: rs, by simp [ppL, h1, h4, bind, Except.bind, pure, Except.pure],
      by simp [evalL, h2, h5], by simp [sEqvL, h3, h6]⟩
end

/-- **Obj-free literals are read back exactly**, whichever printer path they take (`repr` for
dicts and sets, `container_script_repr` for lists and tuples): in particular `(x,)` keeps its
comma, `()` and `set()` are what they look like, negative numbers and escapes are the atom
reader's business only. -/
theorem literal_roundtrip_exact (classes : Classes) (ev : List String → Option Atom) (o : Lit)
    (hn : noObj o = true) (hw : WF classes o) (he : ∀ a ∈ atomsOf o, ev a.toks = some a) :
    ∃ tt, rp classes o = .ok tt ∧ evalTT classes ev tt = some o :=
  rp_exact classes ev o hn hw he

/-- a one-element tuple is printed with its trailing comma and read back as a tuple, not as its
element (the defect repaired by commit 3526709) -/
theorem singleton_tuple_roundtrip (classes : Classes) (ev : List String → Option Atom) (a : Atom)
    (hk : a.kind ≠ .auto) (he : ev a.toks = some a) :
    pp classes false (.tuple [.atom a]) = .ok (.paren [.atom a.toks] true) ∧
    evalTT classes ev (.paren [.atom a.toks] true) = some (.tuple [.atom a]) ∧
    evalTT classes ev (.paren [.atom a.toks] false) = some (.atom a) := by
  have : (a.kind == AKind.auto) = false := by simpa using hk
  refine ⟨by simp [pp, ppL, this, bind, Except.bind, pure, Except.pure], ?_, ?_⟩ <;>
    simp [evalTT, evalL, he]

/-! ## The full statement and its refutation -/

/-- The full statement: the same without the restrictions on the constructor signature that `WF`
imposes through `SigOK` — the class is only required to be found under its name, to have distinct
parameter names, and every constructor argument to be a parameter. -/
def C20_full : Prop :=
  ∀ (classes : Classes) (ev : List String → Option Atom) (c : Nat) (cls : Cls) (vals : List Lit) (q : Bool),
    classes[c]? = some cls → classes.findIdx? (·.name == cls.name) = some c →
    classes.find? (·.name == cls.name) = some cls → (cls.params.map (·.name)).Nodup →
    (∀ a ∈ cls.sig.args ++ cls.sig.kwonly.map (·.1), a ∈ cls.params.map (·.name)) →
    vals.length = cls.params.length → noObjL vals = true → WFL classes vals →
    (∀ a ∈ atomsOfL vals, ev a.toks = some a) →
    ∃ tt r, pp classes q (.obj c vals) = .ok tt ∧ evalTT classes ev tt = some r ∧
      sEqv classes r (.obj c vals) = true

/-- witness: `class KO(P): s = param.String('x'); def __init__(self, *, s='zz', **params):
super().__init__(s=s, **params)`, object `KO(s='x')` (auto-generated name) -/
def aStr (s : String) : Atom := { kind := .str, toks := ["'" ++ s ++ "'"], eq := "s" ++ s }
def koCls : Cls :=
  { name := "KO", qual := ["m", "."],
    params := [{ name := "name", default := .atom (aStr "KO"), precedence := none },
               { name := "s", default := .atom (aStr "x"), precedence := none }],
    sig := { args := [], defaults := [], kwonly := [("s", some (.atom (aStr "zz")))], varargs := none, varkw := true } }
def koVals : List Lit := [.atom (aStr "KO00012"), .atom (aStr "x")]
def koEv (toks : List String) : Option Atom :=
  [aStr "KO00012", aStr "x", aStr "zz", aStr "KO"].find? (fun a => a.toks == toks)

/-- **The full statement is false of the code**: keyword-only constructor arguments are invisible
to `_pprint` (it reads `spec.args`/`spec.defaults` only).  `KO(s='x')` prints as `KO()`, which
evaluates to `s='zz'`. -/
theorem C20_full_refuted : ¬ C20_full := by  -- keyword-only argument
  intro h
  obtain ⟨tt, r, h1, h2, h3⟩ := h [koCls] koEv 0 koCls koVals false rfl rfl rfl (by decide) (by decide) rfl rfl
    (by simp [koVals, WFL, WF, aStr]) (by decide)
  -- the whole round trip as one Boolean, evaluated by the kernel
  have hcheck : (match pp [koCls] false (.obj 0 koVals) with
      | .ok tt => (match evalTT [koCls] koEv tt with
        | some r => sEqv [koCls] r (.obj 0 koVals)
        | none => false)
      | .error _ => false) = true := by
    rw [h1]; simp only [h2, h3]
  revert hcheck
  decide +kernel

/-- the refutation scheme: the whole round trip of one witness evaluated by the kernel as a Boolean -/
def roundtripB (classes : Classes) (ev : List String → Option Atom) (q : Bool) (o : Lit) : Bool :=
  match pp classes q o with
  | .ok tt => (match evalTT classes ev tt with
    | some r => sEqv classes r o
    | none => false)
  | .error _ => false

theorem roundtripB_of_exists (classes : Classes) (ev : List String → Option Atom) (q : Bool) (o : Lit)
    (h : ∃ tt r, pp classes q o = .ok tt ∧ evalTT classes ev tt = some r ∧ sEqv classes r o = true) :
    roundtripB classes ev q o = true := by
  obtain ⟨tt, r, h1, h2, h3⟩ := h
  simp only [roundtripB, h1, h2, h3]

def mkCls (name : String) (sdefault : String) (sig : Sig) : Cls :=
  { name := name, qual := ["m", "."],
    params := [{ name := "name", default := .atom (aStr name), precedence := none },
               { name := "s", default := .atom (aStr sdefault), precedence := none }],
    sig := sig }
def tableEv (l : List Atom) (toks : List String) : Option Atom := l.find? (fun a => a.toks == toks)

/-- **second witness**: `def __init__(self, *args, **params)`; `VA(s='q')` prints as
`VA(s='q', **args)`: the name `args` is not bound (`_pprint` appends `'**%s' % spec.varargs`) -/
theorem C20_full_refuted_varargs : ¬ C20_full := by
  intro h
  have := roundtripB_of_exists _ _ _ _ (h
    [mkCls "VA" "x" { args := [], defaults := [], kwonly := [], varargs := some "args", varkw := true }]
    (tableEv [aStr "VA00012", aStr "q"]) 0 _ [.atom (aStr "VA00012"), .atom (aStr "q")] false rfl rfl rfl
    (by decide) (by decide) rfl rfl (by simp [WFL, WF, aStr]) (by decide))
  revert this
  decide +kernel

/-- **third witness**: an explicit name equal to the class name (`In(name='In')` prints as `In()`:
the class-level default of `name` is the class name, so the name counts as unchanged) -/
theorem C20_full_refuted_class_name : ¬ C20_full := by
  intro h
  have := roundtripB_of_exists _ _ _ _ (h
    [mkCls "In" "x" { args := [], defaults := [], kwonly := [], varargs := none, varkw := true }]
    (tableEv [aStr "In", aStr "q"]) 0 _ [.atom (aStr "In"), .atom (aStr "q")] false rfl rfl rfl
    (by decide) (by decide) rfl rfl (by simp [WFL, WF, aStr]) (by decide))
  revert this
  decide +kernel

/-- **fourth witness**: an explicit name made of the class name and a few digits (`In(name='In7')`
prints as `In()`: `_pprint` drops every name matching `<Class>[0-9]+`, not only generated ones) -/
theorem C20_full_refuted_short_digit_name : ¬ C20_full := by
  intro h
  have := roundtripB_of_exists _ _ _ _ (h
    [mkCls "In" "x" { args := [], defaults := [], kwonly := [], varargs := none, varkw := true }]
    (tableEv [aStr "In7", aStr "q"]) 0 _ [.atom (aStr "In7"), .atom (aStr "q")] false rfl rfl rfl
    (by decide) (by decide) rfl rfl (by simp [WFL, WF, aStr]) (by decide))
  revert this
  decide +kernel

/-- **fifth witness**: `name` as a required positional argument holding a name of the generated
form (`def __init__(self, name, s, **params)`; `PN('PN00012', 'q')` prints as `PN('q')`) -/
theorem C20_full_refuted_positional_name : ¬ C20_full := by
  intro h
  have := roundtripB_of_exists _ _ _ _ (h
    [mkCls "PN" "x" { args := ["name", "s"], defaults := [], kwonly := [], varargs := none, varkw := true }]
    (tableEv [aStr "PN00012", aStr "q"]) 0 _ [.atom (aStr "PN00012"), .atom (aStr "q")] false rfl rfl rfl
    (by decide) (by decide) rfl rfl (by simp [WFL, WF, aStr]) (by decide))
  revert this
  decide +kernel

/-! ## Non-vacuity -/

def inCls : Cls :=
  { name := "In", qual := ["m", "."],
    params := [{ name := "name", default := .atom (aStr "In"), precedence := none },
               { name := "q", default := .atom { kind := .num, toks := ["0"], eq := "0/1" }, precedence := none }],
    sig := { args := [], defaults := [], kwonly := [], varargs := none, varkw := true } }
def bCls : Cls :=
  { name := "B", qual := ["m", "."],
    params := [{ name := "name", default := .atom (aStr "B"), precedence := none },
               { name := "n", default := .atom { kind := .num, toks := ["1.0"], eq := "1/1" }, precedence := some 2 },
               { name := "s", default := .atom (aStr "x"), precedence := some (-1) },
               { name := "l", default := .list [], precedence := none }],
    sig := { args := ["n", "s"], defaults := [.atom (aStr "zz")], kwonly := [], varargs := none, varkw := true } }
def exClasses : Classes := [inCls, bCls]
def aNum (t e : String) : Atom := { kind := .num, toks := [t], eq := e }
/-- `B(-5, 'q', l=[(2,), In(q=3)], name='foo')` -/
def exObj : Lit :=
  .obj 1 [.atom (aStr "foo"), .atom { kind := .num, toks := ["-", "5"], eq := "-5/1" }, .atom (aStr "q"),
          .list [.tuple [.atom (aNum "2" "2/1")], .obj 0 [.atom (aStr "In00003"), .atom (aNum "3" "3/1")]]]
def exEv (toks : List String) : Option Atom := (atomsOf exObj).find? (fun a => a.toks == toks)

/-- the hypotheses of the theorem hold for a custom-signature object with a nested object -/
example : WF exClasses exObj ∧ (∀ a ∈ atomsOf exObj, exEv a.toks = some a) := by
  refine ⟨?_, by decide⟩
  simp [exObj, WF, WFL, exClasses, ClsOK, SigOK, NameOK, bCls, inCls, aStr, aNum]
  refine ⟨by decide, ?_, by decide, ?_⟩
  · intro p v h hn
    rcases h with ⟨rfl, rfl⟩ | ⟨rfl, rfl⟩ | ⟨rfl, rfl⟩ | ⟨rfl, rfl⟩ <;> simp at hn
    exact ⟨_, rfl, rfl, Or.inr ⟨by decide +kernel, by decide +kernel⟩⟩
  · intro p v h hn
    rcases h with ⟨rfl, rfl⟩ | ⟨rfl, rfl⟩ <;> simp at hn
    exact ⟨_, rfl, rfl, Or.inl (by decide +kernel)⟩

/-- and this is what the two printers produce for it -/
example : (pp exClasses false exObj).toOption.map flatten =
    some ["B", "(", "-", "5", ",", "s", "=", "'q'", ",", "l", "=", "[", "(", "2", ",", ")", ",", "In", "(", "q", "=",
          "3", ")", "]", ",", "name", "=", "'foo'", ")"] := by
  decide +kernel

end ParamVerif.Repr
