/-
C06 — `depends(watch=True)` methods run exactly once per change of a dependency.

  "A method decorated with `param.depends(..., watch=True)` is invoked exactly once for each
   assignment, `update` or batch that changes at least one parameter it depends on - directly,
   through a Parameter attribute spec such as 'p:bounds', or through another method it names as a
   dependency - and never otherwise (change judged as for changes-only watchers); `on_init=True`
   adds exactly one call at construction. A subclass that overrides the method replaces, never
   duplicates, the inherited registration (an undecorated override is not called automatically),
   and the same holds for functions decorated with Parameter-object dependencies."

Model: Depends/ClassTable.lean (class table built by the metaclass, as written),
Depends/Instance.lean (installation + compact dispatcher).  Helper lemmas: Depends/Lemmas.lean,
Depends/InstanceLemmas.lean.  The specification's `expectedCalls` / `changedKeys` are those of the
oracle (Depends/Spec.lean).

THREE parts of the statement are false of the code (and of the model, which mirrors it); each is
kept as a `def C06_full_*`, refuted from a concrete witness that the check replays on the real
library (corpus/C06/*.json), and proved in a `_partial` form with the excluded class explicit:
  (a) an inherited table entry keeps the dependency list / on_init computed in the ancestor;
  (b) a method depending on a value AND a Parameter attribute has two watchers: one batch calls it twice;
  (c) a function decorated with the same Parameter twice is registered twice for it.
Not modelled: dotted dependencies (C07), async/generator methods, `param.trigger`, methods that
assign parameters themselves (cascades are C03/C04).
-/
import ParamVerif.Depends.InstanceLemmas

namespace ParamVerif.Depends

/-! ## The class table -/

/-- **C06 (replaces, never duplicates).**  For every hierarchy, whatever the bases, overrides and
MRO, the table of a well-formed class registers no method name twice. -/
theorem table_one_entry_per_method (h : Hierarchy) (fuel : Nat) (c : Cls) (t : List Entry)
    (hwf : wfClassB h c = true) (ht : dependsTable h fuel c = .ok t) : (t.map (·.name)).Nodup := by
  obtain ⟨ts, d, _, hd, htab⟩ := dependsTable_spec ht
  obtain ⟨own, anc, hown, _, rfl⟩ := tableOf_spec htab
  obtain ⟨d', rest, hd', _, _, hnd⟩ := wfClassB_spec hwf
  rw [hd] at hd'
  simp only [Option.some.injEq] at hd'
  subst hd'
  have hownN : ((own ++ ([] : List Entry)).map (·.name)).Nodup := by
    rw [List.append_nil, ownEntries_names h c fuel d.methods own hown]
    exact List.Nodup.sublist (List.Sublist.map (fun m : Method => m.name) List.filter_sublist) hnd
  have := foldl_inherit_nodup h c own anc.flatten [] hownN
  rw [List.map_append] at this ⊢
  exact (List.perm_append_comm.nodup_iff).1 this

/-- **C06 (registered iff the resolved method watches).**  A method name is in the table of a class
exactly when the function that class resolves for the name (first definition along the MRO) is
decorated with a truthy `watch`: an undecorated or `watch=False` override removes the registration,
a decorated one keeps exactly one. -/
theorem entry_iff_resolved_method_watches (h : Hierarchy) (fuel : Nat) (c : Cls) (t : List Entry)
    (hwf : wfClassB h c = true) (ht : dependsTable h fuel c = .ok t) (n : Name) :
    n ∈ t.map (·.name) ↔ resolvedWatches h c n = true := by
  obtain ⟨ts, d, hts, hd, htab⟩ := dependsTable_spec ht
  obtain ⟨own, anc, hown, hanc, rfl⟩ := tableOf_spec htab
  obtain ⟨d', rest, hd', hmro, hlt, hnd⟩ := wfClassB_spec hwf
  rw [hd] at hd'
  simp only [Option.some.injEq] at hd'
  subst hd'
  have hmroOf : mroOf h c = c :: rest := by simp [mroOf, hd, hmro]
  -- a watch-decorated own function of a class is what that class resolves, and it is in the own entries
  have ownWatch : ∀ (m : Method), m ∈ d.methods → resolveMethod h c m.name = some (c, m) := by
    intro m hm
    simp [resolveMethod, hmroOf, resolveIn, ownMethod, hd, find_name_of_nodup hnd hm]
  constructor
  · intro hn
    obtain ⟨e, he, rfl⟩ := List.mem_map.1 hn
    rcases List.mem_append.1 he with h1 | h1
    · rcases foldl_inherit_mem h c own _ _ e h1 with h2 | ⟨_, h2⟩
      · cases h2
      · exact h2
    · obtain ⟨_, m, di, hm, hdi, hw, hname, _⟩ := ownEntries_mem h c fuel d.methods own hown e h1
      rw [← hname]
      simp [resolvedWatches, ownWatch m hm, hdi, hw]
  · intro hw
    unfold resolvedWatches at hw
    cases hr : resolveMethod h c n with
    | none => rw [hr] at hw; simp at hw
    | some km =>
      obtain ⟨k, m⟩ := km
      rw [hr] at hw
      simp only at hw
      cases hdi : m.dinfo with
      | none => rw [hdi] at hw; simp at hw
      | some di =>
        rw [hdi] at hw
        simp only at hw
        have hwd : watchDecorated m = true := by simp [watchDecorated, hdi, hw]
        unfold resolveMethod at hr
        rw [hmroOf] at hr
        obtain ⟨hk, hom⟩ := resolveIn_some hr
        obtain ⟨dk, hdk, hmk, hmn⟩ := ownMethod_some hom
        rcases List.mem_cons.1 hk with rfl | hk'
        · -- defined in the class itself: an own entry
          rw [hd] at hdk
          simp only [Option.some.injEq] at hdk
          subst hdk
          have : n ∈ own.map (·.name) := by
            rw [ownEntries_names h k fuel d.methods own hown]
            exact List.mem_map.2 ⟨m, List.mem_filter.2 ⟨hmk, hwd⟩, hmn⟩
          rw [List.map_append]
          exact List.mem_append_right _ this
        · -- defined in an ancestor: that ancestor's table has an own entry for it
          have hkc : k < c := hlt k hk'
          obtain ⟨_, hks⟩ := tablesUpTo_spec h fuel (c + 1) ts hts
          obtain ⟨dk', tk, hdk', htk, htabk⟩ := hks k (Nat.lt_succ_of_lt hkc)
          rw [hdk] at hdk'
          simp only [Option.some.injEq] at hdk'
          subst hdk'
          obtain ⟨ownk, _, hownk, _, htkeq⟩ := tableOf_spec htabk
          have hnk : n ∈ ownk.map (·.name) := by
            rw [ownEntries_names h k fuel dk.methods ownk hownk]
            exact List.mem_map.2 ⟨m, List.mem_filter.2 ⟨hmk, hwd⟩, hmn⟩
          obtain ⟨dep, hdep, hdn⟩ := List.mem_map.1 hnk
          have hdeptk : dep ∈ tk := by rw [htkeq]; exact List.mem_append_right _ hdep
          obtain ⟨ta, hta, hta'⟩ := ancestorTables_of_mem hanc k (by rw [hmro]; exact hk')
          rw [List.getElem?_take_of_lt hkc, htk] at hta'
          simp only [Option.some.injEq] at hta'
          subst hta'
          have hflat : dep ∈ anc.flatten := List.mem_flatten.2 ⟨tk, hta, hdeptk⟩
          have hres : resolvedWatches h c dep.name = true := by
            rw [hdn]
            simp [resolvedWatches, resolveMethod, hmroOf, hr, hdi, hw]
          have := foldl_inherit_covers h c own anc.flatten [] dep hflat hres
          rw [hdn] at this
          rw [List.map_append] at this ⊢
          rcases List.mem_append.1 this with h1 | h1
          · exact List.mem_append_right _ h1
          · exact List.mem_append_left _ h1

/-- every entry of a table is the own entry of its origin class; in particular all its `PInfo`s
carry that one class (so instantiation groups them by `what` only) -/
theorem table_entries_from_origin (h : Hierarchy) (fuel : Nat) (c : Cls) (t : List Entry)
    (ht : dependsTable h fuel c = .ok t) : ∀ e ∈ t, EntryOf h fuel e ∧ ∀ d ∈ e.deps, d.cls = e.origin := by
  intro e he
  obtain ⟨ts, d, hts, _, _⟩ := dependsTable_spec ht
  have hmem : t ∈ ts := by
    unfold dependsTable at ht
    rw [hts] at ht
    simp only at ht
    split at ht
    · rename_i t' ht'
      simp only [Except.ok.injEq] at ht
      subst ht
      exact List.mem_of_getElem? ht'
    · simp at ht
  have hE := tables_entryOf h fuel (c + 1) ts hts t hmem e he
  refine ⟨hE, ?_⟩
  obtain ⟨_, _, di, _, _, _, _, _, _, _, hdeps⟩ := hE
  exact depsOn_cls h e.origin fuel (some di) e.deps hdeps

/-- **Full statement (a): the registered dependencies (and `on_init`) are those of the method the
class resolves** — false of the code. -/
def C06_full_deps : Prop :=
  ∀ (h : Hierarchy) (fuel : Nat) (c : Cls) (t : List Entry), wfMroB h = true → dependsTable h fuel c = .ok t →
    ∀ e ∈ t, ∃ ds, methodDependencies h fuel c e.name = .ok ds ∧ ds.map keyOf = e.deps.map keyOf

/-- witness (design probe p29): `A: p, r; @depends('p') m; @depends('m') n` and `F(A): @depends('r') m` -/
def witnessA : Hierarchy := [
  ⟨[], [0], ["p", "r"], [⟨"m", some ⟨[⟨"p", "value"⟩], true, false, false⟩⟩,
                          ⟨"n", some ⟨[⟨"m", "value"⟩], true, false, false⟩⟩]⟩,
  ⟨[0], [1, 0], [], [⟨"m", some ⟨[⟨"r", "value"⟩], true, false, false⟩⟩]⟩]

theorem C06_full_deps_refuted : ¬ C06_full_deps := by
  intro H
  have htab : dependsTable witnessA 8 1 = .ok [⟨"n", false, false, [⟨0, "p", "value"⟩], 0⟩,
      ⟨"m", false, false, [⟨1, "r", "value"⟩], 1⟩] := by rfl
  obtain ⟨ds, h1, h2⟩ := H witnessA 8 1 _ (by decide) htab ⟨"n", false, false, [⟨0, "p", "value"⟩], 0⟩ (by simp)
  have hm : methodDependencies witnessA 8 1 "n" = .ok [⟨1, "r", "value"⟩] := by rfl
  rw [hm] at h1
  simp only [Except.ok.injEq] at h1
  subst h1
  revert h2
  decide

/-- **C06 (a), partial: the registered dependencies are those of the resolved method** whenever the
entry was created by the class that defines the method the new class resolves (`k = e.origin`; fails in
a diamond whose nearest ancestor's table still holds an older entry) and resolving on the origin and
on the new class visits the same things (`SameDeps`: no method reached through method-name
dependencies is overridden in between, no Parameter added under an undecorated dependency).
Then `method_dependencies` and the table agree, and `on_init` / `queued` are the decorator's. -/
theorem entry_deps_are_deps_of_resolved_method_partial (h : Hierarchy) (fuel : Nat) (c : Cls) (t : List Entry)
    (hwf : wfMroB h = true) (ht : dependsTable h fuel c = .ok t) (e : Entry) (he : e ∈ t)
    (k : Cls) (m : Method) (hres : resolveMethod h c e.name = some (k, m)) (hk : k = e.origin)
    (hsame : SameDeps h e.origin c fuel m.dinfo) :
    ∃ ds di, methodDependencies h fuel c e.name = .ok ds ∧ ds.map keyOf = e.deps.map keyOf ∧
      m.dinfo = some di ∧ di.watch = true ∧ e.onInit = di.onInit ∧ e.queued = di.queued := by
  obtain ⟨⟨da, ma, di, hda, hma, hdi, hw, hname, hq, hoi, hdeps⟩, _⟩ := table_entries_from_origin h fuel c t ht e he
  subst hk
  -- the resolved function is the origin's own function of that name
  obtain ⟨_, hom⟩ := resolveIn_some hres
  have hlt : e.origin < h.length := by
    rcases Nat.lt_or_ge e.origin h.length with h1 | h1
    · exact h1
    · rw [List.getElem?_eq_none h1] at hda; cases hda
  obtain ⟨d', _, hd', _, _, hnd⟩ := wfClassB_spec (wfMroB_class hwf hlt)
  rw [hda] at hd'
  simp only [Option.some.injEq] at hd'
  subst hd'
  have hfind : ownMethod h e.origin e.name = some ma := by
    simp only [ownMethod, hda]
    rw [← hname]
    exact find_name_of_nodup hnd hma
  rw [hfind] at hom
  simp only [Option.some.injEq] at hom
  subst hom
  have hcong := depsOn_sameDeps h e.origin c fuel ma.dinfo hsame
  rw [hdi, hdeps] at hcong
  simp only [keysOfRes] at hcong
  cases hc : depsOn h c fuel (some di) with
  | error er => rw [hc] at hcong; simp at hcong
  | ok ds =>
    rw [hc] at hcong
    simp only [Except.ok.injEq] at hcong
    refine ⟨ds, di, ?_, hcong.symm, hdi, hw, hoi, hq⟩
    simp [methodDependencies, hres, hdi, hc]

/-- **C06 (a), own entries are exact**: for an entry created by the class itself nothing is assumed —
the registered dependency list is literally what `method_dependencies` computes. -/
theorem own_entry_deps_exact (h : Hierarchy) (fuel : Nat) (c : Cls) (t : List Entry)
    (hwf : wfMroB h = true) (hc : c < h.length) (ht : dependsTable h fuel c = .ok t) (e : Entry) (he : e ∈ t)
    (ho : e.origin = c) : methodDependencies h fuel c e.name = .ok e.deps := by
  obtain ⟨⟨da, ma, di, hda, hma, hdi, _, hname, _, _, hdeps⟩, _⟩ := table_entries_from_origin h fuel c t ht e he
  obtain ⟨d', rest, hd', hmro, _, hnd⟩ := wfClassB_spec (wfMroB_class hwf hc)
  rw [ho] at hda hdeps
  rw [hda] at hd'
  simp only [Option.some.injEq] at hd'
  subst hd'
  have : resolveMethod h c e.name = some (c, ma) := by
    rw [← hname]
    simp [resolveMethod, mroOf, hda, hmro, resolveIn, ownMethod, find_name_of_nodup hnd hma]
  simp [methodDependencies, this, hdi, hdeps]

/-! ## Instances: how often a registered method runs -/

/-- **C06 (exactly once per assignment iff a dependency changed).**  On an idle instance, after
`obj.p = v` or `obj.param.p.<slot> = v`, the invocation log has gained exactly one call of the
method if the assigned key is among the entry's dependencies and the value differs from the one
held before, and none otherwise; and the instance is idle again. -/
theorem method_called_exactly_once_per_set_iff_a_dependency_changed (table : List Entry) (w w' : IWorld) (e : Entry)
    (k : Key) (v : Int) (hW : InstanceWorld table w) (hn : (table.map (·.name)).Nodup) (he : e ∈ table)
    (hcls : ∀ d ∈ e.deps, d.cls = e.origin) (hr : runOp w (.simple (.set k v)) = (true, w')) :
    w'.log.count e.name = w.log.count e.name + expectedCalls (e.deps.map keyOf) (changedKeys w.vals [(k, v)]).1 ∧
    InstanceWorld table w' := by
  have := instance_calls table w w' e (.simple (.set k v)) hW hn he hcls hr (by
    intro k1 h1 k2 h2 _ _
    have hs := changedKeys_sub [(k, v)] w.vals
    simp only [opAssignments, simpleAssignments] at h1 h2
    have e1 := hs k1 h1
    have e2 := hs k2 h2
    simp only [List.map_cons, List.map_nil, List.mem_singleton] at e1 e2
    rw [e1, e2])
  exact ⟨this.1, this.2.1⟩

/-- **C06 (exactly once per `update` iff a dependency changed).**  `obj.param.update(k1=v1, …)`:
one call if at least one of the keys is a (value) dependency of the method and was assigned a
different value, none otherwise — however many of its dependencies changed. -/
theorem method_called_exactly_once_per_update_iff_a_dependency_changed (table : List Entry) (w w' : IWorld) (e : Entry)
    (kvs : List (Name × Int)) (hW : InstanceWorld table w) (hn : (table.map (·.name)).Nodup) (he : e ∈ table)
    (hcls : ∀ d ∈ e.deps, d.cls = e.origin) (hr : runOp w (.simple (.update kvs)) = (true, w')) :
    w'.log.count e.name = w.log.count e.name +
      expectedCalls (e.deps.map keyOf) (changedKeys w.vals (opAssignments (.simple (.update kvs)))).1 ∧
    InstanceWorld table w' := by
  have := instance_calls table w w' e (.simple (.update kvs)) hW hn he hcls hr (by
    intro k1 h1 k2 h2 _ _
    have e1 := changedKeys_sub _ w.vals k1 h1
    have e2 := changedKeys_sub _ w.vals k2 h2
    simp only [opAssignments, simpleAssignments, List.map_map, List.mem_map, Function.comp] at e1 e2
    obtain ⟨_, _, rfl⟩ := e1
    obtain ⟨_, _, rfl⟩ := e2
    rfl)
  exact ⟨this.1, this.2.1⟩

/-- **Full statement (b): exactly once per batch** — false of the code. -/
def C06_full_batch : Prop :=
  ∀ (table : List Entry) (vals : List (Key × Int)) (e : Entry) (body : List Simple) (w' : IWorld),
    (table.map (·.name)).Nodup → e ∈ table → (∀ d ∈ e.deps, d.cls = e.origin) →
    runOp (instantiate table vals) (.batch body) = (true, w') →
    w'.log.count e.name = (instantiate table vals).log.count e.name +
      expectedCalls (e.deps.map keyOf) (changedKeys vals (opAssignments (.batch body))).1

/-- witness (design probe p21): `@depends('p', 'q:bounds', watch=True) m`, one batch changing both -/
def witnessEntry : Entry := ⟨"m", false, false, [⟨0, "p", "value"⟩, ⟨0, "q", "bounds"⟩], 0⟩
def witnessVals : List (Key × Int) := [(⟨"p", "value"⟩, 0), (⟨"q", "bounds"⟩, 0)]
def witnessBody : List Simple := [.set ⟨"p", "value"⟩ 1, .set ⟨"q", "bounds"⟩ 1]

theorem C06_full_batch_refuted : ¬ C06_full_batch := by
  intro H
  have := H [witnessEntry] witnessVals witnessEntry witnessBody
    (runOp (instantiate [witnessEntry] witnessVals) (.batch witnessBody)).2
    (by decide) (by simp) (by decide) (by rfl)
  revert this
  decide

/-- **C06 (b), partial: exactly once per batch iff a dependency changed**, for methods all of whose
dependencies are of one kind (all values, or all the same Parameter attribute).  Excluded: a method
depending on a value AND a Parameter attribute (`'p'`, `'q:bounds'`) — it has one watcher per kind
and a batch changing both calls it once per kind. -/
theorem method_called_exactly_once_per_batch_iff_a_dependency_changed_partial (table : List Entry) (w w' : IWorld)
    (e : Entry) (body : List Simple) (hW : InstanceWorld table w) (hn : (table.map (·.name)).Nodup) (he : e ∈ table)
    (hcls : ∀ d ∈ e.deps, d.cls = e.origin) (hkind : ∀ d1 ∈ e.deps, ∀ d2 ∈ e.deps, d1.what = d2.what)
    (hr : runOp w (.batch body) = (true, w')) :
    w'.log.count e.name = w.log.count e.name +
      expectedCalls (e.deps.map keyOf) (changedKeys w.vals (opAssignments (.batch body))).1 ∧
    InstanceWorld table w' := by
  have := instance_calls table w w' e (.batch body) hW hn he hcls hr (by
    intro k1 _ k2 _ h1 h2
    obtain ⟨d1, hd1, rfl⟩ := List.mem_map.1 h1
    obtain ⟨d2, hd2, rfl⟩ := List.mem_map.1 h2
    exact hkind d1 hd1 d2 hd2)
  exact ⟨this.1, this.2.1⟩

/-- **C06 (never otherwise).**  Whatever the operation (assignment, `update`, batch of both), a
method none of whose dependencies was assigned a different value is not called. -/
theorem method_not_called_when_no_dependency_changed (table : List Entry) (w w' : IWorld) (e : Entry) (op : Op)
    (hW : InstanceWorld table w) (hn : (table.map (·.name)).Nodup) (he : e ∈ table)
    (hcls : ∀ d ∈ e.deps, d.cls = e.origin) (hr : runOp w op = (true, w'))
    (hno : ∀ k ∈ (changedKeys w.vals (opAssignments op)).1, k ∉ e.deps.map keyOf) :
    w'.log.count e.name = w.log.count e.name := by
  have := (instance_calls table w w' e op hW hn he hcls hr (by
    intro k1 h1 _ _ hd _
    exact absurd hd (hno k1 h1))).1
  rw [this]
  have : expectedCalls (e.deps.map keyOf) (changedKeys w.vals (opAssignments op)).1 = 0 := by
    unfold expectedCalls
    rw [if_neg]
    intro hany
    obtain ⟨kk, hkk, hin⟩ := List.any_eq_true.1 hany
    exact hno kk (by simpa using hin) hkk
  omega

/-- **C06 (`on_init=True` adds exactly one call at construction).**  The constructor's invocation
log contains a method exactly once if its table entry has `on_init`, and not at all otherwise. -/
theorem on_init_adds_exactly_one_call (table : List Entry) (vals : List (Key × Int)) (m : Name) :
    (instantiate table vals).log.count m = if table.any (fun e => e.name = m && e.onInit) then 1 else 0 := by
  obtain ⟨h1, h2⟩ := initCalls_spec table [] (by simp)
  show (initCalls [] table).count m = _
  rw [h1.count]
  have : m ∈ initCalls [] table ↔ table.any (fun e => e.name = m && e.onInit) = true := by
    rw [h2 m, List.any_eq_true]
    simp only [List.not_mem_nil, false_or, Bool.and_eq_true, decide_eq_true_eq]
  by_cases hm : m ∈ initCalls [] table
  · rw [if_pos hm, if_pos (this.1 hm)]
  · rw [if_neg hm, if_neg (fun hh => hm (this.2 hh))]

/-! ## Function form -/

/-- **Full statement (c): a function decorated with Parameter objects runs exactly once per
assignment that changes one of them** — false of the code when a Parameter is listed twice. -/
def C06_full_fn : Prop :=
  ∀ (vals : List (Key × Int)) (label : Name) (names : List Name) (k : Key) (v : Int) (w' : IWorld),
    runOp (fnWatch (instantiate [] vals) label names) (.simple (.set k v)) = (true, w') →
    w'.log.count label = expectedCalls (names.map (fun n => ⟨n, "value"⟩)) (changedKeys vals [(k, v)]).1

theorem C06_full_fn_refuted : ¬ C06_full_fn := by
  intro H
  have := H [(⟨"p", "value"⟩, 0)] "f" ["p", "p"] ⟨"p", "value"⟩ 1
    (runOp (fnWatch (instantiate [] [(⟨"p", "value"⟩, 0)]) "f" ["p", "p"]) (.simple (.set ⟨"p", "value"⟩ 1))).2 (by rfl)
  revert this
  decide

/-- **C06 (c), partial: the same holds for functions decorated with Parameter-object dependencies**
that list every Parameter once: exactly one call per assignment / `update` / batch that changes at
least one of them (a single watcher, hence also exactly once per batch). -/
theorem function_form_called_exactly_once_partial (table : List Entry) (w w' : IWorld) (label : Name)
    (names : List Name) (op : Op) (hW : InstanceWorld table w) (hl : label ∉ table.map (·.name))
    (hnames : names.Nodup)
    (hr : runOp (fnWatch w label names) op = (true, w')) (hfresh : ∀ x ∈ w.regs, x.method ≠ label) :
    w'.log.count label = w.log.count label +
      expectedCalls (names.map (fun n => ⟨n, "value"⟩)) (changedKeys w.vals (opAssignments op)).1 := by
  have hW' := fnWatch_instanceWorld table w label names hW hl hnames
  obtain ⟨extra, h1, h2⟩ := hW'.regs
  have hid : ((fnWatch w label names).regs.map (·.id)).Nodup := by rw [hW'.ids]; exact List.nodup_range'
  have hp : ∀ x ∈ (fnWatch w label names).regs, x.params.Nodup := by
    intro x hx
    rw [h1] at hx
    rcases List.mem_append.1 hx with h3 | h3
    · exact installAll_params table 0 x h3
    · exact (h2 x h3).2
  have hx : (fnWatch w label names).regs.filter (fun y => y.method = (⟨w.regs.length, label, names, "value", false, 0⟩ : IWatcher).method) =
      [⟨w.regs.length, label, names, "value", false, 0⟩] := by
    simp only [fnWatch, List.filter_append]
    have : w.regs.filter (fun y => decide (y.method = label)) = [] := by
      rw [List.filter_eq_nil_iff]
      intro y hy hm
      exact hfresh y hy (by simpa using hm)
    simp [this]
  exact single_watcher_calls (fnWatch w label names) w' ⟨w.regs.length, label, names, "value", false, 0⟩ op
    hW'.batch hW'.events hW'.queued hid hp hx hr

/-- the three false parts together -/
def C06_full : Prop := C06_full_deps ∧ C06_full_batch ∧ C06_full_fn

theorem C06_full_refuted : ¬ C06_full := fun h => C06_full_deps_refuted h.1

/-! ## Non-vacuity -/

-- the hypotheses are satisfiable: a concrete hierarchy (the p6 probe: override / undecorated override /
-- diamond), its tables, and an instance run
def exA : ClassDecl := ⟨[], [0], ["p", "q"], [⟨"m", some ⟨[⟨"p", "value"⟩], true, false, false⟩⟩,
  ⟨"n", some ⟨[⟨"m", "value"⟩, ⟨"q", "value"⟩], true, false, true⟩⟩]⟩
def exH : Hierarchy := [exA, ⟨[0], [1, 0], [], [⟨"m", some ⟨[⟨"p", "value"⟩, ⟨"q", "value"⟩], true, false, false⟩⟩]⟩,
  ⟨[0], [2, 0], [], [⟨"m", none⟩]⟩, ⟨[1, 2], [3, 1, 2, 0], [], []⟩]

example : wfMroB exH = true := by decide
example : (dependsTable exH 8 0).toOption.map (·.map (·.name)) = some ["m", "n"] := by decide
example : (dependsTable exH 8 1).toOption.map (·.map (·.name)) = some ["n", "m"] := by decide
example : (dependsTable exH 8 2).toOption.map (·.map (·.name)) = some ["n"] := by decide     -- undecorated override
example : (dependsTable exH 8 3).toOption.map (·.map (·.name)) = some ["n", "m"] := by decide -- diamond: once
example : resolvedWatches exH 2 "m" = false ∧ resolvedWatches exH 3 "m" = true := by decide
example : SameDeps exH 0 0 3 (some ⟨[⟨"m", "value"⟩, ⟨"q", "value"⟩], true, false, true⟩) := sameDeps_refl exH 0 3 _
-- an instance of class 0: `n` has on_init, `p = 1` calls m and n once each, a second `p = 1` nothing
def exTable : List Entry := [⟨"m", false, false, [⟨0, "p", "value"⟩], 0⟩,
  ⟨"n", false, true, [⟨0, "p", "value"⟩, ⟨0, "q", "value"⟩], 0⟩]
def exVals : List (Key × Int) := [(⟨"p", "value"⟩, 0), (⟨"q", "value"⟩, 0)]
example : dependsTable exH 8 0 = .ok exTable := by rfl
example : (instantiate exTable exVals).log = ["n"] := by decide
example : (runOp (instantiate exTable exVals) (.simple (.set ⟨"p", "value"⟩ 1))).2.log = ["n", "m", "n"] := by decide
example : (runOp (instantiate exTable exVals) (.batch [.set ⟨"p", "value"⟩ 1, .update [("q", 2), ("p", 3)]])).2.log =
    ["n", "m", "n"] := by decide
example : InstanceWorld exTable (instantiate exTable exVals) := instantiate_instanceWorld _ _

end ParamVerif.Depends
