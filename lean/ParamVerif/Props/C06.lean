/-
C06 — `depends(watch=True)` methods run exactly once per change of a dependency.

  "A method decorated with `param.depends(..., watch=True)` is invoked exactly once for each
   assignment, `update` or batch that changes at least one parameter it depends on - directly,
   through a Parameter attribute spec such as 'p:bounds', or through another method it names as a
   dependency - and never otherwise (change judged as for changes-only watchers); `on_init=True`
   adds exactly one call at construction. A subclass that overrides the method replaces, never
   duplicates, the inherited registration (an undecorated override is not called automatically),
   and the same holds for functions decorated with Parameter-object dependencies."

Model: Depends/ClassTable.lean (class table built by the metaclass, as written),
Depends/Instance.lean (installation + compact dispatcher).  Helper lemmas: Depends/Lemmas.lean,
Depends/InstanceLemmas.lean.  The specification's `expectedCalls` / `changedKeys` are those of the
oracle (Depends/Spec.lean).

ONE part of the statement is false of the code (and of the model, which mirrors it): a method
depending on a value AND a Parameter attribute has one watcher per kind, so one batch that changes
both kinds calls it once per kind.  It is kept as `def C06_full_batch`, refuted from a concrete
witness that the check replays on the real library (corpus/C06/two-groups.json), and proved in a
`_partial` form with the excluded class explicit.  Two other parts were false of the pinned commit
and hold since the repairs a6564de (inherited entries are resolved again on the subclass) and
7e0a217 (function form de-duplicates the Parameter names): `C06_full_deps_holds`, `C06_full_fn_holds`.
Scope: the theorems of the sections "Instances" and "Function form" are about methods that only log and
flat batches (closed forms over the compact dispatcher of Instance.lean).  The section "Methods that assign;
nested batch blocks" is about the fuel-indexed interpreter of Depends/Cascade.lean (callbacks re-enter the
setter; `batch_call_watchers` blocks nest): partial correctness (the run is assumed to terminate within the
fuel and to meet only assignable keys), any bodies for `watch=True` methods, methods run in queueing mode
(`watch='queued'`) only log.  The driver runs every case through this interpreter, compares its trace with
the implementation's, and checks per case that it agrees with the compact dispatcher (log-only methods) and
with `Dispatch.Model.run`.  An on_init method that assigns a parameter during construction is modelled
(`instantiateA`) and judged by the oracle (`specInit`) only — no theorem.
Not modelled: dotted dependencies (C07), async/generator methods, `param.trigger`, `watch='queued'` methods
that assign, method bodies that batch or update, exceptions raised by methods.
-/
import ParamVerif.Depends.InstanceLemmas
import ParamVerif.Depends.CascadeLemmas

namespace ParamVerif.Depends

/-! ## The class table -/

/-- **C06 (replaces, never duplicates).**  For every hierarchy, whatever the bases, overrides and
MRO, the table of a well-formed class registers no method name twice. -/
theorem table_one_entry_per_method (h : Hierarchy) (fuel : Nat) (c : Cls) (t : List Entry)
    (hwf : wfClassB h c = true) (ht : dependsTable h fuel c = .ok t) : (t.map (·.name)).Nodup := by
  obtain ⟨_, d, _, own, anc, inh, _, _, _, _, hnd, hown, _, hinh, rfl⟩ := table_shape hwf ht
  have hownN : ((own ++ ([] : List Entry)).map (·.name)).Nodup := by
    rw [List.append_nil, ownEntries_names h c fuel d.methods own hown]
    exact List.Nodup.sublist (List.Sublist.map (fun m : Method => m.name) List.filter_sublist) hnd
  have := (inheritFold_spec h c fuel own anc.flatten [] inh hinh hownN).1
  rw [List.map_append] at this ⊢
  exact (List.perm_append_comm.nodup_iff).1 this

/-- **C06 (registered iff the resolved method watches).**  A method name is in the table of a class
exactly when the function that class resolves for the name (first definition along the MRO) is
decorated with a truthy `watch`: an undecorated or `watch=False` override removes the registration,
a decorated one keeps exactly one. -/
theorem entry_iff_resolved_method_watches (h : Hierarchy) (fuel : Nat) (c : Cls) (t : List Entry)
    (hwf : wfClassB h c = true) (ht : dependsTable h fuel c = .ok t) (n : Name) :
    n ∈ t.map (·.name) ↔ resolvedWatches h c n = true := by
  obtain ⟨ts, d, rest, own, anc, inh, hts, hd, hmro, hlt, hnd, hown, hanc, hinh, rfl⟩ := table_shape hwf ht
  have hmroOf : mroOf h c = c :: rest := by simp [mroOf, hd, hmro]
  have hownN : ((own ++ ([] : List Entry)).map (·.name)).Nodup := by
    rw [List.append_nil, ownEntries_names h c fuel d.methods own hown]
    exact List.Nodup.sublist (List.Sublist.map (fun m : Method => m.name) List.filter_sublist) hnd
  obtain ⟨_, _, hmem, hcov⟩ := inheritFold_spec h c fuel own anc.flatten [] inh hinh hownN
  constructor
  · intro hn
    obtain ⟨e, he, rfl⟩ := List.mem_map.1 hn
    rcases List.mem_append.1 he with h1 | h1
    · rcases hmem e h1 with h2 | ⟨⟨k, m, di, hr, hdi, hw, _⟩, _⟩
      · cases h2
      · simp [resolvedWatches, hr, hdi, hw]
    · obtain ⟨_, m, di, hm, hdi, hw, hname, _⟩ := ownEntries_mem h c fuel d.methods own hown e h1
      rw [← hname]
      simp [resolvedWatches, resolve_own hd hmro hnd hm, hdi, hw]
  · intro hw
    have hw0 := hw
    unfold resolvedWatches at hw
    cases hr : resolveMethod h c n with
    | none => rw [hr] at hw; simp at hw
    | some km =>
      obtain ⟨k, m⟩ := km
      rw [hr] at hw
      simp only at hw
      cases hdi : m.dinfo with
      | none => rw [hdi] at hw; simp at hw
      | some di =>
        rw [hdi] at hw
        simp only at hw
        have hwd : watchDecorated m = true := by simp [watchDecorated, hdi, hw]
        unfold resolveMethod at hr
        rw [hmroOf] at hr
        obtain ⟨hk, hom⟩ := resolveIn_some hr
        obtain ⟨dk, hdk, hmk, hmn⟩ := ownMethod_some hom
        rcases List.mem_cons.1 hk with rfl | hk'
        · -- defined in the class itself: an own entry
          rw [hd] at hdk
          simp only [Option.some.injEq] at hdk
          subst hdk
          have : n ∈ own.map (·.name) := by
            rw [ownEntries_names h k fuel d.methods own hown]
            exact List.mem_map.2 ⟨m, List.mem_filter.2 ⟨hmk, hwd⟩, hmn⟩
          rw [List.map_append]
          exact List.mem_append_right _ this
        · -- defined in an ancestor: that ancestor's table has an own entry for it, the loop meets it
          have hkc : k < c := hlt k hk'
          obtain ⟨_, hks⟩ := tablesUpTo_spec h fuel (c + 1) ts hts
          obtain ⟨dk', tk, hdk', htk, htabk⟩ := hks k (Nat.lt_succ_of_lt hkc)
          rw [hdk] at hdk'
          simp only [Option.some.injEq] at hdk'
          subst hdk'
          obtain ⟨ownk, _, _, hownk, _, _, htkeq⟩ := tableOf_spec htabk
          have hnk : n ∈ ownk.map (·.name) := by
            rw [ownEntries_names h k fuel dk.methods ownk hownk]
            exact List.mem_map.2 ⟨m, List.mem_filter.2 ⟨hmk, hwd⟩, hmn⟩
          obtain ⟨dep, hdep, hdn⟩ := List.mem_map.1 hnk
          have hdeptk : dep ∈ tk := by rw [htkeq]; exact List.mem_append_right _ hdep
          obtain ⟨ta, hta, hta'⟩ := ancestorTables_of_mem hanc k hk'
          rw [List.getElem?_take_of_lt hkc, htk] at hta'
          simp only [Option.some.injEq] at hta'
          subst hta'
          have hflat : dep ∈ anc.flatten := List.mem_flatten.2 ⟨tk, hta, hdeptk⟩
          have := hcov dep hflat (by rw [hdn]; exact hw0)
          rw [hdn] at this
          rw [List.map_append] at this ⊢
          rcases List.mem_append.1 this with h1 | h1
          · exact List.mem_append_right _ h1
          · exact List.mem_append_left _ h1

/-- **C06 (the registered dependencies are those of the resolved method).**  Every entry of the table
of a class — created by the class or inherited, in chains and diamonds alike — carries exactly what
the function the class resolves for the name declares, resolved ON THAT CLASS (method-name
dependencies included): dependency list, `queued`, `on_init`; every `PInfo` carries the class. -/
theorem entry_deps_are_deps_of_resolved_method (h : Hierarchy) (fuel : Nat) (c : Cls) (t : List Entry)
    (hwf : wfClassB h c = true) (ht : dependsTable h fuel c = .ok t) (e : Entry) (he : e ∈ t) :
    Resolved h fuel c e ∧ methodDependencies h fuel c e.name = .ok e.deps ∧ ∀ d ∈ e.deps, d.cls = e.origin := by
  obtain ⟨_, d, rest, own, anc, inh, _, hd, hmro, _, hnd, hown, _, hinh, rfl⟩ := table_shape hwf ht
  have hownN : ((own ++ ([] : List Entry)).map (·.name)).Nodup := by
    rw [List.append_nil, ownEntries_names h c fuel d.methods own hown]
    exact List.Nodup.sublist (List.Sublist.map (fun m : Method => m.name) List.filter_sublist) hnd
  have hres : Resolved h fuel c e := by
    rcases List.mem_append.1 he with h1 | h1
    · rcases (inheritFold_spec h c fuel own anc.flatten [] inh hinh hownN).2.2.1 e h1 with h2 | ⟨h2, _⟩
      · cases h2
      · exact h2
    · obtain ⟨ho, m, di, hm, hdi, hw, hname, hq, hoi, hdeps⟩ := ownEntries_mem h c fuel d.methods own hown e h1
      exact ⟨c, m, di, by rw [← hname]; exact resolve_own hd hmro hnd hm, hdi, hw, hq, hoi, hdeps, ho⟩
  refine ⟨hres, ?_, ?_⟩
  · obtain ⟨k, m, di, hr, hdi, _, _, _, hdeps, _⟩ := hres
    simp [methodDependencies, hr, hdi, hdeps]
  · obtain ⟨_, _, di, _, _, _, _, _, hdeps, ho⟩ := hres
    rw [ho]
    exact depsOn_cls h c fuel (some di) e.deps hdeps

/-- **C06 (directly, through a slot spec, or through another method it names).**  The registered
dependencies of every entry are exactly the closure `DependsOn` — an inductive description that does
not mention the recursion of `_params_depended_on`: a key is registered iff a spec of the resolved
method names it as a Parameter of the class (an undecorated function names every Parameter), or a
spec names a function which, as resolved on the class, depends on it. -/
theorem entry_deps_are_the_closure (h : Hierarchy) (fuel : Nat) (c : Cls) (t : List Entry)
    (hwf : wfClassB h c = true) (ht : dependsTable h fuel c = .ok t) (e : Entry) (he : e ∈ t) :
    ∃ k m, resolveMethod h c e.name = some (k, m) ∧ ∀ key, key ∈ e.deps.map keyOf ↔ DependsOn h c m.dinfo key := by
  obtain ⟨⟨k, m, di, hr, hdi, _, _, _, hdeps, _⟩, _, _⟩ := entry_deps_are_deps_of_resolved_method h fuel c t hwf ht e he
  refine ⟨k, m, hr, fun key => ?_⟩
  rw [hdi]
  exact depsOn_iff_dependsOn h c fuel (some di) e.deps hdeps key

/-- **Full statement (a)**, false of the pinned commit (inherited tuples were copied verbatim), true
since a6564de: `method_dependencies` and the registered dependencies agree for every entry. -/
def C06_full_deps : Prop :=
  ∀ (h : Hierarchy) (fuel : Nat) (c : Cls) (t : List Entry), wfMroB h = true → dependsTable h fuel c = .ok t →
    ∀ e ∈ t, ∃ ds, methodDependencies h fuel c e.name = .ok ds ∧ ds.map keyOf = e.deps.map keyOf

theorem C06_full_deps_holds : C06_full_deps := by
  intro h fuel c t hwf ht e he
  have hc : c < h.length := by
    obtain ⟨_, d, _, hd, _⟩ := dependsTable_spec ht
    rcases Nat.lt_or_ge c h.length with h1 | h1
    · exact h1
    · rw [List.getElem?_eq_none h1] at hd; cases hd
  exact ⟨e.deps, (entry_deps_are_deps_of_resolved_method h fuel c t (wfMroB_class hwf hc) ht e he).2.1, rfl⟩

/-- the former witness (design probe p29): `A: p, r; @depends('p') m; @depends('m') n` and
`F(A): @depends('r') m` — the entry of `n` in `F` now lists `r` -/
def witnessA : Hierarchy := [
  ⟨[], [0], ["p", "r"], [⟨"m", some ⟨[⟨"p", "value"⟩], true, false, false⟩⟩,
                          ⟨"n", some ⟨[⟨"m", "value"⟩], true, false, false⟩⟩]⟩,
  ⟨[0], [1, 0], [], [⟨"m", some ⟨[⟨"r", "value"⟩], true, false, false⟩⟩]⟩]

example : dependsTable witnessA 8 1 = .ok [⟨"n", false, false, [⟨1, "r", "value"⟩], 1⟩,
    ⟨"m", false, false, [⟨1, "r", "value"⟩], 1⟩] := by rfl

/-! ## Instances: how often a registered method runs -/

/-- **C06 (exactly once per assignment iff a dependency changed).**  On an idle instance, after
`obj.p = v` or `obj.param.p.<slot> = v`, the invocation log has gained exactly one call of the
method if the assigned key is among the entry's dependencies and the value differs from the one
held before, and none otherwise; and the instance is idle again. -/
theorem method_called_exactly_once_per_set_iff_a_dependency_changed (table : List Entry) (w w' : IWorld) (e : Entry)
    (k : Key) (v : Int) (hW : InstanceWorld table w) (hn : (table.map (·.name)).Nodup) (he : e ∈ table)
    (hcls : ∀ d ∈ e.deps, d.cls = e.origin) (hr : runOp w (.simple (.set k v)) = (true, w')) :
    w'.log.count e.name = w.log.count e.name + expectedCalls (e.deps.map keyOf) (changedKeys w.vals [(k, v)]).1 ∧
    InstanceWorld table w' := by
  have := instance_calls table w w' e (.simple (.set k v)) hW hn he hcls hr (by
    intro k1 h1 k2 h2 _ _
    have hs := changedKeys_sub [(k, v)] w.vals
    simp only [opAssignments, simpleAssignments] at h1 h2
    have e1 := hs k1 h1
    have e2 := hs k2 h2
    simp only [List.map_cons, List.map_nil, List.mem_singleton] at e1 e2
    rw [e1, e2])
  exact ⟨this.1, this.2.1⟩

/-- **C06 (exactly once per `update` iff a dependency changed).**  `obj.param.update(k1=v1, …)`:
one call if at least one of the keys is a (value) dependency of the method and was assigned a
different value, none otherwise — however many of its dependencies changed. -/
theorem method_called_exactly_once_per_update_iff_a_dependency_changed (table : List Entry) (w w' : IWorld) (e : Entry)
    (kvs : List (Name × Int)) (hW : InstanceWorld table w) (hn : (table.map (·.name)).Nodup) (he : e ∈ table)
    (hcls : ∀ d ∈ e.deps, d.cls = e.origin) (hr : runOp w (.simple (.update kvs)) = (true, w')) :
    w'.log.count e.name = w.log.count e.name +
      expectedCalls (e.deps.map keyOf) (changedKeys w.vals (opAssignments (.simple (.update kvs)))).1 ∧
    InstanceWorld table w' := by
  have := instance_calls table w w' e (.simple (.update kvs)) hW hn he hcls hr (by
    intro k1 h1 k2 h2 _ _
    have e1 := changedKeys_sub _ w.vals k1 h1
    have e2 := changedKeys_sub _ w.vals k2 h2
    simp only [opAssignments, simpleAssignments, List.map_map, List.mem_map, Function.comp] at e1 e2
    obtain ⟨_, _, rfl⟩ := e1
    obtain ⟨_, _, rfl⟩ := e2
    rfl)
  exact ⟨this.1, this.2.1⟩

/-- **Full statement (b): exactly once per batch** — false of the code (recorded finding
`value-and-slot-two-groups`). -/
def C06_full_batch : Prop :=
  ∀ (table : List Entry) (vals : List (Key × Int)) (e : Entry) (body : List SimpleOp) (w' : IWorld),
    (table.map (·.name)).Nodup → e ∈ table → (∀ d ∈ e.deps, d.cls = e.origin) →
    runOp (instantiate table vals) (.batch body) = (true, w') →
    w'.log.count e.name = (instantiate table vals).log.count e.name +
      expectedCalls (e.deps.map keyOf) (changedKeys vals (opAssignments (.batch body))).1

/-- witness (design probe p21): `@depends('p', 'q:bounds', watch=True) m`, one batch changing both -/
def witnessEntry : Entry := ⟨"m", false, false, [⟨0, "p", "value"⟩, ⟨0, "q", "bounds"⟩], 0⟩
def witnessVals : List (Key × Int) := [(⟨"p", "value"⟩, 0), (⟨"q", "bounds"⟩, 0)]
def witnessBody : List SimpleOp := [.set ⟨"p", "value"⟩ 1, .set ⟨"q", "bounds"⟩ 1]

theorem C06_full_batch_refuted : ¬ C06_full_batch := by
  intro H
  have := H [witnessEntry] witnessVals witnessEntry witnessBody
    (runOp (instantiate [witnessEntry] witnessVals) (.batch witnessBody)).2
    (by decide) (by simp) (by decide) (by rfl)
  revert this
  decide

/-- **C06 (b), partial: exactly once per batch iff a dependency changed**, for methods all of whose
dependencies are of one kind (all values, or all the same Parameter attribute).  Excluded: a method
depending on a value AND a Parameter attribute (`'p'`, `'q:bounds'`) — it has one watcher per kind
and a batch changing both calls it once per kind. -/
theorem method_called_exactly_once_per_batch_iff_a_dependency_changed_partial (table : List Entry) (w w' : IWorld)
    (e : Entry) (body : List SimpleOp) (hW : InstanceWorld table w) (hn : (table.map (·.name)).Nodup) (he : e ∈ table)
    (hcls : ∀ d ∈ e.deps, d.cls = e.origin) (hkind : ∀ d1 ∈ e.deps, ∀ d2 ∈ e.deps, d1.what = d2.what)
    (hr : runOp w (.batch body) = (true, w')) :
    w'.log.count e.name = w.log.count e.name +
      expectedCalls (e.deps.map keyOf) (changedKeys w.vals (opAssignments (.batch body))).1 ∧
    InstanceWorld table w' := by
  have := instance_calls table w w' e (.batch body) hW hn he hcls hr (by
    intro k1 _ k2 _ h1 h2
    obtain ⟨d1, hd1, rfl⟩ := List.mem_map.1 h1
    obtain ⟨d2, hd2, rfl⟩ := List.mem_map.1 h2
    exact hkind d1 hd1 d2 hd2)
  exact ⟨this.1, this.2.1⟩

/-- **C06 (never otherwise).**  Whatever the operation (assignment, `update`, batch of both), a
method none of whose dependencies was assigned a different value is not called. -/
theorem method_not_called_when_no_dependency_changed (table : List Entry) (w w' : IWorld) (e : Entry) (op : Op)
    (hW : InstanceWorld table w) (hn : (table.map (·.name)).Nodup) (he : e ∈ table)
    (hcls : ∀ d ∈ e.deps, d.cls = e.origin) (hr : runOp w op = (true, w'))
    (hno : ∀ k ∈ (changedKeys w.vals (opAssignments op)).1, k ∉ e.deps.map keyOf) :
    w'.log.count e.name = w.log.count e.name := by
  have := (instance_calls table w w' e op hW hn he hcls hr (by
    intro k1 h1 _ _ hd _
    exact absurd hd (hno k1 h1))).1
  rw [this]
  have : expectedCalls (e.deps.map keyOf) (changedKeys w.vals (opAssignments op)).1 = 0 := by
    unfold expectedCalls
    rw [if_neg]
    intro hany
    obtain ⟨kk, hkk, hin⟩ := List.any_eq_true.1 hany
    exact hno kk (by simpa using hin) hkk
  omega

/-- **C06 (`on_init=True` adds exactly one call at construction).**  The constructor's invocation
log contains a method exactly once if its table entry has `on_init`, and not at all otherwise. -/
theorem on_init_adds_exactly_one_call (table : List Entry) (vals : List (Key × Int)) (m : Name) :
    (instantiate table vals).log.count m = if table.any (fun e => e.name = m && e.onInit) then 1 else 0 := by
  obtain ⟨h1, h2⟩ := initCalls_spec table [] (by simp)
  show (initCalls [] table).count m = _
  rw [h1.count]
  have : m ∈ initCalls [] table ↔ table.any (fun e => e.name = m && e.onInit) = true := by
    rw [h2 m, List.any_eq_true]
    simp only [List.not_mem_nil, false_or, Bool.and_eq_true, decide_eq_true_eq]
  by_cases hm : m ∈ initCalls [] table
  · rw [if_pos hm, if_pos (this.1 hm)]
  · rw [if_neg hm, if_neg (fun hh => hm (this.2 hh))]

/-- **C06 (all programs, from the hierarchy to the instance).**  For a well-formed hierarchy, an instance
of class `c` and any program of assignments, slot assignments, `update`s and batches: a registered
method whose dependencies are of one kind is called, over the whole program, exactly as often as the
specification expects operation by operation (`expectedProgram`: one call per operation that changes
one of its dependencies), where its dependencies are those of the method `c` resolves (previous
theorems); and the instance is idle again at the end. -/
theorem program_from_hierarchy (h : Hierarchy) (fuel : Nat) (c : Cls) (t : List Entry) (vals : List (Key × Int))
    (hwf : wfClassB h c = true) (ht : dependsTable h fuel c = .ok t) (e : Entry) (he : e ∈ t)
    (hkind : ∀ d1 ∈ e.deps, ∀ d2 ∈ e.deps, d1.what = d2.what) (ops : List Op) (w' : IWorld)
    (hr : runOps (instantiate t vals) ops = (true, w')) :
    w'.log.count e.name = (instantiate t vals).log.count e.name + expectedProgram (e.deps.map keyOf) vals ops ∧
      InstanceWorld t w' :=
  program_calls t e (table_one_entry_per_method h fuel c t hwf ht) he
    (entry_deps_are_deps_of_resolved_method h fuel c t hwf ht e he).2.2 hkind ops _ w'
    (instantiate_instanceWorld t vals) hr

/-! ## Methods that assign; nested batch blocks

A UNIT of change (`T.unitsL`, Depends/CascadeSpec.lean) is a statement that is not inside another statement:
an assignment made while nothing is being batched — by the program or by the body of a method —, or an
outermost `update` / `batch_call_watchers` block with everything nested in it.  `u.changed`: the keys its
assignments changed; `u.calls`: the invocations it caused directly (not those caused by assignments that the
invoked methods made: these are units of their own). -/

/-- **C06 (every unit of change, watcher level).**  From a quiet world (no batch open, nothing queued), whatever
the bodies of the `watch=True` methods assign: any statement — assignment, slot assignment, `update`, `batch`
blocks nested to any depth — that terminates leaves a quiet world, and EVERY unit of change in its trace, the
statement itself and, recursively, each assignment made by a method that was caused to run, invoked each
registered watcher exactly once if the unit changed a key the watcher is registered for and not at all otherwise
— whether the method making the assignment was run by a setter or by the flush of an `update` / a batch. -/
theorem every_unit_calls_each_touched_watcher_exactly_once (bs : Bodies) (f : Nat) (b : Blk) (w w' : IWorld) (tr : List T)
    (hW : QW bs w) (h : runC bs f (.blk b) w = some (true, w', tr)) :
    QW bs w' ∧ w'.regs = w.regs ∧ ∀ u ∈ T.unitsL true tr, ∀ m, u.calls.count m = nTouched w.regs m u.changed :=
  (good bs f).blk b w w' tr hW h

/-- **C06 (exactly once per unit of change iff a dependency changed).**  On an idle instance of a class with
table `table`: for a registered method whose dependencies are of one kind (values, or one Parameter attribute:
`value-and-slot-two-groups` is the recorded exception), every unit of change of the statement's trace —
including the assignments made by methods, run by a setter or by a flush — called the method exactly once if the
unit changed one of its dependencies, and not at all otherwise; and the instance is idle again. -/
theorem method_called_exactly_once_per_unit_iff_a_dependency_changed (table : List Entry) (bs : Bodies) (f : Nat) (b : Blk)
    (w w' : IWorld) (tr : List T) (e : Entry) (hW : InstanceWorld table w)
    (hq : ∀ x ∈ w.regs, x.queued = true → bodyOf bs x.method = [])
    (hn : (table.map (·.name)).Nodup) (he : e ∈ table) (hcls : ∀ d ∈ e.deps, d.cls = e.origin)
    (hkind : ∀ d1 ∈ e.deps, ∀ d2 ∈ e.deps, d1.what = d2.what)
    (h : runC bs f (.blk b) w = some (true, w', tr)) :
    InstanceWorld table w' ∧
      ∀ u ∈ T.unitsL true tr, u.calls.count e.name = expectedCalls (e.deps.map keyOf) u.changed := by
  obtain ⟨q, r, o⟩ := (good bs f).blk b w w' tr (hW.quiet bs hq) h
  refine ⟨hW.of_quiet q r, fun u hu => ?_⟩
  rw [o u hu e.name, nTouched_table hW hn e he hcls hkind]

/-- **C06 (a nested block belongs to the outer one).**  A `batch_call_watchers` block, whatever blocks and
`update`s are nested in it, is ONE unit: its trace is a single node, whose invocations — all made at the exit of
the outermost block — are one per watcher registered for a key changed anywhere inside. -/
theorem nested_blocks_are_one_unit (bs : Bodies) (f : Nat) (body : List Blk) (w w' : IWorld) (tr : List T)
    (hW : QW bs w) (h : runC bs f (.blk (.batch body)) w = some (true, w', tr)) :
    ∃ u, tr = [u] ∧ ∀ m, u.calls.count m = nTouched w.regs m u.changed := by
  obtain ⟨u, rfl, hu⟩ := blk_single bs f _ w w' tr h
  exact ⟨u, rfl, ((good bs f).blk _ w w' _ hW h).2.2 u hu⟩

/-- **C06 (all programs with assigning methods, from the hierarchy to the instance).**  For a well-formed
hierarchy, a fresh instance of class `c` and any program (statements as above) that terminates: for every
registered method whose dependencies are of one kind — the dependencies of the method `c` resolves —, every
unit of change of every statement's trace called it exactly once iff the unit changed one of them; and the
instance is idle at the end. -/
theorem cascade_program_from_hierarchy (h : Hierarchy) (fuel : Nat) (c : Cls) (t : List Entry) (vals : List (Key × Int))
    (hwf : wfClassB h c = true) (ht : dependsTable h fuel c = .ok t) (bs : Bodies)
    (hq : ∀ e ∈ t, e.queued = true → bodyOf bs e.name = []) (e : Entry) (he : e ∈ t)
    (hkind : ∀ d1 ∈ e.deps, ∀ d2 ∈ e.deps, d1.what = d2.what) (f : Nat) (prog : List Blk) (w' : IWorld) (trs : List (List T))
    (hr : runProg bs f (instantiate t vals) prog = some (w', trs)) :
    InstanceWorld t w' ∧
      ∀ tr ∈ trs, ∀ u ∈ T.unitsL true tr, u.calls.count e.name = expectedCalls (e.deps.map keyOf) u.changed := by
  have hn := table_one_entry_per_method h fuel c t hwf ht
  have hcls := (entry_deps_are_deps_of_resolved_method h fuel c t hwf ht e he).2.2
  have key : ∀ (prog : List Blk) (w w' : IWorld) (trs : List (List T)), InstanceWorld t w →
      (∀ x ∈ w.regs, x.queued = true → bodyOf bs x.method = []) → runProg bs f w prog = some (w', trs) →
      InstanceWorld t w' ∧
        ∀ tr ∈ trs, ∀ u ∈ T.unitsL true tr, u.calls.count e.name = expectedCalls (e.deps.map keyOf) u.changed := by
    intro prog
    induction prog with
    | nil =>
      intro w w' trs hW _ hr
      simp only [runProg, Option.some.injEq, Prod.mk.injEq] at hr
      obtain ⟨rfl, rfl⟩ := hr
      exact ⟨hW, fun tr htr => by cases htr⟩
    | cons b rest ih =>
      intro w w' trs hW hqw hr
      simp only [runProg] at hr
      split at hr
      · rename_i w1 tr1 h1
        split at hr
        · rename_i w2 trs2 h2
          simp only [Option.some.injEq, Prod.mk.injEq] at hr
          obtain ⟨rfl, rfl⟩ := hr
          obtain ⟨hW1, o1⟩ := method_called_exactly_once_per_unit_iff_a_dependency_changed t bs f b w w1 tr1 e hW hqw hn he hcls hkind h1
          have hr1 : w1.regs = w.regs := ((good bs f).blk b w w1 tr1 (hW.quiet bs hqw) h1).2.1
          obtain ⟨hW2, o2⟩ := ih w1 _ trs2 hW1 (by rw [hr1]; exact hqw) h2
          refine ⟨hW2, fun tr htr => ?_⟩
          rcases List.mem_cons.1 htr with rfl | htr
          · exact o1
          · exact o2 tr htr
        · simp at hr
      · simp at hr
  exact key prog _ w' trs (instantiate_instanceWorld t vals) (instantiate_qlog t vals bs hq) hr

/-! ## Function form -/

/-- **C06 (the same holds for functions decorated with Parameter-object dependencies).**  For any
list of Parameters, listed once or several times: exactly one call per assignment / `update` / batch
that changes at least one of them (one watcher, hence also exactly once per batch). -/
theorem function_form_called_exactly_once (table : List Entry) (w w' : IWorld) (label : Name)
    (names : List Name) (op : Op) (hW : InstanceWorld table w) (hl : label ∉ table.map (·.name))
    (hr : runOp (fnWatch w label names) op = (true, w')) (hfresh : ∀ x ∈ w.regs, x.method ≠ label) :
    w'.log.count label = w.log.count label +
      expectedCalls (names.map (fun n => ⟨n, "value"⟩)) (changedKeys w.vals (opAssignments op)).1 := by
  have hW' := fnWatch_instanceWorld table w label names hW hl
  obtain ⟨extra, h1, h2⟩ := hW'.regs
  have hid : ((fnWatch w label names).regs.map (·.id)).Nodup := by rw [hW'.ids]; exact List.nodup_range'
  have hp : ∀ x ∈ (fnWatch w label names).regs, x.params.Nodup := by
    intro x hx
    rw [h1] at hx
    rcases List.mem_append.1 hx with h3 | h3
    · exact installAll_params table 0 x h3
    · exact (h2 x h3).2
  have hx : (fnWatch w label names).regs.filter (fun y => y.method = (⟨w.regs.length, label, dedupInto [] names, "value", false, 0⟩ : IWatcher).method) =
      [⟨w.regs.length, label, dedupInto [] names, "value", false, 0⟩] := by
    simp only [fnWatch, List.filter_append]
    have : w.regs.filter (fun y => decide (y.method = label)) = [] := by
      rw [List.filter_eq_nil_iff]
      intro y hy hm
      exact hfresh y hy (by simpa using hm)
    simp [this]
  have := single_watcher_calls (fnWatch w label names) w' ⟨w.regs.length, label, dedupInto [] names, "value", false, 0⟩ op
    hW'.batch hW'.events hW'.queued hid hp hx hr
  rw [this]
  congr 1
  apply expectedCalls_congr
  intro k
  simp only [List.mem_map, (dedupInto_spec names [] (by simp)).2, List.not_mem_nil, false_or]

/-- **Full statement (c)**, false of the pinned commit when a Parameter is listed twice, true since
7e0a217. -/
def C06_full_fn : Prop :=
  ∀ (vals : List (Key × Int)) (label : Name) (names : List Name) (k : Key) (v : Int) (w' : IWorld),
    runOp (fnWatch (instantiate [] vals) label names) (.simple (.set k v)) = (true, w') →
    w'.log.count label = expectedCalls (names.map (fun n => ⟨n, "value"⟩)) (changedKeys vals [(k, v)]).1

theorem C06_full_fn_holds : C06_full_fn := by
  intro vals label names k v w' hr
  have := function_form_called_exactly_once [] (instantiate [] vals) w' label names (.simple (.set k v))
    (instantiate_instanceWorld [] vals) (by simp) hr (by simp [instantiate, installAll])
  simpa [instantiate, initCalls, opAssignments, simpleAssignments] using this

-- the former witness: the same Parameter twice, one call
example : ((runOp (fnWatch (instantiate [] [(⟨"p", "value"⟩, 0)]) "f" ["p", "p"]) (.simple (.set ⟨"p", "value"⟩ 1))).2.log.count "f") = 1 := by
  decide

/-- the statement as a whole: (a) and (c) hold, (b) does not -/
def C06_full : Prop := C06_full_deps ∧ C06_full_batch ∧ C06_full_fn

theorem C06_full_refuted : ¬ C06_full := fun h => C06_full_batch_refuted h.2.1

/-! ## Non-vacuity -/

-- the hypotheses are satisfiable: a concrete hierarchy (the p6 probe: override / undecorated override /
-- diamond), its tables, and an instance run
def exA : ClassDecl := ⟨[], [0], ["p", "q"], [⟨"m", some ⟨[⟨"p", "value"⟩], true, false, false⟩⟩,
  ⟨"n", some ⟨[⟨"m", "value"⟩, ⟨"q", "value"⟩], true, false, true⟩⟩]⟩
def exH : Hierarchy := [exA, ⟨[0], [1, 0], [], [⟨"m", some ⟨[⟨"p", "value"⟩, ⟨"q", "value"⟩], true, false, false⟩⟩]⟩,
  ⟨[0], [2, 0], [], [⟨"m", none⟩]⟩, ⟨[1, 2], [3, 1, 2, 0], [], []⟩]

example : wfMroB exH = true := by decide
example : (dependsTable exH 8 0).toOption.map (·.map (·.name)) = some ["m", "n"] := by decide
example : (dependsTable exH 8 1).toOption.map (·.map (·.name)) = some ["n", "m"] := by decide
example : (dependsTable exH 8 2).toOption.map (·.map (·.name)) = some ["n"] := by decide     -- undecorated override
example : (dependsTable exH 8 3).toOption.map (·.map (·.name)) = some ["n", "m"] := by decide -- diamond: once
example : resolvedWatches exH 2 "m" = false ∧ resolvedWatches exH 3 "m" = true := by decide
-- an instance of class 0: `n` has on_init, `p = 1` calls m and n once each, a second `p = 1` nothing
def exTable : List Entry := [⟨"m", false, false, [⟨0, "p", "value"⟩], 0⟩,
  ⟨"n", false, true, [⟨0, "p", "value"⟩, ⟨0, "q", "value"⟩], 0⟩]
def exVals : List (Key × Int) := [(⟨"p", "value"⟩, 0), (⟨"q", "value"⟩, 0)]
example : dependsTable exH 8 0 = .ok exTable := by rfl
example : (instantiate exTable exVals).log = ["n"] := by decide
example : (runOp (instantiate exTable exVals) (.simple (.set ⟨"p", "value"⟩ 1))).2.log = ["n", "m", "n"] := by decide
example : (runOp (instantiate exTable exVals) (.batch [.set ⟨"p", "value"⟩ 1, .update [("q", 2), ("p", 3)]])).2.log =
    ["n", "m", "n"] := by decide
example : InstanceWorld exTable (instantiate exTable exVals) := instantiate_instanceWorld _ _
example : (runOps (instantiate exTable exVals) [.simple (.set ⟨"p", "value"⟩ 1), .simple (.set ⟨"p", "value"⟩ 1),
    .batch [.set ⟨"q", "value"⟩ 2, .set ⟨"p", "value"⟩ 1]]).2.log.count "n" = 1 + expectedProgram [⟨"p", "value"⟩, ⟨"q", "value"⟩] exVals
      [.simple (.set ⟨"p", "value"⟩ 1), .simple (.set ⟨"p", "value"⟩ 1), .batch [.set ⟨"q", "value"⟩ 2, .set ⟨"p", "value"⟩ 1]] := by decide
example : DependsOn exH 0 (some ⟨[⟨"m", "value"⟩, ⟨"q", "value"⟩], true, false, true⟩) ⟨"p", "value"⟩ :=
  .via _ ⟨"m", "value"⟩ 0 ⟨"m", some ⟨[⟨"p", "value"⟩], true, false, false⟩⟩ _ (by decide) (by decide) (by decide)
    (.direct _ ⟨"p", "value"⟩ (by decide) (by decide))

-- methods that assign: `relay` (on p0) assigns p1 then p2; `sink` watches p1 and p2 and runs once per assignment,
-- whichever way p0 was changed; a block nested in a block is delivered once, at the outer exit
-- (kernel evaluation: the elaborator's `whnf` does not cope with the fuel-indexed interpreter)
def cTable : List Entry := [⟨"relay", false, false, [⟨0, "p0", "value"⟩], 0⟩,
  ⟨"sink", false, false, [⟨0, "p1", "value"⟩, ⟨0, "p2", "value"⟩], 0⟩]
def cVals : List (Key × Int) := [(⟨"p0", "value"⟩, 0), (⟨"p1", "value"⟩, 0), (⟨"p2", "value"⟩, 0)]
def cBodies : Bodies := [("relay", [("p1", 1), ("p2", 1)])]
def cRun (b : Blk) : Option (Bool × List Name) :=
  (runC cBodies 16 (.blk b) (instantiate cTable cVals)).map (fun r => (r.1, T.allCallsL r.2.2))
example : cRun (.set ⟨"p0", "value"⟩ 1) = some (true, ["relay", "sink", "sink"]) := by decide +kernel
example : cRun (.update [("p0", 1)]) = some (true, ["relay", "sink", "sink"]) := by decide +kernel
example : cRun (.batch [.set ⟨"p0", "value"⟩ 1]) = some (true, ["relay", "sink", "sink"]) := by decide +kernel
example : cRun (.batch [.set ⟨"p0", "value"⟩ 1, .batch [.set ⟨"p1", "value"⟩ 5], .set ⟨"p0", "value"⟩ 2]) =
    some (true, ["relay", "sink", "sink", "sink"]) := by decide +kernel
example : (runC cBodies 16 (.blk (.batch [.set ⟨"p0", "value"⟩ 1, .batch [.set ⟨"p1", "value"⟩ 5], .set ⟨"p0", "value"⟩ 2]))
    (instantiate cTable cVals)).map (fun r => (T.unitsL true r.2.2).map (fun u => (u.changed.map (·.name), u.calls))) =
    some [(["p0", "p1", "p0"], ["relay", "sink"]), (["p1"], ["sink"]), (["p2"], ["sink"])] := by decide +kernel
example : QW cBodies (instantiate cTable cVals) :=
  (instantiate_instanceWorld cTable cVals).quiet cBodies (instantiate_qlog cTable cVals cBodies (by decide))

end ParamVerif.Depends
