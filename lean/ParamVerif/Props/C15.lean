/-
C15 — JSON serialization round-trips every serializable parameter value.

  "For every Parameterized class built from JSON-serializable parameter types and
   every valid state (finite numbers; naive datetime values for Date parameters),
   passing `serialize_parameters()` output through `deserialize_parameters()`
   yields constructor arguments that rebuild an object with equal values of equal
   Python type (tuples, datetimes, calendar dates and None restored), the text is
   standard JSON, and the same holds per parameter for
   `serialize_value`/`deserialize_value` and under `subset=`."

The statement at full strength (`C15_full`) is false of the code, inherently so:
`C15_full_refuted` (a tuple nested in a Tuple value comes back as a list — JSON has no
tuple).  What is proved is `roundtrip_partial` with the one extra hypothesis spelled
out: the elements of untyped containers are JSON-native (no nested tuple, no
non-string key).  Years below 1000 round-trip since `_strftime` pads the year.

Theorems: `roundtrip_partial` (per parameter, every reachable state `stateOK`),
`text_is_standard_json`, `roundtrip_parameters` / `roundtrip_parameters_narrowed`
(object level, `subset=` on either side), `rebuilt_object_equal` (the constructor, modelled
by `modelRebuild`, accepts the arguments and the rebuilt object holds the same values —
needs accepted values `validB`), `not_native_not_restored` (sharpness: whenever the extra
hypothesis fails the value is *not* restored).

Not covered by any theorem (model assumptions, tied to the code by the harness only):
`json.dumps`/`json.loads` are tree identities on JSON-native values (float text round trip
and everything else about the text except NaN/Infinity tokens is CPython's); class level vs
instance level (the model has states, not objects); histories (add_parameter, class default
after per-instance Parameters exist, repeated deserialization of one text).

Equality is equality of `PyVal`, in which the exact Python type is a constructor
(int vs float vs bool, list vs tuple, date vs datetime, None).

Only property theorems and their non-vacuity examples live here; helper lemmas
are in Json/Lemmas.lean.
-/
import ParamVerif.Json.Lemmas

namespace ParamVerif.Json

-- `inStatement` (a Date parameter holds a datetime, not a date) and `nativeElems` (the extra
-- hypothesis: untyped containers hold JSON-native elements) are defined in Json/Spec.lean.

/-- one parameter round-trips: `deserialize_value(serialize_value())` restores value and
type, and the text is standard JSON -/
def RoundTrips (p : Param) (v : PyVal) : Prop :=
  ∃ j, serializeValue p v = .ok j ∧ j.standard = true ∧ deserializeValue p j = .ok v

/-- The property as stated (per parameter): every valid, finite, in-statement value round-trips. -/
def C15_full : Prop :=
  ∀ (p : Param) (v : PyVal), p.validB v = true → v.finite = true → inStatement p.cfg v = true →
    RoundTrips p v

def witnessTuple : Param :=
  { name := "t", cfg := .tuple none, allowNone := .undef, default := some (.tuple [.int 0]),
    doc := none, label := "T" }

/-- **C15 is false of the code as stated** (inherent to JSON): `Tuple` holding `((1,),)` comes back
as `([1],)` — only the top level of a Tuple parameter is turned back into a tuple. -/
theorem C15_full_refuted : ¬ C15_full := by
  intro h
  obtain ⟨j, h1, _, h3⟩ := h witnessTuple (.tuple [.tuple [.int 1]]) (by decide) (by decide) (by decide)
  simp [serializeValue, witnessTuple, PCfg.serialize, asList, dumps, dumpsL] at h1
  subst h1
  simp [deserializeValue, witnessTuple, loads, loadsL, PCfg.deserialize, isNullish, asTuple] at h3

def witnessParam : Param :=
  { name := "d", cfg := .date, allowNone := .undef, default := some .none, doc := none, label := "D" }

/-- years below 1000 round-trip (the year is padded to four digits) -/
example : RoundTrips witnessParam (.datetime 999 1 1 0 0 0 0) :=
  ⟨.str (fmtDateTime 999 1 1 0 0 0 0), rfl, rfl, rfl⟩

/-- and the Tuple witness with a list inside instead of a tuple does round-trip -/
example : RoundTrips witnessTuple (.tuple [.list [.int 1]]) :=
  ⟨.arr [.arr [.int 1]], rfl, rfl, rfl⟩

/-! ## The provable part -/


/-- lemma: the types that inherit the identity hooks -/
theorem rt_identity {p : Param} {v : PyVal} (hc : p.cfg.isIdentity = true) (hn : v.jsonNative = true)
    (hf : v.finite = true) : RoundTrips p v := by
  obtain ⟨j, h1, h2⟩ := identity_roundtrip (p := p) hc hn
  exact ⟨j, h1, standard_serializeValue hf h1, h2⟩

/-- a parameter of the Tuple family holding the tuple `l` -/
theorem rt_tuple {p : Param} {l : List PyVal}
    (hs : p.cfg.serialize (.tuple l) = asList (.tuple l))
    (hd : ∀ w, p.cfg.deserialize w = if isNullish w then .ok .none else asTuple w)
    (hn : PyVal.jsonNativeL l = true) (hf : PyVal.finite (.tuple l) = true) : RoundTrips p (.tuple l) := by
  obtain ⟨j, h1, h2, h3⟩ := tuple_roundtrip hn
  have hser : serializeValue p (.tuple l) = .ok j := by simp [serializeValue, hs, asList, h1]
  exact ⟨j, hser, standard_serializeValue hf hser, by simp [deserializeValue, hd, h2, asTuple, isNullish]⟩

/-- lemma: `None` is passed through by every hook -/
theorem rt_none {p : Param} (hs : p.cfg.serialize .none = .ok .none)
    (hd : p.cfg.deserialize .none = .ok .none) : RoundTrips p .none :=
  ⟨.null, by simp [serializeValue, hs, dumps], rfl, by simp [deserializeValue, loads, hd]⟩

/-- **C15 (per parameter), provable part.**  A reachable (`stateOK`), finite value inside the statement whose
untyped containers hold JSON-native elements is restored
by `deserialize_value(serialize_value())` with equal value and equal Python type, and the text
is standard JSON.  All 17 parameter types, `None` included — also the `None` default of a
Selector / ListSelector that its own validator would not accept (`stateOK`). -/
theorem roundtrip_partial (p : Param) (v : PyVal) (hst : p.stateOK v = true) (hf : v.finite = true)
    (hs : inStatement p.cfg v = true) (hn : nativeElems p.cfg v = true) :
    RoundTrips p v := by
  -- a reachable state is an accepted value or the (never validated) `None` default
  have hcases : p.validB v = true ∨ v = .none := by
    unfold Param.stateOK at hst
    simp only [Bool.or_eq_true] at hst
    rcases hst with h | h
    · exact Or.inl h
    · right; split at h <;> simp_all
  rcases hcases with hv | rfl
  case inr => exact rt_none (serialize_none _) (deserialize_none _)
  obtain ⟨name, cfg, an, dflt, doc, label⟩ := p
  cases cfg with
  | integer b =>
    apply rt_identity rfl _ hf
    cases v <;> simp [Param.validB, PCfg.accepts] at hv <;> rfl
  | number b =>
    apply rt_identity rfl _ hf
    cases v <;> simp [Param.validB, PCfg.accepts] at hv <;> rfl
  | string =>
    apply rt_identity rfl _ hf
    cases v <;> simp [Param.validB, PCfg.accepts] at hv <;> rfl
  | boolean =>
    apply rt_identity rfl _ hf
    cases v <;> simp [Param.validB, PCfg.accepts] at hv <;> rfl
  | color =>
    apply rt_identity rfl _ hf
    cases v <;> simp [Param.validB, PCfg.accepts] at hv <;> rfl
  | list it lo hi => exact rt_identity rfl (by simpa [nativeElems] using hn) hf
  | dict => exact rt_identity rfl (by simpa [nativeElems] using hn) hf
  | selector objs => exact rt_identity rfl (by simpa [nativeElems] using hn) hf
  | listSelector objs => exact rt_identity rfl (by simpa [nativeElems] using hn) hf
  | classSelector s => exact rt_identity rfl (by simpa [nativeElems] using hn) hf
  | tuple n =>
    cases v <;> simp [Param.validB, PCfg.accepts] at hv
    · exact rt_none rfl rfl
    · exact rt_tuple rfl (fun _ => rfl) (by simpa [nativeElems] using hn) hf
  | numericTuple n =>
    cases v <;> simp [Param.validB, PCfg.accepts] at hv
    · exact rt_none rfl rfl
    · exact rt_tuple rfl (fun _ => rfl) (all_isNumber_nativeL (by simpa using hv.1)) hf
  | xy =>
    cases v <;> simp [Param.validB, PCfg.accepts] at hv
    · exact rt_none rfl rfl
    · exact rt_tuple rfl (fun _ => rfl) (all_isNumber_nativeL (by simpa using hv.1)) hf
  | range b =>
    cases v with
    | none => exact rt_none rfl rfl
    | tuple l =>
      rcases l with _ | ⟨x, _ | ⟨y, _ | ⟨z, r⟩⟩⟩ <;> simp [Param.validB, PCfg.accepts] at hv
      exact rt_tuple rfl (fun _ => rfl) (by simp [PyVal.jsonNativeL, isNumber_native hv.1.1.2, isNumber_native hv.1.2]) hf
    | _ => simp [Param.validB, PCfg.accepts] at hv
  | date =>
    cases v with
    | none => exact rt_none rfl rfl
    | datetime y m d h mi s us =>
      simp [Param.validB, PCfg.accepts, wfDate] at hv
      refine ⟨.str (fmtDateTime y m d h mi s us), rfl, rfl, ?_⟩
      simp [deserializeValue, loads, PCfg.deserialize, isNullish, fmtDateTime, strptimeDateTime,
        yearDigits_eq_four (y := y) (by omega)]
    | date y m d => simp [inStatement] at hs
    | _ => simp [Param.validB, PCfg.accepts] at hv
  | calendarDate =>
    cases v with
    | none => exact rt_none rfl rfl
    | date y m d =>
      simp [Param.validB, PCfg.accepts, wfDate] at hv
      refine ⟨.str (fmtDate y m d), rfl, rfl, ?_⟩
      simp [deserializeValue, loads, PCfg.deserialize, isNullish, fmtDate, strptimeDate,
        yearDigits_eq_four (y := y) (by omega)]
    | _ => simp [Param.validB, PCfg.accepts] at hv
  | dateRange =>
    cases v with
    | none => exact rt_none rfl rfl
    | tuple l =>
      rcases l with _ | ⟨x, _ | ⟨y, _ | ⟨z, r⟩⟩⟩ <;> simp [Param.validB, PCfg.accepts] at hv
      obtain ⟨⟨⟨_, hx⟩, hy'⟩, hle⟩ := hv
      cases x <;> cases y <;> simp [dateLe] at hle
      · rename_i y1 m1 d1 y2 m2 d2
        simp [wfDate] at hx hy'
        refine ⟨.arr [.str (fmtDate y1 m1 d1), .str (fmtDate y2 m2 d2)], rfl, rfl, ?_⟩
        simp [deserializeValue, loads, loadsL, PCfg.deserialize, isNullish, iterOf, mapE, dateRangeItemBack,
          pyLen, JStr.length, Stamp.length, fmtDate, strptimeDate,
          yearDigits_eq_four (y := y1) (by omega), yearDigits_eq_four (y := y2) (by omega)]
      · rename_i y1 m1 d1 h1 mi1 s1 us1 y2 m2 d2 h2 mi2 s2 us2
        simp [wfDate] at hx hy'
        refine ⟨.arr [.str (fmtDateTime y1 m1 d1 h1 mi1 s1 us1), .str (fmtDateTime y2 m2 d2 h2 mi2 s2 us2)],
          rfl, rfl, ?_⟩
        simp [deserializeValue, loads, loadsL, PCfg.deserialize, isNullish, iterOf, mapE, dateRangeItemBack,
          pyLen, JStr.length, Stamp.length, fmtDateTime, strptimeDateTime,
          yearDigits_eq_four (y := y1) (by omega), yearDigits_eq_four (y := y2) (by omega)]
    | _ => simp [Param.validB, PCfg.accepts] at hv
  | calendarDateRange =>
    cases v with
    | none => exact rt_none rfl rfl
    | tuple l =>
      rcases l with _ | ⟨x, _ | ⟨y, _ | ⟨z, r⟩⟩⟩ <;> simp [Param.validB, PCfg.accepts] at hv
      obtain ⟨⟨⟨⟨⟨hlen, hdx⟩, hdy⟩, hx⟩, hy'⟩, hle⟩ := hv
      cases x <;> simp [isDateOnly] at hdx
      cases y <;> simp [isDateOnly] at hdy
      rename_i y1 m1 d1 y2 m2 d2
      simp [wfDate] at hx hy'
      refine ⟨.arr [.str (fmtDate y1 m1 d1), .str (fmtDate y2 m2 d2)], rfl, rfl, ?_⟩
      simp [deserializeValue, loads, loadsL, PCfg.deserialize, isNullish, iterOf, mapE, fmtDate, strptimeDate,
        yearDigits_eq_four (y := y1) (by omega), yearDigits_eq_four (y := y2) (by omega)]
    | _ => simp [Param.validB, PCfg.accepts] at hv

/-- **C15: the text is standard JSON.**  A finite value never produces `NaN`/`Infinity` tokens,
whatever the parameter type (no validity hypothesis needed). -/
theorem text_is_standard_json (p : Param) (v : PyVal) (j : Json) (hf : v.finite = true)
    (h : serializeValue p v = .ok j) : j.standard = true :=
  standard_serializeValue hf h

/-- the hypotheses of `roundtrip_partial`, for one entry of a state -/
def EntryOK (pv : Param × PyVal) : Prop :=
  pv.1.stateOK pv.2 = true ∧ pv.2.finite = true ∧ inStatement pv.1.cfg pv.2 = true ∧
  nativeElems pv.1.cfg pv.2 = true

/-- **C15 (object level, and under `subset=`).**  For a class with distinct parameter names and a
state all of whose entries satisfy the hypotheses above, `serialize_parameters(subset)` succeeds,
its text is standard JSON, and `deserialize_parameters(text, subset)` yields exactly the
constructor arguments `name ↦ value` of the selected parameters — equal values of equal type.
(`subset = none` is the plain call.)  Since the arguments are the (valid) state itself, the
constructor accepts them and the rebuilt object holds equal values. -/
theorem roundtrip_parameters (st : List (Param × PyVal)) (subset : Option (List String))
    (hnd : ((st.map (·.1)).map (·.name)).Nodup) (h : ∀ pv ∈ st, EntryOK pv) :
    ∃ fields, serializeParameters st subset = .ok fields ∧ Json.standardO fields = true ∧
      deserializeFields (st.map (·.1)) subset fields =
        .ok ((st.filter (fun pv => inSubset subset pv.1.name)).map (fun pv => (pv.1.name, pv.2))) :=
  roundtrip_fields (st.map (·.1)) subset st
    (fun pv hpv => findParam_of_nodup _ hnd pv.1 (List.mem_map.2 ⟨pv, hpv, rfl⟩))
    (fun pv hpv => by
      obtain ⟨h1, h2, h3, h4⟩ := h pv hpv
      exact roundtrip_partial pv.1 pv.2 h1 h2 h3 h4)

/-- **C15 (a text read back with a narrower subset).**  The full text of `serialize_parameters()`
(or one written with subset `s1`) deserialized with `subset = s2` yields exactly the arguments of
the parameters selected by both — nothing outside `s2` is carried over, raw or otherwise. -/
theorem roundtrip_parameters_narrowed (st : List (Param × PyVal)) (s1 s2 : Option (List String))
    (hnd : ((st.map (·.1)).map (·.name)).Nodup) (h : ∀ pv ∈ st, EntryOK pv) :
    ∃ fields, serializeParameters st s1 = .ok fields ∧
      deserializeFields (st.map (·.1)) s2 fields =
        .ok ((st.filter (fun pv => inSubset s1 pv.1.name && inSubset s2 pv.1.name)).map
              (fun pv => (pv.1.name, pv.2))) := by
  obtain ⟨fields, h1, _, h3⟩ := roundtrip_fields₂ (st.map (·.1)) s1 s2 st
    (fun pv hpv => findParam_of_nodup _ hnd pv.1 (List.mem_map.2 ⟨pv, hpv, rfl⟩))
    (fun pv hpv => by
      obtain ⟨h1, h2, h3, h4⟩ := h pv hpv
      exact roundtrip_partial pv.1 pv.2 h1 h2 h3 h4)
  exact ⟨fields, h1, h3⟩

/-- **C15: "… constructor arguments that rebuild an object with equal values".**  When moreover
every value is one the Parameter's validator accepts (`validB`; `stateOK` alone is not enough: the
unvalidated `None` default of a ListSelector is rejected by the constructor), the constructor
(`modelRebuild`: each keyword validated by the Parameter found under its name) accepts the
arguments obtained from `deserialize_parameters(serialize_parameters())` and the rebuilt object
holds, parameter by parameter in declaration order, exactly the values of the original. -/
theorem rebuilt_object_equal (st : List (Param × PyVal))
    (hnd : ((st.map (·.1)).map (·.name)).Nodup) (h : ∀ pv ∈ st, EntryOK pv)
    (hv : ∀ pv ∈ st, pv.1.validB pv.2 = true) :
    ∃ fields args, serializeParameters st none = .ok fields ∧
      deserializeFields (st.map (·.1)) none fields = .ok args ∧
      modelRebuild (st.map (·.1)) args = .ok (st.map (fun pv => (pv.1.name, pv.2))) := by
  obtain ⟨fields, h1, _, h3⟩ := roundtrip_parameters st none hnd h
  refine ⟨fields, _, h1, h3, ?_⟩
  have : st.filter (fun pv => inSubset none pv.1.name) = st := by
    simp [inSubset]
  rw [this]
  exact rebuild_state st hnd hv

/-- **Sharpness of the extra hypothesis.**  Whenever `nativeElems` fails — a tuple, a date or a
non-string key inside an untyped Tuple / List / Dict / Selector / ClassSelector value — and the
value serializes at all, `deserialize_value` does *not* give the value back: `roundtrip_partial`
is the whole provable part, not one lucky witness away from `C15_full`. -/
theorem not_native_not_restored (p : Param) (v : PyVal) (hn : nativeElems p.cfg v = false)
    (j : Json) (hs : serializeValue p v = .ok j) : deserializeValue p j ≠ .ok v := by
  intro hd
  obtain ⟨name, cfg, an, dflt, doc, label⟩ := p
  have identity : ∀ c : PCfg, c.isIdentity = true → c.deserialize (loads j) = .ok v → v.jsonNative = true := by
    intro c hc h
    rw [deserialize_identity hc] at h
    have := loads_jsonNative j
    simp only [Except.ok.injEq] at h
    rw [h] at this; exact this
  cases cfg <;> simp only [nativeElems] at hn
  case tuple n =>
    cases v <;> simp at hn
    rename_i l
    simp only [serializeValue, PCfg.serialize, asList, dumps] at hs
    split at hs
    · rename_i js _
      simp only [Except.ok.injEq] at hs; subst hs
      simp [deserializeValue, loads, PCfg.deserialize, isNullish, asTuple] at hd
      have := loadsL_jsonNative js
      rw [hd] at this; simp [this] at hn
    · simp at hs
  case list it lo hi => have := identity _ rfl hd; simp [this] at hn
  case dict => have := identity _ rfl hd; simp [this] at hn
  case selector objs => have := identity _ rfl hd; simp [this] at hn
  case listSelector objs => have := identity _ rfl hd; simp [this] at hn
  case classSelector sp => have := identity _ rfl hd; simp [this] at hn
  all_goals simp at hn

/-! ### Non-vacuity: concrete non-trivial states satisfying the hypotheses -/

def exTuple : Param :=
  { name := "t", cfg := .tuple none, allowNone := .undef,
    default := some (.tuple [.int 0, .int 0]), doc := none, label := "T" }
def exRange : Param :=
  { name := "r", cfg := .dateRange, allowNone := .undef, default := some .none, doc := none, label := "R" }
def exState : List (Param × PyVal) :=
  [(exTuple, .tuple [.int 1, .list [.str (.plain "a"), .none]]),
   (witnessParam, .datetime 2024 2 29 12 0 0 1),
   (exRange, .tuple [.date 999 1 1, .date 2021 12 31])]

example : ∀ pv ∈ exState, EntryOK pv := by
  intro pv h
  simp only [exState, List.mem_cons, List.not_mem_nil, or_false] at h
  rcases h with h | h | h <;> subst h <;> exact ⟨by decide, by decide, by decide, by decide⟩

example : (((exState.map (·.1)).map (·.name)).Nodup) := by decide

/-- and the object-level conclusion evaluated on it, under a subset -/
example : ∃ fields, serializeParameters exState (some ["r", "t"]) = .ok fields ∧
    deserializeFields (exState.map (·.1)) (some ["r", "t"]) fields =
      .ok [("t", .tuple [.int 1, .list [.str (.plain "a"), .none]]),
           ("r", .tuple [.date 999 1 1, .date 2021 12 31])] :=
  ⟨_, rfl, rfl⟩

end ParamVerif.Json
