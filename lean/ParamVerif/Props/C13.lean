/-
C13 — The `.param` namespace always agrees with attribute access.

  "After any sequence of class-level assignments (on a declaring class or on a
   subclass), `add_parameter` calls anywhere in a hierarchy and instance-level
   operations, every Parameter reachable as an attribute of a class or instance is
   listed in its `.param` namespace, `.param[name]` is the very Parameter object that
   governs attribute access there, its `default` equals the class-level attribute
   value, and `.param.values()`, `repr`, watching and serialization see the same
   parameters and (for non-dynamic values) the same values as `getattr`."

Model: Store/Namespace.lean (classes with their MRO as data, per-class `__dict__`, per-class cache,
`add_parameter`, class-level assignment with copy-on-write, instances, per-instance Parameter copies).
Only property theorems and their non-vacuity examples live here; helper lemmas are in
Store/NamespaceLemmas.lean (where the invariant `Inv` = "every class `__dict__` has unique keys and
every cache is empty or equal to the fresh MRO walk" is defined).

The deviations found by this check on earlier trees are repaired in /repo and the model follows the
repaired code: a failing `add_parameter` puts the previous class attribute back and clears the caches
(9350ff5, 7bbc787); `values()`/serialisation of an unset `Dynamic`-type parameter read the class
Parameter's default (9f6df2c); a rejected class-level assignment removes its copy again (1e41598); a
Parameter object assigned to a class attribute takes the `add_parameter` path (3c67719, 6653662).
`namespace_agrees` / `C13_full_holds` therefore hold for all histories of the operations modelled.

NOT covered by the theorems, stated here so that nobody reads more into them:
  * the hierarchy is fixed at the start of a history (no class-creation operation);
  * `repr` is not modelled as a separate consumer (it reads the same `objects('existing')` dictionary as
    `values()`); watcher registration is (`watchCls`/`watchInst`); the inherited `name` parameter,
    `delattr`, `per_instance=False` and edits of a per-instance copy's `default` are outside the model.
-/
import ParamVerif.Store.NamespaceLemmas

namespace ParamVerif.Store.Namespace
open ParamVerif.Store

/-- what the property asks of one state, for every class, instance and name -/
structure Agrees (s : St) : Prop where
  /-- `C.param[n]` is the very Parameter object attribute lookup finds along the MRO
  (and `n in C.param` iff there is one) -/
  getitem : ∀ (c : CId) (n : Name), aget (nsView s c) n = staticAttr s c n
  /-- every Parameter reachable as an attribute is listed by `list(C.param)`, and nothing else is -/
  listed : ∀ (c : CId) (n : Name), n ∈ akeys (nsView s c) ↔ (staticAttr s c n).isSome
  once : ∀ (c : CId), (akeys (nsView s c)).Nodup
  /-- `C.param[n].default` equals the class-level attribute value -/
  default : ∀ (c : CId) (n : Name), nsDefault s c n = clsAttr s c n
  /-- `C.param.values()` / serialisation see the same parameters and values as `getattr(C, n)` -/
  values : ∀ (c : CId) (n : Name), clsValues s c n = clsAttr s c n
  /-- on an instance `.param` shows the Parameter that governs attribute access there -/
  inst_getitem : ∀ (i : IId) (n : Name), instExisting s i n = instGoverning s i n
  /-- `obj.param.values()` / serialisation agree with `getattr(obj, n)` (non-`Dynamic` Parameter types) -/
  inst_values : ∀ (i : IId) (n : Name), instValues s i n = instAttr s i n
  /-- the same for Parameters of a `Dynamic` type (Number, Integer), class and instance level -/
  cls_values_dyn : ∀ (c : CId) (n : Name), clsValuesDyn s c n = clsAttr s c n
  inst_values_dyn : ∀ (i : IId) (n : Name), instValuesDyn s i n = instAttr s i n

/-- **C13 (one state).**  When every cache is empty or up to date, everything the namespace
shows agrees with attribute access. -/
theorem agrees_of_inv (s : St) (h : Inv s) (hi : InstOk s) : Agrees s := by
  have gi : ∀ (c : CId) (n : Name), aget (nsView s c) n = staticAttr s c n := by
    intro c n; rw [nsView_eq h, computeParams_get h]; rfl
  refine ⟨gi, ?_, ?_, ?_, ?_, ?_, ?_, ?_, ?_⟩
  · intro c n; rw [← aget_isSome_iff_mem_keys, gi]
  · intro c; rw [nsView_eq h]; exact computeParams_nodup s c
  · intro c n; unfold nsDefault clsAttr; rw [gi]
  · intro c n
    unfold clsValues
    rw [gi]
    cases hs : staticAttr s c n with
    | none => simp [clsAttr, hs]
    | some p => rfl
  · intro i n
    unfold instExisting instGoverning
    cases s.insts[i]? with
    | none => rfl
    | some x => simp only [gi]
  · intro i n
    have e : instExisting s i n = instGoverning s i n := by
      unfold instExisting instGoverning
      cases s.insts[i]? with
      | none => rfl
      | some x => simp only [gi]
    unfold instValues
    rw [e]
    unfold instGoverning instAttr
    cases s.insts[i]? with
    | none => rfl
    | some x =>
      simp only
      cases hs : staticAttr s x.cls n with
      | none => cases aget x.iparams n <;> simp
      | some p => cases aget x.iparams n <;> simp
  · intro c n; unfold clsValuesDyn nsDefault clsAttr; rw [gi]
  · intro i n
    unfold instValuesDyn instAttr instExisting
    cases hx : s.insts[i]? with
    | none => rfl
    | some x =>
      simp only [gi]
      cases hs : staticAttr s x.cls n with
      | some p => cases aget x.iparams n <;> simp
      | none =>
        cases ha : aget x.iparams n with
        | none => simp
        | some ip =>
          -- a per-instance copy under a name that is no Parameter of the class: excluded by InstOk
          have := hi i x n ip hx ha
          unfold staticAttr at hs
          cases hd : descriptor s x.cls n with
          | none => rw [hd] at this; cases this
          | some po => rw [hd] at hs; cases hs

/-- `add_parameter` (and, since 6653662, a Parameter object assigned to a class attribute): whether it
succeeds or its merge re-validation raises, every cache stays empty or up to date -/
theorem addParamCore_inv (s : St) (c : CId) (n : Name) (d : Int) (hi : Option Int) (h : Inv s) :
    Inv (addParamCore s c n d hi).1 := by
  unfold addParamCore
  split
  · exact h
  · split
    · exact h
    · dsimp only
      split
      · have h1 := inv_clear_setDict (s := { s with heap := s.heap ++ [{ default := d, hi := hi }] })
          (inv_of_classes (s := s) rfl h) c n s.heap.length
        exact inv_of_classes (s := clearDesc (setDict { s with heap := s.heap ++ [{ default := d, hi := hi }] } c n s.heap.length) c) rfl h1
      · -- the call raised: the class is as it was, caches of the class and its descendants cleared
        exact inv_clearDesc (inv_of_classes (s := s) (s' := { s with heap := s.heap ++ [_] }) rfl h) c

theorem addParamCore_instOk (s : St) (c : CId) (n : Name) (d : Int) (hi : Option Int) (h : InstOk s) :
    InstOk (addParamCore s c n d hi).1 := by
  unfold addParamCore
  split
  · exact h
  · split
    · exact h
    · dsimp only
      split
      · exact instOk_cow2 s _ _ c n _ h
      · exact instOk_of (s := s) rfl (clearDesc_shape { s with heap := s.heap ++ [_] } c).1
          (fun k m hk => by rw [(clearDesc_shape { s with heap := s.heap ++ [_] } c).2]; exact hk) h

/-- **C13 (one step).**  Every operation — a namespace read, a class-level assignment on the
declaring class or on a subclass (copy-on-write; a rejected one removes the copy again),
`add_parameter` at any level (succeeding or raising), instance creation, instance assignment, `obj.param[n]` — keeps every cache empty or up to
date. -/
theorem step_preserves_inv (s : St) (op : Op) (h : Inv s) : Inv (step s op).1 := by
  suffices H : ∀ s' r, step s op = (s', r) → Inv s' from H _ _ rfl
  intro s' r hstep
  cases op with
  | read c =>
    simp only [step, Prod.mk.injEq] at hstep
    rw [← hstep.1]; exact inv_nsRead h c
  | clsSet c n v =>
    simp only [step] at hstep
    split at hstep
    · simp only [Prod.mk.injEq] at hstep; rw [← hstep.1]; exact h
    · rename_i p owner _
      split at hstep
      · simp only [Prod.mk.injEq] at hstep; rw [← hstep.1]; exact h
      · rename_i q _
        by_cases e : owner = c
        · simp only [e, if_true] at hstep
          split at hstep <;> (simp only [Prod.mk.injEq] at hstep; rw [← hstep.1])
          · exact inv_of_classes (s := s) rfl h
          · exact h
        · simp only [e, if_false] at hstep
          have h1 : Inv (clearDesc (setDict { s with heap := s.heap ++ [q] } c n s.heap.length) c) :=
            inv_clear_setDict (s := { s with heap := s.heap ++ [q] }) (inv_of_classes (s := s) rfl h) c n _
          split at hstep <;> (simp only [Prod.mk.injEq] at hstep; rw [← hstep.1])
          · exact inv_of_classes (s := clearDesc (setDict { s with heap := s.heap ++ [q] } c n s.heap.length) c) rfl h1
          · -- rejected: the copy is gone again, the caches of the class and its descendants are empty
            exact inv_clearDesc h c
  | addParam c n d hi =>
    simp only [step] at hstep
    have := addParamCore_inv s c n d hi h
    rw [hstep] at this; exact this
  | newInst c kw =>
    simp only [step] at hstep
    split at hstep
    · simp only [Prod.mk.injEq] at hstep; rw [← hstep.1]; exact h
    · split at hstep <;> (simp only [Prod.mk.injEq] at hstep; rw [← hstep.1])
      · exact inv_nsRead h c
      · exact inv_of_classes (s := (nsRead s c).1) rfl (inv_nsRead h c)
  | instSet i n v =>
    simp only [step] at hstep
    split at hstep
    · simp only [Prod.mk.injEq] at hstep; rw [← hstep.1]; exact h
    · split at hstep
      · simp only [Prod.mk.injEq] at hstep; rw [← hstep.1]; exact h
      · split at hstep
        · simp only [Prod.mk.injEq] at hstep; rw [← hstep.1]; exact h
        · rename_i s1 ip hinst
          have h1 : Inv s1 := inv_of_classes (instantiated_classes hinst) h
          split at hstep
          · split at hstep <;> (simp only [Prod.mk.injEq] at hstep; rw [← hstep.1])
            · exact inv_of_classes (s := s1) rfl h1
            · exact h1
          · simp only [Prod.mk.injEq] at hstep; rw [← hstep.1]; exact h1
  | instParam i n =>
    simp only [step] at hstep
    split at hstep
    · simp only [Prod.mk.injEq] at hstep; rw [← hstep.1]; exact h
    · rename_i x _
      have h1 : Inv (nsRead s x.cls).1 := inv_nsRead h x.cls
      split at hstep
      · simp only [Prod.mk.injEq] at hstep; rw [← hstep.1]; exact h1
      · split at hstep
        · simp only [Prod.mk.injEq] at hstep; rw [← hstep.1]; exact h1
        · rename_i s2 _ hinst
          simp only [Prod.mk.injEq] at hstep; rw [← hstep.1]
          exact inv_of_classes (instantiated_classes hinst) h1

  | instBlock i =>
    simp only [step] at hstep
    split at hstep
    · simp only [Prod.mk.injEq] at hstep; rw [← hstep.1]; exact h
    · rename_i x _
      simp only [Prod.mk.injEq] at hstep; rw [← hstep.1]; exact inv_nsRead h x.cls
  | watchCls c n =>
    simp only [step, Prod.mk.injEq] at hstep
    rw [← hstep.1]; exact inv_nsRead h c
  | watchInst i n =>
    simp only [step] at hstep
    split at hstep
    · simp only [Prod.mk.injEq] at hstep; rw [← hstep.1]; exact h
    · rename_i x _
      simp only [Prod.mk.injEq] at hstep; rw [← hstep.1]; exact inv_nsRead h x.cls
  | clsSetParam c n d hi =>
    simp only [step] at hstep
    have := addParamCore_inv s c n d hi h
    rw [hstep] at this; exact this

/-- per-instance copies stay attached to names that are Parameters of the class -/
theorem step_preserves_instOk (s : St) (op : Op) (h : Inv s) (hi : InstOk s) :
    InstOk (step s op).1 := by
  suffices H : ∀ s' r, step s op = (s', r) → InstOk s' from H _ _ rfl
  intro s' r hstep
  -- a new per-instance copy for a resolvable name
  have hcopy : ∀ (s0 s1 : St) (i : IId) (x : Inst) (n : Name) (p ip : PId), InstOk s0 → s0.insts[i]? = some x →
      (descriptor s0 x.cls n).isSome = true → instantiated s0 i x n p = .ok (s1, ip) → InstOk s1 := by
    intro s0 s1 i x n p ip h0 hx hd hin
    unfold instantiated at hin
    split at hin
    · simp only [Except.ok.injEq, Prod.mk.injEq] at hin; rw [← hin.1]; exact h0
    · split at hin
      · cases hin
      · rename_i q _
        simp only [Except.ok.injEq, Prod.mk.injEq] at hin
        rw [← hin.1]
        have hlt : i < s0.insts.length := (List.getElem?_eq_some_iff.1 hx).1
        intro j y m ipm hy hm
        have hy' : (s0.insts.set i { x with iparams := aset x.iparams n s0.heap.length })[j]? = some y := hy
        rw [List.getElem?_set] at hy'
        have hdesc : ∀ c m, descriptor (setInst { s0 with heap := s0.heap ++ [q] } i
            { x with iparams := aset x.iparams n s0.heap.length }) c m = descriptor s0 c m := by
          intro c m
          obtain ⟨e1, e2⟩ := shape_of_classes (s := s0) (s' := setInst { s0 with heap := s0.heap ++ [q] } i
            { x with iparams := aset x.iparams n s0.heap.length }) rfl
          unfold descriptor; rw [e1]
          generalize mroOf s0 c = l
          induction l with
          | nil => rfl
          | cons k l ih => simp only [findIn, e2, ih]
        rw [hdesc]
        by_cases e : i = j
        · subst e
          simp only [hlt, if_true, Option.some.injEq] at hy'
          subst hy'
          have hm' : aget (aset x.iparams n s0.heap.length) m = some ipm := hm
          rw [aget_aset] at hm'
          split at hm'
          · rename_i e; subst e; exact hd
          · exact h0 i x m ipm hx hm'
        · simp only [e, if_false] at hy'
          exact h0 j y m ipm hy' hm
  cases op with
  | read c =>
    simp only [step, Prod.mk.injEq] at hstep
    rw [← hstep.1]
    obtain ⟨e1, e2, e3, _⟩ := nsRead_shape s c
    exact instOk_of e3 e1 (fun k n hk => by rw [e2]; exact hk) hi
  | clsSet c n v =>
    simp only [step] at hstep
    split at hstep
    · simp only [Prod.mk.injEq] at hstep; rw [← hstep.1]; exact hi
    · rename_i p owner _
      split at hstep
      · simp only [Prod.mk.injEq] at hstep; rw [← hstep.1]; exact hi
      · rename_i q _
        by_cases e : owner = c
        · simp only [e, if_true] at hstep
          split at hstep <;> (simp only [Prod.mk.injEq] at hstep; rw [← hstep.1])
          · exact instOk_of (s := s) rfl (fun _ => rfl) (fun _ _ hk => hk) hi
          · exact hi
        · simp only [e, if_false] at hstep
          split at hstep <;> (simp only [Prod.mk.injEq] at hstep; rw [← hstep.1])
          · exact instOk_cow1 s (s.heap ++ [q]) _ c n _ hi
          · exact instOk_of (s := s) rfl (clearDesc_shape s c).1
              (fun k m hk => by rw [(clearDesc_shape s c).2]; exact hk) hi
  | addParam c n d hi' =>
    simp only [step] at hstep
    have := addParamCore_instOk s c n d hi' hi
    rw [hstep] at this; exact this
  | newInst c kw =>
    obtain ⟨e1, e2, e3, _⟩ := nsRead_shape s c
    have h1 : InstOk (nsRead s c).1 := instOk_of e3 e1 (fun k n hk => by rw [e2]; exact hk) hi
    simp only [step] at hstep
    split at hstep
    · simp only [Prod.mk.injEq] at hstep; rw [← hstep.1]; exact hi
    · split at hstep <;> (simp only [Prod.mk.injEq] at hstep; rw [← hstep.1])
      · exact h1
      · rename_i vals _
        intro j y m ipm hy hm
        have hy' : ((nsRead s c).1.insts ++ [({ cls := c, values := vals, iparams := [] } : Inst)])[j]? = some y := hy
        have hdesc : ∀ c' m', descriptor ({ (nsRead s c).1 with insts := (nsRead s c).1.insts ++
            [({ cls := c, values := vals, iparams := [] } : Inst)] } : St) c' m' = descriptor (nsRead s c).1 c' m' := by
          intro c' m'
          obtain ⟨f1, f2⟩ := shape_of_classes (s := (nsRead s c).1) (s' := { (nsRead s c).1 with insts :=
            (nsRead s c).1.insts ++ [({ cls := c, values := vals, iparams := [] } : Inst)] }) rfl
          unfold descriptor; rw [f1]
          generalize mroOf (nsRead s c).1 c' = l
          induction l with
          | nil => rfl
          | cons k l ih => simp only [findIn, f2, ih]
        rw [hdesc]
        rw [List.getElem?_append] at hy'
        split at hy'
        · exact h1 j y m ipm hy' hm
        · cases hd : j - (nsRead s c).1.insts.length with
          | zero => rw [hd] at hy'; simp at hy'; subst hy'; simp [aget] at hm
          | succ k => rw [hd] at hy'; simp at hy'
  | instSet i n v =>
    simp only [step] at hstep
    split at hstep
    · simp only [Prod.mk.injEq] at hstep; rw [← hstep.1]; exact hi
    · rename_i x hx
      split at hstep
      · simp only [Prod.mk.injEq] at hstep; rw [← hstep.1]; exact hi
      · rename_i p o hd
        split at hstep
        · simp only [Prod.mk.injEq] at hstep; rw [← hstep.1]; exact hi
        · rename_i s1 ip hinst
          have h1 : InstOk s1 := hcopy s s1 i x n p ip hi hx (by rw [hd]; rfl) hinst
          split at hstep
          · rename_i q x1 _ hx1
            split at hstep <;> (simp only [Prod.mk.injEq] at hstep; rw [← hstep.1])
            · -- only `values` of instance i changes
              have hlt : i < s1.insts.length := (List.getElem?_eq_some_iff.1 hx1).1
              intro j y m ipm hy hm
              have hy' : (s1.insts.set i { x1 with values := aset x1.values n v })[j]? = some y := hy
              have hdesc : ∀ c' m', descriptor (setInst s1 i { x1 with values := aset x1.values n v }) c' m'
                  = descriptor s1 c' m' := by
                intro c' m'
                obtain ⟨f1, f2⟩ := shape_of_classes (s := s1)
                  (s' := setInst s1 i { x1 with values := aset x1.values n v }) rfl
                unfold descriptor; rw [f1]
                generalize mroOf s1 c' = l
                induction l with
                | nil => rfl
                | cons k l ih => simp only [findIn, f2, ih]
              rw [hdesc]
              rw [List.getElem?_set] at hy'
              by_cases e : i = j
              · subst e
                simp only [hlt, if_true, Option.some.injEq] at hy'
                subst hy'
                exact h1 i x1 m ipm hx1 hm
              · simp only [e, if_false] at hy'
                exact h1 j y m ipm hy' hm
            · exact h1
          · simp only [Prod.mk.injEq] at hstep; rw [← hstep.1]; exact h1
  | instParam i n =>
    simp only [step] at hstep
    split at hstep
    · simp only [Prod.mk.injEq] at hstep; rw [← hstep.1]; exact hi
    · rename_i x hx
      obtain ⟨e1, e2, e3, _⟩ := nsRead_shape s x.cls
      have h1 : InstOk (nsRead s x.cls).1 := instOk_of e3 e1 (fun k n hk => by rw [e2]; exact hk) hi
      have hinv1 : Inv (nsRead s x.cls).1 := inv_nsRead h x.cls
      split at hstep
      · simp only [Prod.mk.injEq] at hstep; rw [← hstep.1]; exact h1
      · rename_i p hp
        split at hstep
        · simp only [Prod.mk.injEq] at hstep; rw [← hstep.1]; exact h1
        · rename_i s2 _ hinst
          simp only [Prod.mk.injEq] at hstep; rw [← hstep.1]
          -- the namespace entry is what attribute lookup finds (Inv)
          have hd : (descriptor (nsRead s x.cls).1 x.cls n).isSome = true := by
            have hns : aget (nsView s x.cls) n = some p := hp
            rw [nsView_eq h, computeParams_get h] at hns
            have : descriptor (nsRead s x.cls).1 x.cls n = descriptor s x.cls n := by
              unfold descriptor; rw [e1]
              generalize mroOf s x.cls = l
              induction l with
              | nil => rfl
              | cons k l ih => simp only [findIn, e2, ih]
            rw [this]
            cases hdd : descriptor s x.cls n with
            | none => rw [hdd] at hns; cases hns
            | some po => rfl
          exact hcopy _ s2 i x n p _ h1 (by rw [e3]; exact hx) hd hinst

  | instBlock i =>
    simp only [step] at hstep
    split at hstep
    · simp only [Prod.mk.injEq] at hstep; rw [← hstep.1]; exact hi
    · rename_i x _
      simp only [Prod.mk.injEq] at hstep; rw [← hstep.1]
      obtain ⟨e1, e2, e3, _⟩ := nsRead_shape s x.cls
      exact instOk_of e3 e1 (fun k n hk => by rw [e2]; exact hk) hi
  | watchCls c n =>
    simp only [step, Prod.mk.injEq] at hstep
    rw [← hstep.1]
    obtain ⟨e1, e2, e3, _⟩ := nsRead_shape s c
    exact instOk_of e3 e1 (fun k n hk => by rw [e2]; exact hk) hi
  | watchInst i n =>
    simp only [step] at hstep
    split at hstep
    · simp only [Prod.mk.injEq] at hstep; rw [← hstep.1]; exact hi
    · rename_i x _
      simp only [Prod.mk.injEq] at hstep; rw [← hstep.1]
      obtain ⟨e1, e2, e3, _⟩ := nsRead_shape s x.cls
      exact instOk_of e3 e1 (fun k n hk => by rw [e2]; exact hk) hi
  | clsSetParam c n d hi' =>
    simp only [step] at hstep
    have := addParamCore_instOk s c n d hi' hi
    rw [hstep] at this; exact this

/-- the invariants hold after any history -/
theorem run_preserves_inv (ops : List Op) (s : St) (h : Inv s) (hi : InstOk s) :
    Inv (run s ops) ∧ InstOk (run s ops) := by
  induction ops generalizing s with
  | nil => exact ⟨by simpa [run] using h, by simpa [run] using hi⟩
  | cons op ops ih =>
    simp only [run, List.foldl_cons]
    exact ih _ (step_preserves_inv s op h) (step_preserves_instOk s op h hi)

/-- **C13 (all histories).**  After *any* interleaving of namespace reads (including `edit_constant`
blocks, which read the class namespace), class-level assignments of values and of Parameter objects
at every level, `add_parameter` at every level (whether these succeed or raise), instance creation,
instance assignments and `obj.param[n]` accesses, the `.param` namespace of every class and
instance agrees with attribute access — for `Dynamic` Parameter types too. -/
theorem namespace_agrees (s : St) (ops : List Op) (h : Inv s) (hi : InstOk s) : Agrees (run s ops) :=
  agrees_of_inv _ (run_preserves_inv ops s h hi).1 (run_preserves_inv ops s h hi).2

/-- **C13 (an added Parameter is installed).**  When `add_parameter(n, P)` — or `C.n = P` — returns
normally on a class that is first on its own MRO, attribute lookup on that class finds `P`: the class
attribute reads `P`'s default. -/
theorem added_parameter_is_installed (s : St) (c : CId) (n : Name) (d : Int) (hi : Option Int) (k : Cls)
    (rest : List CId) (hk : s.classes[c]? = some k) (hm : k.mro = c :: rest)
    (hok : (addParamCore s c n d hi).2 = .ok) : clsAttr (addParamCore s c n d hi).1 c n = some d := by
  unfold addParamCore at hok ⊢
  simp only [hk] at hok ⊢
  split at hok
  · cases hok
  · rename_i hacc
    simp only [hacc, Bool.false_eq_true, if_false] at hok ⊢
    split at hok
    · rename_i hq
      simp only [hq, if_true]
      -- the final state has the class table of `clearDesc (setDict s c n p) c`
      have hcl : (clearDesc { setDict { s with heap := s.heap ++ [{ default := d, hi := hi }] } c n s.heap.length with
            heap := (setDict { s with heap := s.heap ++ [{ default := d, hi := hi }] } c n s.heap.length).heap.set s.heap.length
              { default := d, hi := resolvedHi (setDict { s with heap := s.heap ++ [{ default := d, hi := hi }] } c n s.heap.length)
                  s.heap.length k.mro n hi } } c).classes = (clearDesc (setDict s c n s.heap.length) c).classes := by
        unfold clearDesc; simp only [setDict_classes_heap]
      obtain ⟨e1, e2⟩ := shape_of_classes hcl
      unfold clsAttr staticAttr descriptor
      rw [e1, mroOf_clear_setDict]
      have hmro : mroOf s c = c :: rest := by unfold mroOf; rw [hk]; exact hm
      rw [hmro]
      simp only [findIn, e2, clsDict_clear_setDict_self s c n s.heap.length k hk, aget_aset_self, Option.map_some,
        Option.bind_some]
      unfold defaultOf
      have hheap : (setDict { s with heap := s.heap ++ [{ default := d, hi := hi }] } c n s.heap.length).heap
          = s.heap ++ [{ default := d, hi := hi }] := by unfold setDict; split <;> rfl
      show (((setDict { s with heap := s.heap ++ [{ default := d, hi := hi }] } c n s.heap.length).heap.set s.heap.length _)[s.heap.length]?).map _ = _
      rw [hheap, List.getElem?_set]
      simp
    · cases hok

/-- **C13 (watching).**  Registering a watcher succeeds exactly for the names that are reachable as
Parameter attributes: `_register_watcher` tests membership in the (cached) namespace. -/
theorem watch_succeeds_iff_reachable (s : St) (h : Inv s) (c : CId) (n : Name) :
    (step s (.watchCls c n)).2 = .ok ↔ (staticAttr s c n).isSome = true := by
  have gi : aget (nsRead s c).2 n = staticAttr s c n := by
    have := nsView_eq h c
    unfold nsView at this
    rw [this, computeParams_get h]; rfl
  simp only [step]
  rw [gi]
  cases staticAttr s c n <;> simp

theorem watch_instance_succeeds_iff_reachable (s : St) (h : Inv s) (i : IId) (x : Inst) (n : Name)
    (hx : s.insts[i]? = some x) :
    (step s (.watchInst i n)).2 = .ok ↔ (staticAttr s x.cls n).isSome = true := by
  have gi : aget (nsRead s x.cls).2 n = staticAttr s x.cls n := by
    have := nsView_eq h x.cls
    unfold nsView at this
    rw [this, computeParams_get h]; rfl
  simp only [step, hx]
  rw [gi]
  cases staticAttr s x.cls n <;> simp

/-- freshly created classes (no cache computed yet, `__dict__`s are dicts) satisfy the invariant -/
theorem fresh_inv (s : St) (hd : ∀ (c : CId) (k : Cls), s.classes[c]? = some k → (akeys k.dict).Nodup)
    (hc : ∀ (c : CId) (k : Cls), s.classes[c]? = some k → k.cache = []) : Inv s :=
  ⟨hd, fun c k hk => Or.inl (hc c k hk)⟩

/-- before any instance exists there is nothing to check about instances -/
theorem fresh_instOk (s : St) (h : s.insts = []) : InstOk s := by
  intro i x n ip hx; rw [h] at hx; simp at hx

/-- the statement of the property: from freshly created classes, after every history -/
def C13_full : Prop :=
  ∀ (s : St) (ops : List Op), Inv s → s.insts = [] → Agrees (run s ops)

/-- A: x (default 1, upper bound 5);  B(A) -/
def witnessClasses : St :=
  { heap := [{ default := 1, hi := some 5 }],
    classes := [{ mro := [0], dict := [("x", 0)], cache := [] }, { mro := [1, 0], dict := [], cache := [] }],
    insts := [] }

theorem witnessClasses_inv : Inv witnessClasses := by
  apply fresh_inv
  · intro c k hk
    match c, hk with
    | 0, hk => simp [witnessClasses] at hk; subst hk; decide
    | 1, hk => simp [witnessClasses] at hk; subst hk; decide
    | c + 2, hk => simp [witnessClasses] at hk
  · intro c k hk
    match c, hk with
    | 0, hk => simp [witnessClasses] at hk; subst hk; rfl
    | 1, hk => simp [witnessClasses] at hk; subst hk; rfl
    | c + 2, hk => simp [witnessClasses] at hk

/-- **C13, full statement: holds.** -/
theorem C13_full_holds : C13_full :=
  fun s ops h hi => namespace_agrees s ops h (fresh_instOk s hi)

/-! ### Non-vacuity: concrete hierarchies and histories that meet the hypotheses -/

/-- the formerly failing history: `list(B.param)`; `B.x = P(default=9)` is rejected (RuntimeError),
rolled back, and the namespace still agrees; an accepted one behaves like `add_parameter` -/
example : (step (run witnessClasses [.read 1]) (.clsSetParam 1 "x" 9 none)).2 = .runtimeError ∧
    aget (nsView (run witnessClasses [.read 1, .clsSetParam 1 "x" 9 none]) 1) "x" = some 0 ∧
    staticAttr (run witnessClasses [.read 1, .clsSetParam 1 "x" 9 none]) 1 "x" = some 0 ∧
    aget (nsView (run witnessClasses [.read 0, .read 1, .clsSetParam 0 "y" 3 none]) 1) "y" = some 1 := by decide

example : Inv witnessClasses := witnessClasses_inv
example : InstOk witnessClasses := fresh_instOk _ rfl
/-- stale-cache scenario of the design round: read the subclass, then change an ancestor -/
example : staticAttr (run witnessClasses [.read 1, .clsSet 1 "x" 3]) 1 "x" = some 1 := by decide
/-- the formerly failing histories: a raising `add_parameter` after a namespace read … -/
example : (step (run witnessClasses [.read 1]) (.addParam 1 "x" 9 none)).2 = .runtimeError ∧
    aget (nsView (run witnessClasses [.read 1, .addParam 1 "x" 9 none]) 1) "x" = some 0 ∧
    staticAttr (run witnessClasses [.read 1, .addParam 1 "x" 9 none]) 1 "x" = some 0 := by decide
/-- … and a class-level assignment after a per-instance copy was taken (`Dynamic` type) -/
example : instValuesDyn (run witnessClasses [.newInst 1 [], .instParam 0 "x", .clsSet 0 "x" 4]) 0 "x" = some 4 ∧
    instAttr (run witnessClasses [.newInst 1 [], .instParam 0 "x", .clsSet 0 "x" 4]) 0 "x" = some 4 := by decide

end ParamVerif.Store.Namespace
