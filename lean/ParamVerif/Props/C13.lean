/-
C13 — The `.param` namespace always agrees with attribute access.

  "After any sequence of class-level assignments (on a declaring class or on a
   subclass), `add_parameter` calls anywhere in a hierarchy and instance-level
   operations, every Parameter reachable as an attribute of a class or instance is
   listed in its `.param` namespace, `.param[name]` is the very Parameter object that
   governs attribute access there, its `default` equals the class-level attribute
   value, and `.param.values()`, `repr`, watching and serialization see the same
   parameters and (for non-dynamic values) the same values as `getattr`."

Model: Store/Namespace.lean (classes with their MRO as data, per-class `__dict__`, per-class cache,
`add_parameter`, class-level assignment with copy-on-write, instances, per-instance Parameter copies).
Only property theorems and their non-vacuity examples live here; helper lemmas are in
Store/NamespaceLemmas.lean (where the invariant `Inv` = "every class `__dict__` has unique keys and
every cache is empty or equal to the fresh MRO walk" is defined).

Two parts of the sentence are FALSE of the code as it is now and are refuted below from concrete
histories (replayed on the implementation by harness/props/c13.py):
  * an `add_parameter` call whose merge re-validation raises has already installed the Parameter
    and skips the cache invalidation (`C13_full_refuted`);
  * for Parameters of a `Dynamic` type (Number, Integer) `values()`/serialisation of an instance
    read the `default` of the per-instance Parameter copy (`dynamic_values_refuted`).
-/
import ParamVerif.Store.NamespaceLemmas

namespace ParamVerif.Store.Namespace
open ParamVerif.Store

/-- what the property asks of one state, for every class, instance and name -/
structure Agrees (s : St) : Prop where
  /-- `C.param[n]` is the very Parameter object attribute lookup finds along the MRO
  (and `n in C.param` iff there is one) -/
  getitem : ∀ (c : CId) (n : Name), aget (nsView s c) n = staticAttr s c n
  /-- every Parameter reachable as an attribute is listed by `list(C.param)`, and nothing else is -/
  listed : ∀ (c : CId) (n : Name), n ∈ akeys (nsView s c) ↔ (staticAttr s c n).isSome
  once : ∀ (c : CId), (akeys (nsView s c)).Nodup
  /-- `C.param[n].default` equals the class-level attribute value -/
  default : ∀ (c : CId) (n : Name), nsDefault s c n = clsAttr s c n
  /-- `C.param.values()` / serialisation see the same parameters and values as `getattr(C, n)` -/
  values : ∀ (c : CId) (n : Name), clsValues s c n = clsAttr s c n
  /-- on an instance `.param` shows the Parameter that governs attribute access there -/
  inst_getitem : ∀ (i : IId) (n : Name), instExisting s i n = instGoverning s i n
  /-- `obj.param.values()` / serialisation agree with `getattr(obj, n)` (non-`Dynamic` Parameter types) -/
  inst_values : ∀ (i : IId) (n : Name), instValues s i n = instAttr s i n

/-- the one excluded event: an `add_parameter` call that fails in its merge re-validation -/
def Op.ok (s : St) (op : Op) : Prop := (step s op).2 ≠ .runtimeError

instance (s : St) (op : Op) : Decidable (Op.ok s op) := by unfold Op.ok; exact inferInstance

def okSeq : St → List Op → Prop
  | _, [] => True
  | s, op :: ops => Op.ok s op ∧ okSeq (step s op).1 ops

instance okSeqDec : (s : St) → (ops : List Op) → Decidable (okSeq s ops)
  | _, [] => isTrue trivial
  | s, op :: ops => by unfold okSeq; exact @instDecidableAnd _ _ _ (okSeqDec _ ops)

/-- **C13 (one state).**  When every cache is empty or up to date, everything the namespace
shows agrees with attribute access. -/
theorem agrees_of_inv (s : St) (h : Inv s) : Agrees s := by
  have gi : ∀ (c : CId) (n : Name), aget (nsView s c) n = staticAttr s c n := by
    intro c n; rw [nsView_eq h, computeParams_get h]; rfl
  refine ⟨gi, ?_, ?_, ?_, ?_, ?_, ?_⟩
  · intro c n; rw [← aget_isSome_iff_mem_keys, gi]
  · intro c; rw [nsView_eq h]; exact computeParams_nodup s c
  · intro c n; unfold nsDefault clsAttr; rw [gi]
  · intro c n
    unfold clsValues
    rw [gi]
    cases hs : staticAttr s c n with
    | none => simp [clsAttr, hs]
    | some p => rfl
  · intro i n
    unfold instExisting instGoverning
    cases s.insts[i]? with
    | none => rfl
    | some x => simp only [gi]
  · intro i n
    have e : instExisting s i n = instGoverning s i n := by
      unfold instExisting instGoverning
      cases s.insts[i]? with
      | none => rfl
      | some x => simp only [gi]
    unfold instValues
    rw [e]
    unfold instGoverning instAttr
    cases s.insts[i]? with
    | none => rfl
    | some x =>
      simp only
      cases hs : staticAttr s x.cls n with
      | none => cases aget x.iparams n <;> simp
      | some p => cases aget x.iparams n <;> simp

/-- **C13 (one step).**  Every operation — a namespace read, a class-level assignment on the
declaring class or on a subclass (copy-on-write), `add_parameter` at any level, instance creation,
instance assignment, `obj.param[n]` — keeps every cache empty or up to date, unless it is an
`add_parameter` call that raises. -/
theorem step_preserves_inv (s : St) (op : Op) (h : Inv s) (hok : Op.ok s op) : Inv (step s op).1 := by
  suffices H : ∀ s' r, step s op = (s', r) → r ≠ .runtimeError → Inv s' from H _ _ rfl hok
  intro s' r hstep hne
  cases op with
  | read c =>
    simp only [step, Prod.mk.injEq] at hstep
    rw [← hstep.1]; exact inv_nsRead h c
  | clsSet c n v =>
    simp only [step] at hstep
    split at hstep
    · simp only [Prod.mk.injEq] at hstep; rw [← hstep.1]; exact h
    · rename_i p owner _
      split at hstep
      · simp only [Prod.mk.injEq] at hstep; rw [← hstep.1]; exact h
      · rename_i q _
        by_cases e : owner = c
        · simp only [e, if_true] at hstep
          split at hstep <;> (simp only [Prod.mk.injEq] at hstep; rw [← hstep.1])
          · exact inv_of_classes (s := s) rfl h
          · exact h
        · simp only [e, if_false] at hstep
          have h1 : Inv (clearDesc (setDict { s with heap := s.heap ++ [q] } c n s.heap.length) c) :=
            inv_clear_setDict (s := { s with heap := s.heap ++ [q] }) (inv_of_classes (s := s) rfl h) c n _
          split at hstep <;> (simp only [Prod.mk.injEq] at hstep; rw [← hstep.1])
          · exact inv_of_classes (s := clearDesc (setDict { s with heap := s.heap ++ [q] } c n s.heap.length) c) rfl h1
          · exact h1
  | addParam c n d hi =>
    simp only [step] at hstep
    split at hstep
    · simp only [Prod.mk.injEq] at hstep; rw [← hstep.1]; exact h
    · rename_i k _
      split at hstep
      · simp only [Prod.mk.injEq] at hstep; rw [← hstep.1]; exact h
      · split at hstep
        · simp only [Prod.mk.injEq] at hstep
          rw [← hstep.1]
          have h1 := inv_clear_setDict (s := { s with heap := s.heap ++ [{ default := d, hi := hi }] })
            (inv_of_classes (s := s) rfl h) c n s.heap.length
          exact inv_of_classes (s := clearDesc (setDict { s with heap := s.heap ++ [{ default := d, hi := hi }] } c n s.heap.length) c) rfl h1
        · simp only [Prod.mk.injEq] at hstep
          exact absurd hstep.2.symm hne
  | newInst c kw =>
    simp only [step] at hstep
    split at hstep
    · simp only [Prod.mk.injEq] at hstep; rw [← hstep.1]; exact h
    · split at hstep <;> (simp only [Prod.mk.injEq] at hstep; rw [← hstep.1])
      · exact inv_nsRead h c
      · exact inv_of_classes (s := (nsRead s c).1) rfl (inv_nsRead h c)
  | instSet i n v =>
    simp only [step] at hstep
    split at hstep
    · simp only [Prod.mk.injEq] at hstep; rw [← hstep.1]; exact h
    · split at hstep
      · simp only [Prod.mk.injEq] at hstep; rw [← hstep.1]; exact h
      · split at hstep
        · simp only [Prod.mk.injEq] at hstep; rw [← hstep.1]; exact h
        · rename_i s1 ip hinst
          have h1 : Inv s1 := inv_of_classes (instantiated_classes hinst) h
          split at hstep
          · split at hstep <;> (simp only [Prod.mk.injEq] at hstep; rw [← hstep.1])
            · exact inv_of_classes (s := s1) rfl h1
            · exact h1
          · simp only [Prod.mk.injEq] at hstep; rw [← hstep.1]; exact h1
  | instParam i n =>
    simp only [step] at hstep
    split at hstep
    · simp only [Prod.mk.injEq] at hstep; rw [← hstep.1]; exact h
    · rename_i x _
      have h1 : Inv (nsRead s x.cls).1 := inv_nsRead h x.cls
      split at hstep
      · simp only [Prod.mk.injEq] at hstep; rw [← hstep.1]; exact h1
      · split at hstep
        · simp only [Prod.mk.injEq] at hstep; rw [← hstep.1]; exact h1
        · rename_i s2 _ hinst
          simp only [Prod.mk.injEq] at hstep; rw [← hstep.1]
          exact inv_of_classes (instantiated_classes hinst) h1

/-- every cache is empty or up to date after any history without a failing `add_parameter` -/
theorem run_preserves_inv (ops : List Op) (s : St) (h : Inv s) (hok : okSeq s ops) : Inv (run s ops) := by
  induction ops generalizing s with
  | nil => simpa [run] using h
  | cons op ops ih =>
    obtain ⟨h1, h2⟩ := hok
    simp only [run, List.foldl_cons]
    exact ih _ (step_preserves_inv s op h h1) h2

/-- **C13 (all histories), partial.**  After *any* interleaving of namespace reads, class-level
assignments at every level, `add_parameter` at every level, instance creation, instance
assignments and `obj.param[n]` accesses in which no `add_parameter` call raises, the `.param`
namespace of every class and instance agrees with attribute access. -/
theorem namespace_agrees_partial (s : St) (ops : List Op) (h : Inv s) (hok : okSeq s ops) :
    Agrees (run s ops) :=
  agrees_of_inv _ (run_preserves_inv ops s h hok)

/-- freshly created classes (no cache computed yet, `__dict__`s are dicts) satisfy the invariant -/
theorem fresh_inv (s : St) (hd : ∀ (c : CId) (k : Cls), s.classes[c]? = some k → (akeys k.dict).Nodup)
    (hc : ∀ (c : CId) (k : Cls), s.classes[c]? = some k → k.cache = []) : Inv s :=
  ⟨hd, fun c k hk => Or.inl (hc c k hk)⟩

/-- the statement of the property without the exclusion -/
def C13_full : Prop := ∀ (s : St) (ops : List Op), Inv s → Agrees (run s ops)

/-- A: x (default 1, upper bound 5);  B(A) -/
def witnessClasses : St :=
  { heap := [{ default := 1, hi := some 5 }],
    classes := [{ mro := [0], dict := [("x", 0)], cache := [] }, { mro := [1, 0], dict := [], cache := [] }],
    insts := [] }

/-- `list(B.param)`; `B.param.add_parameter('x', P(default=9))` — raises RuntimeError, but `B.x` is
already the new Parameter while `B.param['x']` is still `A`'s -/
def witnessFailedAdd : List Op := [.read 1, .addParam 1 "x" 9 none]

theorem witnessClasses_inv : Inv witnessClasses := by
  apply fresh_inv
  · intro c k hk
    match c, hk with
    | 0, hk => simp [witnessClasses] at hk; subst hk; decide
    | 1, hk => simp [witnessClasses] at hk; subst hk; decide
    | c + 2, hk => simp [witnessClasses] at hk
  · intro c k hk
    match c, hk with
    | 0, hk => simp [witnessClasses] at hk; subst hk; rfl
    | 1, hk => simp [witnessClasses] at hk; subst hk; rfl
    | c + 2, hk => simp [witnessClasses] at hk

/-- **C13, full statement: refuted.**  A failed `add_parameter` leaves the namespace of the class
disagreeing with attribute access. -/
theorem C13_full_refuted : ¬ C13_full := by
  intro h
  have := (h witnessClasses witnessFailedAdd witnessClasses_inv).getitem 1 "x"
  revert this
  decide

/-- the statement for Parameters of a `Dynamic` type (Number, Integer): `values()`/serialisation
of an instance agree with `getattr` -/
def dynamic_values_full : Prop :=
  ∀ (s : St) (ops : List Op), Inv s → okSeq s ops →
    ∀ (i : IId) (n : Name), instValuesDyn (run s ops) i n = instAttr (run s ops) i n

/-- `b = B()`; `b.param['x']` (per-instance copy); `A.x = 4`: `b.x == 4`, `b.param.values()['x'] == 1` -/
def witnessDynamic : List Op := [.newInst 1 [], .instParam 0 "x", .clsSet 0 "x" 4]

/-- **C13 for `Dynamic` Parameter types: refuted** (no failing call involved). -/
theorem dynamic_values_refuted : ¬ dynamic_values_full := by
  intro h
  have := h witnessClasses witnessDynamic witnessClasses_inv (by decide) 0 "x"
  revert this
  decide

/-- what does hold for `Dynamic` types: agreement whenever the instance has no per-instance copy
of that Parameter, or holds its own value -/
theorem dynamic_values_partial (s : St) (h : Inv s) (i : IId) (x : Inst) (n : Name)
    (hx : s.insts[i]? = some x)
    (hc : aget x.iparams n = none ∨ ((aget x.values n).isSome ∧ (staticAttr s x.cls n).isSome)) :
    instValuesDyn s i n = instAttr s i n := by
  have gi := (agrees_of_inv s h).getitem x.cls n
  unfold instValuesDyn instAttr instExisting
  simp only [hx]
  rcases hc with hc | ⟨hv, hs⟩
  · rw [hc, gi]
    cases staticAttr s x.cls n <;> simp
  · rw [gi]
    obtain ⟨v, hv⟩ := Option.isSome_iff_exists.1 hv
    obtain ⟨p, hs⟩ := Option.isSome_iff_exists.1 hs
    rw [hs, hv]
    cases aget x.iparams n <;> simp

/-! ### Non-vacuity: concrete hierarchies and histories that meet the hypotheses -/

example : Inv witnessClasses := witnessClasses_inv
/-- stale-cache scenario of the design round: read the subclass, then change an ancestor -/
example : okSeq witnessClasses
    [.read 1, .clsSet 1 "x" 3, .addParam 0 "z" 2 none, .newInst 1 [("x", 4)], .instParam 0 "z",
     .addParam 1 "z" 7 (some 8), .instSet 0 "z" 9, .clsSet 0 "x" 9] := by decide
example : staticAttr (run witnessClasses [.read 1, .clsSet 1 "x" 3]) 1 "x" = some 1 := by decide
example : ¬ Op.ok (run witnessClasses [.read 1]) (.addParam 1 "x" 9 none) := by decide

end ParamVerif.Store.Namespace
